#!/usr/bin/env python3
"""scripts/mk_canaries.py — re-create /verif/canaries/*.patch as exact diffs against /repo HEAD.

canaries.json lists, per property, stored violating changes (mutants/…, seeded/…/patch.diff).  The thorough tier
applies them without fuzz and without offset, so each is re-generated here: apply the stored patch to a scratch copy
of HEAD (offsets allowed — the regression matrices have confirmed that it is detected there), diff against HEAD."""
import json, os, subprocess, tempfile, shutil, re
os.chdir('/verif')
src = json.load(open('canaries.src.json'))
os.makedirs('canaries', exist_ok=True)
for f in os.listdir('canaries'):
    os.remove('canaries/' + f)
out = {}
for prop, lst in src.items():
    out[prop] = []
    for rel in lst:
        name = re.sub(r'/patch\.diff$|\.patch$', '', rel).replace('/', '__')
        dst = f'canaries/{name}.patch'
        if not os.path.exists(dst):
            tmp = tempfile.mkdtemp(prefix='bm-can.')
            try:
                subprocess.run(['git', '-C', '/repo', 'worktree', 'add', '-q', '--detach', tmp + '/wt', 'HEAD'], check=True)
                r = subprocess.run(['patch', '-p1', '-s', '-f', '--no-backup-if-mismatch', '-d', tmp + '/wt', '-i', os.path.abspath(rel)], capture_output=True, text=True)
                if r.returncode != 0:
                    print('DOES NOT APPLY', rel, r.stdout[:200]); continue
                subprocess.run(['git', '-C', tmp + '/wt', 'add', '-N', '.'], check=True)
                d = subprocess.run(['git', '-C', tmp + '/wt', 'diff'], capture_output=True, text=True, check=True).stdout
                open(dst, 'w').write(d)
            finally:
                subprocess.run(['git', '-C', '/repo', 'worktree', 'remove', '--force', tmp + '/wt'])
                shutil.rmtree(tmp, ignore_errors=True)
        out[prop].append(dst)
json.dump(out, open('canaries.json', 'w'), indent=1)
print({p: len(v) for p, v in out.items()})

#!/bin/bash
cd /verif
rm -f /tmp/bd.txt /tmp/matrix_detail.txt
MATRIX_DETAIL=/tmp/bd.txt PAR=8 scripts/benign_matrix.sh benign/*.diff benign-additions/*.diff
scripts/mutants_all.sh
MATRIX_DETAIL=/tmp/matrix_detail.txt scripts/seeded_matrix.sh

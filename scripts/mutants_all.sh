#!/bin/bash
# scripts/mutants_all.sh — every hand-written rule mutant must be detected by the check of its property
# (file name prefix cNN_), every benign_* variant must pass it.  Prints one line per mutant; exit 1 on any surprise.
cd /verif
one() {
  f="$1"; b=$(basename "$f" .patch)
  case "$b" in
    benign_c*) p=$(echo "$b" | sed 's/^benign_c\([0-9]*\)_.*/C\1/'); want=PASS;;
    c*) p=$(echo "$b" | sed 's/^c\([0-9]*\)_.*/C\1/'); want=DETECTED;;
    *) echo "$b SKIP"; return;;
  esac
  out=$(LINES_MAX=2 scripts/mutant.sh "$f" $p 2>&1)
  if echo "$out" | grep -q "$want"; then echo "$b $p ok ($want)"; else echo "$b $p UNEXPECTED: $(echo "$out" | head -3 | tr '\n' ' ' | cut -c1-200)"; fi
}
export -f one
ls mutants/*.patch | xargs -P ${PAR:-8} -I{} bash -c 'one {}' | sort | tee /tmp/mutants_all.txt | grep -c " ok " 
grep UNEXPECTED /tmp/mutants_all.txt && exit 1
exit 0

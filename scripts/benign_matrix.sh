#!/bin/bash
# scripts/benign_matrix.sh <patch>... — run every property check against behaviour-preserving refactorings (scratch copies).
# Any DETECTED line is a false alarm of that check.
cd /verif
props="C01 C02 C03 C04 C05 C06 C07 C08 C09 C10 C11 C12 C13 C14 C15 C16 C17 C18 C19 C20"
one() {
  f="$1"
  out=$(LINES_MAX=6 scripts/mutant.sh "$f" $props 2>&1)
  det=$(echo "$out" | grep "DETECTED" | sed 's/== \(C[0-9]*\):.*/\1/' | tr '\n' ' ')
  echo "$f false_alarms: ${det:-none}"
  if [ -n "$det" ] && [ -n "${MATRIX_DETAIL:-}" ]; then { echo "##### $f"; echo "$out" | grep -v "PASS" | cut -c1-700; } >> "$MATRIX_DETAIL"; fi
}
export -f one; export props
printf '%s\n' "$@" | xargs -P ${PAR:-5} -I{} bash -c 'one {}' | sort

#!/bin/bash
# scripts/patches_build.sh — every stored patch (seeded, mutants, benign) must still apply to /repo's HEAD and build.
export GOFLAGS=-mod=mod GOPROXY=off GOSUMDB=off GOTOOLCHAIN=local GOWORK=off
one() {
  f="$1"; tmp=$(mktemp -d /tmp/bm-pb.XXXXXX)
  rsync -a --exclude .git /repo/ "$tmp/repo/"
  if ! (cd "$tmp/repo" && patch -p1 -s --no-backup-if-mismatch < "/verif/$f" >/dev/null 2>&1); then echo "NOAPPLY $f"; rm -rf "$tmp"; return; fi
  if ! (cd "$tmp/repo" && go build ./... >/dev/null 2>&1); then echo "NOBUILD $f"; fi
  rm -rf "$tmp"
}
export -f one
cd /verif; ls seeded/*/patch.diff mutants/*.patch benign/*.diff | xargs -P 8 -I{} bash -c 'one {}'

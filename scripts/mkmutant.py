#!/usr/bin/env python3
"""mkmutant.py <name> <file> <<< 'OLD\n=====\nNEW'  — create /verif/mutants/<name>.patch from a textual replacement
against /repo's current HEAD (the replacement must be unique). Several OLD/NEW pairs may be separated by a line '#####'."""
import sys, subprocess, tempfile, os, shutil
name, rel = sys.argv[1], sys.argv[2]
body = sys.stdin.read()
tmp = tempfile.mkdtemp(prefix='bm-mk.')
try:
    subprocess.check_call(['rsync','-a','--exclude','.git','/repo/',tmp+'/a/'])
    subprocess.check_call(['rsync','-a','--exclude','.git','/repo/',tmp+'/b/'])
    p = os.path.join(tmp,'b',rel)
    s = open(p).read()
    for pair in body.split('\n#####\n'):
        old, new = pair.split('\n=====\n')
        old = old.strip('\n'); new = new.strip('\n')
        if s.count(old) != 1:
            print('replacement not unique / not found:', s.count(old), repr(old[:60])); sys.exit(1)
        s = s.replace(old, new)
    open(p,'w').write(s)
    r = subprocess.run(['diff','-u','a/'+rel,'b/'+rel], cwd=tmp, capture_output=True, text=True)
    open(f'/verif/mutants/{name}.patch','w').write(r.stdout)
    env = dict(os.environ, GOFLAGS='-mod=mod', GOPROXY='off', GOSUMDB='off', GOTOOLCHAIN='local')
    b = subprocess.run(['go','build','./...'], cwd=tmp+'/b', env=env, capture_output=True, text=True)
    t = subprocess.run(['go','test','-vet=off','-count=1','./...'], cwd=tmp+'/b', env=env, capture_output=True, text=True)
    print(name, 'build:', 'ok' if b.returncode==0 else 'FAIL', 'tests:', 'pass' if t.returncode==0 else 'FAIL')
    if b.returncode: print(b.stderr[:500])
finally:
    shutil.rmtree(tmp)

#!/bin/bash
# scripts/seeded_matrix.sh [dir...] — run every property check against every seeded change (scratch copies, 6 in parallel)
# and print which checks detect it.  Details (first reasons per detecting check) go to $MATRIX_DETAIL (default /dev/null).
cd /verif
props="C01 C02 C03 C04 C05 C06 C07 C08 C09 C10 C11 C12 C13 C14 C15 C16 C17 C18 C19 C20"
dirs="$@"; [ -z "$dirs" ] && dirs=$(ls -d seeded/*/ mutants/seeded-like 2>/dev/null)
one() {
  d="$1"; id=$(basename "$d"); own=${id:0:3}
  out=$(LINES_MAX=4 scripts/mutant.sh "$d/patch.diff" $props 2>&1)
  det=$(echo "$out" | grep "DETECTED" | sed 's/== \(C[0-9]*\):.*/\1/' | tr '\n' ' ')
  echo "$id own=$own detected_by: $det"
  if [ -n "${MATRIX_DETAIL:-}" ]; then { echo "##### $id"; echo "$out" | cut -c1-600; } >> "$MATRIX_DETAIL"; fi
}
export -f one; export props
printf '%s\n' $dirs | xargs -P 6 -I{} bash -c 'one {}' | sort

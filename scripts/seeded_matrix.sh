#!/bin/bash
# scripts/seeded_matrix.sh — run every property check against every seeded change (scratch copies) and print which detect it.
cd /verif
props="C01 C02 C03 C04 C05 C06 C07 C08 C09 C10 C11 C12 C13 C14 C15 C16 C17 C18 C19 C20"
for d in seeded/*/; do
  id=$(basename "$d")
  own=${id:0:3}
  out=$(LINES_MAX=0 scripts/mutant.sh "$d/patch.diff" $props 2>&1)
  det=$(echo "$out" | grep "DETECTED" | sed 's/== \(C[0-9]*\):.*/\1/' | tr '\n' ' ')
  echo "$id own=$own detected_by: $det"
done

#!/bin/bash
for pat in '[s]eeded_matrix.sh' '[b]enign_matrix.sh' '[m]utants_all.sh' '[x]args -P' '[s]cripts/mutant.sh' '[b]in/bmcheck'; do
  for p in $(ps -eo pid,args | grep "$pat" | awk '{print $1}'); do kill $p 2>/dev/null; done
done
sleep 2
rm -rf /tmp/bm-mut.*
ps -eo pid,args | grep -c '[s]cripts/mutant.sh'

#!/bin/sh
# scripts/mutant.sh <patch.diff> <prop> [<prop>...]   — run checks against a scratch copy of /repo with the patch applied.
# Prints per property: PASS (exit 0) or the violated/undecided obligations. The scratch copy is removed afterwards.
set -u
patch="$(realpath "$1")"; shift
tmp=$(mktemp -d /tmp/bm-mut.XXXXXX)
trap 'rm -rf "$tmp"' EXIT
rsync -a --exclude .git /repo/ "$tmp/repo/"
if ! (cd "$tmp/repo" && patch -p1 -s --no-backup-if-mismatch < "$patch"); then echo "PATCH-FAILED $patch"; exit 3; fi
mkdir -p "$tmp/verif/evidence"; ln -s /verif/spec "$tmp/verif/spec"; ln -s /verif/known_findings.json "$tmp/verif/known_findings.json"
for p in "$@"; do
  out=$(GOFLAGS=-mod=mod GOPROXY=off GOSUMDB=off GOTOOLCHAIN=local GOWORK=off ${BMCHECK:-/verif/bin/bmcheck} -prop "$p" -tier "${TIER:-quick}" -repo "$tmp/repo" -verif "$tmp/verif" 2>&1); rc=$?
  if [ $rc -eq 0 ]; then echo "== $p: PASS (mutant NOT detected)"; else echo "== $p: DETECTED rc=$rc"; echo "$out" | grep -E "VIOLATED|UNDECIDED|why:|witness" | head -${LINES_MAX:-12}; fi
done

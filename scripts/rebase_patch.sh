#!/bin/bash
# rebase_patch.sh <patchfile> : re-create the patch on /repo HEAD via cherry-pick from the newest commit where it applies
f=$(realpath "$1"); wt=/tmp/rb-wt
git -C /repo worktree remove --force $wt >/dev/null 2>&1
for base in $(git -C /repo log --format=%h | head -16 | tail -n +2); do
  git -C /repo worktree add -q --detach $wt $base 2>/dev/null || continue
  if (cd $wt && git apply --check "$f" 2>/dev/null || patch -p1 -s --dry-run < "$f" >/dev/null 2>&1); then
    (cd $wt && (git apply "$f" 2>/dev/null || patch -p1 -s --no-backup-if-mismatch < "$f") && git add -A && git -c user.email=x@x -c user.name=x commit -q -m tmp)
    c=$(git -C $wt rev-parse HEAD)
    git -C $wt checkout -q --detach $(git -C /repo rev-parse HEAD)
    if git -C $wt -c user.email=x@x -c user.name=x cherry-pick -n $c >/dev/null 2>&1; then
      git -C $wt diff HEAD > "$f.new"; echo "REBASED $1 (base $base)"; mv "$f.new" "$f"
    else
      echo "CONFLICT $1 (base $base): $(git -C $wt diff --name-only --diff-filter=U | tr '\n' ' ')"
      git -C $wt diff > /tmp/conflict-$(basename $(dirname $f))-$(basename $f).txt
    fi
    git -C /repo worktree remove --force $wt; exit 0
  fi
  git -C /repo worktree remove --force $wt
done
echo "NOBASE $1"

#!/usr/bin/env python3
"""Regenerates /verif/MANIFEST.json from the table below (single source of truth)."""
import json, os
here = os.path.dirname(os.path.dirname(os.path.abspath(__file__)))
props = [json.loads(l) for l in open(os.path.join(here, 'properties.jsonl'))]
ids = [p['id'] for p in props]

TRUST = ("go/packages+go/types+go/ssa (x/tools v0.29.0) represent the built program; "
         "x/net/html, net/url, regexp, strings, douceur are trusted by API contract (contracts listed in the evidence file); "
         "user callbacks (MatchingHandler, custom URL policy, RewriteSrc) are pure and total")

# id -> (level, technique, text, note, design_ref)
CLAIMS = {}
def claim(i, level, technique, text, note, ref):
    CLAIMS[i] = dict(level=level, technique=technique, text=text, note=note, ref=ref)

exec(open(os.path.join(here, 'scripts', 'claims.py')).read())

NA = {}
exec(open(os.path.join(here, 'scripts', 'not_applicable.py')).read())

checks = []
for i in ids:
    if i not in CLAIMS:
        continue
    c = CLAIMS[i]
    checks.append({
        "property_id": i,
        "quick_cmd": f"./check.sh {i} quick",
        "thorough_cmd": f"./check.sh {i} thorough",
        "evidence_file": f"/verif/evidence/{i}.json",
        "replay_cmd_template": "cat {path}  # the obligation(s), offending path/witness and the one-line re-run command",
        "engine": "bmcheck",
        "level_claimed": {"category": c['level'], "text": c['text'], "design_ref": c['ref']},
        "level_note": c['note'] + " Trusted base: " + TRUST,
        "technique": c['technique'],
    })
na = [{"property_id": i, "reason": NA.get(i, "no check implemented yet in this round (design in DESIGN.md section 2); not claimed")} for i in ids if i not in CLAIMS]
m = {
 "version": 1,
 "setup_cmd": "cd /verif/tools && GOFLAGS=-mod=mod GOPROXY=off GOSUMDB=off GOTOOLCHAIN=local GOWORK=off go build -o ../bin/bmcheck ./cmd/bmcheck",
 "hooks": {"guard": "verif", "enable": "none needed: the checks analyse /repo's source statically (go/packages + go/ssa) and never build or run an instrumented library; no hook commits exist",
           "baseline_off_cmd": "cd /repo && GOFLAGS=-mod=mod GOPROXY=off GOSUMDB=off go test -vet=off -count=1 ./...",
           "source_commits": [], "add_only": True},
 "engines": [{"name": "bmcheck", "path": "/verif/tools", "serves_properties": [c['property_id'] for c in checks],
              "kind_free_text": "repository-specific static analyser (Go, x/tools v0.29.0): predicate-abstraction dataflow over go/ssa CFGs (pa), exact regular-language decisions on regexp/syntax programs (relang), effect/freshness analysis, abstract evaluation of policy constructors; re-loads /repo's working tree on every run"}],
 "checks": checks,
 "not_applicable": na,
 "notes": "All checks are static: nothing under /repo is executed. known_findings.json lists genuine defects (fixed ones are recorded with their fix: commit and suppress nothing). See DESIGN.md."
}
json.dump(m, open(os.path.join(here, 'MANIFEST.json'), 'w'), indent=1)
print("claimed:", [c['property_id'] for c in checks]); print("not applicable:", [n['property_id'] for n in na])

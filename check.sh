#!/bin/sh
# ./check.sh <Cxx> <quick|thorough>  — static analysis of /repo's current working tree.
set -u
cd "$(dirname "$0")"
export GOFLAGS=-mod=mod GOPROXY=off GOSUMDB=off GOTOOLCHAIN=local GOWORK=off
unset GOOS GOARCH
id="$1"; tier="${2:-${VERIF_TIER:-quick}}"
if [ ! -x bin/bmcheck ] || [ -n "$(find tools -newer bin/bmcheck -name '*.go' 2>/dev/null | head -1)" ]; then
  (cd tools && go build -o ../bin/bmcheck ./cmd/bmcheck) || { echo "cannot build bmcheck"; exit 2; }
fi
exec bin/bmcheck -prop "$id" -tier "$tier" -repo "${VERIF_REPO:-/repo}" -verif "$(pwd)"

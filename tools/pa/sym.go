// Package pa is Engine A: a predicate-abstraction dataflow over go/ssa control-flow graphs.
//
// Branch conditions are translated into propositional formulas over canonical *atoms*
// ("p.allowUnsafe", "mapok(p.elsAndAttrs,token.Data)", "(norm(token.Data) == \"script\")", ...).
// Atoms are keyed by a canonical symbolic rendering of SSA values, so that two loads of the same
// never-re-stored location, or two calls of a pure function on equal arguments, are the same atom.
// A forward fixpoint then computes, for every block of a region, the set of truth assignments of
// the tracked atoms under which control can reach it; a rule asks whether that set implies a goal.
package pa

import (
	"fmt"
	"go/constant"
	"go/token"
	"go/types"
	"strconv"
	"strings"

	"golang.org/x/tools/go/ssa"
)

// Sym renders SSA values canonically for one function.
type Sym struct {
	Fn    *ssa.Function
	Bind  map[*ssa.Parameter]string // parameter -> symbol (used when inlining callee summaries)
	cache map[ssa.Value]string
	deps  map[ssa.Value][]ssa.Value
	// IsPure decides whether a static callee may be treated as a pure function of its arguments.
	IsPure  func(fn *ssa.Function) bool
	stores  map[*ssa.Alloc][]*ssa.Store // stores whose address is rooted at the alloc
	escapes map[*ssa.Alloc]bool
	pstores map[string][]*ssa.Store // stores through parameter/global-rooted field paths, by path key
	dom     func(a, b *ssa.BasicBlock) bool
	// PhiConst, if set, folds a phi that can only take one constant value once a parameter is bound to a constant
	// (`attr := ""; switch name { case "a": attr = "href" … }` specialised to a name); it returns the constant's symbol.
	PhiConst func(*ssa.Phi) (string, bool)
}

func NewSym(fn *ssa.Function, isPure func(*ssa.Function) bool) *Sym {
	s := &Sym{Fn: fn, Bind: map[*ssa.Parameter]string{}, cache: map[ssa.Value]string{}, deps: map[ssa.Value][]ssa.Value{}, IsPure: isPure,
		stores: map[*ssa.Alloc][]*ssa.Store{}, escapes: map[*ssa.Alloc]bool{}, pstores: map[string][]*ssa.Store{}}
	s.dom = func(a, b *ssa.BasicBlock) bool { return a.Dominates(b) }
	for _, b := range fn.Blocks {
		for _, in := range b.Instrs {
			switch x := in.(type) {
			case *ssa.Store:
				root, path := rootPath(x.Addr)
				if a, ok := root.(*ssa.Alloc); ok {
					s.stores[a] = append(s.stores[a], x)
				} else if root != nil {
					s.pstores[s.rootKey(root)+path] = append(s.pstores[s.rootKey(root)+path], x)
				}
				// storing an alloc's address somewhere makes it escape
				if r, _ := rootPath(x.Val); r != nil {
					if a, ok := r.(*ssa.Alloc); ok && isAddrOf(x.Val) {
						s.escapes[a] = true
					}
				}
			case ssa.CallInstruction:
				for _, arg := range x.Common().Args {
					if r, _ := rootPath(arg); r != nil && isAddrOf(arg) {
						if a, ok := r.(*ssa.Alloc); ok {
							s.escapes[a] = true
						}
					}
				}
				if x.Common().IsInvoke() {
					if r, _ := rootPath(x.Common().Value); r != nil && isAddrOf(x.Common().Value) {
						if a, ok := r.(*ssa.Alloc); ok {
							s.escapes[a] = true
						}
					}
				}
			case *ssa.MakeClosure:
				for _, bv := range x.Bindings {
					if a, ok := bv.(*ssa.Alloc); ok {
						s.escapes[a] = true
					}
				}
			case *ssa.MakeInterface:
				if a, ok := x.X.(*ssa.Alloc); ok {
					s.escapes[a] = true
				}
			}
		}
	}
	return s
}

// isAddrOf: v is an address (Alloc, FieldAddr, IndexAddr) rather than a loaded value.
func isAddrOf(v ssa.Value) bool {
	switch v.(type) {
	case *ssa.Alloc, *ssa.FieldAddr, *ssa.IndexAddr:
		return true
	}
	return false
}

// rootPath follows FieldAddr/IndexAddr chains: returns the root value and a textual field path.
func rootPath(v ssa.Value) (ssa.Value, string) {
	path := ""
	for {
		switch x := v.(type) {
		case *ssa.FieldAddr:
			path = "." + fieldName(x.X.Type(), x.Field) + path
			v = x.X
		case *ssa.IndexAddr:
			path = "[]" + path
			v = x.X
		case *ssa.Alloc, *ssa.Parameter, *ssa.Global, *ssa.FreeVar:
			return v, path
		default:
			return v, path
		}
	}
}

func fieldName(t types.Type, i int) string {
	if p, ok := t.Underlying().(*types.Pointer); ok {
		t = p.Elem()
	}
	if st, ok := t.Underlying().(*types.Struct); ok && i < st.NumFields() {
		return st.Field(i).Name()
	}
	return "#" + strconv.Itoa(i)
}

func (s *Sym) rootKey(v ssa.Value) string {
	switch v.(type) {
	case *ssa.Parameter, *ssa.Global, *ssa.Alloc, *ssa.FreeVar:
	default:
		// memory reached through a loaded pointer: keep it apart from the cell holding the pointer
		return "*(" + s.Of(v) + ")"
	}
	switch x := v.(type) {
	case *ssa.Parameter:
		return s.param(x)
	case *ssa.Global:
		return x.Pkg.Pkg.Name() + "." + x.Name()
	case *ssa.Alloc:
		return "local(" + x.Comment + ")"
	case *ssa.FreeVar:
		return "free(" + x.Name() + ")"
	}
	return s.Of(v)
}

func (s *Sym) param(p *ssa.Parameter) string {
	if b, ok := s.Bind[p]; ok {
		return b
	}
	return p.Name()
}

func overlaps(a, b string) bool { return strings.HasPrefix(a, b) || strings.HasPrefix(b, a) }

// stableLoad decides whether a load of addr at instruction `at` always yields the value described
// by its symbolic address (no re-store between equal-symbol loads).
func (s *Sym) stableLoad(load *ssa.UnOp) bool {
	root, path := rootPath(load.X)
	switch r := root.(type) {
	case *ssa.Alloc:
		if s.escapes[r] {
			return false
		}
		rs, ok := s.reaching(load, r, path)
		return ok && len(rs) <= 1
	case *ssa.Parameter, *ssa.Global, *ssa.FreeVar:
		for k, sts := range s.pstores {
			if overlaps(k, s.rootKey(r)+path) {
				// a store that can execute before the load makes equal-symbol loads differ
				for _, st := range sts {
					if s.canPrecede(st, load) {
						return false
					}
				}
			}
		}
		return true
	}
	// address computed from a loaded pointer etc.: stable iff the pointer value is itself a symbol
	// and nothing in this function stores through an equal path
	for k := range s.pstores {
		if overlaps(k, s.rootKey(root)+path) {
			return false
		}
	}
	return root != nil
}

func uid(v ssa.Value) string {
	return v.Name()
}

// Of returns the canonical symbol of v.
func (s *Sym) Of(v ssa.Value) string {
	if c, ok := s.cache[v]; ok {
		return c
	}
	s.cache[v] = "rec@" + uid(v) // cycle guard
	r := s.of(v)
	s.cache[v] = r
	return r
}

// Deps returns the SSA values (instructions) whose (re)definition the symbol of v depends on.
func (s *Sym) Deps(v ssa.Value) []ssa.Value {
	s.Of(v)
	seen := map[ssa.Value]bool{}
	var out []ssa.Value
	var walk func(v ssa.Value)
	walk = func(v ssa.Value) {
		if seen[v] {
			return
		}
		seen[v] = true
		if _, ok := v.(ssa.Instruction); ok {
			out = append(out, v)
		}
		for _, d := range s.deps[v] {
			walk(d)
		}
	}
	walk(v)
	return out
}

func (s *Sym) dep(v ssa.Value, ds ...ssa.Value) { s.deps[v] = append(s.deps[v], ds...) }

func constStr(c *ssa.Const) string {
	if c.Value == nil {
		return "nil"
	}
	switch c.Value.Kind() {
	case constant.String:
		return strconv.Quote(constant.StringVal(c.Value))
	}
	return c.Value.ExactString()
}

func (s *Sym) of(v ssa.Value) string {
	switch x := v.(type) {
	case *ssa.Const:
		return constStr(x)
	case *ssa.Parameter:
		return s.param(x)
	case *ssa.Global:
		return s.rootKey(x)
	case *ssa.FreeVar:
		return s.rootKey(x)
	case *ssa.Function:
		return "func(" + x.String() + ")"
	case *ssa.Builtin:
		return x.Name()
	case *ssa.Alloc:
		s.dep(v, v)
		return "&local(" + x.Comment + ")"
	case *ssa.FieldAddr:
		s.dep(v, x.X)
		return "&" + strings.TrimPrefix(s.Of(x.X), "&") + "." + fieldName(x.X.Type(), x.Field)
	case *ssa.Field:
		s.dep(v, x.X)
		return s.Of(x.X) + "." + fieldNameV(x.X.Type(), x.Field)
	case *ssa.IndexAddr:
		s.dep(v, x.X, x.Index)
		return "&" + s.Of(x.X) + "[" + s.Of(x.Index) + "]"
	case *ssa.Index:
		s.dep(v, x.X, x.Index)
		return s.Of(x.X) + "[" + s.Of(x.Index) + "]"
	case *ssa.UnOp:
		switch x.Op {
		case token.MUL:
			s.dep(v, x.X)
			if root, path := rootPath(x.X); root != nil {
				if al, isAl := root.(*ssa.Alloc); isAl && !s.escapes[al] {
					if rs, ok := s.reaching(x, al, path); ok && len(rs) == 1 {
						_, sp := rootPath(rs[0].Addr)
						s.dep(v, rs[0].Val)
						return s.Of(rs[0].Val) + strings.TrimPrefix(path, sp)
					}
				}
			}
			a := s.Of(x.X)
			if s.stableLoad(x) && strings.HasPrefix(a, "&") {
				return strings.TrimPrefix(a, "&")
			}
			if s.stableLoad(x) {
				return "*(" + a + ")"
			}
			s.dep(v, v)
			return "*" + a + "@" + uid(v)
		case token.NOT:
			s.dep(v, x.X)
			return "!" + s.Of(x.X)
		case token.SUB:
			s.dep(v, x.X)
			return "-" + s.Of(x.X)
		case token.ARROW:
			s.dep(v, v)
			return "recv@" + uid(v)
		}
		s.dep(v, x.X)
		return x.Op.String() + s.Of(x.X)
	case *ssa.BinOp:
		s.dep(v, x.X, x.Y)
		return "(" + s.Of(x.X) + " " + x.Op.String() + " " + s.Of(x.Y) + ")"
	case *ssa.Extract:
		s.dep(v, x.Tuple)
		if lk, ok := x.Tuple.(*ssa.Lookup); ok && lk.CommaOk {
			if val, present, folded := s.FoldLookup(lk); folded {
				if x.Index == 1 {
					if present {
						return "true"
					}
					return "false"
				}
				return val
			}
		}
		return s.Of(x.Tuple) + "#" + strconv.Itoa(x.Index)
	case *ssa.Lookup:
		s.dep(v, x.X, x.Index)
		if !x.CommaOk {
			if val, _, folded := s.FoldLookup(x); folded {
				return val
			}
		}
		return "lookup(" + s.Of(x.X) + "," + s.Of(x.Index) + ")"
	case *ssa.Call:
		return s.call(x)
	case *ssa.Phi:
		s.dep(v, v)
		if s.PhiConst != nil {
			if k, ok := s.PhiConst(x); ok {
				return k
			}
		}
		return "phi(" + x.Comment + ")@" + uid(v)
	case *ssa.MakeInterface:
		s.dep(v, x.X)
		return "iface(" + s.Of(x.X) + ")"
	case *ssa.ChangeType:
		s.dep(v, x.X)
		return s.Of(x.X)
	case *ssa.ChangeInterface:
		s.dep(v, x.X)
		return s.Of(x.X)
	case *ssa.Convert:
		s.dep(v, x.X)
		return "conv[" + x.Type().String() + "](" + s.Of(x.X) + ")"
	case *ssa.Slice:
		s.dep(v, x.X)
		lo, hi := "", ""
		if x.Low != nil {
			lo = s.Of(x.Low)
			s.dep(v, x.Low)
		}
		if x.High != nil {
			hi = s.Of(x.High)
			s.dep(v, x.High)
		}
		return s.Of(x.X) + "[" + lo + ":" + hi + "]"
	case *ssa.Range:
		s.dep(v, x.X)
		return "range(" + s.Of(x.X) + ")"
	case *ssa.Next:
		s.dep(v, v, x.Iter)
		return "next(" + s.Of(x.Iter) + ")@" + uid(v)
	case *ssa.TypeAssert:
		s.dep(v, x.X)
		return "assert[" + x.AssertedType.String() + "](" + s.Of(x.X) + ")"
	case *ssa.MakeMap, *ssa.MakeSlice, *ssa.MakeChan, *ssa.MakeClosure:
		s.dep(v, v)
		return fmt.Sprintf("new%T@%s", v, uid(v))[4:]
	}
	if iv, ok := v.(ssa.Instruction); ok {
		_ = iv
		s.dep(v, v)
	}
	return fmt.Sprintf("%T@%s", v, uid(v))
}

func fieldNameV(t types.Type, i int) string {
	if st, ok := t.Underlying().(*types.Struct); ok && i < st.NumFields() {
		return st.Field(i).Name()
	}
	return "#" + strconv.Itoa(i)
}

// CalleeName renders a static callee compactly: "strings.ToLower", "(*Policy).matchRegex", "(*regexp.Regexp).MatchString".
func CalleeName(fn *ssa.Function) string {
	if fn == nil {
		return "?"
	}
	if recv := fn.Signature.Recv(); recv != nil {
		t := recv.Type()
		ptr := ""
		if p, ok := t.(*types.Pointer); ok {
			t = p.Elem()
			ptr = "*"
		}
		name := t.String()
		if n, ok := t.(*types.Named); ok {
			name = n.Obj().Name()
			if n.Obj().Pkg() != nil && n.Obj().Pkg().Path() != "github.com/microcosm-cc/bluemonday" {
				name = n.Obj().Pkg().Name() + "." + name
			}
		}
		return "(" + ptr + name + ")." + fn.Name()
	}
	if fn.Pkg != nil && fn.Pkg.Pkg.Path() != "github.com/microcosm-cc/bluemonday" {
		return fn.Pkg.Pkg.Name() + "." + fn.Name()
	}
	return fn.Name()
}

func (s *Sym) call(x *ssa.Call) string {
	c := x.Common()
	if c.IsInvoke() {
		s.dep(x, x)
		return "invoke(" + s.Of(c.Value) + "." + c.Method.Name() + ")@" + uid(x)
	}
	var args []string
	for _, a := range c.Args {
		args = append(args, s.Of(a))
	}
	if b, ok := c.Value.(*ssa.Builtin); ok {
		switch b.Name() {
		case "len", "cap":
			s.dep(x, c.Args...)
			return b.Name() + "(" + strings.Join(args, ",") + ")"
		}
		s.dep(x, x)
		return b.Name() + "(" + strings.Join(args, ",") + ")@" + uid(x)
	}
	fn := c.StaticCallee()
	if fn == nil {
		s.dep(x, x)
		return "dyncall(" + s.Of(c.Value) + ";" + strings.Join(args, ",") + ")@" + uid(x)
	}
	if s.IsPure != nil && s.IsPure(fn) {
		s.dep(x, c.Args...)
		return CalleeName(fn) + "(" + strings.Join(args, ",") + ")"
	}
	s.dep(x, x)
	return CalleeName(fn) + "(" + strings.Join(args, ",") + ")@" + uid(x)
}

// canPrecede: instruction a may execute before instruction b in some run of the function.
func (s *Sym) canPrecede(a, b ssa.Instruction) bool {
	if a.Block() == b.Block() {
		for _, in := range a.Block().Instrs {
			if in == a {
				return true
			}
			if in == b {
				break
			}
		}
	}
	// CFG reachability a.Block -> b.Block via at least one edge
	seen := map[*ssa.BasicBlock]bool{}
	stack := append([]*ssa.BasicBlock(nil), a.Block().Succs...)
	for len(stack) > 0 {
		x := stack[len(stack)-1]
		stack = stack[:len(stack)-1]
		if seen[x] {
			continue
		}
		seen[x] = true
		if x == b.Block() {
			return true
		}
		stack = append(stack, x.Succs...)
	}
	return false
}

// reaching computes the stores to alloc a that may define the value read by load (field path
// `path`): walking backwards from the load, a store whose path is a prefix of the load's path
// kills the walk (it covers the location); a store of a sub-location of the loaded value makes
// the result unknown (ok=false).
func (s *Sym) reaching(load *ssa.UnOp, a *ssa.Alloc, path string) (out []*ssa.Store, ok bool) {
	type item struct {
		b   *ssa.BasicBlock
		end int // examine instructions [0,end)
	}
	byBlock := map[*ssa.BasicBlock][]*ssa.Store{}
	for _, st := range s.stores[a] {
		byBlock[st.Block()] = append(byBlock[st.Block()], st)
	}
	pos := func(in ssa.Instruction) int {
		for i, x := range in.Block().Instrs {
			if x == in {
				return i
			}
		}
		return -1
	}
	seen := map[*ssa.BasicBlock]bool{}
	found := map[*ssa.Store]bool{}
	ok = true
	var visit func(b *ssa.BasicBlock, end int, first bool)
	visit = func(b *ssa.BasicBlock, end int, first bool) {
		if !first {
			if seen[b] {
				return
			}
			seen[b] = true
		}
		// last covering store before `end`
		for i := end - 1; i >= 0; i-- {
			st, isSt := b.Instrs[i].(*ssa.Store)
			if !isSt {
				continue
			}
			r, sp := rootPath(st.Addr)
			if r != ssa.Value(a) {
				continue
			}
			if strings.HasPrefix(path, sp) { // store covers the loaded location
				found[st] = true
				return
			}
			if strings.HasPrefix(sp, path) { // store into a part of the loaded value
				ok = false
				return
			}
		}
		// the alloc itself starts a fresh (zero) cell
		if a.Block() == b && pos(a) < end {
			return
		}
		for _, p := range b.Preds {
			visit(p, len(p.Instrs), false)
		}
	}
	visit(load.Block(), pos(load), true)
	for st := range found {
		out = append(out, st)
	}
	return out, ok
}

// FieldName returns the name of the field a FieldAddr selects.
func FieldName(fa *ssa.FieldAddr) string { return fieldName(fa.X.Type(), fa.Field) }

// ConstMaps: package-level maps that are initialised by a literal with constant keys and never written afterwards
// (set by model.InitConstMaps).  A lookup in such a map with a constant key is folded.
var ConstMaps map[*ssa.Global]map[string]string

// FoldLookup evaluates a lookup in a constant map when the key's symbol is a constant; val is the symbol of the
// value found (or of the zero value), present the comma-ok flag.
func (s *Sym) FoldLookup(lk *ssa.Lookup) (val string, present, folded bool) {
	u, ok := lk.X.(*ssa.UnOp)
	if !ok {
		return "", false, false
	}
	g, ok := u.X.(*ssa.Global)
	if !ok || ConstMaps == nil {
		return "", false, false
	}
	tbl, ok := ConstMaps[g]
	if !ok {
		return "", false, false
	}
	k := s.Of(lk.Index)
	isConst := len(k) >= 2 && k[0] == '"' && k[len(k)-1] == '"'
	if !isConst {
		if _, isC := lk.Index.(*ssa.Const); !isC {
			return "", false, false
		}
	}
	if v, ok := tbl[k]; ok {
		return v, true, true
	}
	// zero value of the element type
	mt := lk.X.Type().Underlying().(*types.Map)
	switch t := mt.Elem().Underlying().(type) {
	case *types.Basic:
		if t.Info()&types.IsString != 0 {
			return "\"\"", false, true
		}
		if t.Info()&types.IsBoolean != 0 {
			return "false", false, true
		}
		return "0", false, true
	}
	return "{}", false, true
}

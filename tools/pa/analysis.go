package pa

import (
	"fmt"
	"go/constant"
	"go/token"
	"go/types"
	"sort"
	"strconv"
	"strings"

	"golang.org/x/tools/go/ssa"
)

// Atom is one propositional variable.
type Atom struct {
	Key  string
	Deps []ssa.Value // instructions on whose (re)execution the atom's meaning depends
	Phi  *ssa.Phi    // variable atom standing for a boolean phi
	// NilEq: the atom stands for (Phi == nil) of a pointer/interface-valued phi (an error travelling through the
	// result variable of an inlined helper); its value is assigned on the phi's incoming edges like a boolean phi's
	NilEq *ssa.Const
	Ev    bool // synthetic event variable
	// structure, for rule-side classification
	Kind string    // "eq" (X == Y), "lt" (X < Y), "len0" (len(X)==0), "mapok" (X map, Y key), "isa", "val" (X), "phi", "ev"
	X, Y ssa.Value // operands as SSA values of the function the atom was created in
	// Res maps a value of an inlined callee to the caller-level value it is bound to (identity at top level)
	Res func(ssa.Value) ssa.Value
}

// Resolve maps v through parameter bindings of inlined callees up to the analysed function.
func (a *Atom) Resolve(v ssa.Value) ssa.Value {
	if a.Res == nil || v == nil {
		return v
	}
	return a.Res(v)
}

// Analysis holds the atom universe and condition translation for one function.
type Analysis struct {
	Fn     *ssa.Function
	Sym    *Sym
	Atoms  []*Atom
	index  map[string]int
	cache  map[ssa.Value]*F
	IsPure func(*ssa.Function) bool
	// Inline decides whether a bool-returning static callee may be summarised by inlining.
	Inline func(*ssa.Function) bool
	depth  int
	loopHd map[*ssa.BasicBlock]bool
	// blocks reachable from the entry once conditions on bound parameters are folded (nil: not computed)
	feasible   map[*ssa.BasicBlock]bool
	inFeasible bool
	res        func(ssa.Value) ssa.Value // nil at top level
	// PhiFilter, if set, restricts which boolean phis may be auto-tracked as derived flags.
	PhiFilter func(*ssa.Phi) bool
	// ConstBind specialises string parameters to constants (e.g. elementName := "img").
	ConstBind map[*ssa.Parameter]string
}

func (A *Analysis) constStr(v ssa.Value) (string, bool) {
	if c, ok := v.(*ssa.Const); ok && c.Value != nil && c.Value.Kind() == constant.String {
		return constant.StringVal(c.Value), true
	}
	if A.res != nil {
		v = A.res(v)
	}
	if p, ok := v.(*ssa.Parameter); ok {
		if k, ok := A.ConstBind[p]; ok {
			return k, true
		}
	}
	if c, ok := v.(*ssa.Const); ok && c.Value != nil && c.Value.Kind() == constant.String {
		return constant.StringVal(c.Value), true
	}
	return "", false
}

// BindConst specialises a string parameter to a constant value.
func (A *Analysis) BindConst(p *ssa.Parameter, val string) {
	if A.ConstBind == nil {
		A.ConstBind = map[*ssa.Parameter]string{}
	}
	A.ConstBind[p] = val
	A.Sym.Bind[p] = strconv.Quote(val)
	A.feasible = nil
	A.Sym.PhiConst = A.phiConst
}

// foldParamCond evaluates a branch condition that only compares bound parameters with constants.
func (A *Analysis) foldParamCond(v ssa.Value) (known, val bool) {
	switch x := v.(type) {
	case *ssa.UnOp:
		if x.Op == token.NOT {
			k, b := A.foldParamCond(x.X)
			return k, !b
		}
	case *ssa.BinOp:
		if x.Op != token.EQL && x.Op != token.NEQ {
			return false, false
		}
		str := func(v ssa.Value) (string, bool) {
			if c, ok := v.(*ssa.Const); ok && c.Value != nil && c.Value.Kind() == constant.String {
				return constant.StringVal(c.Value), true
			}
			if p, ok := v.(*ssa.Parameter); ok {
				k, ok := A.ConstBind[p]
				return k, ok
			}
			return "", false
		}
		a, okA := str(x.X)
		b, okB := str(x.Y)
		if okA && okB {
			return true, (a == b) == (x.Op == token.EQL)
		}
	}
	return false, false
}

// phiConst: with a parameter bound to a constant, a non-loop phi whose feasible incoming edges all carry the same
// constant string has that value.
func (A *Analysis) phiConst(ph *ssa.Phi) (string, bool) {
	if len(A.ConstBind) == 0 || A.inFeasible || A.loopHd[ph.Block()] {
		return "", false
	}
	if bt, ok := ph.Type().Underlying().(*types.Basic); !ok || bt.Info()&types.IsString == 0 {
		return "", false
	}
	// edge b -> b.Succs[k] is dead when b branches on a comparison of a bound parameter with a constant that folds
	// the other way (evaluated here without the symbol table: translating conditions would look at this phi again)
	deadEdge := func(b *ssa.BasicBlock, k int) bool {
		ifi, ok := b.Instrs[len(b.Instrs)-1].(*ssa.If)
		if !ok || b.Succs[0] == b.Succs[1] {
			return false
		}
		known, val := A.foldParamCond(ifi.Cond)
		if !known {
			return false
		}
		return (k == 0) != val
	}
	if A.feasible == nil {
		reach := map[*ssa.BasicBlock]bool{}
		stack := []*ssa.BasicBlock{A.Fn.Blocks[0]}
		for len(stack) > 0 {
			b := stack[len(stack)-1]
			stack = stack[:len(stack)-1]
			if reach[b] {
				continue
			}
			reach[b] = true
			for k, sc := range b.Succs {
				if deadEdge(b, k) {
					continue
				}
				stack = append(stack, sc)
			}
		}
		A.feasible = reach
	}
	val, n := "", 0
	for i, pred := range ph.Block().Preds {
		if !A.feasible[pred] {
			continue
		}
		dead := true
		for k, sc := range pred.Succs {
			if sc == ph.Block() && !deadEdge(pred, k) {
				dead = false
			}
		}
		if dead {
			continue
		}
		c, ok := ph.Edges[i].(*ssa.Const)
		if !ok || c.Value == nil || c.Value.Kind() != constant.String {
			return "", false
		}
		k := strconv.Quote(constant.StringVal(c.Value))
		if n > 0 && k != val {
			return "", false
		}
		val = k
		n++
	}
	if n == 0 {
		return "", false
	}
	return val, true
}

func NewAnalysis(fn *ssa.Function, isPure, inline func(*ssa.Function) bool) *Analysis {
	A := &Analysis{Fn: fn, Sym: NewSym(fn, isPure), index: map[string]int{}, cache: map[ssa.Value]*F{}, IsPure: isPure, Inline: inline, loopHd: map[*ssa.BasicBlock]bool{}}
	for _, b := range fn.Blocks {
		for _, s := range b.Succs {
			if s.Dominates(b) {
				A.loopHd[s] = true
			}
		}
	}
	return A
}

func (A *Analysis) atom(key string, deps []ssa.Value) int {
	if i, ok := A.index[key]; ok {
		if len(deps) > 0 {
			have := map[ssa.Value]bool{}
			for _, d := range A.Atoms[i].Deps {
				have[d] = true
			}
			for _, d := range deps {
				if !have[d] {
					A.Atoms[i].Deps = append(A.Atoms[i].Deps, d)
				}
			}
		}
		return i
	}
	A.index[key] = len(A.Atoms)
	A.Atoms = append(A.Atoms, &Atom{Key: key, Deps: deps, Res: A.res})
	return len(A.Atoms) - 1
}

func (A *Analysis) structAtom(f *F, kind string, x, y ssa.Value) *F {
	g := f
	if g.Op == '!' {
		g = g.Kids[0]
	}
	if g.Op == 'a' {
		at := A.Atoms[g.Atom]
		if at.Kind == "" {
			at.Kind, at.X, at.Y = kind, x, y
		}
	}
	return f
}

// AtomIndex returns the index of the atom with the given key, or -1.
func (A *Analysis) AtomIndex(key string) int {
	if i, ok := A.index[key]; ok {
		return i
	}
	return -1
}

// Lit returns the literal for key, creating the atom (with no deps) if needed.
func (A *Analysis) Lit(key string) *F { return AtomF(A.atom(key, nil)) }

// EventVar creates a synthetic boolean variable.
func (A *Analysis) EventVar(name string) int {
	i := A.atom("ev:"+name, nil)
	A.Atoms[i].Ev = true
	return i
}

func (A *Analysis) Name(i int) string { return A.Atoms[i].Key }

func (A *Analysis) Str(f *F) string { return f.String(A.Name) }

type pathCtx map[*ssa.BasicBlock]*ssa.BasicBlock // block -> predecessor on the current path

// Cond translates a boolean SSA value into a formula.
func (A *Analysis) Cond(v ssa.Value) *F { return A.cond(v, nil) }

func (A *Analysis) cond(v ssa.Value, pc pathCtx) *F {
	if pc == nil {
		if f, ok := A.cache[v]; ok {
			return f
		}
	}
	f := A.cond1(v, pc)
	if pc == nil {
		A.cache[v] = f
	}
	return f
}

func isLen(v ssa.Value) bool {
	if c, ok := v.(*ssa.Call); ok {
		if b, ok := c.Common().Value.(*ssa.Builtin); ok && b.Name() == "len" {
			return true
		}
	}
	return false
}

func constInt(v ssa.Value) (int64, bool) {
	if c, ok := v.(*ssa.Const); ok && c.Value != nil {
		if b, ok := c.Type().Underlying().(*types.Basic); ok && b.Info()&types.IsInteger != 0 {
			return c.Int64(), true
		}
	}
	return 0, false
}

func (A *Analysis) symAtom(v ssa.Value) *F {
	return A.structAtom(AtomF(A.atom(A.Sym.Of(v), A.Sym.Deps(v))), "val", v, nil)
}

func (A *Analysis) keyAtom(key string, vs ...ssa.Value) *F {
	var deps []ssa.Value
	for _, v := range vs {
		deps = append(deps, A.Sym.Deps(v)...)
	}
	return AtomF(A.atom(key, deps))
}

func (A *Analysis) cond1(v ssa.Value, pc pathCtx) *F {
	switch x := v.(type) {
	case *ssa.Const:
		if x.Value != nil && x.Value.String() == "true" {
			return True
		}
		return False
	case *ssa.UnOp:
		if x.Op == token.NOT {
			return Not(A.cond(x.X, pc))
		}
		return A.symAtom(v)
	case *ssa.Phi:
		if pc != nil {
			if pred, ok := pc[x.Block()]; ok {
				for i, p := range x.Block().Preds {
					if p == pred {
						return A.cond(x.Edges[i], pc)
					}
				}
			}
		}
		if f := A.expandPhi(x); f != nil {
			return f
		}
		i := A.atom(A.Sym.Of(x), []ssa.Value{x})
		A.Atoms[i].Phi = x
		A.Atoms[i].Kind, A.Atoms[i].X = "phi", x
		return AtomF(i)
	case *ssa.BinOp:
		return A.binop(x, pc)
	case *ssa.Extract:
		switch t := x.Tuple.(type) {
		case *ssa.Lookup:
			if t.CommaOk && x.Index == 1 {
				if _, present, folded := A.Sym.FoldLookup(t); folded {
					if present {
						return True
					}
					return False
				}
				return A.structAtom(A.keyAtom("mapok("+A.Sym.Of(t.X)+","+A.Sym.Of(t.Index)+")", t.X, t.Index), "mapok", t.X, t.Index)
			}
		case *ssa.TypeAssert:
			if t.CommaOk && x.Index == 1 {
				return A.structAtom(A.keyAtom("isa["+t.AssertedType.String()+"]("+A.Sym.Of(t.X)+")", t.X), "isa", t.X, nil)
			}
		}
		return A.symAtom(v)
	case *ssa.Lookup:
		// a boolean entry of a constant table looked up with a constant key (`tbl[name]` specialised to a name)
		if !x.CommaOk {
			if val, _, folded := A.Sym.FoldLookup(x); folded {
				switch val {
				case "true":
					return True
				case "false":
					return False
				}
			}
		}
		return A.symAtom(v)
	case *ssa.Call:
		if fn := x.Common().StaticCallee(); fn != nil && A.Inline != nil && A.depth < 2 && A.Inline(fn) {
			if f := A.inlineCall(x, fn); f != nil {
				return f
			}
		}
		return A.symAtom(v)
	}
	return A.symAtom(v)
}

func (A *Analysis) binop(x *ssa.BinOp, pc pathCtx) *F {
	a, b := x.X, x.Y
	sa, sb := A.Sym.Of(a), A.Sym.Of(b)
	mk := func(l, op, r string) *F { return A.keyAtom("("+l+" "+op+" "+r+")", a, b) }
	_, aConst := a.(*ssa.Const)
	_, bConst := b.(*ssa.Const)
	// a value folded to a constant (bound parameter, lookup in a constant table) orders like a constant
	quoted := func(s string) bool { return len(s) >= 2 && s[0] == '"' && s[len(s)-1] == '"' }
	aConst = aConst || quoted(sa)
	bConst = bConst || quoted(sb)
	quotedSym := func(s string) bool { return len(s) >= 2 && s[0] == '"' && s[len(s)-1] == '"' }
	eq := func() *F {
		// both sides folded to constants (bound parameter, lookup in a constant table)
		if quotedSym(sa) && quotedSym(sb) {
			if sa == sb {
				return True
			}
			return False
		}
		// parameter bound to a constant string (per-element specialisation)
		if ka, oka := A.constStr(a); oka {
			if kb, okb := A.constStr(b); okb {
				if ka == kb {
					return True
				}
				return False
			}
		}
		// bool == const
		if bt, ok := a.Type().Underlying().(*types.Basic); ok && bt.Kind() == types.Bool {
			fa, fb := A.cond(a, pc), A.cond(b, pc)
			return Or(And(fa, fb), And(Not(fa), Not(fb)))
		}
		// a pointer / interface phi compared with nil
		if kb, ok := b.(*ssa.Const); ok && kb.IsNil() {
			if _, isPhi := a.(*ssa.Phi); isPhi {
				return A.nilEq(a, kb, pc)
			}
		}
		if ka, ok := a.(*ssa.Const); ok && ka.IsNil() {
			if _, isPhi := b.(*ssa.Phi); isPhi {
				return A.nilEq(b, ka, pc)
			}
		}
		l, r := sa, sb
		xa, xb := a, b
		if aConst && !bConst || (!aConst && !bConst && l > r) {
			l, r = r, l
			xa, xb = b, a
		}
		return A.structAtom(mk(l, "==", r), "eq", xa, xb)
	}
	lenZero := func(lenv ssa.Value) *F {
		return A.structAtom(A.keyAtom("("+A.Sym.Of(lenv)+" == 0)", lenv), "len0", lenv.(*ssa.Call).Common().Args[0], nil)
	}
	lt := func(l, r ssa.Value) *F { // l < r
		if isLen(l) {
			if k, ok := constInt(r); ok {
				if k <= 0 {
					return False
				}
				if k == 1 {
					return lenZero(l)
				}
			}
		}
		if isLen(r) {
			if k, ok := constInt(l); ok {
				if k < 0 {
					return True
				}
				if k == 0 {
					return Not(lenZero(r))
				}
			}
		}
		return A.structAtom(A.keyAtom("("+A.Sym.Of(l)+" < "+A.Sym.Of(r)+")", l, r), "lt", l, r)
	}
	eq0 := func() *F {
		if isLen(a) {
			if k, ok := constInt(b); ok && k == 0 {
				return lenZero(a)
			}
		}
		if isLen(b) {
			if k, ok := constInt(a); ok && k == 0 {
				return lenZero(b)
			}
		}
		return eq()
	}
	switch x.Op {
	case token.EQL:
		return eq0()
	case token.NEQ:
		return Not(eq0())
	case token.LSS:
		return lt(a, b)
	case token.GTR:
		return lt(b, a)
	case token.LEQ:
		return Not(lt(b, a))
	case token.GEQ:
		return Not(lt(a, b))
	}
	return A.symAtom(x)
}

// simple paths from `from` to `to` that do not revisit `from`; nil if more than max.
func simplePaths(from, to *ssa.BasicBlock, max int) [][]*ssa.BasicBlock {
	var out [][]*ssa.BasicBlock
	var cur []*ssa.BasicBlock
	on := map[*ssa.BasicBlock]bool{}
	overflow := false
	var dfs func(b *ssa.BasicBlock)
	dfs = func(b *ssa.BasicBlock) {
		if overflow {
			return
		}
		cur = append(cur, b)
		on[b] = true
		defer func() { cur = cur[:len(cur)-1]; on[b] = false }()
		if b == to && len(cur) > 1 {
			out = append(out, append([]*ssa.BasicBlock(nil), cur...))
			if len(out) > max {
				overflow = true
			}
			return
		}
		for _, s := range b.Succs {
			if on[s] && !(s == to && to != from) {
				continue
			}
			if s == from {
				continue
			}
			dfs(s)
		}
	}
	dfs(from)
	if overflow {
		return nil
	}
	return out
}

func (A *Analysis) pathCond(path []*ssa.BasicBlock) (*F, pathCtx) {
	pc := pathCtx{}
	for i := 1; i < len(path); i++ {
		pc[path[i]] = path[i-1]
	}
	conj := []*F{}
	for i := 0; i+1 < len(path); i++ {
		b := path[i]
		if ifi, ok := b.Instrs[len(b.Instrs)-1].(*ssa.If); ok {
			c := A.cond(ifi.Cond, pc)
			if b.Succs[0] == path[i+1] && b.Succs[1] == path[i+1] {
				continue
			}
			if b.Succs[0] == path[i+1] {
				conj = append(conj, c)
			} else {
				conj = append(conj, Not(c))
			}
		}
	}
	return And(conj...), pc
}

// PhiEdgeCond is the formula assigned to a phi atom when control arrives over edge i of its phi.
func (A *Analysis) PhiEdgeCond(at *Atom, i int) *F {
	e := at.Phi.Edges[i]
	if at.NilEq != nil {
		return A.nilEq(e, at.NilEq, nil)
	}
	return A.Cond(e)
}

// nilEq: the formula for v == nil.
func (A *Analysis) nilEq(v ssa.Value, nilc *ssa.Const, pc pathCtx) *F {
	switch x := v.(type) {
	case *ssa.Const:
		if x.IsNil() {
			return True
		}
	case *ssa.MakeInterface:
		return False
	case *ssa.Phi:
		if pc != nil {
			if pred, ok := pc[x.Block()]; ok {
				for i, p := range x.Block().Preds {
					if p == pred {
						return A.nilEq(x.Edges[i], nilc, pc)
					}
				}
			}
		}
		f := A.eqAtom(v, nilc)
		if f.Op == 'a' {
			at := A.Atoms[f.Atom]
			if at.Phi == nil {
				at.Phi, at.NilEq = x, nilc
			}
		}
		return f
	}
	return A.eqAtom(v, nilc)
}

// eqAtom: the canonical equality atom for two values (constants on the right).
func (A *Analysis) eqAtom(a, b ssa.Value) *F {
	sa, sb := A.Sym.Of(a), A.Sym.Of(b)
	_, aConst := a.(*ssa.Const)
	_, bConst := b.(*ssa.Const)
	quoted := func(s string) bool { return len(s) >= 2 && s[0] == '"' && s[len(s)-1] == '"' }
	aConst = aConst || quoted(sa)
	bConst = bConst || quoted(sb)
	l, r := sa, sb
	xa, xb := a, b
	if aConst && !bConst || (!aConst && !bConst && l > r) {
		l, r = r, l
		xa, xb = b, a
	}
	return A.structAtom(A.keyAtom("("+l+" == "+r+")", a, b), "eq", xa, xb)
}

// expandPhi expresses a non-loop boolean phi through the branch conditions between its block's
// immediate dominator and the block.
func (A *Analysis) expandPhi(x *ssa.Phi) *F {
	b := x.Block()
	if A.loopHd[b] {
		return nil
	}
	d := b.Idom()
	if d == nil {
		return nil
	}
	paths := simplePaths(d, b, 24)
	if paths == nil {
		return nil
	}
	var alts []*F
	for _, p := range paths {
		// a path through an inner loop header may iterate; such paths are not simple: refuse
		for _, blk := range p[1 : len(p)-1] {
			if A.loopHd[blk] {
				return nil
			}
		}
		c, pc := A.pathCond(p)
		pred := p[len(p)-2]
		var val *F
		for i, pp := range b.Preds {
			if pp == pred {
				val = A.cond(x.Edges[i], pc)
			}
		}
		if val == nil {
			return nil
		}
		alts = append(alts, And(c, val))
	}
	return DropInessential(Or(alts...))
}

// FlagSupport returns the atoms that the boolean phis tested by branches of the given blocks are computed from (the
// operands of those phis, transitively through other phis): tracking them lets the phis be followed as derived flags.
// At most max atoms are returned (nil if more would be needed).
func (A *Analysis) FlagSupport(blocks map[*ssa.BasicBlock]bool, max int) []int {
	need := map[int]bool{}
	seen := map[*ssa.Phi]bool{}
	var visit func(ph *ssa.Phi, at *Atom)
	visit = func(ph *ssa.Phi, at *Atom) {
		if seen[ph] {
			return
		}
		seen[ph] = true
		for ei, e := range ph.Edges {
			var f *F
			if at != nil {
				f = A.PhiEdgeCond(at, ei)
			} else {
				f = A.Cond(e)
			}
			m := map[int]bool{}
			f.Atoms(m)
			for k := range m {
				if p2 := A.Atoms[k].Phi; p2 != nil {
					visit(p2, A.Atoms[k])
					continue
				}
				need[k] = true
			}
		}
	}
	for b := range blocks {
		ifi, ok := b.Instrs[len(b.Instrs)-1].(*ssa.If)
		if !ok {
			continue
		}
		m := map[int]bool{}
		A.Cond(ifi.Cond).Atoms(m)
		for k := range m {
			if ph := A.Atoms[k].Phi; ph != nil && !A.loopHd[ph.Block()] {
				visit(ph, A.Atoms[k])
			}
		}
	}
	if len(need) > max {
		return nil
	}
	var out []int
	for k := range need {
		out = append(out, k)
	}
	sort.Ints(out)
	return out
}

// PhiTakes returns the condition (over the branch conditions between the phi's block and its immediate dominator) under
// which a non-loop phi takes its i-th operand; nil if that cannot be expressed (loop header, too many paths).
func (A *Analysis) PhiTakes(x *ssa.Phi, i int) *F {
	b := x.Block()
	if A.loopHd[b] || i >= len(b.Preds) {
		return nil
	}
	d := b.Idom()
	if d == nil {
		return nil
	}
	paths := simplePaths(d, b, 24)
	if paths == nil {
		return nil
	}
	var alts []*F
	for _, p := range paths {
		for _, blk := range p[1 : len(p)-1] {
			if A.loopHd[blk] {
				return nil
			}
		}
		if p[len(p)-2] != b.Preds[i] {
			continue
		}
		c, _ := A.pathCond(p)
		alts = append(alts, c)
	}
	if len(alts) == 0 {
		return False
	}
	return DropInessential(Or(alts...))
}

// inlineCall summarises a call of an acyclic bool-returning module function as a formula.
func (A *Analysis) inlineCall(call *ssa.Call, fn *ssa.Function) *F {
	if len(fn.Blocks) == 0 || len(fn.Blocks) > 40 {
		return nil
	}
	res := fn.Signature.Results()
	if res.Len() != 1 {
		return nil
	}
	if bt, ok := res.At(0).Type().Underlying().(*types.Basic); !ok || bt.Kind() != types.Bool {
		return nil
	}
	for _, b := range fn.Blocks {
		for _, s := range b.Succs {
			if s.Dominates(b) {
				return nil // has a loop
			}
		}
	}
	sub := NewAnalysis(fn, A.IsPure, A.Inline)
	sub.depth = A.depth + 1
	sub.ConstBind = A.ConstBind
	sub.Atoms, sub.index = A.Atoms, A.index
	parentRes := A.res
	bind := map[ssa.Value]ssa.Value{}
	for i, p := range fn.Params {
		arg := call.Common().Args[i]
		if parentRes != nil {
			arg = parentRes(arg)
		}
		bind[p] = arg
	}
	sub.res = func(v ssa.Value) ssa.Value {
		if b, ok := bind[v]; ok {
			return b
		}
		return v
	}
	var argDeps []ssa.Value
	for i, p := range fn.Params {
		arg := call.Common().Args[i]
		sub.Sym.Bind[p] = A.Sym.Of(arg)
		argDeps = append(argDeps, A.Sym.Deps(arg)...)
	}
	n0 := len(A.Atoms)
	var alts []*F
	var rets []*ssa.BasicBlock
	for _, b := range fn.Blocks {
		if _, ok := b.Instrs[len(b.Instrs)-1].(*ssa.Return); ok {
			rets = append(rets, b)
		}
	}
	for _, rb := range rets {
		ret := rb.Instrs[len(rb.Instrs)-1].(*ssa.Return)
		var paths [][]*ssa.BasicBlock
		if rb == fn.Blocks[0] {
			paths = [][]*ssa.BasicBlock{{rb}}
		} else {
			paths = simplePaths(fn.Blocks[0], rb, 128)
			if paths == nil {
				A.Atoms, A.index = sub.Atoms, sub.index
				return nil
			}
		}
		for _, p := range paths {
			c, pc := sub.pathCond(p)
			alts = append(alts, And(c, sub.cond(ret.Results[0], pc)))
		}
	}
	A.Atoms, A.index = sub.Atoms, sub.index
	// atoms created while inlining depend (conservatively) on everything the arguments depend on
	for i := n0; i < len(A.Atoms); i++ {
		A.Atoms[i].Deps = append([]ssa.Value(nil), argDeps...)
		A.Atoms[i].Deps = append(A.Atoms[i].Deps, call)
		A.Atoms[i].Phi = nil
	}
	return Or(alts...)
}

// EdgeCond returns the condition under which control flows from b to b.Succs[k].
func (A *Analysis) EdgeCond(b *ssa.BasicBlock, k int) *F {
	ifi, ok := b.Instrs[len(b.Instrs)-1].(*ssa.If)
	if !ok {
		return True
	}
	if b.Succs[0] == b.Succs[1] {
		return True
	}
	c := A.Cond(ifi.Cond)
	if k == 0 {
		return c
	}
	return Not(c)
}

// ---------------------------------------------------------------------------------------------

// Query is one dataflow run over a region of the function.
type Query struct {
	A       *Analysis
	Tracked []int
	pos     map[int]int
	Barrier map[*ssa.BasicBlock]bool
	// CutEdge, if set, removes edges from the region (b -> b.Succs[k]).
	CutEdge func(b *ssa.BasicBlock, k int) bool
	Hooks   map[ssa.Instruction]func(a uint32) []uint32
	// EdgeHook, if set, transforms assignments flowing along edge b -> b.Succs[k] (after the edge
	// condition was applied, before phi assignment).  Return nil for "no change".
	EdgeHook func(b *ssa.BasicBlock, k int) func(a uint32) []uint32
	In       map[*ssa.BasicBlock][]uint64
	nWords   int
	Iter     int
	pat      map[int][]uint64
	fullC    []uint64
}

const MaxTracked = 20

// NewQuery creates a query tracking the given atoms plus every "derived flag": a boolean phi
// all of whose operands are constants or formulas over tracked atoms.
func (A *Analysis) NewQuery(track []int) (*Query, error) {
	// make sure all branch conditions are translated (creates phi atoms)
	for _, b := range A.Fn.Blocks {
		if ifi, ok := b.Instrs[len(b.Instrs)-1].(*ssa.If); ok {
			A.Cond(ifi.Cond)
		}
	}
	A.Prepare()
	if false {
		for n := -1; n != len(A.Atoms); {
			n = len(A.Atoms)
			for i := 0; i < len(A.Atoms); i++ {
				if ph := A.Atoms[i].Phi; ph != nil {
					for _, e := range ph.Edges {
						A.Cond(e)
					}
				}
			}
		}
	}
	set := map[int]bool{}
	for _, t := range track {
		if t >= 0 {
			set[t] = true
		}
	}
	// derived flags: greatest set of boolean phis all of whose operands are formulas over tracked
	// atoms, constants and other members of the set (loop-carried flags depend on themselves)
	cand := map[int]bool{}
	for i, at := range A.Atoms {
		if at.Phi == nil || set[i] {
			continue
		}
		if A.PhiFilter != nil && !A.PhiFilter(at.Phi) {
			continue
		}
		cand[i] = true
	}
	for changed := true; changed; {
		changed = false
		for i := range cand {
			ok := true
			for ei := range A.Atoms[i].Phi.Edges {
				m := map[int]bool{}
				A.PhiEdgeCond(A.Atoms[i], ei).Atoms(m)
				for k := range m {
					if !set[k] && !cand[k] {
						ok = false
					}
				}
			}
			if !ok {
				delete(cand, i)
				changed = true
			}
		}
	}
	for i := range cand {
		set[i] = true
	}
	q := &Query{A: A, pos: map[int]int{}, Barrier: map[*ssa.BasicBlock]bool{}, Hooks: map[ssa.Instruction]func(uint32) []uint32{}, In: map[*ssa.BasicBlock][]uint64{}}
	for i := range set {
		q.Tracked = append(q.Tracked, i)
	}
	sort.Ints(q.Tracked)
	if len(q.Tracked) > MaxTracked {
		var names []string
		for _, t := range q.Tracked {
			names = append(names, A.Name(t))
		}
		return nil, fmt.Errorf("too many tracked atoms (%d > %d): %s", len(q.Tracked), MaxTracked, strings.Join(names, "; "))
	}
	for p, t := range q.Tracked {
		q.pos[t] = p
	}
	q.nWords = (1<<len(q.Tracked) + 63) / 64
	return q, nil
}

// Track returns the bit position of atom i (-1 if untracked).
func (q *Query) Pos(atom int) int {
	if p, ok := q.pos[atom]; ok {
		return p
	}
	return -1
}

func (q *Query) val(a uint32) func(int) int8 {
	return func(atom int) int8 {
		p, ok := q.pos[atom]
		if !ok {
			return vU
		}
		if a>>uint(p)&1 == 1 {
			return vT
		}
		return vF
	}
}

func (q *Query) full() []uint64 {
	s := make([]uint64, q.nWords)
	n := 1 << len(q.Tracked)
	for a := 0; a < n; a++ {
		s[a/64] |= 1 << uint(a%64)
	}
	return s
}

func (q *Query) mask(f *F) []uint64 {
	_, fs := q.tf(f)
	out := make([]uint64, q.nWords)
	full := q.full()
	for i := range out {
		out[i] = full[i] &^ fs[i]
	}
	return out
}

// pattern returns the bitset of assignments in which tracked position p is 1.
func (q *Query) pattern(p int) []uint64 {
	if q.pat == nil {
		q.pat = map[int][]uint64{}
	}
	if s, ok := q.pat[p]; ok {
		return s
	}
	s := make([]uint64, q.nWords)
	n := uint32(1) << len(q.Tracked)
	if p < 6 {
		var w uint64
		for b := uint(0); b < 64; b++ {
			if b>>uint(p)&1 == 1 {
				w |= 1 << b
			}
		}
		for i := range s {
			s[i] = w
		}
		if n < 64 {
			s[0] &= (1 << n) - 1
		}
	} else {
		for i := range s {
			if (i>>(uint(p)-6))&1 == 1 {
				s[i] = ^uint64(0)
			}
		}
	}
	q.pat[p] = s
	return s
}

// tf returns the sets of assignments in which f is definitely true / definitely false.
func (q *Query) tf(f *F) (t, fs []uint64) {
	full := q.fullSet()
	switch f.Op {
	case 'c':
		if f.C {
			return full, make([]uint64, q.nWords)
		}
		return make([]uint64, q.nWords), full
	case 'a':
		p, ok := q.pos[f.Atom]
		if !ok {
			return make([]uint64, q.nWords), make([]uint64, q.nWords)
		}
		pat := q.pattern(p)
		neg := make([]uint64, q.nWords)
		for i := range neg {
			neg[i] = full[i] &^ pat[i]
		}
		return pat, neg
	case '!':
		t1, f1 := q.tf(f.Kids[0])
		return f1, t1
	case '&':
		t = append([]uint64(nil), full...)
		fs = make([]uint64, q.nWords)
		for _, k := range f.Kids {
			tk, fk := q.tf(k)
			for i := range t {
				t[i] &= tk[i]
				fs[i] |= fk[i]
			}
		}
		return t, fs
	case '|':
		t = make([]uint64, q.nWords)
		fs = append([]uint64(nil), full...)
		for _, k := range f.Kids {
			tk, fk := q.tf(k)
			for i := range t {
				t[i] |= tk[i]
				fs[i] &= fk[i]
			}
		}
		return t, fs
	}
	return make([]uint64, q.nWords), make([]uint64, q.nWords)
}

func (q *Query) fullSet() []uint64 {
	if q.fullC == nil {
		q.fullC = q.full()
	}
	return q.fullC
}

// setBit returns the image of s under "bit p := v".
func (q *Query) setBit(s []uint64, p int, v bool) []uint64 {
	out := make([]uint64, len(s))
	pat := q.pattern(p)
	if p < 6 {
		sh := uint(1) << uint(p)
		for i, w := range s {
			one := w & pat[i]
			zero := w &^ pat[i]
			if v {
				out[i] = one | zero<<sh
			} else {
				out[i] = zero | one>>sh
			}
		}
		return out
	}
	d := 1 << (uint(p) - 6)
	for i, w := range s {
		hi := (i>>(uint(p)-6))&1 == 1
		if v {
			if hi {
				out[i] |= w
			} else {
				out[i+d] |= w
			}
		} else {
			if hi {
				out[i-d] |= w
			} else {
				out[i] |= w
			}
		}
	}
	return out
}

func (q *Query) forEach(s []uint64, fn func(a uint32)) {
	for w, word := range s {
		for word != 0 {
			b := uint32(0)
			for word&(1<<b) == 0 {
				b++
			}
			word &^= 1 << b
			fn(uint32(w*64) + b)
		}
	}
}

// Filter restricts the state to assignments satisfying f (untracked atoms unknown => kept).
func (q *Query) Filter(s []uint64, f *F) []uint64 {
	if s == nil {
		return nil
	}
	m := q.mask(f)
	out := make([]uint64, len(s))
	for i := range s {
		out[i] = s[i] & m[i]
	}
	return out
}

// Run computes the fixpoint from the entry block with the given initial state (nil = all assignments).
func (q *Query) Run(entry *ssa.BasicBlock, init []uint64) {
	q.RunFrom(map[*ssa.BasicBlock][]uint64{entry: init})
}

// RunFrom starts from several entry blocks.
func (q *Query) RunFrom(entries map[*ssa.BasicBlock][]uint64) {
	type edgeKey struct {
		b *ssa.BasicBlock
		k int
	}
	masks := map[edgeKey][]uint64{}
	hookCache := map[edgeKey]func(uint32) []uint32{}
	var work []*ssa.BasicBlock
	var ents []*ssa.BasicBlock
	for b := range entries {
		ents = append(ents, b)
	}
	sort.Slice(ents, func(i, j int) bool { return ents[i].Index < ents[j].Index })
	for _, b := range ents {
		init := entries[b]
		if init == nil {
			init = q.full()
		}
		q.In[b] = append([]uint64(nil), init...)
		work = append(work, b)
	}
	inWork := map[*ssa.BasicBlock]bool{}
	for _, b := range work {
		inWork[b] = true
	}
	for len(work) > 0 {
		b := work[0]
		work = work[1:]
		inWork[b] = false
		q.Iter++
		out := q.applyHooks(b, q.In[b], nil)
		for k, succ := range b.Succs {
			if q.Barrier[succ] {
				continue
			}
			if q.CutEdge != nil && q.CutEdge(b, k) {
				continue
			}
			ek := edgeKey{b, k}
			m, ok := masks[ek]
			if !ok {
				m = q.mask(q.A.EdgeCond(b, k))
				masks[ek] = m
			}
			st := make([]uint64, len(out))
			any := false
			for i := range out {
				st[i] = out[i] & m[i]
				if st[i] != 0 {
					any = true
				}
			}
			if !any {
				continue
			}
			if q.EdgeHook != nil {
				h, cached := hookCache[ek]
				if !cached {
					h = q.EdgeHook(b, k)
					hookCache[ek] = h
				}
				if h != nil {
					out2 := make([]uint64, len(st))
					q.forEach(st, func(a uint32) {
						for _, c := range h(a) {
							out2[c/64] |= 1 << (c % 64)
						}
					})
					st = out2
				}
			}
			st = q.assignPhis(b, succ, st)
			if succ.Dominates(b) { // back edge: forget atoms about values redefined in the loop
				for _, t := range q.Tracked {
					at := q.A.Atoms[t]
					if at.Ev {
						continue
					}
					for _, d := range at.Deps {
						if in, ok := d.(ssa.Instruction); ok && in.Block() != nil && in.Block().Parent() == q.A.Fn && succ.Dominates(in.Block()) {
							if at.Phi != nil && at.Phi.Block() == succ {
								break // assigned below
							}
							st = q.forget(st, q.pos[t])
							break
						}
					}
				}
			}
			cur := q.In[succ]
			if cur == nil {
				cur = make([]uint64, q.nWords)
				q.In[succ] = cur
				// force visit
				if !inWork[succ] {
					work = append(work, succ)
					inWork[succ] = true
				}
			}
			changed := false
			for i := range st {
				if st[i]&^cur[i] != 0 {
					cur[i] |= st[i]
					changed = true
				}
			}
			if changed && !inWork[succ] {
				work = append(work, succ)
				inWork[succ] = true
			}
		}
	}
}

func (q *Query) forget(s []uint64, p int) []uint64 {
	a, b := q.setBit(s, p, true), q.setBit(s, p, false)
	for i := range a {
		a[i] |= b[i]
	}
	return a
}

func (q *Query) assignPhis(pred, succ *ssa.BasicBlock, s []uint64) []uint64 {
	type asg struct {
		p int
		f *F
	}
	var as []asg
	pi := -1
	for i, p := range succ.Preds {
		if p == pred {
			pi = i
		}
	}
	for _, ai := range q.Tracked {
		at := q.A.Atoms[ai]
		if at.Phi == nil || at.Phi.Block() != succ || pi < 0 {
			continue
		}
		as = append(as, asg{q.pos[ai], q.A.PhiEdgeCond(at, pi)})
	}
	if len(as) == 0 {
		return s
	}
	// parallel assignment: partition the old state by the (tri-state) values of all operands, then
	// apply the bit updates to each part.
	parts := [][]uint64{s}
	type upd struct {
		p   int
		val int8
	}
	partUpd := [][]upd{nil}
	for _, x := range as {
		t, f := q.tf(x.f)
		var np [][]uint64
		var nu [][]upd
		for pi, part := range parts {
			pt, pf, pu := make([]uint64, len(part)), make([]uint64, len(part)), make([]uint64, len(part))
			anyT, anyF, anyU := false, false, false
			for i, w := range part {
				pt[i] = w & t[i]
				pf[i] = w & f[i]
				pu[i] = w &^ t[i] &^ f[i]
				anyT = anyT || pt[i] != 0
				anyF = anyF || pf[i] != 0
				anyU = anyU || pu[i] != 0
			}
			if anyT {
				np = append(np, pt)
				nu = append(nu, append(append([]upd(nil), partUpd[pi]...), upd{x.p, vT}))
			}
			if anyF {
				np = append(np, pf)
				nu = append(nu, append(append([]upd(nil), partUpd[pi]...), upd{x.p, vF}))
			}
			if anyU {
				np = append(np, pu)
				nu = append(nu, append(append([]upd(nil), partUpd[pi]...), upd{x.p, vU}))
			}
		}
		parts, partUpd = np, nu
	}
	out := make([]uint64, len(s))
	for pi, part := range parts {
		cur := part
		for _, u := range partUpd[pi] {
			switch u.val {
			case vT:
				cur = q.setBit(cur, u.p, true)
			case vF:
				cur = q.setBit(cur, u.p, false)
			default:
				cur = q.forget(cur, u.p)
			}
		}
		for i := range out {
			out[i] |= cur[i]
		}
	}
	return out
}

func (q *Query) applyHooks(b *ssa.BasicBlock, s []uint64, until ssa.Instruction) []uint64 {
	if len(q.Hooks) == 0 || s == nil {
		return s
	}
	for _, in := range b.Instrs {
		if in == until {
			break
		}
		h, ok := q.Hooks[in]
		if !ok {
			continue
		}
		out := make([]uint64, len(s))
		q.forEach(s, func(a uint32) {
			for _, c := range h(a) {
				out[c/64] |= 1 << (c % 64)
			}
		})
		s = out
	}
	return s
}

// StateAt returns the state just before instruction in (nil if unreachable in the region).
func (q *Query) StateAt(in ssa.Instruction) []uint64 {
	s := q.In[in.Block()]
	if s == nil {
		return nil
	}
	return q.applyHooks(in.Block(), s, in)
}

// StateAtEnd returns the state after all instructions of b.
func (q *Query) StateAtEnd(b *ssa.BasicBlock) []uint64 {
	s := q.In[b]
	if s == nil {
		return nil
	}
	return q.applyHooks(b, s, nil)
}

// Reachable reports whether the block was reached.
func (q *Query) Reachable(b *ssa.BasicBlock) bool {
	s := q.In[b]
	for _, w := range s {
		if w != 0 {
			return true
		}
	}
	return false
}

// Holds decides whether goal is definitely true in every assignment of state s; on failure a
// falsifying assignment is rendered.
func (q *Query) Holds(s []uint64, goal *F) (bool, string) {
	if s == nil {
		return true, ""
	}
	t, _ := q.tf(goal)
	for i, w := range s {
		if bad := w &^ t[i]; bad != 0 {
			b := uint32(0)
			for bad&(1<<b) == 0 {
				b++
			}
			return false, q.Render(uint32(i*64) + b)
		}
	}
	return true, ""
}

// Render prints an assignment.
func (q *Query) Render(a uint32) string {
	var ps []string
	for p, t := range q.Tracked {
		v := "F"
		if a>>uint(p)&1 == 1 {
			v = "T"
		}
		ps = append(ps, q.A.Name(t)+"="+v)
	}
	return strings.Join(ps, ", ")
}

// Empty reports whether s has no assignment.
func Empty(s []uint64) bool {
	for _, w := range s {
		if w != 0 {
			return false
		}
	}
	return true
}

// SetBit / ClearBit / Bit helpers for hooks.
func (q *Query) Bit(a uint32, atom int) bool { return a>>uint(q.pos[atom])&1 == 1 }
func (q *Query) With(a uint32, atom int, v bool) uint32 {
	if v {
		return a | 1<<uint(q.pos[atom])
	}
	return a &^ (1 << uint(q.pos[atom]))
}

// EdgeState returns the state flowing along edge b -> b.Succs[k] (edge condition applied; no hooks,
// no phi assignment).
func (q *Query) EdgeState(b *ssa.BasicBlock, k int) []uint64 {
	s := q.StateAtEnd(b)
	if s == nil {
		return nil
	}
	return q.Filter(s, q.A.EdgeCond(b, k))
}

// InitWith returns the full state restricted to assignments where the given atoms have the given values.
func (q *Query) InitWith(vals map[int]bool) []uint64 {
	s := q.full()
	for at, v := range vals {
		f := AtomF(at)
		if !v {
			f = Not(f)
		}
		s = q.Filter(s, f)
	}
	return s
}

// Prepare translates every branch condition and every boolean phi operand of the function, so that
// all atoms (including derived flags and the values they are computed from) exist.
func (A *Analysis) Prepare() {
	for _, b := range A.Fn.Blocks {
		if ifi, ok := b.Instrs[len(b.Instrs)-1].(*ssa.If); ok {
			A.Cond(ifi.Cond)
		}
	}
	for n := -1; n != len(A.Atoms); {
		n = len(A.Atoms)
		for i := 0; i < len(A.Atoms); i++ {
			if ph := A.Atoms[i].Phi; ph != nil {
				for ei := range ph.Edges {
					A.PhiEdgeCond(A.Atoms[i], ei)
				}
			}
		}
	}
}

// ReturnsTrue returns the condition, over the function's own atoms, under which an acyclic bool function returns true
// (nil if the function has loops or too many paths).
func (A *Analysis) ReturnsTrue() *F {
	fn := A.Fn
	var alts []*F
	for _, rb := range fn.Blocks {
		ret, ok := rb.Instrs[len(rb.Instrs)-1].(*ssa.Return)
		if !ok {
			continue
		}
		if len(ret.Results) != 1 {
			return nil
		}
		var paths [][]*ssa.BasicBlock
		if rb == fn.Blocks[0] {
			paths = [][]*ssa.BasicBlock{{rb}}
		} else {
			paths = simplePaths(fn.Blocks[0], rb, 256)
			if paths == nil {
				return nil
			}
		}
		for _, p := range paths {
			for _, blk := range p {
				if A.loopHd[blk] {
					return nil
				}
			}
			c, pc := A.pathCond(p)
			alts = append(alts, And(c, A.cond(ret.Results[0], pc)))
		}
	}
	return Or(alts...)
}

package pa

import (
	"sort"
	"strings"
)

// F is a propositional formula over atom indexes (of an Analysis' atom universe).
type F struct {
	Op   byte // 'c' const, 'a' atom, '!' not, '&' and, '|' or
	C    bool
	Atom int
	Kids []*F
}

var (
	True  = &F{Op: 'c', C: true}
	False = &F{Op: 'c', C: false}
)

func AtomF(i int) *F { return &F{Op: 'a', Atom: i} }

func Not(f *F) *F {
	switch f.Op {
	case 'c':
		if f.C {
			return False
		}
		return True
	case '!':
		return f.Kids[0]
	}
	return &F{Op: '!', Kids: []*F{f}}
}

func And(fs ...*F) *F {
	var ks []*F
	for _, f := range fs {
		if f.Op == 'c' {
			if !f.C {
				return False
			}
			continue
		}
		if f.Op == '&' {
			ks = append(ks, f.Kids...)
			continue
		}
		ks = append(ks, f)
	}
	switch len(ks) {
	case 0:
		return True
	case 1:
		return ks[0]
	}
	return &F{Op: '&', Kids: ks}
}

func Or(fs ...*F) *F {
	var ks []*F
	for _, f := range fs {
		if f.Op == 'c' {
			if f.C {
				return True
			}
			continue
		}
		if f.Op == '|' {
			ks = append(ks, f.Kids...)
			continue
		}
		ks = append(ks, f)
	}
	switch len(ks) {
	case 0:
		return False
	case 1:
		return ks[0]
	}
	return &F{Op: '|', Kids: ks}
}

func Implies(a, b *F) *F { return Or(Not(a), b) }

// Atoms collects atom indexes occurring in f.
func (f *F) Atoms(into map[int]bool) {
	switch f.Op {
	case 'a':
		into[f.Atom] = true
	case '!', '&', '|':
		for _, k := range f.Kids {
			k.Atoms(into)
		}
	}
}

// tri-state evaluation
const (
	vF int8 = 0
	vT int8 = 1
	vU int8 = 2
)

// Eval3 evaluates f under val (a function giving vT/vF/vU per atom).
func (f *F) Eval3(val func(atom int) int8) int8 {
	switch f.Op {
	case 'c':
		if f.C {
			return vT
		}
		return vF
	case 'a':
		return val(f.Atom)
	case '!':
		switch f.Kids[0].Eval3(val) {
		case vT:
			return vF
		case vF:
			return vT
		}
		return vU
	case '&':
		r := vT
		for _, k := range f.Kids {
			switch k.Eval3(val) {
			case vF:
				return vF
			case vU:
				r = vU
			}
		}
		return r
	case '|':
		r := vF
		for _, k := range f.Kids {
			switch k.Eval3(val) {
			case vT:
				return vT
			case vU:
				r = vU
			}
		}
		return r
	}
	return vU
}

// String renders f with atom names.
func (f *F) String(name func(int) string) string {
	switch f.Op {
	case 'c':
		if f.C {
			return "true"
		}
		return "false"
	case 'a':
		return name(f.Atom)
	case '!':
		return "!" + f.Kids[0].String(name)
	}
	var ps []string
	for _, k := range f.Kids {
		ps = append(ps, k.String(name))
	}
	if f.Op == '&' {
		return "(" + strings.Join(ps, " && ") + ")"
	}
	sort.Strings(ps)
	return "(" + strings.Join(ps, " || ") + ")"
}

// Subst replaces atom a by the constant v and folds constants.
func (f *F) Subst(a int, v bool) *F {
	switch f.Op {
	case 'c':
		return f
	case 'a':
		if f.Atom == a {
			if v {
				return True
			}
			return False
		}
		return f
	case '!':
		return Not(f.Kids[0].Subst(a, v))
	case '&':
		ks := make([]*F, len(f.Kids))
		for i, k := range f.Kids {
			ks[i] = k.Subst(a, v)
		}
		return And(ks...)
	case '|':
		ks := make([]*F, len(f.Kids))
		for i, k := range f.Kids {
			ks[i] = k.Subst(a, v)
		}
		return Or(ks...)
	}
	return f
}

// Equivalent decides f ≡ g by truth table (false if more than 16 atoms are involved).
func Equivalent(f, g *F) bool {
	m := map[int]bool{}
	f.Atoms(m)
	g.Atoms(m)
	if len(m) > 16 {
		return false
	}
	atoms := make([]int, 0, len(m))
	for a := range m {
		atoms = append(atoms, a)
	}
	sort.Ints(atoms)
	pos := map[int]int{}
	for i, a := range atoms {
		pos[a] = i
	}
	for x := uint32(0); x < 1<<uint(len(atoms)); x++ {
		val := func(a int) int8 {
			if x>>uint(pos[a])&1 == 1 {
				return vT
			}
			return vF
		}
		if f.Eval3(val) != g.Eval3(val) {
			return false
		}
	}
	return true
}

// DropInessential removes atoms the value of f does not depend on.
func DropInessential(f *F) *F {
	m := map[int]bool{}
	f.Atoms(m)
	atoms := make([]int, 0, len(m))
	for a := range m {
		atoms = append(atoms, a)
	}
	sort.Ints(atoms)
	for _, a := range atoms {
		t, e := f.Subst(a, true), f.Subst(a, false)
		if Equivalent(t, e) {
			f = t
		}
	}
	return f
}

package pa

import (
	"sort"
	"strings"
)

// F is a propositional formula over atom indexes (of an Analysis' atom universe).
type F struct {
	Op   byte // 'c' const, 'a' atom, '!' not, '&' and, '|' or
	C    bool
	Atom int
	Kids []*F
}

var (
	True  = &F{Op: 'c', C: true}
	False = &F{Op: 'c', C: false}
)

func AtomF(i int) *F { return &F{Op: 'a', Atom: i} }

func Not(f *F) *F {
	switch f.Op {
	case 'c':
		if f.C {
			return False
		}
		return True
	case '!':
		return f.Kids[0]
	}
	return &F{Op: '!', Kids: []*F{f}}
}

func And(fs ...*F) *F {
	var ks []*F
	for _, f := range fs {
		if f.Op == 'c' {
			if !f.C {
				return False
			}
			continue
		}
		if f.Op == '&' {
			ks = append(ks, f.Kids...)
			continue
		}
		ks = append(ks, f)
	}
	switch len(ks) {
	case 0:
		return True
	case 1:
		return ks[0]
	}
	return &F{Op: '&', Kids: ks}
}

func Or(fs ...*F) *F {
	var ks []*F
	for _, f := range fs {
		if f.Op == 'c' {
			if f.C {
				return True
			}
			continue
		}
		if f.Op == '|' {
			ks = append(ks, f.Kids...)
			continue
		}
		ks = append(ks, f)
	}
	switch len(ks) {
	case 0:
		return False
	case 1:
		return ks[0]
	}
	return &F{Op: '|', Kids: ks}
}

func Implies(a, b *F) *F { return Or(Not(a), b) }

// Atoms collects atom indexes occurring in f.
func (f *F) Atoms(into map[int]bool) {
	switch f.Op {
	case 'a':
		into[f.Atom] = true
	case '!', '&', '|':
		for _, k := range f.Kids {
			k.Atoms(into)
		}
	}
}

// tri-state evaluation
const (
	vF int8 = 0
	vT int8 = 1
	vU int8 = 2
)

// Eval3 evaluates f under val (a function giving vT/vF/vU per atom).
func (f *F) Eval3(val func(atom int) int8) int8 {
	switch f.Op {
	case 'c':
		if f.C {
			return vT
		}
		return vF
	case 'a':
		return val(f.Atom)
	case '!':
		switch f.Kids[0].Eval3(val) {
		case vT:
			return vF
		case vF:
			return vT
		}
		return vU
	case '&':
		r := vT
		for _, k := range f.Kids {
			switch k.Eval3(val) {
			case vF:
				return vF
			case vU:
				r = vU
			}
		}
		return r
	case '|':
		r := vF
		for _, k := range f.Kids {
			switch k.Eval3(val) {
			case vT:
				return vT
			case vU:
				r = vU
			}
		}
		return r
	}
	return vU
}

// String renders f with atom names.
func (f *F) String(name func(int) string) string {
	switch f.Op {
	case 'c':
		if f.C {
			return "true"
		}
		return "false"
	case 'a':
		return name(f.Atom)
	case '!':
		return "!" + f.Kids[0].String(name)
	}
	var ps []string
	for _, k := range f.Kids {
		ps = append(ps, k.String(name))
	}
	if f.Op == '&' {
		return "(" + strings.Join(ps, " && ") + ")"
	}
	sort.Strings(ps)
	return "(" + strings.Join(ps, " || ") + ")"
}

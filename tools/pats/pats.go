// Package pats extracts regexp pattern constants from the type-checked program.
package pats

import (
	"go/ast"
	"go/constant"
	"go/token"
	"go/types"
	"sort"

	"golang.org/x/tools/go/packages"
	"golang.org/x/tools/go/types/typeutil"
)

// Var is a package-level `var X = regexp.MustCompile(<const>)`.
type Var struct {
	Name    string
	Pkg     string
	Obj     types.Object
	Pattern string
	Const   bool // pattern argument folded to a constant
	Pos     token.Pos
	// Writes lists positions of assignments / address-taking of the variable outside its declaration.
	Writes []token.Pos
}

// IsMustCompile reports whether call is regexp.MustCompile / regexp.Compile (resolved through types).
func IsMustCompile(info *types.Info, call *ast.CallExpr) bool {
	fn, _ := typeutil.Callee(info, call).(*types.Func)
	if fn == nil || fn.Pkg() == nil || fn.Pkg().Path() != "regexp" {
		return false
	}
	// the POSIX constructors parse another syntax (^ and $ are line anchors, leftmost-longest): a pattern compiled by them is
	// not the language computed here — such a variable is not recognised, and the rule about it fails as undecided
	return fn.Name() == "MustCompile" || fn.Name() == "Compile"
}

// isCompileWrapper: call of a function of the same package whose whole body is `return regexp.MustCompile(p)`, p being
// its only parameter (a wrapper a refactoring may put around the package-level patterns).
func isCompileWrapper(pkg *packages.Package, call *ast.CallExpr) bool {
	fn, _ := typeutil.Callee(pkg.TypesInfo, call).(*types.Func)
	if fn == nil || fn.Pkg() != pkg.Types {
		return false
	}
	for _, f := range pkg.Syntax {
		for _, d := range f.Decls {
			fd, ok := d.(*ast.FuncDecl)
			if !ok || pkg.TypesInfo.Defs[fd.Name] != types.Object(fn) || fd.Body == nil || fd.Recv != nil {
				continue
			}
			if len(fd.Body.List) != 1 || fd.Type.Params == nil || len(fd.Type.Params.List) != 1 || len(fd.Type.Params.List[0].Names) != 1 {
				return false
			}
			ret, ok := fd.Body.List[0].(*ast.ReturnStmt)
			if !ok || len(ret.Results) != 1 {
				return false
			}
			inner, ok := ast.Unparen(ret.Results[0]).(*ast.CallExpr)
			if !ok || len(inner.Args) != 1 {
				return false
			}
			callee, _ := typeutil.Callee(pkg.TypesInfo, inner).(*types.Func)
			if callee == nil || callee.Pkg() == nil || callee.Pkg().Path() != "regexp" || callee.Name() != "MustCompile" {
				return false
			}
			id, ok := ast.Unparen(inner.Args[0]).(*ast.Ident)
			return ok && pkg.TypesInfo.Uses[id] == pkg.TypesInfo.Defs[fd.Type.Params.List[0].Names[0]]
		}
	}
	return false
}

// ConstString folds e to a string constant if possible.
func ConstString(info *types.Info, e ast.Expr) (string, bool) {
	tv, ok := info.Types[e]
	if !ok || tv.Value == nil || tv.Value.Kind() != constant.String {
		return "", false
	}
	return constant.StringVal(tv.Value), true
}

// RegexpVars returns all package-level regexp variables of pkg, sorted by name.
func RegexpVars(pkg *packages.Package) []*Var {
	var out []*Var
	for _, f := range pkg.Syntax {
		for _, d := range f.Decls {
			gd, ok := d.(*ast.GenDecl)
			if !ok || gd.Tok != token.VAR {
				continue
			}
			for _, sp := range gd.Specs {
				vs := sp.(*ast.ValueSpec)
				if len(vs.Values) != len(vs.Names) {
					continue
				}
				for i, name := range vs.Names {
					call, ok := ast.Unparen(vs.Values[i]).(*ast.CallExpr)
					if !ok || len(call.Args) != 1 || !(IsMustCompile(pkg.TypesInfo, call) || isCompileWrapper(pkg, call)) {
						continue
					}
					v := &Var{Name: name.Name, Pkg: pkg.PkgPath, Obj: pkg.TypesInfo.Defs[name], Pos: name.Pos()}
					v.Pattern, v.Const = ConstString(pkg.TypesInfo, call.Args[0])
					out = append(out, v)
				}
			}
		}
	}
	sort.Slice(out, func(i, j int) bool { return out[i].Name < out[j].Name })
	return out
}

// FindWrites records, for each var, every assignment to it (or &X, X++, range-assign) in any of pkgs.
func FindWrites(vars []*Var, pkgs []*packages.Package) {
	byObj := map[types.Object]*Var{}
	for _, v := range vars {
		byObj[v.Obj] = v
	}
	for _, pkg := range pkgs {
		info := pkg.TypesInfo
		obj := func(e ast.Expr) *Var {
			switch x := ast.Unparen(e).(type) {
			case *ast.Ident:
				return byObj[info.Uses[x]]
			case *ast.SelectorExpr:
				return byObj[info.Uses[x.Sel]]
			}
			return nil
		}
		for _, f := range pkg.Syntax {
			ast.Inspect(f, func(n ast.Node) bool {
				switch x := n.(type) {
				case *ast.AssignStmt:
					for _, l := range x.Lhs {
						if v := obj(l); v != nil {
							v.Writes = append(v.Writes, l.Pos())
						}
					}
				case *ast.IncDecStmt:
					if v := obj(x.X); v != nil {
						v.Writes = append(v.Writes, x.Pos())
					}
				case *ast.UnaryExpr:
					if x.Op == token.AND {
						if v := obj(x.X); v != nil {
							v.Writes = append(v.Writes, x.Pos())
						}
					}
				case *ast.RangeStmt:
					for _, l := range []ast.Expr{x.Key, x.Value} {
						if l != nil && x.Tok == token.ASSIGN {
							if v := obj(l); v != nil {
								v.Writes = append(v.Writes, l.Pos())
							}
						}
					}
				case *ast.CallExpr:
					// a method with pointer receiver that mutates a *regexp.Regexp: Longest
					if sel, ok := x.Fun.(*ast.SelectorExpr); ok && sel.Sel.Name == "Longest" {
						if v := obj(sel.X); v != nil {
							v.Writes = append(v.Writes, x.Pos())
						}
					}
				}
				return true
			})
		}
	}
}

package rules

import (
	"fmt"
	"strings"

	"golang.org/x/tools/go/ssa"

	"verif/tools/load"
	"verif/tools/model"
	"verif/tools/pa"
)

func init() { register("C05", "other", runC05) }

// mrsPhi finds the "most recently started element" loop variable: the string-typed loop-header phi
// that is compared with "script"/"style" inside the Text arm.
func (sc *SC) mrsPhi() *ssa.Phi {
	var found *ssa.Phi
	for _, at := range sc.A.Atoms {
		if at.Kind != "eq" {
			continue
		}
		k, ok := constString(at.Y)
		if !ok || (k != "script" && k != "style") {
			continue
		}
		if phi, ok := at.Resolve(at.X).(*ssa.Phi); ok && phi.Block() == sc.S.Header {
			found = phi
		}
	}
	return found
}

func (sc *SC) mrsTests(phi *ssa.Phi, lit string) []int {
	var out []int
	for i, at := range sc.A.Atoms {
		if at.Kind != "eq" {
			continue
		}
		if k, ok := constString(at.Y); ok && k == lit && at.Resolve(at.X) == ssa.Value(phi) {
			out = append(out, i)
		}
	}
	return out
}

func runC05(c *Ctx) {
	R := c.R
	R.Rule("C05.R1", "unsafe gate: in each of the StartTag, EndTag and SelfClosingTag arms, at every tag write the path condition implies allowUnsafe ∨ norm(token.Data)≠\"script\" and likewise for \"style\", where norm is token.Data or a name-preserving image of it (decided from the arm entry, so no element-table edge can bypass it)")
	R.Rule("C05.R2a", "the most-recently-started-element loop variable receives a name-preserving image of the current token's name on every back edge leaving the StartTag arm and (for non-void elements) the SelfClosingTag arm (in particular on the gate's continue edges) and is otherwise only kept, or reset to \"\" under equality with the end tag's name")
	R.Rule("C05.R2b", "content suppression: in the Text arm every write happens under allowUnsafe ∨ mrs≠\"script\" and allowUnsafe ∨ mrs≠\"style\"")
	R.Rule("C05.R3", "the gate's flag has a single writer: the allowUnsafe field is stored only by (*Policy).AllowUnsafe, from its parameter")
	R.Assume(TrustGo, TrustTokenizer, "strings.ToLower and strconv.QuoteToASCII followed by trimming the quotes are the identity on lower-case ASCII names and map no other string onto \"script\"/\"style\"")
	sc := newSC(c, "C05.R1")
	if sc == nil {
		return
	}
	R.Rule("C05.R6", "what the gate let through is what the caller gets: the entry points return the sanitiser's output unmodified (= C15.R1, cited) — a normalisation of the finished output (dropping bytes, case folding) can re-form a script/style tag from a name that passed the gate")
	c15FunnelRule(c, "C05.R6")
	R.Rule("C05.R8", "raw token data is written only under allowUnsafe (= C06.R1, cited for every arm): the tokenizer delivers the content of iframe, noembed, noframes, xmp … as one raw text token, <script> markup included — written unescaped it is live markup again")
	rawOnlyUnderUnsafe(sc, "C05.R8", "text can reach the output unescaped without AllowUnsafe — script or style markup inside a raw-text element becomes live")
	R.Rule("C05.R7", "what is not a tag cannot become one (= C20.R3 / C01.R1, cited): every destination write of sanitize is Token.String() (or a space, or raw data, whose allowUnsafe guard is R2b/C06.R1) — a comment or text written in pieces or through another escaper can close itself and re-form a script element")
	singleSerialiser(c, "C05.R7", "text or comment data that the tokenizer decoded is written without the escaping that keeps it from being read as markup — a <script> can re-form in the output")
	R.Rule("C05.R5", "the name the gate judges is the name that is written: token.Data is never stored to in sanitize after the token was read")
	tokenNameFixed(c, "C05.R5", "the script/style gate (and the most-recently-started variable) judged another spelling than the one Token.String() emits — a name that only becomes \"script\" after the rewrite passes the gate")
	R.Rule("C05.R4", "raw text arrives whole: the tokenizer runs in its default configuration (only Next/Token/Err/Raw are called on it), so the body of a script or style element is one text token directly after its start tag — the only shape the most-recently-started test suppresses")
	c06TokenizerConfig(sc, "C05.R4", "the tokenizer is reconfigured or handed on: the body of a script/style element may then be delivered in pieces (tags, comments, several text tokens) and only the first piece is suppressed")
	U := sc.U()
	S := sc.nameTests("script")
	T := sc.nameTests("style")
	R.Role("C05.R1", "test of the token's normalised name against \"script\"", len(S), 1)
	R.Role("C05.R1", "test of the token's normalised name against \"style\"", len(T), 1)
	gS := pa.Or(U, pa.Not(pa.And(lits(S)...)))
	gT := pa.Or(U, pa.Not(pa.And(lits(T)...)))
	if len(S) == 0 {
		gS = U
	}
	if len(T) == 0 {
		gT = U
	}
	for _, arm := range tagArms {
		q, err := sc.armQuery(arm, gS, gT)
		if err != nil {
			R.Unknown("C05.R1", "arm:"+arm, "(*Policy).sanitize arm "+arm, "", err.Error())
			continue
		}
		n := 0
		for i, w := range sc.S.Writes {
			if w.Arm != arm || w.Payload == "Space" {
				continue
			}
			n++
			st := q.StateAt(w.Call)
			for _, g := range []struct {
				name string
				f    *pa.F
			}{{"script", gS}, {"style", gT}} {
				key := writeKey(sc.S, i) + ":" + g.name
				if st == nil {
					R.OK("C05.R1", key, writeDescr(w), sc.pos(w.Call), "write unreachable from the arm entry")
					continue
				}
				ok, cex := q.Holds(st, g.f)
				R.Check(ok, "C05.R1", key, writeDescr(w)+" vs "+g.name, sc.pos(w.Call),
					"path condition implies "+sc.A.Str(g.f),
					"a "+g.name+" tag can be written without AllowUnsafe: reachable with ["+cex+"]")
			}
		}
		R.Role("C05.R1", "tag write in arm "+arm, n, 1)
	}

	// R2b
	phi := sc.mrsPhi()
	if phi == nil {
		R.Unknown("C05.R2b", "mrs", "(*Policy).sanitize: most-recently-started-element variable", "", "no loop-header string variable compared with \"script\"/\"style\" found (anchor lost)")
	} else {
		Ms, Mt := sc.mrsTests(phi, "script"), sc.mrsTests(phi, "style")
		R.Role("C05.R2b", "test of mrs against \"script\"", len(Ms), 1)
		R.Role("C05.R2b", "test of mrs against \"style\"", len(Mt), 1)
		g1 := pa.Or(U, pa.Not(pa.And(lits(Ms)...)))
		g2 := pa.Or(U, pa.Not(pa.And(lits(Mt)...)))
		if len(Ms) == 0 {
			g1 = U
		}
		if len(Mt) == 0 {
			g2 = U
		}
		q, err := sc.armQuery("Text", g1, g2)
		if err != nil {
			R.Unknown("C05.R2b", "arm:Text", "Text arm", "", err.Error())
		} else {
			n := 0
			for i, w := range sc.S.Writes {
				if w.Arm != "Text" {
					continue
				}
				n++
				st := q.StateAt(w.Call)
				for gi, g := range []*pa.F{g1, g2} {
					key := fmt.Sprintf("%s:%d", writeKey(sc.S, i), gi)
					if st == nil {
						R.OK("C05.R2b", key, writeDescr(w), sc.pos(w.Call), "unreachable")
						continue
					}
					ok, cex := q.Holds(st, g)
					R.Check(ok, "C05.R2b", key, writeDescr(w), sc.pos(w.Call), "path condition implies "+sc.A.Str(g), "text inside script/style can be written without AllowUnsafe: ["+cex+"]")
				}
			}
			R.Role("C05.R2b", "text writes", n, 1)
		}
		qs := map[string]*pa.Query{}
		c05MRS(sc, phi, func(arm string, pred *ssa.BasicBlock) bool {
			q, ok := qs[arm]
			if !ok {
				var err error
				if q, err = sc.armQuery(arm, gS, gT); err != nil {
					q = nil
				}
				qs[arm] = q
			}
			if q == nil {
				return false
			}
			for k, sb := range pred.Succs {
				if sb != sc.S.Header {
					continue
				}
				st := q.EdgeState(pred, k)
				if st == nil || pa.Empty(st) {
					return true // not reachable from the arm's entry
				}
				if ok, _ := q.Holds(st, pa.And(gS, gT)); ok {
					return true
				}
			}
			return false
		})
	}

	// R3: single writer of allowUnsafe
	f := sc.F.Get("allowUnsafe")
	n := 0
	for _, fn := range moduleFuncs(c.P) {
		for _, b := range fn.Blocks {
			for _, in := range b.Instrs {
				st, ok := in.(*ssa.Store)
				if !ok || model.PolicyField(st.Addr) != f {
					continue
				}
				n++
				okW := fn == c.P.Func(load.ModPath, "(*Policy).AllowUnsafe") && len(fn.Params) == 2 && st.Val == ssa.Value(fn.Params[1])
				R.Check(okW, "C05.R3", "store:"+shortFn(fn), shortFn(fn)+": store to Policy."+f, c.P.Pos(st.Pos()), "stores AllowUnsafe's parameter", "allowUnsafe is written outside AllowUnsafe or from something other than its parameter")
			}
		}
	}
	R.Role("C05.R3", "stores to the allowUnsafe field", n, 1)
}

func lits(atoms []int) []*pa.F {
	var fs []*pa.F
	for _, a := range atoms {
		fs = append(fs, pa.AtomF(a))
	}
	return fs
}

func shortFn(fn *ssa.Function) string { return pa.CalleeName(fn) }

// moduleFuncs returns every function (incl. methods, closures, init) of the module's packages.
func moduleFuncs(P *load.Program) []*ssa.Function {
	var out []*ssa.Function
	seen := map[*ssa.Function]bool{}
	var add func(fn *ssa.Function)
	add = func(fn *ssa.Function) {
		if fn == nil || seen[fn] || len(fn.Blocks) == 0 {
			return
		}
		seen[fn] = true
		out = append(out, fn)
		for _, an := range fn.AnonFuncs {
			add(an)
		}
	}
	for _, sp := range P.SSA {
		for _, m := range sp.Members {
			switch x := m.(type) {
			case *ssa.Function:
				add(x)
			case *ssa.Type:
				for _, ptr := range []bool{false, true} {
					t := x.Type()
					ms := P.Prog.MethodSets.MethodSet(t)
					if ptr {
						ms = P.Prog.MethodSets.MethodSet(ptrTo(t))
					}
					for i := 0; i < ms.Len(); i++ {
						f := P.Prog.MethodValue(ms.At(i))
						if f != nil && f.Synthetic == "" {
							add(f)
						}
					}
				}
			}
		}
	}
	// helpers whose every call was inlined by the normaliser (and any other unexported, non-anchor function nothing
	// refers to) cannot run: they are not part of the analysed program
	referenced := map[*ssa.Function]bool{}
	for _, fn := range out {
		for _, b := range fn.Blocks {
			for _, in := range b.Instrs {
				var ops []*ssa.Value
				for _, op := range in.Operands(ops) {
					if op == nil || *op == nil {
						continue
					}
					switch x := (*op).(type) {
					case *ssa.Function:
						referenced[x] = true
					case *ssa.MakeClosure:
						if f, ok := x.Fn.(*ssa.Function); ok {
							referenced[f] = true
						}
					}
				}
			}
		}
	}
	var live []*ssa.Function
	for _, fn := range out {
		if fn.Parent() == nil && fn.Pkg != nil && !referenced[fn] && fn.Object() != nil && !fn.Object().Exported() &&
			fn.Name() != "init" && fn.Name() != "main" && !load.Anchors[fn.Pkg.Pkg.Path()+"."+fn.Name()] {
			continue
		}
		live = append(live, fn)
	}
	// closures of dropped functions go with them
	dropped := map[*ssa.Function]bool{}
	for _, fn := range out {
		dropped[fn] = true
	}
	for _, fn := range live {
		delete(dropped, fn)
	}
	var res []*ssa.Function
	for _, fn := range live {
		p := fn.Parent()
		gone := false
		for p != nil {
			if dropped[p] {
				gone = true
			}
			p = p.Parent()
		}
		if !gone {
			res = append(res, fn)
		}
	}
	sortFuncs(res)
	return res
}

// pastGate(arm, pred): on the back edge from pred the path condition implies allowUnsafe ∨ name ∉ {script, style} — the
// element started is not one whose text has to be suppressed, so what the variable holds there cannot let script or style
// text through (it can at most suppress more).
func c05MRS(sc *SC, phi *ssa.Phi, pastGate func(arm string, pred *ssa.BasicBlock) bool) {
	R := sc.c.R
	hdr := sc.S.Header
	nStart := 0
	for i, pred := range hdr.Preds {
		op := phi.Edges[i]
		arm := sc.S.ArmOf(pred)
		key := fmt.Sprintf("backedge:%s:b%s", arm, blockRole(sc, pred))
		pos := sc.c.P.Pos(lastPos(pred))
		cons := fmt.Sprintf("(*Policy).sanitize: value of the most-recently-started variable on the back edge from arm %s", arm)
		switch {
		case !hdr.Dominates(pred):
			// loop entry
			k, ok := constString(op)
			R.Check(ok && k == "", "C05.R2a", "entry", "(*Policy).sanitize: initial value of the most-recently-started variable", pos, "initialised to \"\"", "not initialised to the empty string")
		case arm == "StartTag":
			nStart++
			ok := nameChain(op, func(x ssa.Value) bool { return sc.S.TokenField(x) == "Data" }, nil, 0)
			if !ok && pastGate(arm, pred) {
				R.OK("C05.R2a", key, cons, pos, "past the gate: on this edge allowUnsafe holds or the element is neither script nor style, so nothing has to be recorded for the suppression of its text")
				continue
			}
			R.Check(ok, "C05.R2a", key, cons, pos, "carries a name-preserving image of token.Data", "a StartTag path reaches the next token without recording the element name ("+sc.A.Sym.Of(op)+"): script/style content would then be treated as ordinary text")
		case arm == "SelfClosingTag":
			// the "/" of <script/> or <style/> is ignored by browsers and by the tokenizer, which goes on to deliver
			// the raw text that follows: the name must be recorded here too — always, or on every path on which the
			// element is not a void element
			isName := func(v ssa.Value) bool {
				return nameChain(v, func(x ssa.Value) bool { return sc.S.TokenField(x) == "Data" }, nil, 0)
			}
			ok := isName(op)
			if !ok {
				if p2, isPhi := op.(*ssa.Phi); isPhi {
					ok = true
					voidAtoms := map[int]bool{}
					for _, a := range sc.voidTestAtoms() {
						voidAtoms[a] = true
					}
					for j, e := range p2.Edges {
						if isName(e) {
							continue
						}
						// the old value may only arrive from the "is a void element" side of a void test
						from := p2.Block().Preds[j]
						guarded := false
						// the edge from → merge block itself may be the "is void" side of the test
						for k, sblk := range from.Succs {
							if len(from.Succs) == 2 && sblk == p2.Block() && from.Succs[0] != from.Succs[1] {
								for a, pol := range impliedLiterals(sc.A.EdgeCond(from, k)) {
									if voidAtoms[a] && pol {
										guarded = true
									}
								}
							}
						}
						for d := from; d != nil && !guarded; d = d.Idom() {
							for k, sblk := range d.Succs {
								if len(d.Succs) == 2 && (sblk == from || sblk.Dominates(from)) && len(sblk.Preds) == 1 {
									for a, pol := range impliedLiterals(sc.A.EdgeCond(d, k)) {
										if voidAtoms[a] && pol {
											guarded = true
										}
									}
								}
							}
						}
						if e != ssa.Value(phi) || !guarded {
							ok = false
						}
					}
				}
			}
			if !ok && pastGate(arm, pred) {
				R.OK("C05.R2a", key, cons, pos, "past the gate: on this edge allowUnsafe holds or the element is neither script nor style, so nothing has to be recorded for the suppression of its text")
				continue
			}
			R.Check(ok, "C05.R2a", key, cons, pos, "carries a name-preserving image of token.Data (void elements excepted)", "a self-closing tag of a non-void element reaches the next token without recording the element name ("+stripIDs(sc.A.Sym.Of(op))+"): the text after <script/> or <style/> is the element's raw content and would be emitted as ordinary text")
		default:
			ok, why := keptOrReset(sc, phi, op)
			R.Check(ok, "C05.R2a", key, cons, pos, "variable kept (or reset to \"\" under equality with the end tag's name)", why)
		}
	}
	R.Role("C05.R2a", "back edges leaving the StartTag arm", nStart, 3)
}

// keptOrReset: op is phi itself, or a phi merging phi with "" where "" arrives only under eq(phi, norm(token.Data)).
func keptOrReset(sc *SC, hdrPhi *ssa.Phi, op ssa.Value) (bool, string) {
	if op == ssa.Value(hdrPhi) {
		return true, ""
	}
	p2, ok := op.(*ssa.Phi)
	if !ok {
		return false, "variable overwritten outside the StartTag arm with " + sc.A.Sym.Of(op)
	}
	for i, e := range p2.Edges {
		if e == ssa.Value(hdrPhi) {
			continue
		}
		if k, ok := constString(e); ok && k == "" {
			pred := p2.Block().Preds[i]
			// pred must be reached only on the true edge of eq(hdrPhi, norm(token.Data))
			if len(pred.Preds) == 1 {
				pp := pred.Preds[0]
				if ifi, ok := pp.Instrs[len(pp.Instrs)-1].(*ssa.If); ok && pp.Succs[0] == pred {
					f := sc.A.Cond(ifi.Cond)
					if f.Op == 'a' {
						at := sc.A.Atoms[f.Atom]
						if at.Kind == "eq" {
							x, y := at.Resolve(at.X), at.Resolve(at.Y)
							isName := func(v ssa.Value) bool {
								return nameChain(v, func(z ssa.Value) bool { return sc.S.TokenField(z) == "Data" }, nil, 0)
							}
							if (x == ssa.Value(hdrPhi) && isName(y)) || (y == ssa.Value(hdrPhi) && isName(x)) {
								continue
							}
						}
					}
				}
			}
			return false, "variable reset to \"\" without comparing it with the end tag's name"
		}
		if ok2, why := keptOrReset(sc, hdrPhi, e); !ok2 {
			return false, why
		}
	}
	return true, ""
}

func lastPos(b *ssa.BasicBlock) (p tokenPos) {
	for i := len(b.Instrs) - 1; i >= 0; i-- {
		if b.Instrs[i].Pos().IsValid() {
			return b.Instrs[i].Pos()
		}
	}
	if len(b.Preds) == 1 {
		return lastPos(b.Preds[0])
	}
	return 0
}

// blockRole gives a line-independent label for a block: the payload of the write it contains, or its comment.
func blockRole(sc *SC, b *ssa.BasicBlock) string {
	for _, w := range sc.S.Writes {
		if w.Call.Block() == b {
			return "after-write-" + w.Payload
		}
	}
	if ifi, ok := b.Instrs[len(b.Instrs)-1].(*ssa.If); ok {
		s := sc.A.Str(sc.A.Cond(ifi.Cond))
		if i := strings.Index(s, "@"); i >= 0 {
			s = s[:i]
		}
		return "if-" + s
	}
	return b.Comment
}

package rules

import (
	"fmt"
	"go/token"
	"sort"
	"strings"
	"verif/tools/policyx"
	"verif/tools/relang"

	"golang.org/x/tools/go/ssa"

	"verif/tools/load"
	"verif/tools/model"
	"verif/tools/pa"
)

func init() { register("C20", "other", runC20) }

func runC20(c *Ctx) {
	R := c.R
	R.Rule("C20.R1", "every growth is guarded by an absence test of the same constant: an attribute value is extended with \" token\" only on the false edge of a token-wise presence test for that token on that same value; a synthesised attribute with constant key K is appended only if the most recent traversal of the attribute list saw no attribute with Key == K and none was appended since")
	R.Rule("C20.R2", "every other rewrite of an attribute value is a constant, a projection of the old value (strings.Join of filtered tokens) or validURL's / the rewriter's result — never an extension")
	R.Rule("C20.R4", "a synthesised attribute is never the sole survivor: every append of a sanitiser-made attribute (rel, target, crossorigin, sandbox) is dominated by evidence that the attribute list is non-empty after URL validation — a len(list) > 0 test, or a found-flag raised while traversing the list, on a version of the list that is not the input of the validURL filter; otherwise an element whose URL attributes were all rejected leaves pass 1 with only the synthesised attribute, which pass 2 strips (the policy does not allow it), so the element comes out bare or is dropped")
	R.Rule("C20.R5", "synthesised attributes keep their place: on no path (per element name) are two sanitiser-made attributes with different keys both appended — if K1 is appended before K2, a policy that allows K2 but not K1 on that element keeps K2 in place on the second pass and re-appends K1 after it, so the attribute order flips")
	R.Rule("C20.R6", "the allow-list filter is a fixed point: each incoming attribute is kept at most once per pass (a duplicated attribute is duplicated again by the next pass)")
	R.Rule("C20.R7", "validURL parses what it was given: the argument of url.Parse derives from the parameter only through TrimSpace, slicing/concatenation and CR/LF removal — no decoding or re-casing before the parse")
	parsesWhatItWasGiven(c, "C20.R7")
	R.Rule("C20.R8", "the second pass takes the decisions the first one took (= C13.R4, cited): map iteration order cannot reach the output — where the rules applied to a tag depend on the order in which a policy table happens to be walked, the second pass can judge the very same tag by other rules than the first and remove what the first one kept")
	{
		sub := &Ctx{P: c.P, R: newScratchReport(), Tier: c.Tier, VerifDir: c.VerifDir}
		E8, S8 := c13SharedWrites(sub, "C13.R1", "", true)
		R.Cite(map[string]string{"C13.R4": "C20.R8"}, func() { c13MapOrder(c, E8, S8) })
	}
	R.Rule("C20.R10", "both passes read their input the same way (= C06.R4, cited): the tokenizer runs in its default configuration — a token-size cap (SetMaxBuf) is a limit on the input, and the first pass's output can be several times larger than its input (every quote becomes an entity), so the second pass can fail on what the first one produced")
	if sc10 := newSC(c, "C20.R10"); sc10 != nil {
		c06TokenizerConfig(sc10, "C20.R10", "the tokenizer is reconfigured: what it accepts or delivers on the second pass (where every escaped character is five bytes) is no longer what it accepted on the first")
	}
	R.Rule("C20.R9", "the shipped policies stay inside the class the property speaks of: StrictPolicy and UGCPolicy attach no value pattern to a URL attribute (href, src, cite — the documented exception being cite on del/ins) or to sandbox, and a pattern on rel, target or crossorigin accepts, with every value, also what the sanitiser makes of it (value + \" nofollow\" / \" noreferrer\" / \" noopener\"; \"_blank\"; \"anonymous\") — a pattern is judged before the rewrite, so the second pass judges the rewritten value")
	{
		ev9 := policyx.New(c.P)
		n9 := 0
		for _, name := range []string{"StrictPolicy", "UGCPolicy"} {
			fn := c.P.Func(load.ModPath, name)
			if fn == nil {
				R.Unknown("C20.R9", "ctor:"+name, name, "", "constructor not found")
				continue
			}
			t, err := ev9.EvalConstructor(fn)
			if err != nil {
				R.Unknown("C20.R9", "ctor:"+name, name, c.P.Pos(fn.Pos()), "the constructor's rule table cannot be extracted: "+err.Error())
				continue
			}
			n9++
			// URL attributes: normalisation is not decided, so no pattern at all (cite on del/ins is the documented exception);
			// rel / target / crossorigin: the pattern must be closed under what the sanitiser does to the value — for every
			// accepted v also v+" nofollow", v+" noreferrer", v+" noopener" (rel); "_blank" (target); "anonymous" (crossorigin);
			// sandbox is rebuilt from the listed tokens: no pattern
			var bad []string
			judge := func(el string, r policyx.AttrRule) {
				if !r.HasPat {
					return
				}
				switch r.Attr {
				case "href", "src", "cite":
					if !(r.Attr == "cite" && (el == "del" || el == "ins")) {
						bad = append(bad, el+"@"+r.Attr+" (a URL attribute)")
					}
				case "sandbox":
					bad = append(bad, el+"@"+r.Attr)
				case "rel", "target", "crossorigin":
					bld := relang.NewBuilder()
					if err := bld.AddPattern(r.Pattern); err != nil {
						bad = append(bad, el+"@"+r.Attr+" (pattern does not parse)")
						return
					}
					for _, w := range []string{" nofollow", " noreferrer", " noopener", "_blank", "anonymous"} {
						bld.AddString(w)
					}
					al := bld.Build()
					L, err := relang.FromRegexp(r.Pattern, al)
					if err != nil {
						bad = append(bad, el+"@"+r.Attr+" (pattern does not parse)")
						return
					}
					switch r.Attr {
					case "rel":
						for _, tok := range []string{" nofollow", " noreferrer", " noopener"} {
							if sub, w := relang.Subset(relang.Concat(L, relang.Literal(al, tok)), L); !sub {
								bad = append(bad, fmt.Sprintf("%s@rel (accepts %q but not that value with the token the sanitiser appends: %q)", el, strings.TrimSuffix(w, tok), w))
								break
							}
						}
					case "target":
						if sub, _ := relang.Subset(relang.Literal(al, "_blank"), L); !sub {
							bad = append(bad, el+"@target (does not accept the value the sanitiser writes, \"_blank\")")
						}
					case "crossorigin":
						if sub, _ := relang.Subset(relang.Literal(al, "anonymous"), L); !sub {
							bad = append(bad, el+"@crossorigin (does not accept the value the sanitiser writes, \"anonymous\")")
						}
					}
				}
			}
			for el, rs := range t.ElemAttrs {
				for _, r := range rs {
					judge(el, r)
				}
			}
			for _, r := range t.GlobalAttrs {
				judge("*", r)
			}
			sort.Strings(bad)
			R.Check(len(bad) == 0, "C20.R9", "ctor:"+name, name+": value patterns on attributes the sanitiser rewrites", c.P.Pos(fn.Pos()), "none on URL attributes and sandbox (apart from cite on del/ins); patterns on rel / target / crossorigin closed under the sanitiser's own rewrite (exact language inclusion)", "value pattern on "+strings.Join(bad, "; ")+": the first pass judges the value as written and then rewrites it, the second pass judges the rewritten value by the same pattern — it can drop what the first pass kept")
		}
		R.Role("C20.R9", "shipped constructors evaluated", n9, 2)
	}
	R.Rule("C20.R3", "single serialiser: every destination write of sanitize has payload Token.String() (or a space, or raw data under allowUnsafe) — the escaping that the tokenizer's unescaping inverts; written once per token is C06.R2")
	R.Assume(TrustGo, "idempotence of net/url normalisation and of the x/net/html decode/escape round trip is NOT decided", "the del/ins cite exception of UGCPolicy is outside the claimed clause")
	fn := c.P.Func(load.ModPath, "(*Policy).sanitizeAttrs")
	if fn == nil || len(fn.Params) != 4 {
		R.Unknown("C20.R1", "sanitizeAttrs", "(*Policy).sanitizeAttrs", "", "not found")
		return
	}
	A := model.NewAnalysis(fn)
	translateAll(A)
	memo := map[*ssa.Function]bool{}
	// presence atoms by token
	type pres struct {
		atom    int
		subject ssa.Value
		tw      bool
	}
	presBy := map[string][]pres{}
	for i, at := range A.Atoms {
		if tok, subj, tw := presenceTest(c, at, memo); tok != "" {
			presBy[tok] = append(presBy[tok], pres{i, subj, tw})
		}
	}
	// key tests on list elements
	keyAtoms := map[string][]int{}
	for i, at := range A.Atoms {
		if at.Kind == "eq" && strings.Contains(at.Key, ".Key == ") {
			if k, ok := constString(at.Y); ok {
				keyAtoms[k] = append(keyAtoms[k], i)
			}
		}
	}
	synthKeys := []string{"rel", "target", "crossorigin", "sandbox"}
	F := model.FindFields(c.P)
	recv := fn.Params[0]
	type synth struct {
		call *ssa.Call
		key  string
	}
	var synths []synth
	for _, b := range fn.Blocks {
		for _, in := range b.Instrs {
			cl, ok := in.(*ssa.Call)
			if !ok {
				continue
			}
			if ac, _ := model.IsAppend(cl); ac == nil {
				continue
			}
			al := model.LoadOfAlloc(model.AppendedValue(cl))
			if al == nil || len(model.WholeStoresTo(al)) > 0 {
				continue
			}
			ks := model.FieldStoresTo(al, "Key")
			if len(ks) != 1 {
				continue
			}
			if k, ok := constString(ks[0].Val); ok {
				synths = append(synths, synth{cl, k})
			}
		}
	}
	// (b) synthesised appends: one query per key
	cnt := map[string]int{}
	for _, skey := range synthKeys {
		e := A.EventVar("attribute-with-key-" + skey + "-present")
		track := append([]int{e}, keyAtoms[skey]...)
		if skey == "rel" || skey == "target" {
			for _, role := range []string{"requireNoFollow", "requireNoFollowFQ", "requireNoReferrer", "requireNoReferrerFQ", "addTargetBlankFQ"} {
				track = append(track, A.Lit(recv.Name()+"."+F.Get(role)).Atom)
			}
		}
		if skey == "rel" || skey == "target" {
			// whatever decides "the href has a host" (so that the found-flags stay derivable)
			for i, at := range A.Atoms {
				if strings.Contains(at.Key, ".Host") && at.Phi == nil {
					track = append(track, i)
				}
			}
		}
		if skey == "target" {
			for i, at := range A.Atoms {
				if at.Kind == "eq" {
					if k, ok := constString(at.Y); ok && (k == "_blank" || k == "a" && at.Resolve(at.X) == ssa.Value(fn.Params[1])) {
						track = append(track, i)
					}
				}
			}
		}
		// loops over attribute lists: the presence event describes the most recent traversal
		var listLoops []*model.RangeLoop
		for _, l := range model.SliceRangeLoops(fn) {
			if strings.Contains(l.Over.Type().String(), "html.Attribute") {
				listLoops = append(listLoops, l)
			}
		}
		A.PhiFilter = nil
		q, err := A.NewQuery(track)
		if err != nil {
			R.Unknown("C20.R1", "query:"+skey, "(*Policy).sanitizeAttrs", "", err.Error())
			continue
		}
		ka := keyAtoms[skey]
		q.EdgeHook = func(b *ssa.BasicBlock, k int) func(uint32) []uint32 {
			for _, l := range listLoops {
				if b.Succs[k] == l.Header && !l.Blocks[b] { // entering a traversal
					return func(a uint32) []uint32 { return []uint32{q.With(a, e, false)} }
				}
			}
			cond := A.EdgeCond(b, k)
			if cond.Op != 'a' {
				return nil
			}
			for _, x := range ka {
				if cond.Atom == x {
					return func(a uint32) []uint32 { return []uint32{q.With(a, e, true)} }
				}
			}
			return nil
		}
		for _, sy := range synths {
			if sy.key == skey {
				q.Hooks[sy.call] = func(a uint32) []uint32 { return []uint32{q.With(a, e, true)} }
			}
		}
		q.Run(fn.Blocks[0], q.InitWith(map[int]bool{e: false}))
		for _, sy := range synths {
			if sy.key != skey {
				continue
			}
			cnt[sy.key]++
			key := fmt.Sprintf("synth:%s#%d", sy.key, cnt[sy.key])
			cons := fmt.Sprintf("(*Policy).sanitizeAttrs: append of a synthesised %s attribute", sy.key)
			pos := c.P.Pos(sy.call.Pos())
			st := q.StateAt(sy.call)
			if st == nil {
				continue
			}
			ok, cex := q.Holds(st, pa.Not(pa.AtomF(e)))
			R.Check(ok, "C20.R1", key, cons, pos, "only when no attribute with that key was seen or appended before", "a second "+sy.key+" attribute can be appended although one is already present (re-sanitising the output would keep adding it): ["+cex+"]")
		}
	}
	for _, sy := range synths {
		known := false
		for _, k := range synthKeys {
			if k == sy.key {
				known = true
			}
		}
		if !known {
			R.Fail("C20.R1", "synth:"+sy.key, "(*Policy).sanitizeAttrs: append of a synthesised "+sy.key+" attribute", c.P.Pos(sy.call.Pos()), "unexpected synthesised key")
		}
	}
	R.Role("C20.R1", "synthesised attribute appends", len(synths), 5)
	c20Order(c, fn)
	keptAtMostOnce(c, "C20.R6")
	c20SoleSurvivor(c, fn, A, synthKeys, func() (out []c20Synth) {
		for _, sy := range synths {
			out = append(out, c20Synth{sy.call, sy.key})
		}
		return
	}())

	// query for the value extensions: presence atoms only
	var ptrack []int
	for _, ps := range presBy {
		for _, p := range ps {
			ptrack = append(ptrack, p.atom)
		}
	}
	A.PhiFilter = func(*ssa.Phi) bool { return false }
	q, err := A.NewQuery(ptrack)
	if err != nil {
		R.Unknown("C20.R1", "query", "(*Policy).sanitizeAttrs", "", err.Error())
		return
	}
	q.Run(fn.Blocks[0], nil)

	// (a) value extensions, and R2 classification of all other Val stores
	nExt := 0
	vu := c.P.Func(load.ModPath, "(*Policy).validURL")
	for _, b := range fn.Blocks {
		for _, in := range b.Instrs {
			st, ok := in.(*ssa.Store)
			if !ok {
				continue
			}
			fa, ok := st.Addr.(*ssa.FieldAddr)
			if !ok || pa.FieldName(fa) != "Val" {
				continue
			}
			pos := c.P.Pos(st.Pos())
			vs := A.Sym.Of(st.Val)
			oldIs := func(v ssa.Value) bool {
				u, ok := v.(*ssa.UnOp)
				if !ok {
					return false
				}
				fa2, ok := u.X.(*ssa.FieldAddr)
				return ok && fa2.X == fa.X && pa.FieldName(fa2) == "Val"
			}
			if bo, isBo := st.Val.(*ssa.BinOp); isBo && bo.Op == token.ADD && oldIs(bo.X) {
				k, isC := constString(bo.Y)
				if !isC {
					R.Fail("C20.R2", "extend:nonconst", "(*Policy).sanitizeAttrs: attribute value extended with "+A.Sym.Of(bo.Y), pos, "an attribute value grows by a non-constant")
					continue
				}
				fields := strings.Fields(k)
				if len(fields) == 0 {
					// a separator appended to a synthesised value under construction: harmless iff the attribute is a synthesised local
					if al, ok := fa.X.(*ssa.Alloc); ok && len(model.WholeStoresTo(al)) == 0 {
						R.OK("C20.R2", "extend:separator", "(*Policy).sanitizeAttrs: separator appended to a synthesised value", pos, "local value under construction")
						continue
					}
					R.Fail("C20.R2", "extend:separator", "(*Policy).sanitizeAttrs: white space appended to an input attribute value", pos, "an input value grows on every pass")
					continue
				}
				tok := fields[0]
				if al, ok := fa.X.(*ssa.Alloc); ok && len(model.WholeStoresTo(al)) == 0 {
					R.OK("C20.R2", "extend:synth:"+tok, "(*Policy).sanitizeAttrs: token "+tok+" appended to a synthesised value", pos, "local value under construction (its append is guarded by C20.R1)")
					continue
				}
				nExt++
				key := "extend:" + tok
				cons := "(*Policy).sanitizeAttrs: existing value extended with " + fmt.Sprintf("%q", k)
				var guard *pa.F
				for _, p := range presBy[tok] {
					if p.tw && oldIs(p.subject) {
						guard = pa.AtomF(p.atom)
					}
				}
				if guard == nil {
					R.Fail("C20.R1", key, cons, pos, "no token-wise presence test for "+tok+" on this same value guards the extension")
					continue
				}
				stt := q.StateAt(st)
				if stt == nil {
					continue
				}
				ok1, cex := q.Holds(stt, pa.Not(guard))
				R.Check(ok1, "C20.R1", key, cons, pos, "only when the token is absent from this value", "the value can be extended although it already carries the token (each pass would add it again): ["+cex+"]")
				continue
			}
			// R2: other stores
			key := "store:" + shorten(stripIDs(vs))
			cons := "(*Policy).sanitizeAttrs: attribute value := " + shorten(vs)
			switch {
			case isConstStr(st.Val):
				R.OK("C20.R2", key, cons, pos, "constant")
			case projectionJoin(st.Val):
				R.OK("C20.R2", key, cons, pos, "projection of the old value (joined filtered tokens)")
			case constBuilt(st.Val) || joinedConstants(st.Val):
				R.OK("C20.R2", key, cons, pos, "assembled from constants only")
			case vu != nil && strings.Contains(vs, pa.CalleeName(vu)+"("):
				R.OK("C20.R2", key, cons, pos, "validURL's / the rewriter's result")
			default:
				if ph, ok := st.Val.(*ssa.Phi); ok {
					all := true
					for _, e := range ph.Edges {
						es := A.Sym.Of(e)
						// each merged value on its own merits: URL normalisation, a constant, a projection
						if !(vu != nil && strings.Contains(es, pa.CalleeName(vu)+"(")) && !isConstStr(e) && !projectionJoin(e) && !constBuilt(e) && !joinedConstants(e) {
							all = false
						}
					}
					if all {
						R.OK("C20.R2", key, cons, pos, "validURL's / the rewriter's result, or a constant (merged)")
						continue
					}
				}
				R.Fail("C20.R2", key, cons, pos, "an attribute value is rewritten by something other than a constant, a projection or URL normalisation")
			}
		}
	}
	R.Role("C20.R1", "extensions of existing attribute values", nExt, 3)
	// R3: the only serialiser is Token.String (or raw data under allowUnsafe, or a space): its escaping is the inverse of the
	// tokenizer's unescaping — the round-trip assumption of this property; any other escaper (a Replacer, a hand-written
	// loop, EscapeString on a part of the token) is outside that assumption
	singleSerialiser(c, "C20.R3", "what the next pass reads back is no longer guaranteed to be what this pass wrote (characters the tokenizer normalises — CR, NUL — or entity forms can differ)")
}

func isConstStr(v ssa.Value) bool { _, ok := constString(v); return ok }

// stripIDs removes "@tNN" instruction ids from a symbol (line/numbering independent keys).
func stripIDs(s string) string {
	var sb strings.Builder
	for i := 0; i < len(s); i++ {
		if s[i] == '@' && i+1 < len(s) && s[i+1] == 't' {
			j := i + 2
			for j < len(s) && s[j] >= '0' && s[j] <= '9' {
				j++
			}
			i = j - 1
			continue
		}
		sb.WriteByte(s[i])
	}
	return sb.String()
}

type c20Synth struct {
	call *ssa.Call
	key  string
}

// impliedLiterals returns the atoms f syntactically forces (atom -> polarity).
func impliedLiterals(f *pa.F) map[int]bool {
	switch f.Op {
	case 'a':
		return map[int]bool{f.Atom: true}
	case '!':
		if f.Kids[0].Op == 'a' {
			return map[int]bool{f.Kids[0].Atom: false}
		}
		// ¬(a ∨ b) = ¬a ∧ ¬b
		if f.Kids[0].Op == '|' {
			out := map[int]bool{}
			for _, k := range f.Kids[0].Kids {
				for a, pol := range impliedLiterals(pa.Not(k)) {
					out[a] = pol
				}
			}
			return out
		}
	case '&':
		out := map[int]bool{}
		for _, k := range f.Kids {
			for a, pol := range impliedLiterals(k) {
				out[a] = pol
			}
		}
		return out
	case '|':
		var out map[int]bool
		for i, k := range f.Kids {
			m := impliedLiterals(k)
			if i == 0 {
				out = m
				continue
			}
			for a, pol := range out {
				if p2, ok := m[a]; !ok || p2 != pol {
					delete(out, a)
				}
			}
		}
		return out
	}
	return map[int]bool{}
}

func isAttrList(v ssa.Value) bool {
	return v != nil && strings.HasSuffix(v.Type().String(), "[]golang.org/x/net/html.Attribute")
}

func c20SoleSurvivor(c *Ctx, fn *ssa.Function, A *pa.Analysis, synthKeys []string, synths []c20Synth) {
	R := c.R
	vu := c.P.Func(load.ModPath, "(*Policy).validURL")
	var vuBlocks []*ssa.BasicBlock
	for _, b := range fn.Blocks {
		for _, in := range b.Instrs {
			if cl, ok := in.(*ssa.Call); ok && vu != nil && cl.Common().StaticCallee() == vu {
				vuBlocks = append(vuBlocks, b)
			}
		}
	}
	// a list version is "pre-validation" if its definition dominates a validURL call (the filter still lies ahead)
	preValidation := func(x ssa.Value) bool {
		in, ok := x.(ssa.Instruction)
		if !ok {
			return true // a parameter: the unfiltered input
		}
		for _, vb := range vuBlocks {
			if in.Block().Dominates(vb) {
				return true
			}
		}
		return false
	}
	loops := model.SliceRangeLoops(fn)
	// flagList: p is a found-flag of a traversal of list X — a loop-header phi that starts false
	flagList := func(p *ssa.Phi) ssa.Value {
		for _, l := range loops {
			if p.Block() != l.Header || !isAttrList(l.Over) {
				continue
			}
			for i, e := range p.Edges {
				if !l.Blocks[l.Header.Preds[i]] {
					if k, ok := e.(*ssa.Const); !ok || k.Value == nil || k.Value.String() != "false" {
						return nil
					}
				}
			}
			return l.Over
		}
		return nil
	}
	cnt := map[string]int{}
	for _, sy := range synths {
		cnt[sy.key]++
		key := fmt.Sprintf("sole:%s#%d", sy.key, cnt[sy.key])
		cons := fmt.Sprintf("(*Policy).sanitizeAttrs: append of a synthesised %s attribute", sy.key)
		pos := c.P.Pos(sy.call.Pos())
		site := sy.call.Block()
		evidence := ""
		var rejected []string
		for d := site.Idom(); d != nil && evidence == ""; d = d.Idom() {
			for k, s := range d.Succs {
				if len(d.Succs) != 2 || d.Succs[0] == d.Succs[1] || !s.Dominates(site) || len(s.Preds) != 1 {
					continue
				}
				for atom, pol := range impliedLiterals(A.EdgeCond(d, k)) {
					at := A.Atoms[atom]
					var x ssa.Value
					what := ""
					switch {
					case at.Kind == "len0" && !pol && isAttrList(at.Resolve(at.X)):
						x = at.Resolve(at.X)
						what = "len(" + stripIDs(A.Sym.Of(x)) + ") > 0"
					case at.Phi != nil && pol:
						if l := flagList(at.Phi); l != nil {
							x = l
							what = "flag " + at.Phi.Comment + " raised while traversing " + stripIDs(A.Sym.Of(l))
						}
					}
					if x == nil {
						continue
					}
					if preValidation(x) {
						rejected = append(rejected, what+" (but that list is still to be filtered by validURL)")
						continue
					}
					evidence = what
				}
			}
		}
		if evidence != "" {
			R.OK("C20.R4", key, cons, pos, "dominated by "+evidence)
			continue
		}
		why := "nothing establishes that another attribute survives next to the synthesised one: an element whose URL attributes were all rejected is emitted with only " + sy.key + ", which a second pass strips, leaving the element bare or dropped"
		if len(rejected) > 0 {
			sort.Strings(rejected)
			why += "; found only: " + strings.Join(rejected, "; ")
		}
		R.Fail("C20.R4", key, cons, pos, why)
	}
	R.Role("C20.R4", "synthesised attribute appends", len(synths), 5)
}

// c20SynthSites lists the appends of constant-key attributes in fn.
func c20SynthSites(fn *ssa.Function) []c20Synth {
	var out []c20Synth
	for _, b := range fn.Blocks {
		for _, in := range b.Instrs {
			cl, ok := in.(*ssa.Call)
			if !ok {
				continue
			}
			if ac, _ := model.IsAppend(cl); ac == nil {
				continue
			}
			al := model.LoadOfAlloc(model.AppendedValue(cl))
			if al == nil || len(model.WholeStoresTo(al)) > 0 {
				continue
			}
			ks := model.FieldStoresTo(al, "Key")
			if len(ks) != 1 {
				continue
			}
			if k, ok := constString(ks[0].Val); ok {
				out = append(out, c20Synth{cl, k})
			}
		}
	}
	return out
}

// c20Order (C20.R5): per element name, no path appends two synthesised attributes with different keys.
func c20Order(c *Ctx, fn *ssa.Function) {
	R := c.R
	// element names the function distinguishes
	elems := map[string]bool{}
	{
		A := model.NewAnalysis(fn)
		translateAll(A)
		for _, at := range A.Atoms {
			if at.Kind == "eq" && at.Resolve(at.X) == ssa.Value(fn.Params[1]) {
				if k, ok := constString(at.Y); ok {
					elems[k] = true
				}
			}
		}
	}
	elems["\x00any-other-element"] = true
	var names []string
	for e := range elems {
		names = append(names, e)
	}
	sort.Strings(names)
	sites := c20SynthSites(fn)
	type pair struct{ first, second string }
	found := map[pair][]string{}
	nRuns := 0
	for _, elem := range names {
		A := model.NewAnalysis(fn)
		A.BindConst(fn.Params[1], elem)
		translateAll(A)
		keys := map[string]bool{}
		for _, s := range sites {
			keys[s.key] = true
		}
		var ks []string
		for k := range keys {
			ks = append(ks, k)
		}
		sort.Strings(ks)
		ev := map[string]int{}
		var track []int
		for _, k := range ks {
			ev[k] = A.EventVar("appended-" + k)
			track = append(track, ev[k])
		}
		A.PhiFilter = func(*ssa.Phi) bool { return false }
		q, err := A.NewQuery(track)
		if err != nil {
			R.Unknown("C20.R5", "query:"+elem, "(*Policy).sanitizeAttrs", "", err.Error())
			continue
		}
		nRuns++
		init := map[int]bool{}
		for _, k := range ks {
			init[ev[k]] = false
		}
		for _, s := range sites {
			e := ev[s.key]
			q.Hooks[s.call] = func(a uint32) []uint32 { return []uint32{q.With(a, e, true)} }
		}
		q.Run(fn.Blocks[0], q.InitWith(init))
		for _, s := range sites {
			st := q.StateAt(s.call)
			if st == nil || pa.Empty(st) {
				continue
			}
			for _, k := range ks {
				if k == s.key {
					continue
				}
				if ok, _ := q.Holds(st, pa.Not(pa.AtomF(ev[k]))); !ok {
					p := pair{k, s.key}
					found[p] = append(found[p], strings.TrimPrefix(elem, "\x00"))
				}
			}
		}
	}
	R.Role("C20.R5", "element-specialised runs", nRuns, 3)
	var ps []pair
	for p := range found {
		ps = append(ps, p)
	}
	sort.Slice(ps, func(i, j int) bool { return ps[i].first+ps[i].second < ps[j].first+ps[j].second })
	for _, p := range ps {
		for _, elem := range found[p] {
			R.Fail("C20.R5", "order:"+p.first+"<"+p.second+"@"+elem, fmt.Sprintf("(*Policy).sanitizeAttrs: %s then %s appended for <%s>", p.first, p.second, elem), c.P.Pos(fn.Pos()),
				fmt.Sprintf("for <%s> a synthesised %s and then a synthesised %s can both be appended; a policy that allows %s but not %s on <%s> emits them in the opposite order when its own output is sanitised again", elem, p.first, p.second, p.second, p.first, elem))
		}
	}
	if len(ps) == 0 {
		R.OK("C20.R5", "order", "(*Policy).sanitizeAttrs", c.P.Pos(fn.Pos()), "no path appends two synthesised attributes with different keys")
	}
}

// joinedConstants: strings.Join of a local list that grows only by appends of constants (a rel value assembled token by
// token).
func joinedConstants(v ssa.Value) bool {
	_, ok := joinedList(v)
	return ok
}

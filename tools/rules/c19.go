package rules

import (
	"fmt"
	"sort"
	"strings"

	"verif/tools/pats"
	"verif/tools/relang"
)

type matcherSpec struct {
	Form     string   `json:"form"`
	Examples []string `json:"examples"`
}

func init() { register("C19", "proof", runC19) }

func forbiddenAttrRunes() []rune {
	rs := []rune{'<', '>', '"', '=', '`', 0x7f}
	for r := rune(0); r < 0x20; r++ {
		switch r {
		case '\t', '\n', '\f', '\r':
		default:
			rs = append(rs, r)
		}
	}
	for r := rune(0x80); r <= 0x9f; r++ {
		rs = append(rs, r)
	}
	return rs
}

func runC19(c *Ctx) {
	R := c.R
	R.Rule("C19.R1", "whole value: L_match(r) = L_match(^(?:r)$) for each exported matcher (exact, on DFAs over a partition of all Unicode runes)")
	R.Rule("C19.R2", "documented form: L_match(r) ⊆ U_X, U_X from /verif/spec/matchers.json; on failure the shortest member of L \\ U_X is the witness")
	R.Rule("C19.R3", "closed alphabet: no rune of {< > \" = ` C0 controls except TAB LF FF CR, DEL, C1} occurs on any accepting path of r")
	R.Rule("C19.R4", "documented examples are members of L_match(r)")
	R.Rule("C19.R5", "the analysed pattern is the one in use: the variable is initialised by regexp.MustCompile(<constant>) and never assigned, address-taken or Longest()ed anywhere in the module")
	R.Assume(TrustGo, TrustRegexp, "relang subset construction (cross-validated against package regexp on random strings by the tool's own unit test and, in the thorough tier, at run time on the patterns themselves)", "the reference forms in /verif/spec/matchers.json transcribe the documented forms")

	var spec struct {
		Matchers map[string]matcherSpec `json:"matchers"`
	}
	if err := c.Spec("matchers.json", &spec); err != nil {
		R.Unknown("C19.R2", "spec", "spec/matchers.json", "", err.Error())
		return
	}
	vars := pats.RegexpVars(c.P.Main)
	pats.FindWrites(vars, c.P.Pkgs)
	byName := map[string]*pats.Var{}
	for _, v := range vars {
		byName[v.Name] = v
	}
	names := make([]string, 0, len(spec.Matchers))
	for n := range spec.Matchers {
		names = append(names, n)
	}
	sort.Strings(names)

	// one common alphabet
	b := relang.NewBuilder()
	b.AddRuneSet(forbiddenAttrRunes())
	for _, n := range names {
		if err := b.AddPattern(spec.Matchers[n].Form); err != nil {
			R.Unknown("C19.R2", "spec:"+n, "spec form of "+n, "", err.Error())
			return
		}
		for _, e := range spec.Matchers[n].Examples {
			b.AddString(e)
		}
		if v := byName[n]; v != nil && v.Const {
			if err := b.AddPattern(v.Pattern); err != nil {
				R.Fail("C19.R5", n, "helpers.go var "+n, c.P.Pos(v.Pos), "pattern does not parse: "+err.Error())
			}
		}
	}
	a := b.Build()
	R.Analysed["alphabet_classes"] = a.N()
	R.Analysed["matchers"] = len(names)
	forb := a.ClassesOf(forbiddenAttrRunes())
	forbSet := map[int]bool{}
	for _, k := range forb {
		forbSet[k] = true
	}
	found := 0
	dfaStates := map[string]int{}
	for _, n := range names {
		v := byName[n]
		if v == nil {
			R.Unknown("C19.R5", n, "exported matcher "+n, "", "no package-level `var "+n+" = regexp.MustCompile(...)` found in package bluemonday (anchor lost)")
			continue
		}
		found++
		pos := c.P.Pos(v.Pos)
		cons := "helpers.go var " + n
		if !v.Const {
			R.Unknown("C19.R5", n, cons, pos, "pattern argument is not a compile-time constant; the recogniser cannot be analysed")
			continue
		}
		if len(v.Writes) > 0 {
			var ps []string
			for _, w := range v.Writes {
				ps = append(ps, c.P.Pos(w))
			}
			R.Fail("C19.R5", n, cons, pos, "variable is written/address-taken outside its declaration at "+strings.Join(ps, ", "))
		} else {
			R.OK("C19.R5", n, cons, pos, "initialised from constant pattern "+fmt.Sprintf("%q", v.Pattern)+"; no other write in the module")
		}
		d, err := relang.FromRegexp(v.Pattern, a)
		if err != nil {
			R.Unknown("C19.R1", n, cons, pos, err.Error())
			continue
		}
		dfaStates[n] = d.N()
		anch, err := relang.FromRegexp("^(?:"+v.Pattern+")$", a)
		if err != nil {
			R.Unknown("C19.R1", n, cons, pos, err.Error())
			continue
		}
		if eq, w := relang.Equal(d, anch); eq {
			R.OK("C19.R1", n, cons, pos, "L_match equals the fully anchored language")
		} else {
			o := R.Fail("C19.R1", n, cons, pos, "pattern accepts a string of which only a part matches (not anchored on both sides)")
			o.Witness = w
		}
		u := relang.MustRegexp(spec.Matchers[n].Form, a)
		if sub, w := relang.Subset(d, u); sub {
			R.OK("C19.R2", n, cons, pos, "L_match ⊆ documented form "+spec.Matchers[n].Form)
		} else {
			o := R.Fail("C19.R2", n, cons, pos, "accepts a string outside the documented form "+spec.Matchers[n].Form)
			o.Witness = w
		}
		var bad []string
		for _, k := range d.UsedClasses() {
			if forbSet[k] {
				bad = append(bad, fmt.Sprintf("%U", a.Lo(k)))
			}
		}
		if len(bad) == 0 {
			R.OK("C19.R3", n, cons, pos, "no forbidden rune on any accepting path")
		} else {
			// witness: shortest accepted string containing a forbidden rune
			anyF := relang.Concat(relang.All(a), relang.ClassSet(a, forb), relang.All(a))
			w, _ := relang.Inter(d, anyF).Witness()
			o := R.Fail("C19.R3", n, cons, pos, "forbidden runes admitted: "+strings.Join(bad, " "))
			o.Witness = w
		}
		for _, e := range spec.Matchers[n].Examples {
			R.Check(d.Accepts(e), "C19.R4", n+":"+e, cons+" example "+fmt.Sprintf("%q", e), pos, "documented example accepted", "documented example rejected")
		}
	}
	R.Role("C19.R1", "exported matcher variables", found, 11)
	R.Analysed["dfa_states"] = dfaStates
}

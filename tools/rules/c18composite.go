package rules

import (
	"fmt"
	"go/ast"
	"os"
	"sort"
	"strings"
	"time"

	"verif/tools/csslang"
)

// c18Composite computes the language of every handler of package css by abstract interpretation of its body
// (package csslang) and checks that it has an empty intersection with the hostile language.
func c18Composite(c *Ctx, env *cssEnv) {
	R := c.R
	e := csslang.NewEnv(env.A)
	in := csslang.NewInterp(e, c.P.CSSOrig, env.vars)
	for name, m := range cssMembers(c) {
		if m.verified {
			in.Members[name] = m.strIdx
		}
	}
	names := in.HandlerNames()
	registered := c18RegisteredHandlers(c)
	nExact, nInexact := 0, 0
	var table []map[string]any
	for _, n := range names {
		fd := c.P.CSSOrig.Types.Scope().Lookup(n)
		pos := ""
		if fd != nil {
			pos = c.P.Pos(fd.Pos())
		}
		cons := "css." + n
		if registered[n] {
			cons += " (registered)"
		}
		t0 := time.Now()
		r := in.Lang(n)
		if os.Getenv("VERIF_TRACE") != "" {
			st := -1
			if r.L != nil {
				st = r.L.N()
			}
			fmt.Fprintf(os.Stderr, "  [c18.R7] %-36s %6.2fs states=%d exact=%v %s\n", n, time.Since(t0).Seconds(), st, r.Exact, r.Undecided)
		}
		key := "handler:" + n
		if r.Undecided != "" {
			R.Unknown("C18.R7", key, cons, pos, "the body uses an idiom the handler-language interpreter does not model: "+r.Undecided)
			continue
		}
		row := map[string]any{"handler": n, "exact": r.Exact, "dfa_states": r.L.N(), "schemas": r.Schemas}
		if w, ok := r.L.Witness(); ok {
			row["shortest_accepted"] = w
		} else {
			row["shortest_accepted"] = nil
		}
		table = append(table, row)
		if r.Exact {
			nExact++
		} else {
			nInexact++
		}
		if hn, w, bad := env.hostileWitness(r.L); bad {
			why := fmt.Sprintf("the handler accepts a value containing a hostile fragment (%s)", hn)
			if !r.Exact {
				why = fmt.Sprintf("the computed over-approximation of the handler's language contains a value with a hostile fragment (%s); schemas: %s", hn, strings.Join(r.Schemas, "; "))
			}
			o := R.Fail("C18.R7", key, cons, pos, why)
			o.Witness = w
			continue
		}
		R.OK("C18.R7", key, cons, pos, fmt.Sprintf("L⁺(%s) ∩ H = ∅ (%d-state DFA, exact=%v)", n, r.L.N(), r.Exact))
	}
	R.Role("C18.R7", "handlers interpreted", len(names), 100)
	R.Analysed["handlers_exact"] = nExact
	R.Analysed["handlers_overapprox"] = nInexact
	sort.Slice(table, func(i, j int) bool { return table[i]["handler"].(string) < table[j]["handler"].(string) })
	R.Extra["handler_languages"] = table
}

// c18RegisteredHandlers: the function names appearing as values in the defaultStyleHandlers literal.
func c18RegisteredHandlers(c *Ctx) map[string]bool {
	out := map[string]bool{}
	for _, f := range c.P.CSS.Syntax {
		ast.Inspect(f, func(n ast.Node) bool {
			vs, ok := n.(*ast.ValueSpec)
			if !ok {
				return true
			}
			for i, name := range vs.Names {
				if name.Name != "defaultStyleHandlers" || i >= len(vs.Values) {
					continue
				}
				if cl, ok := ast.Unparen(vs.Values[i]).(*ast.CompositeLit); ok {
					for _, el := range cl.Elts {
						if kv, ok := el.(*ast.KeyValueExpr); ok {
							if id, ok := ast.Unparen(kv.Value).(*ast.Ident); ok {
								out[id.Name] = true
							}
						}
					}
				}
			}
			return true
		})
	}
	return out
}

package rules

func c18Composite(c *Ctx, env *cssEnv) {}

// Package rules holds one file per property; each builds obligations from the engines.
package rules

import (
	"encoding/json"
	"os"
	"path/filepath"
	"sort"

	"verif/tools/core"
	"verif/tools/load"
	"verif/tools/model"
)

// Ctx is what a property's rule set receives.
type Ctx struct {
	P        *load.Program
	R        *core.Report
	Tier     string
	VerifDir string
}

func (c *Ctx) Thorough() bool { return c.Tier == "thorough" }

// Spec loads a JSON spec file from /verif/spec.
func (c *Ctx) Spec(name string, into any) error {
	b, err := os.ReadFile(filepath.Join(c.VerifDir, "spec", name))
	if err != nil {
		return err
	}
	return json.Unmarshal(b, into)
}

type Prop struct {
	ID    string
	Level string
	Run   func(*Ctx)
}

var Registry = map[string]*Prop{}

func register(id, level string, run func(*Ctx)) { Registry[id] = &Prop{id, level, run} }

// Common trusted contracts.
var (
	TrustGo          = "go/packages, go/types and go/ssa (x/tools v0.29.0) faithfully represent the program the Go compiler builds"
	TrustRegexp      = "regexp/syntax Parse+Simplify+Compile yields the instruction program the runtime regexp matcher executes (same front end); MatchString = unanchored search over runes, invalid UTF-8 bytes seen as U+FFFD"
	TrustTokenizer   = "x/net/html tokenizer contract: tag names and attribute keys are ASCII-lower-cased, attribute values and text are entity-decoded, Token.Attr is a fresh slice per token, ErrorToken terminates the stream"
	TrustTokenString = "x/net/html Token.String escapes & ' < > \" and CR in text and attribute values and serialises comments through escapeCommentString"
)

// newScratchReport creates a report that is never written (used to re-run a rule set as a lemma).
func newScratchReport() *core.Report { return core.NewReport("scratch", "quick", "other") }

// FinishFields turns every Policy-field role that a rule of this run asked for but that could not be bound to a
// field into an undecided obligation.  Roles no rule of the property needs do not matter to it.
func FinishFields(c *Ctx) {
	F := model.FindFields(c.P)
	miss := F.UsedMissing()
	var roles []string
	for r := range miss {
		roles = append(roles, r)
	}
	sort.Strings(roles)
	rule := c.R.Property + ".R1"
	for _, r := range roles {
		c.R.Unknown(rule, "field-role:"+r, "Policy field role "+r, "", "role not resolvable from the builder API: "+miss[r])
	}
}

package rules

import (
	"fmt"
	"go/token"
	"go/types"
	"strings"

	"golang.org/x/tools/go/ssa"

	"verif/tools/effects"
	"verif/tools/load"
	"verif/tools/model"
	"verif/tools/pa"
)

func init() { register("C13", "other", runC13) }

// readOnlyExt: external functions that do not write through their arguments. Second result: index of
// the argument the result may alias (-1: result is fresh).
func readOnlyExt(fn *ssa.Function) (bool, int) {
	if fn == nil {
		return false, -1
	}
	pkg := ""
	if fn.Pkg != nil {
		pkg = fn.Pkg.Pkg.Path()
	} else if fn.Object() != nil && fn.Object().Pkg() != nil {
		pkg = fn.Object().Pkg().Path()
	}
	name := fn.Name()
	switch pkg {
	case "strings", "strconv", "unicode", "unicode/utf8", "errors":
		return true, -1
	case "bytes":
		// package-level functions of bytes never write through their arguments; results may alias argument 0
		if fn.Signature.Recv() == nil {
			return true, 0
		}
	case "regexp":
		switch name {
		case "MatchString", "FindString", "FindStringIndex", "Match", "String", "ReplaceAllString", "ReplaceAll", "MustCompile", "Compile", "FindStringSubmatch":
			return true, -1
		}
	case "net/url":
		switch name {
		case "Parse", "QueryEscape", "QueryUnescape", "String", "IsAbs", "Query":
			return true, -1
		}
	case "fmt":
		switch name {
		case "Errorf", "Sprintf", "Sprint", "Println", "Sprintln":
			return true, -1
		}
	case "encoding/base64":
		return true, -1
	case model.HTMLPkg:
		switch name {
		case "NewTokenizer":
			return true, 0
		case "Next", "Err", "Raw":
			return true, -1
		case "Token": // contract: a fresh Token (fresh Attr slice) per call
			return true, -1
		case "String", "EscapeString", "UnescapeString":
			return true, -1
		}
	case "github.com/aymerick/douceur/parser":
		return true, -1
	}
	return false, -1
}

func isPolicyPtr(t types.Type) bool {
	p, ok := t.(*types.Pointer)
	if !ok {
		return false
	}
	n, ok := p.Elem().(*types.Named)
	return ok && n.Obj().Name() == "Policy" && n.Obj().Pkg() != nil && n.Obj().Pkg().Path() == load.ModPath
}

// newEffects builds the effect analysis of the whole module with *Policy parameters counted as shared.
func newEffects(c *Ctx) (*effects.Analysis, map[*ssa.Function]bool) {
	F := model.FindFields(c.P)
	initFn := c.P.Func(load.ModPath, "(*Policy).init")
	var initA *pa.Analysis
	var initQ *pa.Query
	var notInit *pa.F
	if initFn != nil {
		initA = model.NewAnalysis(initFn)
		translateAll(initA)
		lit := initA.Lit(initFn.Params[0].Name() + "." + F.Get("initialized"))
		notInit = pa.Not(lit)
		if q, err := initA.NewQuery([]int{lit.Atom}); err == nil {
			q.Run(initFn.Blocks[0], nil)
			initQ = q
		}
	}
	guard := func(fn *ssa.Function, in ssa.Instruction) string {
		if fn == initFn && initQ != nil {
			if st := initQ.StateAt(in); st != nil {
				if ok, _ := initQ.Holds(st, notInit); ok {
					return "inside init(), dominated by !initialized (never executed once a policy is constructed, see C13.R2)"
				}
			}
		}
		return ""
	}
	funcs := moduleFuncs(c.P)
	E := effects.New(funcs, readOnlyExt, func(p *ssa.Parameter) bool { return isPolicyPtr(p.Type()) }, guard)
	return E, sanitisingSet(c.P)
}

func runC13(c *Ctx) {
	R := c.R
	R.Rule("C13.R1", "no shared writes while sanitising: in every function reachable from a Sanitize* entry point (plus all css handlers and closures stored in policies) every store, map update, delete, append-into-backing-array and call that writes through an argument targets memory allocated during the call (Fresh) — the *Policy receiver, package variables and everything loaded from them count as Shared; the only exemptions are the destination writer and the !initialized-guarded makes in init()")
	R.Rule("C13.R2", "constructed policies are initialised: NewPolicy reaches init() before returning; every builder that updates a table calls init() first or works on a builder value handed out by one that did")
	R.Rule("C13.R3", "no mutable package state: package-level variables of bluemonday and css are written only by the package initialiser; no (*regexp.Regexp).Longest")
	R.Rule("C13.R4", "map iteration order cannot reach the output: inside a range over a map on a sanitising path there is no destination write, no append to an ordered list and no assignment of a loop-dependent value to a variable that outlives the loop; only constant flags, break, and m[k] = append(m[k], v...) into a Fresh map consumed by any-match loops")
	R.Rule("C13.R5", "no other source of nondeterminism on sanitising paths: no time, math/rand, os, sync, unsafe, reflect, goroutines, channels or select")
	R.Assume(TrustGo, TrustTokenizer, "user callbacks (MatchingHandler, custom URL policy, RewriteSrc) are pure and goroutine-safe", "dependencies (x/net/html, douceur, regexp, net/url) are used through per-call values or documented goroutine-safe objects")
	E, S := c13SharedWrites(c, "C13.R1", "concurrent Sanitize calls on one policy would race, and later calls see the change", false)

	c13Init(c)
	c13Globals(c)
	c13MapOrder(c, E, S)
	c13Nondeterminism(c, S)
}

// c13SharedWrites decides the no-shared-writes rule over the sanitising set.  With summary=true only violations are
// recorded individually (plus one obligation for the whole set) — used by the properties that rely on the rule for a
// different reason (C06: the bytes handed out are the caller's own; C14: per-call cost cannot grow with earlier calls).
func c13SharedWrites(c *Ctx, rule, consequence string, summary bool) (*effects.Analysis, map[*ssa.Function]bool) {
	R := c.R
	okf := func(key, cons, pos, why string) {
		if !summary {
			R.OK(rule, key, cons, pos, why)
		}
	}
	E, S := newEffects(c)
	// css handlers and policy closures belong to the sanitising set by rule
	for _, fn := range moduleFuncs(c.P) {
		if fn.Name() == "init" && fn.Signature.Recv() == nil && fn.Parent() == nil {
			delete(S, fn) // package initialiser: runs once before any policy exists
			continue
		}
		if fn.Pkg != nil && fn.Pkg.Pkg.Path() == load.ModPath+"/css" {
			S[fn] = true
		}
		if fn.Parent() != nil && fn.Parent().Pkg != nil && fn.Parent().Pkg.Pkg.Path() == load.ModPath {
			S[fn] = true
		}
	}
	san, _ := model.FindSan(c.P)
	nEff, nFn := 0, 0
	entry := map[*ssa.Function]bool{}
	for _, n := range []string{"(*Policy).Sanitize", "(*Policy).SanitizeBytes", "(*Policy).SanitizeReader", "(*Policy).SanitizeReaderToWriter"} {
		if f := c.P.Func(load.ModPath, n); f != nil {
			entry[f] = true
		}
	}
	var fns []*ssa.Function
	for fn := range S {
		fns = append(fns, fn)
	}
	sortFuncs(fns)
	for _, fn := range fns {
		nFn++
		cnt := map[string]int{}
		for _, e := range E.FnEff[fn] {
			nEff++
			kindKey := e.Kind + ":" + effectKey(e)
			cnt[kindKey]++
			key := fmt.Sprintf("%s:%s#%d", shortFn(fn), kindKey, cnt[kindKey])
			cons := fmt.Sprintf("%s: %s", shortFn(fn), e.What)
			pos := c.P.Pos(e.Instr.Pos())
			switch {
			case e.Target.Fresh():
				okf(key, cons, pos, "target is memory allocated during this call")
			case e.Guarded != "":
				okf(key, cons, pos, e.Guarded)
			case e.Kind == "call" && e.SharedCallee != nil && S[e.SharedCallee] && (e.ArgTarget.Fresh() || !e.ArgTarget.Shared && onlyWriterParam(fn, e.ArgTarget)):
				okf(key, cons, pos, "the callee's own shared writes are judged at their root sites inside "+shortFn(e.SharedCallee))
			case san != nil && isDestinationWrite(san, e.Instr):
				okf(key, cons, pos, "the destination writer (the call's own output)")
			case !e.Target.Shared && !entry[fn] && e.Target.Params != 0:
				okf(key, cons, pos, "writes through "+e.Target.String()+": judged at each call site (callee summary)")
			case !e.Target.Shared && entry[fn] && onlyWriterParam(fn, e.Target):
				okf(key, cons, pos, "the caller-supplied destination")
			default:
				R.Fail(rule, key, cons, pos, "writes to memory that is "+e.Target.String()+" (policy, package state or caller-owned): "+consequence)
			}
		}
	}
	R.Analysed["sanitising_functions"] = nFn
	R.Analysed["write_effects_examined"] = nEff
	R.Role(rule, "functions in the sanitising set", nFn, 100)
	R.Role(rule, "write effects examined", nEff, 50)

	if summary {
		R.OK(rule, "sanitising-set", fmt.Sprintf("%d functions reachable from the Sanitize* entry points, %d write effects", nFn, nEff), "", "every write effect not listed as a violation targets memory allocated during the call, the destination writer or a callee-judged site")
	}
	return E, S
}

func onlyWriterParam(fn *ssa.Function, t effects.Class) bool {
	for i, p := range fn.Params {
		if t.Params>>uint(i)&1 == 1 {
			if p.Type().String() != "io.Writer" {
				return false
			}
		}
	}
	return true
}

func isDestinationWrite(s *model.San, in ssa.Instruction) bool {
	for _, w := range s.Writes {
		if w.Call == in {
			return true
		}
	}
	return false
}

func effectKey(e effects.Effect) string {
	switch x := e.Instr.(type) {
	case *ssa.Store:
		r, p := storePath(x.Addr)
		return r + p
	case *ssa.MapUpdate:
		r, p := storePath(x.Map)
		return r + p
	case ssa.CallInstruction:
		return calleeStr(x)
	}
	return fmt.Sprintf("%T", e.Instr)
}

func storePath(v ssa.Value) (string, string) {
	path := ""
	for {
		switch x := v.(type) {
		case *ssa.FieldAddr:
			path = "." + pa.FieldName(x) + path
			v = x.X
		case *ssa.IndexAddr:
			path = "[]" + path
			v = x.X
		case *ssa.UnOp:
			path = "*" + path
			v = x.X
		case *ssa.Alloc:
			return "local(" + x.Comment + ")", path
		case *ssa.Parameter:
			return x.Name(), path
		case *ssa.Global:
			return x.Name(), path
		default:
			return fmt.Sprintf("%T", v), path
		}
	}
}

func c13Init(c *Ctx) {
	R := c.R
	initFn := c.P.Func(load.ModPath, "(*Policy).init")
	np := c.P.Func(load.ModPath, "NewPolicy")
	if initFn == nil || np == nil {
		R.Unknown("C13.R2", "init", "(*Policy).init / NewPolicy", "", "not found")
		return
	}
	// callsInit(fn): some call dominating every return reaches init on the same policy
	memo := map[*ssa.Function]int{}
	var callsInit func(fn *ssa.Function) bool
	callsInit = func(fn *ssa.Function) bool {
		if fn == initFn {
			return true
		}
		if m := memo[fn]; m != 0 {
			return m == 1
		}
		memo[fn] = 2
		var rets []*ssa.BasicBlock
		for _, b := range fn.Blocks {
			if _, ok := b.Instrs[len(b.Instrs)-1].(*ssa.Return); ok {
				rets = append(rets, b)
			}
		}
		for _, b := range fn.Blocks {
			for _, in := range b.Instrs {
				cl, ok := in.(*ssa.Call)
				if !ok || cl.Common().StaticCallee() == nil {
					continue
				}
				cal := cl.Common().StaticCallee()
				if cal.Pkg == nil || cal.Pkg.Pkg.Path() != load.ModPath || !callsInit(cal) {
					continue
				}
				all := true
				for _, rb := range rets {
					if !b.Dominates(rb) {
						all = false
					}
				}
				if all {
					memo[fn] = 1
					return true
				}
			}
		}
		return false
	}
	R.Check(callsInit(np), "C13.R2", "NewPolicy", "NewPolicy", c.P.Pos(np.Pos()), "reaches init() on every path", "a policy can leave NewPolicy without its tables being made: the first Sanitize call would then write them (a data race when shared)")
	for _, n := range []string{"UGCPolicy", "StrictPolicy"} {
		fn := c.P.Func(load.ModPath, n)
		if fn == nil {
			R.Unknown("C13.R2", n, n, "", "not found")
			continue
		}
		R.Check(callsInit(fn) || returnsCallOf(fn, np, c), "C13.R2", n, n, c.P.Pos(fn.Pos()), "built from NewPolicy()", "does not start from an initialised policy")
	}
	// builders that update a Policy table: init() first, or a builder-typed receiver
	F := model.FindFields(c.P)
	_ = F
	for _, fn := range moduleFuncs(c.P) {
		if fn.Pkg == nil || fn.Pkg.Pkg.Path() != load.ModPath || fn == initFn || len(fn.Params) == 0 {
			continue
		}
		var first *ssa.MapUpdate
		for _, b := range fn.Blocks {
			for _, in := range b.Instrs {
				if mu, ok := in.(*ssa.MapUpdate); ok && model.LoadedPolicyField(mu.Map) != "" && first == nil {
					first = mu
				}
			}
		}
		if first == nil {
			continue
		}
		key := "builder:" + shortFn(fn)
		if !isPolicyPtr(fn.Params[0].Type()) {
			R.OK("C13.R2", key, shortFn(fn)+": updates a policy table", c.P.Pos(fn.Pos()), "works on a builder value handed out by AllowAttrs/AllowNoAttrs/AllowStyles, which call init()")
			continue
		}
		// a call to init (or to a callee that calls it) dominating the first map update — or the map is made in this function
		ok := false
		for _, b := range fn.Blocks {
			for _, in := range b.Instrs {
				if cl, isC := in.(*ssa.Call); isC && cl.Common().StaticCallee() != nil && callsInit(cl.Common().StaticCallee()) && b.Dominates(first.Block()) {
					ok = true
				}
				if st, isS := in.(*ssa.Store); isS && model.PolicyField(st.Addr) == model.LoadedPolicyField(first.Map) {
					if _, isMk := st.Val.(*ssa.MakeMap); isMk && b.Dominates(first.Block()) {
						ok = true
					}
				}
			}
		}
		// an unexported helper: it is enough that every call of it in the module comes after init() in the caller
		if !ok && !token.IsExported(fn.Name()) {
			sites, okAll := 0, true
			for _, caller := range moduleFuncs(c.P) {
				for _, b := range caller.Blocks {
					for i, in := range b.Instrs {
						cl, isC := in.(*ssa.Call)
						if !isC || cl.Common().StaticCallee() != fn {
							continue
						}
						sites++
						before := false
						for _, b2 := range caller.Blocks {
							for j, in2 := range b2.Instrs {
								c2, isC2 := in2.(*ssa.Call)
								if !isC2 || c2.Common().StaticCallee() == nil || !callsInit(c2.Common().StaticCallee()) {
									continue
								}
								if (b2 == b && j < i) || (b2 != b && b2.Dominates(b)) {
									before = true
								}
							}
						}
						if !before {
							okAll = false
						}
					}
				}
			}
			ok = sites > 0 && okAll
		}
		R.Check(ok, "C13.R2", key, shortFn(fn)+": updates a policy table", c.P.Pos(first.Pos()), "init() (or a fresh make) precedes the update", "a table may be updated before init(): nil-map panic for a zero-value Policy, and init() would later replace the table")
	}
}

func returnsCallOf(fn, callee *ssa.Function, c *Ctx) bool {
	for _, b := range fn.Blocks {
		if r, ok := b.Instrs[len(b.Instrs)-1].(*ssa.Return); ok && len(r.Results) == 1 {
			if cl, ok := r.Results[0].(*ssa.Call); ok {
				cal := cl.Common().StaticCallee()
				if cal == callee || (cal != nil && cal != fn && cal.Pkg == fn.Pkg && returnsCallOf(cal, callee, c)) {
					continue
				}
			}
			return false
		}
	}
	return true
}

func c13Globals(c *Ctx) {
	R := c.R
	n := 0
	for _, fn := range moduleFuncs(c.P) {
		if fn.Name() == "init" && fn.Synthetic != "" {
			continue
		}
		isPkgInit := fn.Name() == "init" && fn.Signature.Recv() == nil && fn.Parent() == nil && strings.HasPrefix(fn.Synthetic, "package init")
		for _, b := range fn.Blocks {
			for _, in := range b.Instrs {
				var addr ssa.Value
				what := ""
				switch x := in.(type) {
				case *ssa.Store:
					addr, what = x.Addr, "store"
				case *ssa.MapUpdate:
					addr, what = x.Map, "map update"
				case *ssa.Call:
					if x.Common().StaticCallee() != nil && pa.CalleeName(x.Common().StaticCallee()) == "(*regexp.Regexp).Longest" {
						R.Fail("C13.R3", "longest:"+shortFn(fn), shortFn(fn)+": (*regexp.Regexp).Longest", c.P.Pos(x.Pos()), "mutates a shared regexp")
					}
					continue
				default:
					continue
				}
				root := addr
				for {
					switch y := root.(type) {
					case *ssa.FieldAddr:
						root = y.X
						continue
					case *ssa.IndexAddr:
						root = y.X
						continue
					case *ssa.UnOp:
						root = y.X
						continue
					}
					break
				}
				g, ok := root.(*ssa.Global)
				if !ok || g.Pkg == nil || !strings.HasPrefix(g.Pkg.Pkg.Path(), load.ModPath) {
					continue
				}
				n++
				if isPkgInit {
					continue
				}
				R.Fail("C13.R3", "global-write:"+g.Name()+":"+shortFn(fn), shortFn(fn)+": "+what+" to package variable "+g.Name(), c.P.Pos(in.Pos()), "package state is modified at run time: policies and concurrent calls would influence each other")
			}
		}
	}
	// count package-level vars
	nv := 0
	for _, sp := range c.P.SSA {
		for _, m := range sp.Members {
			if _, ok := m.(*ssa.Global); ok {
				nv++
			}
		}
	}
	R.OK("C13.R3", "globals", fmt.Sprintf("%d package-level variables in the module", nv), "", "written only by the package initialisers (every other store/map update in the module was inspected)")
	R.Role("C13.R3", "package-level variables", nv, 40)
}

func c13MapOrder(c *Ctx, E *effects.Analysis, S map[*ssa.Function]bool) {
	R := c.R
	san, _ := model.FindSan(c.P)
	n := 0
	var fns []*ssa.Function
	for fn := range S {
		fns = append(fns, fn)
	}
	sortFuncs(fns)
	for _, fn := range fns {
		cnt := 0
		for _, l := range model.RangeLoopsAll(fn) {
			if !l.IsMap {
				continue
			}
			n++
			cnt++
			key := fmt.Sprintf("%s:maprange#%d", shortFn(fn), cnt)
			cons := fmt.Sprintf("%s: range over a map", shortFn(fn))
			pos := c.P.Pos(lastPos(l.Header))
			bad := ""
			for _, b := range sortedBlocks(l.Blocks) {
				for _, in := range b.Instrs {
					switch x := in.(type) {
					case *ssa.MapUpdate:
						// an entry overwritten with a value of the current iteration: whichever iteration comes last
						// wins, unless the key is this (un-nested) loop's own key, which no other iteration can hit
						vin, isIn := x.Value.(ssa.Instruction)
						if !isIn || !l.Blocks[vin.Block()] {
							continue
						}
						if ac, base := model.IsAppend(x.Value); ac != nil {
							lk, _ := base.(*ssa.Lookup)
							if ex, isEx := base.(*ssa.Extract); isEx {
								lk, _ = ex.Tuple.(*ssa.Lookup)
							}
							if lk != nil && lk.X == x.Map && lk.Index == x.Key {
								continue // m[k] = append(m[k], …): accumulates
							}
						}
						ownKey := false
						if ex, isEx := x.Key.(*ssa.Extract); isEx && ex.Index == 1 {
							if nx, isNx := ex.Tuple.(*ssa.Next); isNx && nx.Block() == l.Header {
								ownKey = true
								for _, l2 := range model.RangeLoopsAll(fn) {
									if l2.Header != l.Header && l2.Blocks[l.Header] {
										ownKey = false
									}
								}
							}
						}
						if !ownKey {
							bad = "a map entry is overwritten with a value of the current iteration (" + stripIDs(x.Value.Name()) + "): when several iterations write the same key, the one that happens to come last wins"
						}
					case ssa.CallInstruction:
						if san != nil && isDestinationWrite(san, x) {
							bad = "a destination write happens inside the loop"
						}
						if cl, ok := x.(*ssa.Call); ok {
							if ac, base := model.IsAppend(cl); ac != nil {
								// allowed: append(m[k], ...) stored back into a fresh map with the same key
								if _, isLk := base.(*ssa.Lookup); isLk {
									continue
								}
								if ex, isEx := base.(*ssa.Extract); isEx {
									if _, isLk := ex.Tuple.(*ssa.Lookup); isLk {
										continue
									}
								}
								bad = "an ordered list is appended to inside the loop (its order would follow map iteration order)"
							}
						}
					}
				}
			}
			// loop-carried variables (header phis): the value coming round the back edge must be a constant, the
			// variable itself, a tree of those, or loop-invariant — not something computed from the iteration
			for _, in := range l.Header.Instrs {
				ph, ok := in.(*ssa.Phi)
				if !ok {
					break
				}
				for i, e := range ph.Edges {
					if !l.Blocks[l.Header.Preds[i]] {
						continue
					}
					if _, isC := e.(*ssa.Const); isC || e == ssa.Value(ph) {
						continue
					}
					if ein, isIn := e.(ssa.Instruction); isIn && l.Blocks[ein.Block()] {
						if p2, isPhi := e.(*ssa.Phi); isPhi && phiOfConstsOrSelf(p2, ph, l) {
							continue
						}
						if lazyFreshMap(e, ph) {
							continue
						}
						bad = "variable " + ph.Comment + " receives a value computed from the iteration (" + stripIDs(e.Name()) + "): its final value depends on map order"
					}
				}
			}
			// values defined inside the loop and used after it (through break/return paths, exit phis, …) must be
			// constant flags; a key, a value or anything computed from them that escapes is "whichever came first"
			for _, b := range sortedBlocks(l.Blocks) {
				for _, in := range b.Instrs {
					v, ok := in.(ssa.Value)
					if !ok || v.Referrers() == nil {
						continue
					}
					escapes := false
					var where ssa.Instruction
					for _, r := range *v.Referrers() {
						if r.Block() != nil && !l.Blocks[r.Block()] {
							escapes = true
							where = r
						}
					}
					if !escapes {
						continue
					}
					if ph, isPhi := v.(*ssa.Phi); isPhi {
						if b == l.Header {
							continue // judged above
						}
						if phiOfConstsOrSelf(ph, nil, l) {
							continue
						}
					}
					what := stripIDs(v.Name())
					if ex, isEx := v.(*ssa.Extract); isEx {
						if _, isNext := ex.Tuple.(*ssa.Next); isNext {
							what = map[int]string{0: "the has-next flag", 1: "the iteration key", 2: "the iteration value"}[ex.Index]
						}
					}
					bad = fmt.Sprintf("%s of one iteration is used after the loop (at %s): which iteration that is depends on map order", what, c.P.Pos(where.Pos()))
				}
			}
			R.Check(bad == "", "C13.R4", key, cons, pos, "only constant flags / break / merges into a fresh map", bad)
		}
	}
	R.Role("C13.R4", "map range loops on sanitising paths", n, 5)
}

func phiOfConstsOrSelf(p, outer *ssa.Phi, l *model.AnyLoop) bool {
	seen := map[*ssa.Phi]bool{}
	var ok func(p *ssa.Phi) bool
	ok = func(p *ssa.Phi) bool {
		if seen[p] {
			return true
		}
		seen[p] = true
		for _, e := range p.Edges {
			switch x := e.(type) {
			case *ssa.Const:
			case *ssa.Phi:
				if x != outer && !ok(x) {
					return false
				}
			default:
				// loop-invariant values (defined outside the loop) are fine
				if in, isIn := e.(ssa.Instruction); isIn && l.Blocks[in.Block()] {
					if outer != nil && lazyFreshMap(e, outer) {
						continue
					}
					return false
				}
			}
		}
		return true
	}
	return ok(p)
}

func c13Nondeterminism(c *Ctx, S map[*ssa.Function]bool) {
	R := c.R
	banned := map[string]bool{"time": true, "math/rand": true, "math/rand/v2": true, "os": true, "sync": true, "sync/atomic": true, "unsafe": true, "reflect": true, "runtime": true, "crypto/rand": true}
	var fns []*ssa.Function
	for fn := range S {
		fns = append(fns, fn)
	}
	sortFuncs(fns)
	nCalls := 0
	for _, fn := range fns {
		for _, b := range fn.Blocks {
			for _, in := range b.Instrs {
				switch x := in.(type) {
				case *ssa.Go:
					R.Fail("C13.R5", "go:"+shortFn(fn), shortFn(fn)+": go statement", c.P.Pos(x.Pos()), "goroutine started on a sanitising path")
				case *ssa.Select:
					R.Fail("C13.R5", "select:"+shortFn(fn), shortFn(fn)+": select", c.P.Pos(x.Pos()), "channel select on a sanitising path")
				case *ssa.Send:
					R.Fail("C13.R5", "send:"+shortFn(fn), shortFn(fn)+": channel send", c.P.Pos(x.Pos()), "channel operation on a sanitising path")
				case ssa.CallInstruction:
					nCalls++
					cal := x.Common().StaticCallee()
					if cal == nil || cal.Object() == nil || cal.Object().Pkg() == nil {
						continue
					}
					if p := cal.Object().Pkg().Path(); banned[p] {
						R.Fail("C13.R5", "call:"+pa.CalleeName(cal)+":"+shortFn(fn), shortFn(fn)+": call of "+cal.String(), c.P.Pos(x.Pos()), "package "+p+" on a sanitising path (time, randomness, process state or synchronisation)")
					}
					if pa.CalleeName(cal) == "fmt.Println" || pa.CalleeName(cal) == "fmt.Printf" || pa.CalleeName(cal) == "fmt.Print" {
						R.OK("C13.R5", "stdout:"+shortFn(fn), shortFn(fn)+": "+pa.CalleeName(cal), c.P.Pos(x.Pos()), "reviewed exception: writes a diagnostic to the process's stdout, not to the result (reported informationally: an error is noticed and the value used regardless)")
					}
				}
			}
		}
	}
	R.OK("C13.R5", "calls", fmt.Sprintf("%d call sites on sanitising paths inspected", nCalls), "", "none resolves into time, math/rand, os, sync, unsafe, reflect, runtime")
}

// lazyFreshMap: e is a map made inside the loop on a path where the loop-carried variable ph is known to be nil
// (`if m == nil { m = make(…) }`): it is made at most once, whichever iteration comes first, and starts empty — which
// iteration made it cannot be told from its contents.
func lazyFreshMap(e ssa.Value, ph *ssa.Phi) bool {
	mk, ok := e.(*ssa.MakeMap)
	if !ok {
		return false
	}
	b := mk.Block()
	for d := b.Idom(); d != nil; d = d.Idom() {
		iff, ok := d.Instrs[len(d.Instrs)-1].(*ssa.If)
		if !ok || len(d.Succs) != 2 || d.Succs[0] == d.Succs[1] {
			continue
		}
		bo, ok := iff.Cond.(*ssa.BinOp)
		if !ok || bo.X != ssa.Value(ph) || !model.IsNil(bo.Y) {
			continue
		}
		k := 0
		if bo.Op == token.NEQ {
			k = 1
		} else if bo.Op != token.EQL {
			continue
		}
		if s := d.Succs[k]; (s == b || s.Dominates(b)) && len(s.Preds) == 1 {
			return true
		}
	}
	return false
}

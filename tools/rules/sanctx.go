package rules

import (
	"fmt"
	"go/constant"
	"strings"

	"golang.org/x/tools/go/ssa"

	"verif/tools/load"
	"verif/tools/model"
	"verif/tools/pa"
)

// SC bundles the recognised sanitiser, the role->field binding and atom classifiers.
type SC struct {
	c *Ctx
	S *model.San
	F *model.Fields
	A *pa.Analysis
}

func newSC(c *Ctx, rule string) *SC {
	s, err := model.FindSan(c.P)
	if err != nil {
		c.R.Unknown(rule, "sanitize", "(*Policy).sanitize", "", "sanitiser structure not recognised: "+err.Error())
		return nil
	}
	for _, p := range s.Problems {
		c.R.Unknown(rule, "sanitize:"+p, "(*Policy).sanitize", "", p)
	}
	F := model.FindFields(c.P)
	// unresolved roles are reported when (and only when) a rule asks for them: see FinishFields
	sc := &SC{c: c, S: s, F: F, A: s.A}
	translateAll(s.A)
	c.R.Analysed["sanitize"] = s.Describe()
	c.R.Analysed["field_roles"] = F.ByRole
	return sc
}

func translateAll(A *pa.Analysis) { A.Prepare() }

// fieldKey returns the atom key of a load of the receiver's field playing `role`.
func (sc *SC) fieldLit(A *pa.Analysis, recv *ssa.Parameter, role string) *pa.F {
	f := sc.F.Get(role)
	if f == "" {
		return A.Lit("unresolved-role:" + role)
	}
	return A.Lit(recv.Name() + "." + f)
}

func (sc *SC) U() *pa.F { return sc.fieldLit(sc.A, sc.S.Recv, "allowUnsafe") }

func constString(v ssa.Value) (string, bool) {
	c, ok := v.(*ssa.Const)
	if !ok || c.Value == nil || c.Value.Kind() != constant.String {
		return "", false
	}
	return constant.StringVal(c.Value), true
}

// nameChain: v is computed from a base value only through functions that are the identity on lower-case ASCII names
// and never turn a name that is not ASCII-case-insensitively equal to a keyword into that keyword: trimming / slicing
// the quote marks, strconv.QuoteToASCII, and strings.ToLower applied to an ASCII-only string — i.e. to (an image of) a
// QuoteToASCII result.  ToLower applied to the raw name folds non-ASCII letters whose lower case is ASCII (U+0130 İ → i,
// U+212A K → k) into ASCII names: "scrİpt" would be judged as "script".
func nameChain(v ssa.Value, isBase func(ssa.Value) bool, res func(ssa.Value) ssa.Value, depth int) bool {
	return nameChainA(v, isBase, res, depth, false)
}

func nameChainA(v ssa.Value, isBase func(ssa.Value) bool, res func(ssa.Value) ssa.Value, depth int, needASCII bool) bool {
	if res != nil {
		v = res(v)
	}
	if isBase(v) {
		return !needASCII
	}
	if depth > 6 {
		return false
	}
	// q[1:len(q)-1] of a quoted string: the two quote marks sliced off
	if sl, ok := v.(*ssa.Slice); ok && sl.Low != nil && sl.High != nil && sl.Max == nil {
		if k, ok := sl.Low.(*ssa.Const); ok && k.Int64() == 1 {
			if x, kk, ok := minusConst(sl.High); ok && kk == 1 && lenOf(x) == sl.X {
				q := sl.X
				if tl := isCallTo(q, "strings.ToLower"); tl != nil {
					q = tl.Common().Args[0]
				}
				if isCallTo(q, "strconv.QuoteToASCII") != nil {
					return nameChainA(sl.X, isBase, res, depth+1, needASCII)
				}
			}
		}
		return false
	}
	c, ok := v.(*ssa.Call)
	if !ok {
		return false
	}
	fn := c.Common().StaticCallee()
	if fn == nil {
		return false
	}
	args := c.Common().Args
	switch pa.CalleeName(fn) {
	case "strings.ToLower":
		return len(args) == 1 && nameChainA(args[0], isBase, res, depth+1, true)
	case "strconv.QuoteToASCII":
		return len(args) == 1 && nameChainA(args[0], isBase, res, depth+1, false)
	case "strings.TrimPrefix", "strings.TrimSuffix":
		if k, ok := constString(args[1]); ok && k == `"` {
			return nameChainA(args[0], isBase, res, depth+1, needASCII)
		}
		return false
	}
	// a module function whose result is a name chain of its single string parameter
	if fn.Pkg != nil && strings.HasPrefix(fn.Pkg.Pkg.Path(), load.ModPath) && len(fn.Params) == 1 && len(args) == 1 {
		if namePreserving(fn) {
			return nameChainA(args[0], isBase, res, depth+1, needASCII)
		}
	}
	return false
}

// namePreserving: fn(s string) string returns on every path a name chain of its parameter.
func namePreserving(fn *ssa.Function) bool {
	if len(fn.Blocks) == 0 || len(fn.Params) != 1 {
		return false
	}
	n := 0
	for _, b := range fn.Blocks {
		if r, ok := b.Instrs[len(b.Instrs)-1].(*ssa.Return); ok {
			n++
			if len(r.Results) != 1 || !nameChain(r.Results[0], func(v ssa.Value) bool { return v == ssa.Value(fn.Params[0]) }, nil, 0) {
				return false
			}
		}
	}
	return n > 0
}

// isTokName: v (possibly inside an inlined callee) is token.Data or a name-preserving image of it.
func (sc *SC) isTokName(at *pa.Atom, v ssa.Value) bool {
	return nameChain(v, func(x ssa.Value) bool { return sc.S.TokenField(x) == "Data" }, at.Res, 0)
}

// isTokData: v resolves to a load of token.Data itself.
func (sc *SC) isTokData(at *pa.Atom, v ssa.Value) bool {
	return sc.S.TokenField(at.Resolve(v)) == "Data"
}

// nameTests returns the atoms "(norm(token.Data) == lit)".
func (sc *SC) nameTests(lit string) []int {
	var out []int
	for i, at := range sc.A.Atoms {
		if at.Kind != "eq" {
			continue
		}
		if k, ok := constString(at.Y); ok && k == lit && sc.isTokName(at, at.X) {
			out = append(out, i)
		}
	}
	return out
}

// policyFieldLoad: v (resolved) is a load of the receiver's field playing role.
func (sc *SC) isRoleLoad(at *pa.Atom, v ssa.Value, role string) bool {
	f := sc.F.Get(role)
	return f != "" && model.LoadedPolicyField(at.Resolve(v)) == f
}

// rangeKeyOf: v is the key (Extract #1) of a range over a load of the role's field.
func (sc *SC) isRangeKeyOfRole(at *pa.Atom, v ssa.Value, role string) bool {
	v = at.Resolve(v)
	ex, ok := v.(*ssa.Extract)
	if !ok || ex.Index != 1 {
		return false
	}
	nx, ok := ex.Tuple.(*ssa.Next)
	if !ok {
		return false
	}
	rg, ok := nx.Iter.(*ssa.Range)
	if !ok {
		return false
	}
	return sc.isRoleLoad(at, rg.X, role)
}

// isRangeElemOfRole: v is the element value (Extract #2 of Next, or load of IndexAddr for slices) of a range over the role's field.
func (sc *SC) isRangeElemOfRole(at *pa.Atom, v ssa.Value, role string) bool {
	v = at.Resolve(v)
	// slice range: load of &slice[i]
	if u, ok := v.(*ssa.UnOp); ok {
		if ia, ok := u.X.(*ssa.IndexAddr); ok {
			return sc.isRoleLoad(at, ia.X, role)
		}
	}
	if ex, ok := v.(*ssa.Extract); ok && ex.Index == 2 {
		if nx, ok := ex.Tuple.(*ssa.Next); ok {
			if rg, ok := nx.Iter.(*ssa.Range); ok {
				return sc.isRoleLoad(at, rg.X, role)
			}
		}
	}
	return false
}

func isMatchString(c *ssa.CallCommon) bool {
	return model.CalleeIs(c, "regexp", "Regexp", "MatchString")
}

// elementAllowAtoms returns atoms whose truth means "the policy's element tables admit token.Data":
// mapok(p.elsAndAttrs, token.Data); MatchString(<range key of p.elsMatchingAndAttrs>, token.Data);
// result #1 of a module method m(p, token.Data) that satisfies the matchRegex obligation (C01.R3).
func (sc *SC) elementAllowAtoms() (atoms []int, descr []string) {
	for i, at := range sc.A.Atoms {
		switch at.Kind {
		case "mapok":
			if sc.isRoleLoad(at, at.X, "elsAndAttrs") && sc.isTokData(at, at.Y) {
				atoms = append(atoms, i)
				descr = append(descr, at.Key)
			}
		case "val":
			v := at.Resolve(at.X)
			if ex, ok := v.(*ssa.Extract); ok {
				if cl, ok := ex.Tuple.(*ssa.Call); ok && ex.Index == 1 {
					fn := cl.Common().StaticCallee()
					if fn != nil && fn == sc.c.P.Func(load.ModPath, "(*Policy).matchRegex") && len(cl.Common().Args) == 2 &&
						cl.Common().Args[0] == ssa.Value(sc.S.Recv) && sc.isTokData(at, cl.Common().Args[1]) {
						atoms = append(atoms, i)
						descr = append(descr, at.Key)
					}
				}
			}
			if cl, ok := v.(*ssa.Call); ok && isMatchString(cl.Common()) {
				if sc.isRangeKeyOfRole(at, cl.Common().Args[0], "elsMatchingAndAttrs") && sc.isTokData(at, cl.Common().Args[1]) {
					atoms = append(atoms, i)
					descr = append(descr, at.Key)
				}
			}
		}
	}
	return
}

func orAtoms(atoms []int) *pa.F {
	var fs []*pa.F
	for _, a := range atoms {
		fs = append(fs, pa.AtomF(a))
	}
	return pa.Or(fs...)
}

func (sc *SC) track(fs ...*pa.F) []int {
	m := map[int]bool{}
	for _, f := range fs {
		f.Atoms(m)
	}
	var out []int
	for k := range m {
		out = append(out, k)
	}
	return out
}

// armQuery runs a query over one arm tracking the atoms of the given formulas.
func (sc *SC) armQuery(arm string, fs ...*pa.F) (*pa.Query, error) {
	a := sc.S.Arms[arm]
	if a == nil {
		return nil, fmt.Errorf("arm %s not recognised", arm)
	}
	q, err := sc.A.NewQuery(sc.track(fs...))
	if err != nil {
		return nil, err
	}
	q.Barrier[sc.S.Header] = true
	if a.Entry != sc.S.Header {
		q.Run(a.Entry, nil)
	}
	return q, nil
}

func (sc *SC) pos(in ssa.Instruction) string { return sc.c.P.Pos(in.Pos()) }

func writeKey(s *model.San, i int) string {
	w := s.Writes[i]
	return fmt.Sprintf("write:%s:%s#%d", w.Arm, w.Payload, ordinalInArm(s, i))
}

func writeDescr(w *model.Write) string {
	return fmt.Sprintf("(*Policy).sanitize: write of %s in arm %s", w.Detail, w.Arm)
}

var tagArms = []string{"StartTag", "EndTag", "SelfClosingTag"}

// inArm keeps only the atoms that can be constrained inside the arm: atoms occurring in a branch
// condition of one of the arm's blocks, loop-header variables, and event variables.
func (sc *SC) inArm(arm string, atoms []int) []int {
	a := sc.S.Arms[arm]
	if a == nil {
		return atoms
	}
	occ := map[int]bool{}
	for b := range a.Blocks {
		if ifi, ok := b.Instrs[len(b.Instrs)-1].(*ssa.If); ok {
			sc.A.Cond(ifi.Cond).Atoms(occ)
		}
	}
	var out []int
	for _, i := range atoms {
		at := sc.A.Atoms[i]
		if occ[i] || at.Ev || (at.Phi != nil && (at.Phi.Block() == sc.S.Header || a.Blocks[at.Phi.Block()])) {
			out = append(out, i)
		}
	}
	return out
}

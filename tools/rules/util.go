package rules

import (
	"go/token"
	"go/types"
	"sort"

	"golang.org/x/tools/go/ssa"
)

type tokenPos = token.Pos

func ptrTo(t types.Type) types.Type { return types.NewPointer(t) }

func sortFuncs(fs []*ssa.Function) {
	sort.Slice(fs, func(i, j int) bool { return fs[i].String() < fs[j].String() })
}

// sortedBlocks returns the blocks of a set in index order (deterministic obligation keys).
func sortedBlocks(m map[*ssa.BasicBlock]bool) []*ssa.BasicBlock {
	out := make([]*ssa.BasicBlock, 0, len(m))
	for b := range m {
		out = append(out, b)
	}
	sort.Slice(out, func(i, j int) bool { return out[i].Index < out[j].Index })
	return out
}

package rules

import (
	"go/token"
	"go/types"
	"sort"

	"golang.org/x/tools/go/ssa"
)

type tokenPos = token.Pos

func ptrTo(t types.Type) types.Type { return types.NewPointer(t) }

func sortFuncs(fs []*ssa.Function) {
	sort.Slice(fs, func(i, j int) bool { return fs[i].String() < fs[j].String() })
}

package rules

import (
	"go/token"
	"go/types"
	"sort"

	"golang.org/x/tools/go/ssa"

	"verif/tools/load"
)

type tokenPos = token.Pos

func ptrTo(t types.Type) types.Type { return types.NewPointer(t) }

func sortFuncs(fs []*ssa.Function) {
	sort.Slice(fs, func(i, j int) bool { return fs[i].String() < fs[j].String() })
}

// sortedBlocks returns the blocks of a set in index order (deterministic obligation keys).
func sortedBlocks(m map[*ssa.BasicBlock]bool) []*ssa.BasicBlock {
	out := make([]*ssa.BasicBlock, 0, len(m))
	for b := range m {
		out = append(out, b)
	}
	sort.Slice(out, func(i, j int) bool { return out[i].Index < out[j].Index })
	return out
}

// bufferFunnel returns the function that sanitises a reader into a fresh bytes.Buffer: (*Policy).sanitizeWithBuff, or —
// when that helper was folded into its caller — the method of *Policy with the signature func(io.Reader) *bytes.Buffer
// that calls (*Policy).sanitize (SanitizeReader).
func bufferFunnel(c *Ctx) *ssa.Function {
	if fn := c.P.Func(load.ModPath, "(*Policy).sanitizeWithBuff"); fn != nil {
		return fn
	}
	san := c.P.Func(load.ModPath, "(*Policy).sanitize")
	if san == nil {
		return nil
	}
	var found *ssa.Function
	for _, fn := range moduleFuncs(c.P) {
		if fn.Signature.Recv() == nil || fn.Signature.Params().Len() != 1 || fn.Signature.Results().Len() != 1 {
			continue
		}
		if fn.Signature.Params().At(0).Type().String() != "io.Reader" || fn.Signature.Results().At(0).Type().String() != "*bytes.Buffer" {
			continue
		}
		calls := false
		for _, b := range fn.Blocks {
			for _, in := range b.Instrs {
				if cl, ok := in.(*ssa.Call); ok && cl.Common().StaticCallee() == san {
					calls = true
				}
			}
		}
		if calls {
			if found != nil {
				return nil
			}
			found = fn
		}
	}
	return found
}

// constBuilt: v is a string assembled from constants only — a constant, or a φ / concatenation all of whose operands are
// (an accumulator such as `rel := ""; if a { rel = add(rel, "nofollow") }` after the helper was inlined).
func constBuilt(v ssa.Value) bool {
	seen := map[ssa.Value]bool{}
	var f func(v ssa.Value) bool
	f = func(v ssa.Value) bool {
		if seen[v] {
			return true
		}
		seen[v] = true
		switch x := v.(type) {
		case *ssa.Const:
			_, ok := constString(x)
			return ok
		case *ssa.Phi:
			for _, e := range x.Edges {
				if !f(e) {
					return false
				}
			}
			return true
		case *ssa.BinOp:
			return x.Op == token.ADD && f(x.X) && f(x.Y)
		}
		return false
	}
	return f(v)
}

// adapterWriteString returns the WriteString method of the adapter that gives a plain io.Writer the WriteString
// interface: (*asStringWriter).WriteString by name, else the only WriteString(string) (int, error) method declared in
// the package on a struct type that holds an io.Writer.
func adapterWriteString(c *Ctx) *ssa.Function {
	if fn := c.P.Func(load.ModPath, "(*asStringWriter).WriteString"); fn != nil {
		return fn
	}
	var found *ssa.Function
	for _, fn := range moduleFuncs(c.P) {
		if fn.Name() != "WriteString" || fn.Signature.Recv() == nil || fn.Pkg == nil || fn.Pkg.Pkg.Path() != load.ModPath {
			continue
		}
		if fn.Signature.Params().Len() != 1 || fn.Signature.Results().Len() != 2 {
			continue
		}
		rt := fn.Signature.Recv().Type()
		if p, ok := rt.(*types.Pointer); ok {
			rt = p.Elem()
		}
		st, ok := rt.Underlying().(*types.Struct)
		if !ok {
			continue
		}
		holds := false
		for i := 0; i < st.NumFields(); i++ {
			if st.Field(i).Type().String() == "io.Writer" {
				holds = true
			}
		}
		if !holds {
			continue
		}
		if found != nil && found != fn {
			return nil
		}
		found = fn
	}
	return found
}

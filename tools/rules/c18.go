package rules

import (
	"fmt"
	"go/ast"
	"go/types"
	"sort"
	"strings"

	"golang.org/x/tools/go/ssa"

	"verif/tools/load"
	"verif/tools/model"
	"verif/tools/pa"
	"verif/tools/pats"
	"verif/tools/relang"
)

func init() { register("C18", "other", runC18) }

type hostileSpec struct {
	Fragments map[string]string `json:"fragments"`
	H6        struct {
		Opener string `json:"opener"`
		Skip   string `json:"skip"`
		Good   string `json:"good_prefix"`
	} `json:"h6"`
}

// cssEnv is the shared language environment for C18.
type cssEnv struct {
	c    *Ctx
	A    *relang.Alphabet
	spec hostileSpec
	H    map[string]*relang.DFA // hostile languages by name
	Hall *relang.DFA
	vars map[string]*pats.Var
	lits []string // every string literal of css/handlers.go
}

func cssStringLits(c *Ctx) []string {
	var out []string
	seen := map[string]bool{}
	for _, f := range c.P.CSS.Syntax {
		ast.Inspect(f, func(n ast.Node) bool {
			if bl, ok := n.(*ast.BasicLit); ok {
				if s, ok := pats.ConstString(c.P.CSS.TypesInfo, bl); ok && !seen[s] {
					seen[s] = true
					out = append(out, s)
				}
			}
			return true
		})
	}
	sort.Strings(out)
	return out
}

func newCSSEnv(c *Ctx) (*cssEnv, error) {
	e := &cssEnv{c: c, H: map[string]*relang.DFA{}, vars: map[string]*pats.Var{}}
	if err := c.Spec("css_hostile.json", &e.spec); err != nil {
		return nil, err
	}
	vs := pats.RegexpVars(c.P.CSS)
	pats.FindWrites(vs, c.P.Pkgs)
	b := relang.NewBuilder()
	for _, v := range vs {
		e.vars[v.Name] = v
		if v.Const {
			if err := b.AddPattern(v.Pattern); err != nil {
				return nil, fmt.Errorf("css.%s: %v", v.Name, err)
			}
		}
	}
	e.lits = cssStringLits(c)
	for _, l := range e.lits {
		b.AddString(l)
	}
	for _, p := range e.spec.Fragments {
		if err := b.AddPattern(p); err != nil {
			return nil, err
		}
	}
	for _, p := range []string{e.spec.H6.Opener, e.spec.H6.Skip, e.spec.H6.Good} {
		if err := b.AddPattern(p); err != nil {
			return nil, err
		}
	}
	b.AddRuneSet(relang.WhiteSpace())
	b.AddRuneSet(relang.LowerPreimageRunes(strings.Join(e.lits, "")))
	b.AddString(" ,/;:()\"'\\<>@")
	e.A = b.Build()
	a := e.A
	var names []string
	for n := range e.spec.Fragments {
		names = append(names, n)
	}
	sort.Strings(names)
	e.Hall = relang.Empty(a)
	for _, n := range names {
		d, err := relang.FromRegexp(e.spec.Fragments[n], a)
		if err != nil {
			return nil, err
		}
		e.H[n] = d
		e.Hall = relang.Union(e.Hall, d)
	}
	// h6
	opener := relang.MustRegexp("^(?:"+e.spec.H6.Opener+")$", a)
	skip := relang.MustRegexp("^(?:"+e.spec.H6.Skip+")$", a)
	good := relang.MustRegexp("^(?:"+e.spec.H6.Good+")", a) // starts with http
	startsSkip := relang.Concat(skip, relang.All(a))
	rest := relang.Diff(relang.All(a), relang.Union(good, startsSkip))
	h6 := relang.Concat(relang.All(a), opener, relang.Star(skip), rest)
	e.H["h6_url_not_http"] = h6
	e.Hall = relang.Union(e.Hall, h6)
	return e, nil
}

// hostileWitness returns (name of the hostile class, witness) if L ∩ H ≠ ∅.
func (e *cssEnv) hostileWitness(L *relang.DFA) (string, string, bool) {
	var names []string
	for n := range e.H {
		names = append(names, n)
	}
	sort.Strings(names)
	for _, n := range names {
		if w, ok := relang.Inter(L, e.H[n]).Witness(); ok {
			return n, w, true
		}
	}
	return "", "", false
}

// regexpUse describes how a css regexp variable is used.
type regexpUse struct {
	fn   *ssa.Function
	call *ssa.Call
	kind string // MatchString | FindString | ReplaceAll | other
}

func cssRegexpUses(c *Ctx) map[string][]regexpUse {
	out := map[string][]regexpUse{}
	for _, fn := range moduleFuncs(c.P) {
		if fn.Pkg == nil || fn.Pkg.Pkg.Path() != load.ModPath+"/css" {
			continue
		}
		for _, b := range fn.Blocks {
			for _, in := range b.Instrs {
				cl, ok := in.(*ssa.Call)
				if !ok || cl.Common().StaticCallee() == nil || len(cl.Common().Args) == 0 {
					continue
				}
				u, ok := cl.Common().Args[0].(*ssa.UnOp)
				if !ok {
					continue
				}
				g, ok := u.X.(*ssa.Global)
				if !ok || g.Pkg.Pkg.Path() != load.ModPath+"/css" {
					continue
				}
				out[g.Name()] = append(out[g.Name()], regexpUse{fn, cl, cl.Common().StaticCallee().Name()})
			}
		}
	}
	return out
}

func runC18(c *Ctx) {
	R := c.R
	R.Rule("C18.R1", "registry: every value of the defaultStyleHandlers literal is a top-level function of package css with signature func(string) bool; keys are lower-case constants; the map is never written outside its declaration")
	R.Rule("C18.R2", "GetDefaultHandler returns the table entry for the same key or BaseHandler, which returns false on every path (decided by C10.R5, re-checked here)")
	R.Rule("C18.R3", "accept provenance: in every handler a true result is produced only by a leaf acceptor applied to (a part of) the parameter — R.MatchString(x), in(xs, literals), recursiveCheck(xs, handlers), another handler, FindString(x)==x — never unconditionally, on a constant, or on a length alone")
	R.Rule("C18.R4", "whole value: a regexp used as an acceptor (MatchString / FindString compared with its argument) is anchored on both sides: L_match(r) = L_match(^(?:r)$); regexps used only as ReplaceAll patterns are exempt here and covered by the composite rule")
	R.Rule("C18.R5", "no hostile fragment: for every acceptor regexp L_match(r) ∩ H = ∅, H being the hostile language of spec/css_hostile.json (backslash, angle brackets, @, expression(, javascript:/vbscript:/data: at a scheme position, url( not followed by http); the shortest witness is reported")
	R.Rule("C18.R6", "keyword lists: every string literal in a []string keyword list of css/handlers.go is free of hostile fragments (in() compares whole split parts with these literals)")
	R.Rule("C18.R7", "composite: the language of every registered handler, computed by abstract interpretation of its body over exact regular-language schemas, has an empty intersection with H")
	R.Assume(TrustGo, TrustRegexp, "membership of accepted values in the CSS specification's value space for the property is NOT decided (no CSS grammar available offline); only the inert half of the statement is")
	env, err := newCSSEnv(c)
	if err != nil {
		R.Unknown("C18.R5", "env", "css language environment", "", err.Error())
		return
	}
	R.Analysed["alphabet_classes"] = env.A.N()
	R.Analysed["css_regexps"] = len(env.vars)
	R.Analysed["css_string_literals"] = len(env.lits)
	c18Registry(c)
	c18Leaves(c, env)
	c18Provenance(c)
	c18Helpers(c)
	c18Composite(c, env)
}

func c18Registry(c *Ctx) {
	R := c.R
	// find the composite literal of defaultStyleHandlers
	n := 0
	for _, f := range c.P.CSS.Syntax {
		for _, d := range f.Decls {
			gd, ok := d.(*ast.GenDecl)
			if !ok {
				continue
			}
			for _, sp := range gd.Specs {
				vs, ok := sp.(*ast.ValueSpec)
				if !ok {
					continue
				}
				for i, name := range vs.Names {
					if name.Name != "defaultStyleHandlers" || i >= len(vs.Values) {
						continue
					}
					cl, ok := ast.Unparen(vs.Values[i]).(*ast.CompositeLit)
					if !ok {
						R.Fail("C18.R1", "registry", "css.defaultStyleHandlers", c.P.Pos(name.Pos()), "not initialised by a composite literal")
						return
					}
					for _, el := range cl.Elts {
						kv, ok := el.(*ast.KeyValueExpr)
						if !ok {
							continue
						}
						n++
						key, isC := pats.ConstString(c.P.CSS.TypesInfo, kv.Key)
						okE := isC && key == strings.ToLower(key)
						why := ""
						if !okE {
							why = "key is not a lower-case constant"
						}
						id, isId := ast.Unparen(kv.Value).(*ast.Ident)
						if !isId {
							okE, why = false, "value is not a plain function name"
						} else if fnObj, isFn := c.P.CSS.TypesInfo.Uses[id].(*types.Func); !isFn || fnObj.Pkg() != c.P.CSS.Types || fnObj.Type().String() != "func(value string) bool" && !strings.HasPrefix(fnObj.Type().String(), "func(") {
							okE, why = false, "value is not a top-level function of package css"
						} else {
							sig := fnObj.Type().(*types.Signature)
							if sig.Params().Len() != 1 || sig.Results().Len() != 1 || sig.Params().At(0).Type().String() != "string" || sig.Results().At(0).Type().String() != "bool" {
								okE, why = false, "handler does not have signature func(string) bool"
							}
						}
						R.Check(okE, "C18.R1", "entry:"+key, "css.defaultStyleHandlers["+fmt.Sprintf("%q", key)+"]", c.P.Pos(kv.Pos()), "lower-case constant key, top-level css handler", why)
					}
				}
			}
		}
	}
	R.Role("C18.R1", "entries of defaultStyleHandlers", n, 150)
	// map never written: any store/mapupdate on the global outside init
	for _, fn := range moduleFuncs(c.P) {
		isInit := fn.Name() == "init" && fn.Signature.Recv() == nil && fn.Parent() == nil
		for _, b := range fn.Blocks {
			for _, in := range b.Instrs {
				if mu, ok := in.(*ssa.MapUpdate); ok {
					if u, ok := mu.Map.(*ssa.UnOp); ok {
						if g, ok := u.X.(*ssa.Global); ok && g.Name() == "defaultStyleHandlers" && !isInit {
							R.Fail("C18.R1", "registry-write:"+shortFn(fn), shortFn(fn)+": update of defaultStyleHandlers", c.P.Pos(mu.Pos()), "the handler table is modified at run time")
						}
					}
				}
			}
		}
	}
	// R2
	sub := &Ctx{P: c.P, R: newScratchReport(), Tier: c.Tier, VerifDir: c.VerifDir}
	c10Fallback(sub)
	for _, o := range sub.R.Obls {
		if strings.HasPrefix(o.Key, "C10.R5|GetDefaultHandler") || strings.HasPrefix(o.Key, "C10.R5|BaseHandler") || strings.HasPrefix(o.Key, "C10.R5|role:returns of GetDefaultHandler") {
			k := strings.TrimPrefix(o.Key, "C10.R5|")
			if o.Status == "discharged" {
				R.OK("C18.R2", k, o.Construct, o.Pos, o.Reason)
			} else if o.Status == "undecided" {
				R.Unknown("C18.R2", k, o.Construct, o.Pos, o.Reason)
			} else {
				R.Fail("C18.R2", k, o.Construct, o.Pos, o.Reason)
			}
		}
	}
}

func c18Leaves(c *Ctx, env *cssEnv) {
	R := c.R
	a := env.A
	uses := cssRegexpUses(c)
	var names []string
	for n := range env.vars {
		names = append(names, n)
	}
	sort.Strings(names)
	nAcc := 0
	for _, n := range names {
		v := env.vars[n]
		pos := c.P.Pos(v.Pos)
		cons := "css." + n
		if !v.Const || len(v.Writes) > 0 {
			R.Unknown("C18.R4", n, cons, pos, "pattern is not a constant or the variable is reassigned")
			continue
		}
		isAcceptor := false
		var users []string
		for _, u := range uses[n] {
			users = append(users, shortFn(u.fn))
			if u.kind == "MatchString" || u.kind == "FindString" || u.kind == "Match" {
				isAcceptor = true
			}
		}
		sort.Strings(users)
		users = uniq(users)
		if len(uses[n]) == 0 {
			R.OK("C18.R4", n, cons+" (unused)", pos, "not used by any handler")
			continue
		}
		if !isAcceptor {
			R.OK("C18.R4", n, cons+" (ReplaceAll pattern in "+strings.Join(users, ",")+")", pos, "used only to delete function names before the remainder is checked; covered by C18.R7")
			continue
		}
		nAcc++
		d, err := relang.FromRegexp(v.Pattern, a)
		if err != nil {
			R.Unknown("C18.R4", n, cons, pos, err.Error())
			continue
		}
		anch, _ := relang.FromRegexp("^(?:"+v.Pattern+")$", a)
		if eq, w := relang.Equal(d, anch); eq {
			R.OK("C18.R4", n, cons+" (acceptor in "+strings.Join(users, ",")+")", pos, "anchored on both sides")
		} else {
			o := R.Fail("C18.R4", n, cons+" (acceptor in "+strings.Join(users, ",")+")", pos, "used to accept whole values but matches when only a part of the value has the form: arbitrary text can precede or follow it")
			o.Witness = w
		}
		if hn, w, bad := env.hostileWitness(d); bad {
			o := R.Fail("C18.R5", n, cons+" (acceptor in "+strings.Join(users, ",")+")", pos, "accepts a value containing a hostile fragment ("+hn+")")
			o.Witness = w
		} else {
			R.OK("C18.R5", n, cons, pos, "no accepted string contains a hostile fragment")
		}
	}
	R.Role("C18.R4", "acceptor regexps", nAcc, 30)
	// R6 keyword literals: every string literal inside a []string composite literal in handlers.go
	sepHost := env.Hall
	nk := 0
	for _, f := range c.P.CSS.Syntax {
		ast.Inspect(f, func(n ast.Node) bool {
			cl, ok := n.(*ast.CompositeLit)
			if !ok {
				return true
			}
			tv, ok := c.P.CSS.TypesInfo.Types[cl]
			if !ok || tv.Type.String() != "[]string" {
				return true
			}
			for _, el := range cl.Elts {
				s, ok := pats.ConstString(c.P.CSS.TypesInfo, el)
				if !ok {
					continue // a subject list such as []string{value}, not a keyword list
				}
				nk++
				if sepHost.Accepts(s) && s != "" {
					R.Fail("C18.R6", "keyword:"+s, fmt.Sprintf("keyword %q", s), c.P.Pos(el.Pos()), "a keyword contains a hostile fragment")
				}
			}
			return true
		})
	}
	R.OK("C18.R6", "keywords", fmt.Sprintf("%d keyword literals in []string lists", nk), "", "none contains a hostile fragment")
	R.Role("C18.R6", "keyword literals", nk, 500)
}

func uniq(ss []string) []string {
	var out []string
	for i, s := range ss {
		if i == 0 || s != ss[i-1] {
			out = append(out, s)
		}
	}
	return out
}

// c18Provenance: a handler can return true only across a leaf acceptor on data derived from its parameter.
func c18Provenance(c *Ctx) {
	R := c.R
	cssPath := load.ModPath + "/css"
	isHandler := func(fn *ssa.Function) bool {
		if fn == nil || fn.Pkg == nil || fn.Pkg.Pkg.Path() != cssPath || fn.Parent() != nil {
			return false
		}
		s := fn.Signature
		return s.Recv() == nil && s.Params().Len() == 1 && s.Results().Len() == 1 && s.Params().At(0).Type().String() == "string" && s.Results().At(0).Type().String() == "bool"
	}
	n := 0
	members := cssMembers(c)
	for _, fn := range moduleFuncs(c.P) {
		if !isHandler(fn) || fn.Name() == "BaseHandler" {
			continue
		}
		n++
		A := model.NewAnalysis(fn)
		A.Inline = func(*ssa.Function) bool { return false }
		translateAll(A)
		for _, b := range fn.Blocks {
			if r, ok := b.Instrs[len(b.Instrs)-1].(*ssa.Return); ok {
				A.Cond(r.Results[0])
			}
		}
		param := fn.Params[0]
		// derived-from-parameter (backward slice through pure string/slice operations)
		memo := map[ssa.Value]int{}
		var fromParam func(v ssa.Value) bool
		fromParam = func(v ssa.Value) bool {
			if m, ok := memo[v]; ok {
				return m == 1
			}
			memo[v] = 2
			r := false
			switch x := v.(type) {
			case *ssa.Parameter:
				r = x == param
			case *ssa.Call:
				for _, a := range x.Common().Args {
					if fromParam(a) {
						r = true
					}
				}
			case *ssa.Slice:
				r = fromParam(x.X)
			case *ssa.IndexAddr:
				r = fromParam(x.X)
			case *ssa.UnOp:
				r = fromParam(x.X)
			case *ssa.Phi:
				for _, e := range x.Edges {
					if fromParam(e) {
						r = true
					}
				}
			case *ssa.Convert:
				r = fromParam(x.X)
			case *ssa.Alloc:
				for _, ref := range *x.Referrers() {
					if ia, ok := ref.(*ssa.IndexAddr); ok {
						for _, r2 := range *ia.Referrers() {
							if st, ok := r2.(*ssa.Store); ok && fromParam(st.Val) {
								r = true
							}
						}
					}
					if st, ok := ref.(*ssa.Store); ok && st.Addr == ssa.Value(x) && fromParam(st.Val) {
						r = true
					}
				}
			case *ssa.Extract:
				r = fromParam(x.Tuple)
			case *ssa.Next:
				r = fromParam(x.Iter)
			case *ssa.Range:
				r = fromParam(x.X)
			case *ssa.BinOp:
				r = fromParam(x.X) || fromParam(x.Y)
			}
			if r {
				memo[v] = 1
			}
			return r
		}
		var acc []int
		for i, at := range A.Atoms {
			switch at.Kind {
			case "val":
				cl, ok := at.X.(*ssa.Call)
				if !ok || cl.Common().StaticCallee() == nil {
					continue
				}
				cal := cl.Common().StaticCallee()
				nm := pa.CalleeName(cal)
				isAcc := nm == "(*regexp.Regexp).MatchString" || nm == "css.in" || nm == "css.recursiveCheck" || isHandler(cal)
				if m := members[cal.Name()]; m != nil && m.fn == cal && m.verified {
					isAcc = true
				}
				if !isAcc {
					continue
				}
				any := false
				for _, a := range cl.Common().Args {
					if fromParam(a) {
						any = true
					}
				}
				if any {
					acc = append(acc, i)
				}
			case "eq":
				// x == "keyword": accepts exactly that word (whether it is hostile-free is R6/R7's business)
				if _, isK := constString(at.Y); isK && fromParam(at.X) {
					if bt, ok := at.X.Type().Underlying().(*types.Basic); ok && bt.Info()&types.IsString != 0 {
						acc = append(acc, i)
						continue
					}
				}
				// FindString(x) == x
				for _, pair := range [][2]ssa.Value{{at.X, at.Y}, {at.Y, at.X}} {
					if fs := isCallTo(pair[0], "(*regexp.Regexp).FindString"); fs != nil && fs.Common().Args[1] == pair[1] && fromParam(pair[1]) {
						acc = append(acc, i)
					}
				}
			}
		}
		ev := A.EventVar("leaf-acceptor-true")
		track := append([]int{ev}, acc...)
		var rets []*ssa.Return
		for _, b := range fn.Blocks {
			if r, ok := b.Instrs[len(b.Instrs)-1].(*ssa.Return); ok {
				rets = append(rets, r)
				m := map[int]bool{}
				A.Cond(r.Results[0]).Atoms(m)
				for k := range m {
					track = append(track, k)
				}
			}
		}
		var nonEmptyLoops []*model.RangeLoop
		var iterEv []int
		for _, l := range model.SliceRangeLoops(fn) {
			if cl, ok := l.Over.(*ssa.Call); ok && cl.Common().StaticCallee() != nil {
				switch pa.CalleeName(cl.Common().StaticCallee()) {
				case "strings.Split", "css.splitValues", "css.multiSplit":
					nonEmptyLoops = append(nonEmptyLoops, l)
					e := A.EventVar(fmt.Sprintf("loop%d-entered", len(iterEv)))
					iterEv = append(iterEv, e)
					track = append(track, e)
				}
			}
		}
		// range conditions: a flag computed by a loop ("all parts accepted") is expressed through them
		for _, l := range model.SliceRangeLoops(fn) {
			if ifi, ok := l.Header.Instrs[len(l.Header.Instrs)-1].(*ssa.If); ok {
				m := map[int]bool{}
				A.Cond(ifi.Cond).Atoms(m)
				for k := range m {
					track = append(track, k)
				}
			}
		}
		key := fn.Name()
		pos := c.P.Pos(fn.Pos())
		A.PhiFilter = func(*ssa.Phi) bool { return true }
		q, err := A.NewQuery(track)
		if err != nil {
			R.Unknown("C18.R3", key, "css."+fn.Name(), pos, err.Error())
			continue
		}
		accF := orAtoms(acc)
		q.EdgeHook = func(b *ssa.BasicBlock, k int) func(uint32) []uint32 {
			// a range over a Split result executes its body at least once (Split never returns an empty slice)
			for li, l := range nonEmptyLoops {
				if b == l.Header {
					e := iterEv[li]
					if b.Succs[k] == l.Body {
						return func(a uint32) []uint32 { return []uint32{q.With(a, e, true)} }
					}
					return func(a uint32) []uint32 {
						if !q.Bit(a, e) {
							return nil // leaving the loop before its first iteration is infeasible
						}
						return []uint32{a}
					}
				}
			}
			if len(acc) == 0 {
				return nil
			}
			if ok, _ := q.Holds(q.Filter(q.InitWith(nil), A.EdgeCond(b, k)), accF); ok {
				return func(a uint32) []uint32 { return []uint32{q.With(a, ev, true)} }
			}
			return nil
		}
		init := map[int]bool{ev: false}
		for _, e := range iterEv {
			init[e] = false
		}
		q.Run(fn.Blocks[0], q.InitWith(init))
		bad := ""
		for _, r := range rets {
			st := q.StateAt(r)
			if st == nil {
				continue
			}
			res := A.Cond(r.Results[0])
			goal := pa.Implies(res, pa.Or(pa.AtomF(ev), accF))
			if ok, cex := q.Holds(st, goal); !ok {
				bad = "return at " + c.P.Pos(r.Pos()) + " can yield true without any acceptor having accepted (part of) the value: [" + cex + "]"
			}
		}
		R.Check(bad == "", "C18.R3", key, fmt.Sprintf("css.%s (%d leaf acceptors)", fn.Name(), len(acc)), pos, "true only across a leaf acceptor on data derived from the parameter", bad)
	}
	R.Role("C18.R3", "css handlers", n, 150)
}

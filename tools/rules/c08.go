package rules

import (
	"fmt"

	"golang.org/x/tools/go/ssa"

	"verif/tools/load"
	"verif/tools/model"
	"verif/tools/pa"
	"verif/tools/policyx"
)

func init() { register("C08", "other", runC08) }

// elemAtoms classifies the element-related atoms of sanitize.
type elemAtoms struct {
	E, K, PMcall, MS, Next []int
}

func (sc *SC) elemAtoms() *elemAtoms {
	ea := &elemAtoms{}
	mr := sc.c.P.Func(load.ModPath, "(*Policy).matchRegex")
	for i, at := range sc.A.Atoms {
		switch at.Kind {
		case "mapok":
			if sc.isTokData(at, at.Y) {
				if sc.isRoleLoad(at, at.X, "elsAndAttrs") {
					ea.E = append(ea.E, i)
				}
				if sc.isRoleLoad(at, at.X, "skipSet") {
					ea.K = append(ea.K, i)
				}
			}
		case "val":
			v := at.Resolve(at.X)
			if ex, ok := v.(*ssa.Extract); ok {
				if cl, ok := ex.Tuple.(*ssa.Call); ok && ex.Index == 1 && mr != nil && cl.Common().StaticCallee() == mr &&
					cl.Common().Args[0] == ssa.Value(sc.S.Recv) && sc.isTokData(at, cl.Common().Args[1]) {
					ea.PMcall = append(ea.PMcall, i)
				}
				if nx, ok := ex.Tuple.(*ssa.Next); ok && ex.Index == 0 {
					if rg, ok := nx.Iter.(*ssa.Range); ok && sc.isRoleLoad(at, rg.X, "elsMatchingAndAttrs") {
						ea.Next = append(ea.Next, i)
					}
				}
			}
			if cl, ok := v.(*ssa.Call); ok && isMatchString(cl.Common()) &&
				sc.isRangeKeyOfRole(at, cl.Common().Args[0], "elsMatchingAndAttrs") && sc.isTokData(at, cl.Common().Args[1]) {
				ea.MS = append(ea.MS, i)
			}
		}
	}
	return ea
}

// armState is a query over one arm with the element events installed.
type armState struct {
	q           *pa.Query
	evPM, evExh int
	disallowed  *pa.F // "no element table admits token.Data" as established in this arm
	gatepass    *pa.F
}

func (sc *SC) armElemQuery(arm string, ea *elemAtoms, extra ...*pa.F) (*armState, error) {
	return sc.armElemQueryHooks(arm, ea, nil, nil, extra...)
}

func (sc *SC) armElemQueryHooks(arm string, ea *elemAtoms, install func(q *pa.Query), init map[int]bool, extra ...*pa.F) (*armState, error) {
	A := sc.A
	as := &armState{}
	as.evPM = A.EventVar("element-pattern-matched")
	as.evExh = A.EventVar("element-patterns-exhausted")
	U := sc.U()
	S, T := sc.nameTests("script"), sc.nameTests("style")
	as.gatepass = pa.And(pa.Or(U, pa.Not(pa.And(lits(S)...))), pa.Or(U, pa.Not(pa.And(lits(T)...))))
	notE := pa.Not(orAtoms(ea.E))
	if len(ea.E) == 0 {
		notE = pa.False
	}
	if arm == "EndTag" {
		as.disallowed = pa.And(notE, pa.Not(pa.AtomF(as.evPM)), pa.AtomF(as.evExh))
	} else {
		if len(ea.PMcall) == 0 {
			as.disallowed = pa.False
		} else {
			as.disallowed = pa.And(notE, pa.Not(orAtoms(ea.PMcall)))
		}
	}
	fs := append([]*pa.F{as.disallowed, as.gatepass, orAtoms(ea.K), orAtoms(ea.MS), orAtoms(ea.Next), pa.AtomF(as.evPM), pa.AtomF(as.evExh)}, extra...)
	a := sc.S.Arms[arm]
	if a == nil {
		return nil, fmt.Errorf("arm %s not recognised", arm)
	}
	q, err := A.NewQuery(sc.inArm(arm, sc.track(fs...)))
	if err != nil {
		return nil, err
	}
	as.q = q
	msF := orAtoms(ea.MS)
	nextF := orAtoms(ea.Next)
	q.EdgeHook = func(b *ssa.BasicBlock, k int) func(uint32) []uint32 {
		cond := A.EdgeCond(b, k)
		setPM, setExh := false, false
		if len(ea.MS) > 0 {
			if ok, _ := q.Holds(q.Filter(q.InitWith(nil), cond), msF); ok {
				setPM = true
			}
		}
		// exhaustion edge: the false edge of `next#0` of a range over the element patterns
		if len(ea.Next) > 0 && cond.Op == '!' {
			m := map[int]bool{}
			cond.Atoms(m)
			nm := map[int]bool{}
			nextF.Atoms(nm)
			all := len(m) > 0
			for x := range m {
				if !nm[x] {
					all = false
				}
			}
			if all && cond.Kids[0].Op == 'a' {
				setExh = true
			}
		}
		if !setPM && !setExh {
			return nil
		}
		return func(a uint32) []uint32 {
			if setPM {
				a = q.With(a, as.evPM, true)
			}
			if setExh {
				a = q.With(a, as.evExh, true)
			}
			return []uint32{a}
		}
	}
	q.Barrier[sc.S.Header] = true
	if install != nil {
		install(q)
	}
	iv := map[int]bool{as.evPM: false, as.evExh: false}
	for k, v := range init {
		iv[k] = v
	}
	if a.Entry != sc.S.Header {
		q.Run(a.Entry, q.InitWith(iv))
	}
	return as, nil
}

func runC08(c *Ctx) {
	R := c.R
	R.Rule("C08.R1", "skip flag guards every content write: at every tag, text, raw and comment write the current value of the skip flag is false on every path (space writes are exempt: a space is neither text nor markup of the input)")
	R.Rule("C08.R2", "flag/counter pairing: the only joint assignments of (skip flag, skip depth) are: loop entry (false,0); StartTag arm, or SelfClosingTag arm for a non-void element, (true, depth+1) on an edge whose path condition implies the element is in the skip set and admitted by no element table; EndTag arm (false, depth-1) under skip-set ∧ not admitted ∧ patterns exhausted ∧ depth-1==0; EndTag arm (unchanged, depth-1) under skip-set ∧ not admitted. Any other assignment of either variable is a violation")
	R.Rule("C08.R2c", "completeness: every StartTag path — and every SelfClosingTag path for a non-void element, whose slash browsers and the tokenizer ignore — on which the element is in the skip set, admitted by no element table and past the script/style gate leaves the arm with the skip flag set")
	R.Rule("C08.R4", "increments are matchable: the (true, depth+1) site is reached only for elements that can have an end tag (not under a void-element test)")
	R.Rule("C08.R5", "the skip set is edited only by builder methods (SkipElementsContent / AllowElementsContent / defaults), which store and delete keys that are strings.ToLower(name) and nothing else")
	R.Rule("C08.R8", "the skip setters look at the skip set only (= C17.R9, cited): SkipElementsContent / AllowElementsContent consult no table other than the one they update — a guard that looks the name up in a sibling table (the elements allowed without attributes) makes the call a no-op for every name that happens to be in that table")
	buildersReadOnlyTheirOwnTables(c, "C08.R8", "(*Policy).SkipElementsContent", "(*Policy).AllowElementsContent")
	R.Rule("C08.R7", "a skip-content element becomes a known element only together with a rule (= C01.R8, cited): an entry created by AllowAttrs() with no names would route its tags through the no-attributes path, which never opens a skipped region")
	c01EntryCreationRule(c, "C08.R7", " — and, being known, a skip-content element no longer has its content removed")
	R.Rule("C08.R6", "a policy's skip set is its own: the map installed in the skip-set field is freshly made in the storing function (never a package-level table or another policy's map), so SkipElementsContent / AllowElementsContent on one policy cannot change what another policy skips")
	if F0 := model.FindFields(c.P); F0 != nil {
		skipField := F0.Get("skipSet")
		freshTables(c, "C08.R6", func(f string) bool { return f == skipField }, 1)
	}
	R.Assume(TrustGo, TrustTokenizer, "the end-to-end marker statement over all nestings depends on the counter's run-time value; only its transitions and guards are decided here")
	sc := newSC(c, "C08.R1")
	if sc == nil {
		return
	}
	lv := sc.S.FindLoopVars()
	if lv.Skip == nil || lv.Depth == nil {
		for _, w := range lv.Why {
			R.Unknown("C08.R2", "loopvars:"+w, "(*Policy).sanitize loop state", "", "anchor lost: "+w+" — the skip mechanism is not the flag+counter pair this rule set decides")
		}
		if lv.Skip == nil {
			return
		}
	}
	A := sc.A
	skipAtom := A.Cond(lv.Skip)
	ea := sc.elemAtoms()
	R.Analysed["element_atoms"] = map[string]int{"E": len(ea.E), "K": len(ea.K), "PMcall": len(ea.PMcall), "MS": len(ea.MS)}

	// R1
	curOf := map[int]ssa.Value{}
	var curFs []*pa.F
	for i, w := range sc.S.Writes {
		if w.Payload == "Space" {
			continue
		}
		if cur := sc.S.CurrentValue(lv.Skip, w.Call.Block()); cur != nil {
			curOf[i] = cur
			curFs = append(curFs, A.Cond(cur))
		}
	}
	for _, arm := range append([]string{"Comment", "Text"}, tagArms...) {
		q, err := sc.armQuery(arm, append(curFs, skipAtom)...)
		if err != nil {
			R.Unknown("C08.R1", "arm:"+arm, arm, "", err.Error())
			continue
		}
		for i, w := range sc.S.Writes {
			if w.Arm != arm || w.Payload == "Space" {
				continue
			}
			cur := curOf[i]
			if cur == nil {
				R.Unknown("C08.R1", writeKey(sc.S, i), writeDescr(w), sc.pos(w.Call), "cannot determine the current value of the skip flag at this write")
				continue
			}
			st := q.StateAt(w.Call)
			if st == nil {
				R.OK("C08.R1", writeKey(sc.S, i), writeDescr(w), sc.pos(w.Call), "unreachable")
				continue
			}
			ok, cex := q.Holds(st, pa.Not(A.Cond(cur)))
			R.Check(ok, "C08.R1", writeKey(sc.S, i), writeDescr(w), sc.pos(w.Call), "written only when the skip flag ("+A.Sym.Of(cur)+") is false", "content can be written while skipped content is being removed: ["+cex+"]")
		}
	}
	if lv.Depth == nil {
		return
	}

	// R2
	voidAtoms := sc.voidTestAtoms()
	voidF := orAtoms(voidAtoms)
	aq := map[string]*armState{}
	var dec ssa.Value
	for _, st := range model.JointSites(lv.Skip, lv.Depth) {
		if k, ok := model.IsIncr(st.V2, lv.Depth); ok && k == -1 {
			dec = st.V2
		}
	}
	var dec0 *pa.F = pa.False
	if dec != nil {
		for i, at := range A.Atoms {
			if at.Kind == "eq" && at.Resolve(at.X) == dec {
				if k, ok := at.Y.(*ssa.Const); ok && k.Int64() == 0 {
					dec0 = pa.AtomF(i)
				}
			}
		}
	}
	getArm := func(arm string) *armState {
		if as, ok := aq[arm]; ok {
			return as
		}
		as, err := sc.armElemQuery(arm, ea, dec0, skipAtom, voidF)
		if err != nil {
			R.Unknown("C08.R2", "arm:"+arm, arm, "", err.Error())
			as = nil
		}
		aq[arm] = as
		return as
	}
	K := orAtoms(ea.K)
	nInc, nDec := 0, 0
	_ = voidAtoms
	for _, st := range model.JointSites(lv.Skip, lv.Depth) {
		if st.V1 == ssa.Value(lv.Skip) && st.V2 == ssa.Value(lv.Depth) {
			continue
		}
		pos := c.P.Pos(lastPos(st.Pred))
		arm := sc.S.ArmOf(st.Pred)
		descr := fmt.Sprintf("(skip flag, depth) := (%s, %s)", A.Sym.Of(st.V1), A.Sym.Of(st.V2))
		key := fmt.Sprintf("site:%s:%s,%s", arm, siteVal(lv.Skip, st.V1), siteVal(lv.Depth, st.V2))
		cons := "(*Policy).sanitize arm " + arm + ": " + descr
		if !sc.S.Header.Dominates(st.Pred) {
			ok := model.IsFalse(st.V1)
			if k, isC := st.V2.(*ssa.Const); !isC || k.Int64() != 0 {
				ok = false
			}
			R.Check(ok, "C08.R2", "site:entry", "(*Policy).sanitize: initial (skip flag, depth)", pos, "(false, 0)", "loop state not initialised to (false, 0)")
			continue
		}
		inc, isInc := model.IsIncr(st.V2, lv.Depth)
		var goal *pa.F
		wantArm := ""
		switch {
		case model.IsTrue(st.V1) && isInc && inc == 1:
			wantArm = "StartTag"
			nInc++
		case model.IsFalse(st.V1) && isInc && inc == -1:
			wantArm = "EndTag"
			nDec++
		case st.V1 == ssa.Value(lv.Skip) && isInc && inc == -1:
			wantArm = "EndTag"
			nDec++
		default:
			R.Fail("C08.R2", key, cons, pos, "assignment outside the pairing table (flag and depth must change together: (true,+1), (false,-1 when it reaches 0), (unchanged,-1))")
			continue
		}
		// an element is opened by a start tag, or by a self-closing tag of a non-void element (whose "/" is ignored);
		// the condition checked below — skip set ∧ not admitted (∧ non-void, R4) — is the same in both arms
		if arm != wantArm && !(wantArm == "StartTag" && arm == "SelfClosingTag") {
			R.Fail("C08.R2", key, cons, pos, "this transition belongs in the "+wantArm+" arm")
			continue
		}
		as := getArm(arm)
		if as == nil {
			continue
		}
		goal = pa.And(K, as.disallowed)
		if model.IsFalse(st.V1) {
			goal = pa.And(goal, dec0)
		}
		es := as.q.EdgeState(st.Pred, st.SuccIndex())
		if es == nil || pa.Empty(es) {
			R.OK("C08.R2", key, cons, pos, "edge unreachable")
			continue
		}
		ok, cex := as.q.Holds(es, goal)
		R.Check(ok, "C08.R2", key, cons, pos, "edge condition implies "+A.Str(goal), "skip state changes although the required condition is not established: need "+A.Str(goal)+" but reachable with ["+cex+"]")
		// R4: both the increment and the decrements happen only for non-void elements
		if len(voidAtoms) == 0 {
			R.Fail("C08.R4", key, cons, pos, "the skip depth changes for any skip-set element, including void elements (which never produce an end tag, so an increment is never undone and the rest of the document is dropped); no void-element test on token.Data exists")
		} else {
			ok, cex := as.q.Holds(es, pa.Not(voidF))
			R.Check(ok, "C08.R4", key, cons, pos, "only for non-void elements", "a void element can change the skip depth: ["+cex+"]")
		}
	}
	R.Role("C08.R2", "(true, depth+1) sites", nInc, 1)
	R.Role("C08.R2", "depth-1 sites", nDec, 1)
	R.Role("C08.R2", "skip-set lookups on token.Data", len(ea.K), 1)

	// R2c — for start tags and for self-closing tags alike: the "/" of a self-closing tag is ignored on non-void HTML
	// elements (the tokenizer even switches to raw-text mode after <script/>, <title/>, <iframe/> …), so what follows is
	// the element's content
	for _, arm := range []string{"StartTag", "SelfClosingTag"} {
		as := getArm(arm)
		if as == nil {
			continue
		}
		n := 0
		for i, pred := range sc.S.Header.Preds {
			if sc.S.ArmOf(pred) != arm {
				continue
			}
			n++
			var k int
			for j, s2 := range pred.Succs {
				if s2 == sc.S.Header {
					k = j
				}
			}
			es := as.q.EdgeState(pred, k)
			if es == nil || pa.Empty(es) {
				continue
			}
			goal := pa.Implies(pa.And(K, as.disallowed, as.gatepass, pa.Not(voidF)), A.Cond(lv.Skip.Edges[i]))
			ok, cex := as.q.Holds(es, goal)
			what := "start tag"
			if arm == "SelfClosingTag" {
				what = "self-closing tag of a non-void element"
			}
			R.Check(ok, "C08.R2c", "backedge:"+arm+":"+blockRole(sc, pred), "(*Policy).sanitize: "+arm+" back edge ("+blockRole(sc, pred)+")", c.P.Pos(lastPos(pred)), "a disallowed skip-content element leaves the arm with the flag set", "a disallowed skip-content "+what+" can leave the arm without setting the skip flag (its content is then emitted): ["+cex+"]")
		}
		R.Role("C08.R2c", arm+" back edges", n, 2)
	}

	// R4 (table side): every void element — standard or obsolete — that NewPolicy puts into the default skip-content
	// set must be in the void table the guards consult, or the region it opens is never closed
	c08VoidCoverage(sc, "C08.R4")

	// R5
	tableWriters(c, "C08.R5", []string{"skipSet"})
	// the keys the builders store are exactly strings.ToLower(name): the token loop looks names up as delivered
	namesLowered(c, "C08.R5", map[string]bool{"(*Policy).SkipElementsContent": true, "(*Policy).AllowElementsContent": true}, 2)
}

func siteVal(h *ssa.Phi, v ssa.Value) string {
	if v == ssa.Value(h) {
		return "same"
	}
	if k, ok := model.IsIncr(v, h); ok {
		return fmt.Sprintf("%+d", k)
	}
	if c, ok := v.(*ssa.Const); ok {
		return c.Value.String()
	}
	if _, ok := model.IsAppendTo(v, h); ok {
		return "push"
	}
	if model.IsShrinkByOne(v, h) {
		return "pop"
	}
	return fmt.Sprintf("%T", v)
}

// voidTestAtoms: atoms that test token.Data for being a void element: a lookup of token.Data in a
// package-level map, or a call of a module predicate on token.Data, whose name set contains the
// HTML void elements (spec/void_elements.json).
func (sc *SC) voidTestAtoms() []int {
	var spec struct {
		Void []string `json:"void"`
	}
	if err := sc.c.Spec("void_elements.json", &spec); err != nil {
		return nil
	}
	var out []int
	for i, at := range sc.A.Atoms {
		switch at.Kind {
		case "mapok":
			if !sc.isTokData(at, at.Y) {
				continue
			}
			if u, ok := at.Resolve(at.X).(*ssa.UnOp); ok {
				if g, ok := u.X.(*ssa.Global); ok {
					if globalMapHasKeys(sc.c, g, spec.Void) {
						out = append(out, i)
					}
				}
			}
		}
	}
	return out
}

// c08VoidCoverage: default skip-content elements that are void (incl. obsolete void elements) are keys of the void
// table tested by the skip guards.
func c08VoidCoverage(sc *SC, rule string) {
	c, R := sc.c, sc.c.R
	var spec struct {
		Void     []string `json:"void"`
		Obsolete []string `json:"obsolete_void"`
	}
	if err := c.Spec("void_elements.json", &spec); err != nil {
		R.Unknown(rule, "void-spec", "spec/void_elements.json", "", err.Error())
		return
	}
	np := c.P.Func(load.ModPath, "NewPolicy")
	if np == nil {
		R.Unknown(rule, "void-coverage", "NewPolicy", "", "not found")
		return
	}
	tbl, err := policyx.New(c.P).EvalConstructor(np)
	if err != nil {
		R.Unknown(rule, "void-coverage", "NewPolicy", "", "default skip set cannot be extracted: "+err.Error())
		return
	}
	// the void table: the global map behind the void-test atoms
	var table *ssa.Global
	for _, a := range sc.voidTestAtoms() {
		at := sc.A.Atoms[a]
		if u, ok := at.Resolve(at.X).(*ssa.UnOp); ok {
			if g, ok := u.X.(*ssa.Global); ok {
				table = g
			}
		}
	}
	n := 0
	for _, e := range append(append([]string{}, spec.Void...), spec.Obsolete...) {
		if !tbl.Skip[e] {
			continue
		}
		n++
		ok := table != nil && globalMapHasKeys(c, table, []string{e})
		R.Check(ok, rule, "void-coverage:"+e, "void table entry for <"+e+"> (in the default skip-content set)", c.P.Pos(np.Pos()), "listed in the void table", "<"+e+"> never has an end tag but is in the default skip-content set and missing from the void table: the skipped region it opens is never closed and the rest of the document is dropped")
	}
	R.Analysed["void_elements_in_default_skip_set"] = n
}

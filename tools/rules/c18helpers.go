package rules

import (
	"fmt"
	"go/token"
	"sort"

	"golang.org/x/tools/go/ssa"

	"verif/tools/core"
	"verif/tools/load"
	"verif/tools/model"
	"verif/tools/pa"
)

// c18Helpers (C18.R8): the handler-language rules model four helpers of css/handlers.go natively —
// in, splitValues, multiSplit, recursiveCheck.  These obligations tie the models to the code: each states the
// ingredient of the helper's body that the model's soundness argument rests on.
func c18Helpers(c *Ctx) {
	R := c.R
	R.Rule("C18.R8", "helper models: in(xs, ks) returns true only when every completed iteration over xs found an equal element of ks in that same iteration; splitValues returns exactly one element per comma part, transformed only by TrimSpace/ToLower; multiSplit appends every strings.Split part unconditionally; recursiveCheck marks a suffix valid only under (next suffix valid) ∧ (some handler accepts the \" \"-join of exactly that group) and returns valid[0]")
	fns := map[string]*ssa.Function{}
	for _, fn := range moduleFuncs(c.P) {
		if fn.Pkg != nil && fn.Pkg.Pkg.Path() == load.ModPath+"/css" && fn.Parent() == nil && fn.Signature.Recv() == nil {
			fns[fn.Name()] = fn
		}
	}
	n := 0
	for _, h := range []struct {
		name  string
		check func(*Ctx, *ssa.Function) (bool, string)
	}{
		{"in", c18HelperIn},
		{"splitValues", c18HelperSplitValues},
		{"multiSplit", c18HelperMultiSplit},
		{"recursiveCheck", c18HelperRecursive},
	} {
		fn := fns[h.name]
		if fn == nil {
			// a helper that no longer exists is not modelled natively either: the composite rule fails on its callers
			continue
		}
		n++
		ok, why := h.check(c, fn)
		key := "helper:" + h.name
		if ok {
			R.OK("C18.R8", key, "css."+h.name, c.P.Pos(fn.Pos()), why)
		} else {
			R.Fail("C18.R8", key, "css."+h.name, c.P.Pos(fn.Pos()), why)
		}
	}
	R.Role("C18.R8", "natively modelled helpers", n, 4)
	var mnames []string
	for n := range cssMembers(c) {
		mnames = append(mnames, n)
	}
	sort.Strings(mnames)
	for _, name := range mnames {
		m := cssMembers(c)[name]
		if m.verified {
			R.OK("C18.R8", "member:"+name, "css."+name, c.P.Pos(m.fn.Pos()), "membership helper: returns true only across an equality of its string argument with an element of its list argument")
		} else {
			R.Unknown("C18.R8", "member:"+name, "css."+name, c.P.Pos(m.fn.Pos()), "an unexported helper with a membership signature whose body is not recognised as a membership test; the handlers calling it cannot be interpreted")
		}
	}
}

// elemOf: v is the element xs[idx] of loop l (load of &Over[inc]).
func elemOf(v ssa.Value, l *model.RangeLoop) bool {
	u, ok := v.(*ssa.UnOp)
	if !ok || u.Op != token.MUL {
		return false
	}
	ia, ok := u.X.(*ssa.IndexAddr)
	if !ok || ia.X != l.Over {
		return false
	}
	if countedLoops[l] {
		return ia.Index == ssa.Value(l.Index)
	}
	inc, ok := ia.Index.(*ssa.BinOp)
	return ok && inc.Op == token.ADD && inc.X == ssa.Value(l.Index)
}

// countedLoops marks loops of the form `for i := 0; i < len(xs); i++` (element index = the phi itself).
var countedLoops = map[*model.RangeLoop]bool{}

// allSliceLoops: range-over-slice loops plus counted loops over a slice from 0 with step 1.
func allSliceLoops(fn *ssa.Function) []*model.RangeLoop {
	out := model.SliceRangeLoops(fn)
	for _, b := range fn.Blocks {
		ifi, ok := b.Instrs[len(b.Instrs)-1].(*ssa.If)
		if !ok {
			continue
		}
		bo, ok := ifi.Cond.(*ssa.BinOp)
		if !ok || bo.Op != token.LSS {
			continue
		}
		phi, ok := bo.X.(*ssa.Phi)
		if !ok || phi.Block() != b || len(phi.Edges) != 2 {
			continue
		}
		ln, ok := bo.Y.(*ssa.Call)
		if !ok {
			continue
		}
		bi, ok := ln.Common().Value.(*ssa.Builtin)
		if !ok || bi.Name() != "len" {
			continue
		}
		okShape := true
		hasBack := false
		for i, e := range phi.Edges {
			if b.Dominates(b.Preds[i]) {
				hasBack = true
				inc, ok := e.(*ssa.BinOp)
				k, isK := (ssa.Value)(nil), false
				if ok {
					k, isK = inc.Y, true
				}
				if !ok || inc.Op != token.ADD || inc.X != ssa.Value(phi) || !isK {
					okShape = false
				} else if kc, ok := k.(*ssa.Const); !ok || kc.Int64() != 1 {
					okShape = false
				}
			} else if kc, ok := e.(*ssa.Const); !ok || kc.Int64() != 0 {
				okShape = false
			}
		}
		if !okShape || !hasBack {
			continue
		}
		l := &model.RangeLoop{Header: b, Body: b.Succs[0], Exit: b.Succs[1], Over: ln.Common().Args[0], Index: phi, Blocks: model.NaturalLoop(b)}
		memoMu.Lock()
		countedLoops[l] = true
		memoMu.Unlock()
		out = append(out, l)
	}
	return out
}

func c18HelperIn(c *Ctx, fn *ssa.Function) (bool, string) {
	if len(fn.Params) != 2 {
		return false, "signature changed"
	}
	loops := model.SliceRangeLoops(fn)
	var outer, inner *model.RangeLoop
	for _, l := range loops {
		if l.Over == ssa.Value(fn.Params[0]) && outer == nil {
			outer = l
		}
	}
	if outer == nil {
		return false, "no range loop over the first parameter"
	}
	for _, l := range loops {
		if l.Over == ssa.Value(fn.Params[1]) && outer.Blocks[l.Header] {
			inner = l
		}
	}
	A := model.NewAnalysis(fn)
	translateAll(A)
	var eq []int
	if inner == nil {
		// the scan of the second list may sit in a membership helper of its own (verified separately: true only across
		// an equality of its string with an element of its list): member(ks, x) with x the current element
		members := cssMembers(c)
		for i, at := range A.Atoms {
			if at.Kind != "val" {
				continue
			}
			cl, ok := at.Resolve(at.X).(*ssa.Call)
			if !ok {
				continue
			}
			cal := cl.Common().StaticCallee()
			if cal == nil || len(cl.Common().Args) != 2 {
				continue
			}
			m := members[cal.Name()]
			if m == nil || m.fn != cal || !m.verified {
				continue
			}
			if cl.Common().Args[1-m.strIdx] == ssa.Value(fn.Params[1]) && elemOf(cl.Common().Args[m.strIdx], outer) {
				eq = append(eq, i)
			}
		}
		if len(eq) == 0 {
			return false, "no range loop over the second parameter nested in the loop over the first (and no verified membership helper applied to the current element and the second list)"
		}
	} else {
		for i, at := range A.Atoms {
			if at.Kind == "eq" && ((elemOf(at.X, inner) && elemOf(at.Y, outer)) || (elemOf(at.Y, inner) && elemOf(at.X, outer))) {
				eq = append(eq, i)
			}
		}
	}
	if len(eq) == 0 {
		return false, "no comparison of the current element of the first list with the current element of the second"
	}
	ev := A.EventVar("element-found-in-this-iteration")
	track := append([]int{ev}, eq...)
	var rets []*ssa.Return
	for _, b := range fn.Blocks {
		if r, ok := b.Instrs[len(b.Instrs)-1].(*ssa.Return); ok {
			rets = append(rets, r)
			m := map[int]bool{}
			A.Cond(r.Results[0]).Atoms(m)
			for k := range m {
				track = append(track, k)
			}
		}
	}
	// the function is small: track every branch condition (a flag phi defined after the inner loop expands into
	// the loop's own exit condition, which must be known on the exit edge)
	for _, b := range fn.Blocks {
		if ifi, ok := b.Instrs[len(b.Instrs)-1].(*ssa.If); ok {
			m := map[int]bool{}
			A.Cond(ifi.Cond).Atoms(m)
			for k := range m {
				track = append(track, k)
			}
		}
	}
	q, err := A.NewQuery(track)
	if err != nil {
		return false, err.Error()
	}
	ef := orAtoms(eq)
	q.EdgeHook = func(b *ssa.BasicBlock, k int) func(uint32) []uint32 {
		if b == outer.Header && k == 0 {
			return func(a uint32) []uint32 { return []uint32{q.With(a, ev, false)} }
		}
		if okI, _ := q.Holds(q.Filter(q.InitWith(nil), A.EdgeCond(b, k)), ef); okI {
			return func(a uint32) []uint32 { return []uint32{q.With(a, ev, true)} }
		}
		return nil
	}
	q.Run(fn.Blocks[0], q.InitWith(map[int]bool{ev: false}))
	// O1: every back edge of the outer loop carries the event
	nBack := 0
	for _, p := range outer.Header.Preds {
		if !outer.Blocks[p] {
			continue
		}
		for k, s := range p.Succs {
			if s != outer.Header {
				continue
			}
			nBack++
			st := q.EdgeState(p, k)
			if st == nil || pa.Empty(st) {
				continue
			}
			// (the state is the one before the edge's own effect: an equality established by the back edge's own
			// condition counts)
			if ok, cex := q.Holds(st, pa.Or(pa.AtomF(ev), ef)); !ok {
				return false, fmt.Sprintf("the loop over the first list can move on to the next element although no element of the second list compared equal to the current one in this iteration (state %s at the back edge from block %d)", cex, p.Index)
			}
		}
	}
	if nBack == 0 {
		return false, "the loop over the first list has no back edge"
	}
	// O2: inside the loop only false is returned; a return before the loop returns false
	for _, r := range rets {
		b := r.Block()
		st := q.StateAt(r)
		if st == nil || pa.Empty(st) {
			continue
		}
		if outer.Blocks[b] || !outer.Exit.Dominates(b) {
			if ok, _ := q.Holds(st, pa.Not(A.Cond(r.Results[0]))); !ok {
				return false, fmt.Sprintf("a return at %s can yield true before every element of the first list has been looked up", c.P.Pos(r.Pos()))
			}
		}
	}
	return true, fmt.Sprintf("every back edge of the element loop (%d) carries 'found in this iteration'; true is returned only after the loop has completed", nBack)
}

func straightLineLoop(l *model.RangeLoop) bool {
	// header, then a chain of blocks without branching back to the header
	b := l.Body
	for n := 0; n < 4; n++ {
		if len(b.Succs) != 1 {
			return false
		}
		if b.Succs[0] == l.Header {
			return len(l.Blocks) == n+2
		}
		b = b.Succs[0]
	}
	return false
}

func c18HelperSplitValues(c *Ctx, fn *ssa.Function) (bool, string) {
	if len(fn.Params) != 1 {
		return false, "signature changed"
	}
	loops := model.SliceRangeLoops(fn)
	if len(loops) != 1 {
		return false, fmt.Sprintf("%d loops, want one", len(loops))
	}
	l := loops[0]
	sp := isCallTo(l.Over, "strings.Split")
	if sp == nil || sp.Common().Args[0] != ssa.Value(fn.Params[0]) {
		return false, "the loop does not range over strings.Split(value, …)"
	}
	if s, ok := constString(sp.Common().Args[1]); !ok || s != "," {
		return false, "the separator is not \",\""
	}
	if !straightLineLoop(l) {
		return false, "the loop body branches: some comma parts may be skipped"
	}
	// the returned slice is the loop-carried slice, which grows by exactly one transformed element per iteration
	var acc *ssa.Phi
	for _, in := range l.Header.Instrs {
		if ph, ok := in.(*ssa.Phi); ok && ph != l.Index {
			if acc != nil {
				return false, "more than one loop-carried value"
			}
			acc = ph
		}
	}
	if acc == nil {
		// in-place variant: every element of the Split result is overwritten by its transformed self
		var st *ssa.Store
		for b := range l.Blocks {
			for _, in := range b.Instrs {
				if x, ok := in.(*ssa.Store); ok {
					if st != nil {
						return false, "more than one store in the loop"
					}
					st = x
				}
			}
		}
		if st == nil {
			return false, "no accumulated result slice"
		}
		ia, ok := st.Addr.(*ssa.IndexAddr)
		if !ok || ia.X != l.Over {
			return false, "the loop stores somewhere other than into the list of comma parts"
		}
		if inc, ok := ia.Index.(*ssa.BinOp); !ok || inc.Op != token.ADD || inc.X != ssa.Value(l.Index) {
			return false, "the loop does not overwrite the element it is visiting"
		}
		v := st.Val
		for {
			if u, ok := v.(*ssa.UnOp); ok {
				if ia2, ok := u.X.(*ssa.IndexAddr); ok && ia2.X == l.Over && ia2.Index == ia.Index {
					break
				}
			}
			cl, ok := v.(*ssa.Call)
			if !ok || cl.Common().StaticCallee() == nil {
				return false, "the stored element is not derived from the element it replaces"
			}
			switch pa.CalleeName(cl.Common().StaticCallee()) {
			case "strings.TrimSpace", "strings.ToLower":
				v = cl.Common().Args[0]
			default:
				return false, "the element is transformed by " + pa.CalleeName(cl.Common().StaticCallee()) + ", which the model (TrimSpace/ToLower) does not cover"
			}
		}
		for _, b := range fn.Blocks {
			if r, ok := b.Instrs[len(b.Instrs)-1].(*ssa.Return); ok {
				if r.Results[0] != l.Over || b != l.Exit {
					return false, "a return yields something other than the completed list"
				}
			}
		}
		return true, "every comma part is overwritten in place by TrimSpace/ToLower of itself; the completed list is returned"
	}
	for i, e := range acc.Edges {
		if l.Blocks[l.Header.Preds[i]] {
			ap, ok := e.(*ssa.Call)
			if ac, _ := model.IsAppend(e); !ok || ac == nil || ap.Common().Args[0] != ssa.Value(acc) {
				return false, "the result slice is not extended by append on the loop path"
			}
			v := model.AppendedValue(ap)
			if v == nil {
				return false, "append of something other than one element"
			}
			for {
				if elemOf(v, l) {
					break
				}
				cl, ok := v.(*ssa.Call)
				if !ok || cl.Common().StaticCallee() == nil {
					return false, "the appended element is not derived from the current comma part"
				}
				switch pa.CalleeName(cl.Common().StaticCallee()) {
				case "strings.TrimSpace", "strings.ToLower":
					v = cl.Common().Args[0]
				default:
					return false, "the appended element is transformed by " + pa.CalleeName(cl.Common().StaticCallee()) + ", which the model (TrimSpace/ToLower) does not cover"
				}
			}
		} else {
			// initial value: an empty slice literal or make([]string, 0, …)
			if !emptyStringSlice(e) {
				return false, "the result slice does not start empty"
			}
		}
	}
	for _, b := range fn.Blocks {
		if r, ok := b.Instrs[len(b.Instrs)-1].(*ssa.Return); ok {
			if r.Results[0] != ssa.Value(acc) || b != l.Exit {
				return false, "a return yields something other than the completed result slice"
			}
		}
	}
	return true, "one element per comma part, transformed by TrimSpace/ToLower only; the completed slice is returned"
}

func c18HelperMultiSplit(c *Ctx, fn *ssa.Function) (bool, string) {
	if len(fn.Params) != 2 {
		return false, "signature changed"
	}
	loops := allSliceLoops(fn)
	if len(loops) != 2 {
		return false, fmt.Sprintf("%d loops, want two", len(loops))
	}
	outer, inner := loops[0], loops[1]
	if !outer.Blocks[inner.Header] {
		outer, inner = inner, outer
	}
	if outer.Over != ssa.Value(fn.Params[1]) || !outer.Blocks[inner.Header] {
		return false, "the outer loop does not range over the separators"
	}
	if !straightLineLoop(inner) {
		return false, "the inner loop body branches: some parts may be skipped"
	}
	// cur: outer-carried slice; inner ranges over cur; new: inner-carried slice starting empty, grows by Split(elem, sep)...
	var cur *ssa.Phi
	for _, in := range outer.Header.Instrs {
		if ph, ok := in.(*ssa.Phi); ok && ph != outer.Index {
			if cur != nil {
				return false, "more than one value carried by the separator loop"
			}
			cur = ph
		}
	}
	if cur == nil || inner.Over != ssa.Value(cur) {
		return false, "the inner loop does not range over the parts produced so far"
	}
	var acc *ssa.Phi
	for _, in := range inner.Header.Instrs {
		if ph, ok := in.(*ssa.Phi); ok && ph != inner.Index {
			if acc != nil {
				return false, "more than one value carried by the inner loop"
			}
			acc = ph
		}
	}
	if acc == nil {
		return false, "no accumulated result slice"
	}
	for i, e := range acc.Edges {
		if inner.Blocks[inner.Header.Preds[i]] {
			ap, ok := e.(*ssa.Call)
			if ac, _ := model.IsAppend(e); !ok || ac == nil || ap.Common().Args[0] != ssa.Value(acc) {
				return false, "the new slice is not extended by append on the loop path"
			}
			sp := isCallTo(ap.Common().Args[1], "strings.Split")
			if sp == nil || !elemOf(sp.Common().Args[0], inner) || !elemOf(sp.Common().Args[1], outer) {
				return false, "the appended parts are not strings.Split(current part, current separator)"
			}
		} else {
			if !emptyStringSlice(e) {
				return false, "the new slice does not start empty"
			}
		}
	}
	for i, e := range cur.Edges {
		p := outer.Header.Preds[i]
		if outer.Blocks[p] {
			if e != ssa.Value(acc) {
				return false, "the parts for the next separator are not the completed new slice"
			}
		} else {
			// initial: []string{value}
			sl, ok := e.(*ssa.Slice)
			if !ok {
				return false, "the initial list is not []string{value}"
			}
			al, ok := sl.X.(*ssa.Alloc)
			if !ok || al.Type().String() != "*[1]string" {
				return false, "the initial list is not []string{value}"
			}
			okInit := false
			for _, r := range *al.Referrers() {
				if ia, ok := r.(*ssa.IndexAddr); ok {
					for _, r2 := range *ia.Referrers() {
						if st, ok := r2.(*ssa.Store); ok && st.Val == ssa.Value(fn.Params[0]) {
							okInit = true
						}
					}
				}
			}
			if !okInit {
				return false, "the initial list is not []string{value}"
			}
		}
	}
	for _, b := range fn.Blocks {
		if r, ok := b.Instrs[len(b.Instrs)-1].(*ssa.Return); ok {
			if r.Results[0] != ssa.Value(cur) || b != outer.Exit {
				return false, "a return yields something other than the completed list"
			}
		}
	}
	return true, "every part is split on every separator in turn and all resulting parts are kept"
}

// c18HelperRecursive checks the dynamic-programming form of recursiveCheck.
func c18HelperRecursive(c *Ctx, fn *ssa.Function) (bool, string) {
	if len(fn.Params) != 2 {
		return false, "signature changed"
	}
	value, funcs := ssa.Value(fn.Params[0]), ssa.Value(fn.Params[1])
	// the table: the only make([]bool)
	var table *ssa.MakeSlice
	for _, b := range fn.Blocks {
		for _, in := range b.Instrs {
			if ms, ok := in.(*ssa.MakeSlice); ok && ms.Type().String() == "[]bool" {
				if table != nil {
					return false, "more than one boolean table"
				}
				table = ms
			}
		}
	}
	if table == nil {
		return false, "no boolean suffix table (the function is not in the form the model was validated against)"
	}
	isLenValue := func(v ssa.Value) bool {
		cl, ok := v.(*ssa.Call)
		if !ok {
			return false
		}
		bi, ok := cl.Common().Value.(*ssa.Builtin)
		return ok && bi.Name() == "len" && cl.Common().Args[0] == value
	}
	plusOne := func(v ssa.Value) ssa.Value {
		bo, ok := v.(*ssa.BinOp)
		if !ok || bo.Op != token.ADD {
			return nil
		}
		if k, ok := bo.Y.(*ssa.Const); ok && k.Int64() == 1 {
			return bo.X
		}
		return nil
	}
	// every use of the table is an IndexAddr; classify loads and stores
	type guarded struct {
		st    *ssa.Store
		start ssa.Value
	}
	var stores []guarded
	nInit := 0
	var retLoad *ssa.UnOp
	for _, r := range *table.Referrers() {
		ia, ok := r.(*ssa.IndexAddr)
		if !ok {
			return false, "the table escapes or is re-sliced at " + c.P.Pos(r.Pos())
		}
		for _, r2 := range *ia.Referrers() {
			switch x := r2.(type) {
			case *ssa.Store:
				k, isC := x.Val.(*ssa.Const)
				if !isC || k.Value == nil || k.Value.String() != "true" {
					return false, "a table entry is written with something other than the constant true at " + c.P.Pos(x.Pos())
				}
				if isLenValue(ia.Index) {
					nInit++
					continue
				}
				stores = append(stores, guarded{x, ia.Index})
			case *ssa.UnOp:
				if k, ok := ia.Index.(*ssa.Const); ok && k.Int64() == 0 {
					retLoad = x
				}
			default:
				return false, "unexpected use of a table entry at " + c.P.Pos(r2.Pos())
			}
		}
	}
	if nInit != 1 {
		return false, "the entry for the empty suffix (index len(value)) is not the one unconditional seed"
	}
	if len(stores) == 0 {
		return false, "no suffix is ever marked valid"
	}
	for _, g := range stores {
		b := g.st.Block()
		// dominated by the true edge of j(tempVal), j ∈ funcs, tempVal = Join(value[start:end+1], " ")
		// (the acceptance may reach the store through a boolean that is true only on the accepting edge — the
		// form a search helper takes once it is inlined)
		var findAccept func(b *ssa.BasicBlock, depth int) (*ssa.Call, *ssa.BasicBlock)
		findAccept = func(b *ssa.BasicBlock, depth int) (*ssa.Call, *ssa.BasicBlock) {
			for d := b; d != nil; d = d.Idom() {
				if d == b {
					continue
				}
				ifi, ok := d.Instrs[len(d.Instrs)-1].(*ssa.If)
				if !ok {
					continue
				}
				if !(d.Succs[0].Dominates(b) && d.Succs[0] != d.Succs[1] && len(d.Succs[0].Preds) == 1) {
					continue
				}
				switch cnd := ifi.Cond.(type) {
				case *ssa.Call:
					if cnd.Common().IsInvoke() || cnd.Common().StaticCallee() != nil {
						continue
					}
					return cnd, d
				case *ssa.Phi:
					if depth > 2 {
						continue
					}
					var call *ssa.Call
					var blk *ssa.BasicBlock
					for i, e := range cnd.Edges {
						if model.IsFalse(e) {
							continue
						}
						if !model.IsTrue(e) {
							return nil, nil
						}
						c2, b2 := findAccept(cnd.Block().Preds[i], depth+1)
						if c2 == nil || (call != nil && c2 != call) {
							return nil, nil
						}
						call, blk = c2, b2
					}
					if call != nil {
						return call, blk
					}
				}
			}
			return nil, nil
		}
		call, callBlk := findAccept(b, 0)
		if call == nil {
			return false, "a suffix is marked valid at " + c.P.Pos(g.st.Pos()) + " without a handler from the list having accepted the group"
		}
		fv, ok := call.Common().Value.(*ssa.UnOp)
		if !ok {
			return false, "the accepting call is not on an element of the handler list"
		}
		fia, ok := fv.X.(*ssa.IndexAddr)
		if !ok || fia.X != funcs {
			return false, "the accepting call is not on an element of the handler list"
		}
		if len(call.Common().Args) != 1 {
			return false, "the accepting call does not take the joined group"
		}
		jn := isCallTo(call.Common().Args[0], "strings.Join")
		if jn == nil {
			return false, "the accepted string is not strings.Join(group, \" \")"
		}
		if s, ok := constString(jn.Common().Args[1]); !ok || s != " " {
			return false, "the group is not joined with a single space"
		}
		sl, ok := jn.Common().Args[0].(*ssa.Slice)
		if !ok || sl.X != value || sl.Low != g.start || sl.High == nil || sl.Max != nil {
			return false, "the joined group is not value[start:end+1] with the start whose entry is being set"
		}
		end := plusOne(sl.High)
		if end == nil {
			return false, "the joined group does not end at end+1"
		}
		// dominated by the true edge of a load table[end+1]
		okNext := false
		for d := callBlk; d != nil; d = d.Idom() {
			ifi, ok := d.Instrs[len(d.Instrs)-1].(*ssa.If)
			if !ok {
				continue
			}
			ld, ok := ifi.Cond.(*ssa.UnOp)
			if !ok {
				continue
			}
			lia, ok := ld.X.(*ssa.IndexAddr)
			if !ok || lia.X != ssa.Value(table) {
				continue
			}
			if plusOne(lia.Index) == end && d.Succs[0].Dominates(callBlk) && len(d.Succs[0].Preds) == 1 {
				okNext = true
				break
			}
		}
		if !okNext {
			return false, "a suffix is marked valid at " + c.P.Pos(g.st.Pos()) + " without the suffix after the group (entry end+1) being known valid"
		}
	}
	for _, b := range fn.Blocks {
		if r, ok := b.Instrs[len(b.Instrs)-1].(*ssa.Return); ok {
			if k, ok := r.Results[0].(*ssa.Const); ok && k.Value != nil && k.Value.String() == "false" {
				continue
			}
			if retLoad == nil || r.Results[0] != ssa.Value(retLoad) {
				return false, "a return at " + c.P.Pos(r.Pos()) + " yields something other than false or the entry for the whole list (index 0)"
			}
		}
	}
	return true, fmt.Sprintf("entries are only set true: the seed at len(value) and %d guarded site(s) under valid[end+1] ∧ handler(Join(value[start:end+1], \" \")); valid[0] is returned", len(stores))
}

// cssMember describes a membership helper of package css: fn(x, list) is true only if x equals an element of list.
type cssMember struct {
	fn       *ssa.Function
	strIdx   int // index of the string parameter
	verified bool
}

var cssMembersMemo = map[*load.Program]map[string]*cssMember{}

// cssMembers finds the unexported css functions with a membership signature and decides, by the any-match summary
// rule, whether each really is one (true only across an equality of the string with an element of the list).
func cssMembers(c *Ctx) map[string]*cssMember {
	memoMu.Lock()
	if m, ok := cssMembersMemo[c.P]; ok {
		memoMu.Unlock()
		return m
	}
	memoMu.Unlock()
	out := map[string]*cssMember{}
	for _, fn := range moduleFuncs(c.P) {
		if fn.Pkg == nil || fn.Pkg.Pkg.Path() != load.ModPath+"/css" || fn.Parent() != nil || fn.Object() == nil || fn.Object().Exported() {
			continue
		}
		if !load.IsMemberSig(fn.Signature) {
			continue
		}
		m := &cssMember{fn: fn}
		if fn.Signature.Params().At(0).Type().String() != "string" {
			m.strIdx = 1
		}
		listP := fn.Params[1-m.strIdx]
		strP := fn.Params[m.strIdx]
		sc := &Ctx{P: c.P, R: newScratchReport(), Tier: c.Tier, VerifDir: c.VerifDir}
		anyMatchObligation(sc, "C18.R8", "member:"+fn.Name(), fn, 0, func(A2 *pa.Analysis, at *pa.Atom) bool {
			if at.Kind != "eq" {
				return false
			}
			x, y := at.Resolve(at.X), at.Resolve(at.Y)
			isElem := func(v ssa.Value) bool {
				u, ok := v.(*ssa.UnOp)
				if !ok {
					return false
				}
				ia, ok := u.X.(*ssa.IndexAddr)
				return ok && ia.X == ssa.Value(listP)
			}
			return (x == ssa.Value(strP) && isElem(y)) || (y == ssa.Value(strP) && isElem(x))
		}, "an equality test of the string with an element of the list")
		m.verified = len(sc.R.Obls) > 0
		for _, o := range sc.R.Obls {
			if o.Status != core.Discharged {
				m.verified = false
			}
		}
		out[fn.Name()] = m
	}
	memoMu.Lock()
	cssMembersMemo[c.P] = out
	memoMu.Unlock()
	return out
}

// emptyStringSlice: []string{} , make([]string, 0[, n]) or a nil slice constant.
func emptyStringSlice(v ssa.Value) bool {
	switch x := v.(type) {
	case *ssa.Slice:
		al, ok := x.X.(*ssa.Alloc)
		return ok && al.Type().String() == "*[0]string"
	case *ssa.MakeSlice:
		k, ok := x.Len.(*ssa.Const)
		return ok && k.Int64() == 0
	case *ssa.Const:
		return x.IsNil()
	}
	return false
}

package rules

import (
	"fmt"
	"go/token"
	"go/types"
	"strings"

	"golang.org/x/tools/go/ssa"

	"verif/tools/load"
	"verif/tools/model"
	"verif/tools/pa"
)

func init() { register("C17", "other", runC17) }

// nameBuilders: exported builder methods whose string parameters name elements, attributes, CSS
// properties or URL schemes (discovered by signature); exceptions carry a reason.
var c17Exceptions = map[string]string{
	"(*stylePolicyBuilder).MatchingEnum": "enumeration values are compared with strings.EqualFold at use (stringInSlice), so their case is irrelevant",
}

func runC17(c *Ctx) {
	R := c.R
	R.Rule("C17.R1", "names are lower-cased on entry: in every exported builder taking string / ...string names, every flow from such a parameter into a map key, a stored field or a slice element passes through strings.ToLower and through no other transformation (keys must be what the tokenizer delivers)")
	R.Rule("C17.R2", "rule tables are append-only: every update of a rule table (element/pattern/global attribute and style rules, scheme-regexp and bare-pattern lists, custom URL policies) stores append(<the same table's entry for the same key>, x), an inner map made only when the entry was absent, an empty rule list made only when absent, or struct{}{} for set-like tables; no delete on rule tables")
	R.Rule("C17.R3", "switch-like options reflect their most recent setting: each boolean/func setter stores its parameter unconditionally; AllowURLSchemes stores the unrestricted entry for every scheme unconditionally; AllowElementsContent deletes unconditionally; RequireSandboxOnIFrame installs a fresh set")
	R.Rule("C17.R4", "instances are independent: only freshly made maps/slices (or append results on the policy's own field) are stored into a policy's table fields; shipped constructors return a new NewPolicy(); no package-level cache (C13.R3)")
	R.Rule("C17.R5", "rules accumulate at sanitise time too: where the rules of several matching element patterns are merged into the per-call table, each update is m[k] = append(m[k], rules...); with that, order independence follows from R2 + any-match reads (C07.R1) + order-insensitive map iteration (C13.R4)")
	R.Rule("C17.R13", "the number of rules does not show in the output (= C10.R12, cited): a declaration is kept at most once however many registered rules accept it — a rule given twice, or two rules accepting the same value, must not change the result")
	declarationKeptOnce(c, "C17.R13", "the same set of rules gives different output depending on how often (and in which order) a rule was registered")
	R.Rule("C17.R12", "an adding and a removing setter are each other's undo: where one exported method of *Policy adds keys to a table and another deletes them (SkipElementsContent / AllowElementsContent), both update exactly the same tables")
	pairedSettersAgree(c, "C17.R12")
	R.Rule("C17.R11", "each rule gets a builder of its own: every method of *Policy that returns a builder returns one allocated by that call (not one kept in the Policy, a pool or a package variable)")
	buildersAreFresh(c, "C17.R11")
	R.Rule("C17.R10", "a Policy is never copied by value: no function loads a whole Policy value (a copy shares every table with the original)")
	noPolicyCopies(c, "C17.R10", "rules added to one policy appear in the other")
	R.Rule("C17.R9", "builders read only their own tables: an exported builder consults (looks up, ranges over, measures) no rule table other than the ones it updates itself, so what a call registers cannot depend on what other calls registered before")
	buildersReadOnlyTheirOwnTables(c, "C17.R9")
	R.Rule("C17.R8", "pattern builders stay in their lane: AllowURLSchemesMatching, AllowElementsMatching and the OnElementsMatching methods update (transitively) only the pattern tables, never an exact-name table")
	patternBuildersStayInLane(c, "C17.R8", "registering a pattern changes what was registered under an exact name: the policy is no longer the set of rules given to it")
	R.Rule("C17.R7", "options survive lazy initialisation: an existing Policy is only ever updated field by field — no function stores a whole Policy value through a pointer it did not allocate (a `*p = Policy{…}` in init would reset every option set before)")
	optionsSurviveInit(c, "C17.R7", "options set before the first rule (on a zero-value Policy) are lost: the policy is no longer the set of calls made on it")
	R.Rule("C17.R6", "no two keys of a rule table share one mutable entry: every map stored as a table entry is created by a make that is stored by exactly that one update and lies inside every loop containing the update")
	sharedEntryRule(c, "C17.R6", anyTable, "a rule registered later for one key is applied to the others too (the policy is no longer the set of rules given to it)")
	R.Assume(TrustGo, TrustTokenizer, "equality of the outputs of two concrete policies is a run-time relation and follows from R1–R4 only under the tokenizer contract")
	F := model.FindFields(c.P)
	c17Lower(c, F)
	c17AppendOnly(c, F)
	c17Setters(c, F)
	c17Fresh(c, F)
	mergesAccumulate(c, "C17.R5")
	R.OK("C17.R5", "ref", "order independence", "", "consequence of C17.R2, C17.R5 merges, C07.R1 and C13.R4")
}

func isStringish(t types.Type) bool {
	if b, ok := t.Underlying().(*types.Basic); ok && b.Kind() == types.String {
		return true
	}
	if s, ok := t.Underlying().(*types.Slice); ok {
		return isStringish(s.Elem())
	}
	return false
}

func c17Lower(c *Ctx, F *model.Fields) { namesLowered(c, "C17.R1", nil, 9) }

// namesLowered checks the flow of name parameters into tables for the exported builders (all, or those in only).
func namesLowered(c *Ctx, rule string, only map[string]bool, min int) {
	R := c.R
	n := 0
	for _, fn := range moduleFuncs(c.P) {
		if fn.Pkg == nil || fn.Pkg.Pkg.Path() != load.ModPath || fn.Signature.Recv() == nil || !fn.Object().Exported() {
			continue
		}
		var params []*ssa.Parameter
		for _, p := range fn.Params[1:] {
			if isStringish(p.Type()) {
				params = append(params, p)
			}
		}
		if len(params) == 0 {
			continue
		}
		name := shortFn(fn)
		if only != nil && !only[name] {
			continue
		}
		if why, ok := c17Exceptions[name]; ok {
			R.OK(rule, name, name, c.P.Pos(fn.Pos()), "listed exception: "+why)
			continue
		}
		n++
		// class(v): how v derives from a name parameter — 0 not at all, 1 through exactly strings.ToLower, 2 unchanged
		// (raw), 3 through some other transformation (the sanitiser looks names up as the tokenizer delivers them:
		// ASCII-lower-cased and otherwise verbatim, so any other normalisation makes the stored key unreachable)
		// computed as a least fixed point over the function's values (a name rewritten in a loop — x = f(x) — is a cycle)
		tab := map[ssa.Value]int{}
		max := func(a, b int) int {
			if a > b {
				return a
			}
			return b
		}
		class := func(v ssa.Value) int { return tab[v] }
		eval := func(v ssa.Value) int {
			r := 0
			switch x := v.(type) {
			case *ssa.Parameter:
				for _, p := range params {
					if x == p {
						r = 2
					}
				}
			case *ssa.UnOp:
				r = class(x.X)
			case *ssa.IndexAddr:
				r = class(x.X)
			case *ssa.Index:
				r = class(x.X)
			case *ssa.Slice:
				r = class(x.X)
			case *ssa.Phi:
				for _, e := range x.Edges {
					r = max(r, class(e))
				}
			case *ssa.Call:
				in := 0
				for _, a := range x.Common().Args {
					in = max(in, class(a))
				}
				switch {
				case in == 0:
					r = 0
				case isCallTo(x, "strings.ToLower") != nil:
					if in == 3 {
						r = 3
					} else {
						r = 1
					}
				default:
					if _, isBuiltin := x.Common().Value.(*ssa.Builtin); isBuiltin {
						r = in // len, append: no transformation of the strings themselves
					} else {
						r = 3
					}
				}
			case *ssa.BinOp:
				r = max(class(x.X), class(x.Y))
				if r > 0 && x.Op == token.ADD {
					r = 3
				}
			case *ssa.Alloc:
				for _, ref := range *x.Referrers() {
					if st, ok := ref.(*ssa.Store); ok && st.Addr == ssa.Value(x) {
						r = max(r, class(st.Val))
					}
				}
			}
			return r
		}
		var vals []ssa.Value
		for _, p := range fn.Params {
			vals = append(vals, p)
		}
		for _, b := range fn.Blocks {
			for _, in := range b.Instrs {
				if v, ok := in.(ssa.Value); ok {
					vals = append(vals, v)
				}
			}
		}
		for round := 0; round < 50; round++ {
			changed := false
			for _, v := range vals {
				if nv := eval(v); nv > tab[v] {
					tab[v] = nv
					changed = true
				}
			}
			if !changed {
				break
			}
		}
		raw := func(v ssa.Value) bool { return class(v) >= 2 }
		altered := ""
		noteAltered := func(v ssa.Value, where string) {
			if class(v) == 3 {
				altered = where
			}
		}
		_ = noteAltered
		bad := ""
		for _, b := range fn.Blocks {
			for _, in := range b.Instrs {
				switch x := in.(type) {
				case *ssa.MapUpdate:
					noteAltered(x.Key, "a table key at "+c.P.Pos(x.Pos()))
					if raw(x.Key) {
						bad = "a table key at " + c.P.Pos(x.Pos())
					}
				case *ssa.Lookup:
					if raw(x.Index) && x.X.Type().Underlying().(*types.Map) != nil {
						bad = "a table lookup key at " + c.P.Pos(x.Pos())
					}
				case *ssa.Store:
					if isStringish(x.Val.Type()) && class(x.Val) == 3 {
						if _, isIA := x.Addr.(*ssa.IndexAddr); isIA {
							noteAltered(x.Val, "an appended name at "+c.P.Pos(x.Pos()))
						}
					}
					if isStringish(x.Val.Type()) && raw(x.Val) {
						// stores into the varargs temp / locals are fine; stores into fields or slice elements of builders/policies are sinks
						root, path := storePath(x.Addr)
						if strings.Contains(path, ".") || strings.HasPrefix(root, "*") {
							_ = root
							bad = "a stored name at " + c.P.Pos(x.Pos())
						}
						if ia, ok := x.Addr.(*ssa.IndexAddr); ok {
							if al, ok := ia.X.(*ssa.Alloc); ok && strings.Contains(al.Comment, "varargs") {
								// element of an append's variadic temp: a sink iff appended to a non-local list
								bad = "an appended name at " + c.P.Pos(x.Pos())
							}
						}
					}
				case *ssa.Call:
					if bi, ok := x.Common().Value.(*ssa.Builtin); ok && bi.Name() == "delete" && raw(x.Common().Args[1]) {
						bad = "a delete key at " + c.P.Pos(x.Pos())
					}
					// names handed to another builder must already be lower-cased unless that builder lower-cases (it is checked itself)
				}
			}
		}
		why := "a name parameter reaches " + bad + " without strings.ToLower: rules registered with upper-case names would never match the (lower-cased) input"
		if altered != "" {
			why = "a name parameter reaches " + altered + " through a transformation other than strings.ToLower: the sanitiser looks names up as the tokenizer delivers them, so a key normalised differently is never found"
		}
		R.Check(bad == "", rule, name, name+": flow of name parameters into tables", c.P.Pos(fn.Pos()), "every name reaches its sink through strings.ToLower and nothing else", why)
	}
	R.Role(rule, "exported builders taking names", n, min)
}

var ruleTables = []string{"elsAndAttrs", "elsMatchingAndAttrs", "globalAttrs", "elsAndStyles", "elsMatchingAndStyles", "globalStyles"}

func c17AppendOnly(c *Ctx, F *model.Fields) {
	R := c.R
	isRule := map[string]string{}
	for _, r := range ruleTables {
		isRule[F.Get(r)] = r
	}
	listRoles := map[string]string{F.Get("allowURLSchemeRegexps"): "allowURLSchemeRegexps", F.Get("bareRegexps"): "bareRegexps"}
	n := 0
	for _, fn := range moduleFuncs(c.P) {
		if fn.Pkg == nil || fn.Pkg.Pkg.Path() != load.ModPath {
			continue
		}
		A := model.NewAnalysis(fn)
		cnt := map[string]int{}
		for _, b := range fn.Blocks {
			for _, in := range b.Instrs {
				switch x := in.(type) {
				case *ssa.MapUpdate:
					ms := A.Sym.Of(x.Map)
					role := ""
					for f, r := range isRule {
						if f != "" && strings.Contains(ms, "."+f) {
							role = r
						}
					}
					if role == "" {
						continue
					}
					if fn.Name() == "init" {
						continue
					}
					n++
					cnt[role]++
					key := fmt.Sprintf("%s:%s#%d", shortFn(fn), role, cnt[role])
					cons := fmt.Sprintf("%s: %s[%s] = %s", shortFn(fn), stripIDs(ms), stripIDs(A.Sym.Of(x.Key)), shorten(stripIDs(A.Sym.Of(x.Value))))
					pos := c.P.Pos(x.Pos())
					ks := A.Sym.Of(x.Key)
					okV, why := false, "the table entry is overwritten with "+shorten(stripIDs(A.Sym.Of(x.Value)))+" instead of being extended"
					switch v := x.Value.(type) {
					case *ssa.Call:
						if ac, base := model.IsAppend(v); ac != nil {
							bs := A.Sym.Of(base)
							if bs == "lookup("+ms+","+ks+")" || bs == "lookup("+ms+","+ks+")#0" {
								okV = true
							} else {
								why = "append onto " + stripIDs(bs) + ", not onto this table's own entry for the same key"
							}
						}
					case *ssa.MakeMap:
						okV, why = madeWhenAbsent(A, x, ms, ks)
					case *ssa.Slice: // empty slice literal
						okV, why = madeWhenAbsent(A, x, ms, ks)
					}
					R.Check(okV, "C17.R2", key, cons, pos, "extends the existing entry (or creates it when absent)", why)
				case *ssa.Call:
					if bi, ok := x.Common().Value.(*ssa.Builtin); ok && bi.Name() == "delete" {
						ms := A.Sym.Of(x.Common().Args[0])
						for f, r := range isRule {
							if f != "" && strings.Contains(ms, "."+f) {
								R.Fail("C17.R2", shortFn(fn)+":delete:"+r, shortFn(fn)+": delete from "+r, c.P.Pos(x.Pos()), "a rule is removed from a rule table")
							}
						}
					}
				case *ssa.Store:
					f := model.PolicyField(x.Addr)
					if r, ok := listRoles[f]; ok && f != "" && fn.Name() != "init" {
						n++
						okV := false
						if ac, base := model.IsAppend(x.Val); ac != nil && model.LoadedPolicyField(base) == f {
							okV = true
						}
						R.Check(okV, "C17.R2", shortFn(fn)+":"+r, shortFn(fn)+": store to "+r, c.P.Pos(x.Pos()), "append onto the same list", "the list is replaced instead of extended")
					}
				}
			}
		}
	}
	R.Role("C17.R2", "updates of rule tables", n, 10)
}

// madeWhenAbsent: the update creating an empty entry happens only under mapok(table,key) == false.
func madeWhenAbsent(A *pa.Analysis, mu *ssa.MapUpdate, ms, ks string) (bool, string) {
	translateAll(A)
	ai := A.AtomIndex("mapok(" + ms + "," + ks + ")")
	if ai < 0 {
		return false, "an empty entry is stored without testing whether one exists (existing rules would be dropped)"
	}
	q, err := A.NewQuery([]int{ai})
	if err != nil {
		return false, err.Error()
	}
	q.Run(A.Fn.Blocks[0], nil)
	st := q.StateAt(mu)
	if st == nil {
		return true, ""
	}
	ok, _ := q.Holds(st, pa.Not(pa.AtomF(ai)))
	if !ok {
		return false, "an empty entry can be stored although one exists (existing rules would be dropped)"
	}
	return true, ""
}

func c17Setters(c *Ctx, F *model.Fields) {
	R := c.R
	type setter struct{ method, role string }
	for _, s := range []setter{
		{"AllowUnsafe", "allowUnsafe"}, {"AddSpaceWhenStrippingTag", "addSpaces"}, {"RequireParseableURLs", "requireParseableURLs"},
		{"AllowRelativeURLs", "allowRelativeURLs"}, {"RewriteSrc", "srcRewriter"}, {"RequireNoFollowOnLinks", "requireNoFollow"},
		{"RequireNoFollowOnFullyQualifiedLinks", "requireNoFollowFQ"}, {"RequireNoReferrerOnLinks", "requireNoReferrer"},
		{"RequireNoReferrerOnFullyQualifiedLinks", "requireNoReferrerFQ"}, {"AddTargetBlankToFullyQualifiedLinks", "addTargetBlankFQ"},
		{"RequireCrossOriginAnonymous", "requireCrossOriginAnonymous"},
	} {
		fn := c.P.Func(load.ModPath, "(*Policy)."+s.method)
		if fn == nil {
			R.Unknown("C17.R3", s.method, "(*Policy)."+s.method, "", "setter not found")
			continue
		}
		f := F.Get(s.role)
		ok, why := false, "the field playing role "+s.role+" is never assigned the parameter"
		for _, b := range fn.Blocks {
			for _, in := range b.Instrs {
				st, isS := in.(*ssa.Store)
				if !isS || model.PolicyField(st.Addr) != f {
					continue
				}
				if len(fn.Params) == 2 && st.Val == ssa.Value(fn.Params[1]) {
					// unconditional: its block dominates every return
					dom := true
					for _, rb := range fn.Blocks {
						if _, isR := rb.Instrs[len(rb.Instrs)-1].(*ssa.Return); isR && !b.Dominates(rb) {
							dom = false
						}
					}
					if dom {
						ok = true
					} else {
						why = "the parameter is stored only on some paths"
					}
				} else {
					why = "the field receives " + st.Val.Name() + " rather than the parameter (e.g. a constant or an OR with the old value): turning the option off again would have no effect"
				}
			}
		}
		R.Check(ok, "C17.R3", s.method, "(*Policy)."+s.method, c.P.Pos(fn.Pos()), "stores its parameter unconditionally", why)
	}
	// AllowURLSchemes: unconditional nil entry per scheme
	if fn := c.P.Func(load.ModPath, "(*Policy).AllowURLSchemes"); fn != nil {
		f := F.Get("allowURLSchemes")
		ok, why := false, "no update of the scheme table"
		for _, l := range model.SliceRangeLoops(fn) {
			for _, b := range sortedBlocks(l.Blocks) {
				for _, in := range b.Instrs {
					mu, isM := in.(*ssa.MapUpdate)
					if !isM || model.LoadedPolicyField(mu.Map) != f {
						continue
					}
					k, isC := mu.Value.(*ssa.Const)
					if !isC || !k.IsNil() {
						why = "stores something other than the unrestricted (nil) entry"
						continue
					}
					// unconditional inside the loop body: dominates every back edge source
					dom := true
					for _, p := range l.Header.Preds {
						if l.Blocks[p] && !b.Dominates(p) {
							dom = false
						}
					}
					if dom {
						ok = true
					} else {
						why = "the unrestricted entry is stored only when the scheme has no entry yet: AllowURLSchemes after AllowURLSchemeWithCustomPolicy would silently keep the custom restriction (the most recent registration must win)"
					}
				}
			}
		}
		R.Check(ok, "C17.R3", "AllowURLSchemes", "(*Policy).AllowURLSchemes", c.P.Pos(fn.Pos()), "stores the unrestricted entry for every scheme unconditionally", why)
	} else {
		R.Unknown("C17.R3", "AllowURLSchemes", "(*Policy).AllowURLSchemes", "", "not found")
	}
	if fn := c.P.Func(load.ModPath, "(*Policy).AllowElementsContent"); fn != nil {
		f := F.Get("skipSet")
		ok := false
		for _, l := range model.SliceRangeLoops(fn) {
			for _, b := range sortedBlocks(l.Blocks) {
				for _, in := range b.Instrs {
					if cl, isC := in.(*ssa.Call); isC {
						if bi, isB := cl.Common().Value.(*ssa.Builtin); isB && bi.Name() == "delete" && model.LoadedPolicyField(cl.Common().Args[0]) == f {
							dom := true
							for _, p := range l.Header.Preds {
								if l.Blocks[p] && !b.Dominates(p) {
									dom = false
								}
							}
							ok = dom
						}
					}
				}
			}
		}
		R.Check(ok, "C17.R3", "AllowElementsContent", "(*Policy).AllowElementsContent", c.P.Pos(fn.Pos()), "deletes every named element from the skip set unconditionally", "the skip-set entry is not (always) removed")
	}
	if fn := c.P.Func(load.ModPath, "(*Policy).SkipElementsContent"); fn != nil {
		f := F.Get("skipSet")
		ok := false
		for _, b := range fn.Blocks {
			for _, in := range b.Instrs {
				if mu, isM := in.(*ssa.MapUpdate); isM && model.LoadedPolicyField(mu.Map) == f {
					ok = true
				}
			}
		}
		R.Check(ok, "C17.R3", "SkipElementsContent", "(*Policy).SkipElementsContent", c.P.Pos(fn.Pos()), "adds every named element to the skip set", "the skip set is not updated")
	}
}

func c17Fresh(c *Ctx, F *model.Fields) {
	R := c.R
	freshTables(c, "C17.R4", nil, 10)
	c17Ctors(c)
	_ = R
}

// freshTables: only freshly made maps/slices (or append results on the policy's own field) are stored into the Policy
// table fields selected by want (nil: all).
func freshTables(c *Ctx, rule string, want func(field string) bool, min int) {
	R := c.R
	// stores of map/slice values into Policy fields anywhere in the module
	n := 0
	for _, fn := range moduleFuncs(c.P) {
		if fn.Pkg == nil || fn.Pkg.Pkg.Path() != load.ModPath {
			continue
		}
		cnt := map[string]int{}
		for _, b := range fn.Blocks {
			for _, in := range b.Instrs {
				st, ok := in.(*ssa.Store)
				if !ok {
					continue
				}
				f := model.PolicyField(st.Addr)
				if f == "" || (want != nil && !want(f)) {
					continue
				}
				switch st.Val.Type().Underlying().(type) {
				case *types.Map, *types.Slice:
				default:
					continue
				}
				n++
				cnt[f]++
				key := fmt.Sprintf("%s:%s#%d", shortFn(fn), f, cnt[f])
				okV := false
				switch v := st.Val.(type) {
				case *ssa.MakeMap, *ssa.MakeSlice:
					okV = true
				case *ssa.Call:
					if ac, base := model.IsAppend(v); ac != nil && model.LoadedPolicyField(base) == f {
						okV = true
					}
				case *ssa.Const:
					okV = v.IsNil()
				case *ssa.Slice:
					// make([]T, 0) lowers to a slice of a freshly allocated array
					_, okV = v.X.(*ssa.Alloc)
				}
				R.Check(okV, rule, key, fmt.Sprintf("%s: Policy.%s = %s", shortFn(fn), f, stripIDs(st.Val.Name())), c.P.Pos(st.Pos()), "freshly made (or an append onto the policy's own list)", "a table obtained elsewhere (another policy, a parameter, a package variable) is installed: two policies would share and mutate it")
			}
		}
	}
	R.Role(rule, "table stores into Policy fields", n, min)
}

func c17Ctors(c *Ctx) {
	R := c.R
	np := c.P.Func(load.ModPath, "NewPolicy")
	for _, name := range []string{"UGCPolicy", "StrictPolicy", "StripTagsPolicy"} {
		fn := c.P.Func(load.ModPath, name)
		if fn == nil || np == nil {
			continue
		}
		// the returned policy is the result of a NewPolicy() call made in this invocation (possibly through a shipped constructor)
		ok := true
		for _, b := range fn.Blocks {
			if r, isR := b.Instrs[len(b.Instrs)-1].(*ssa.Return); isR {
				cl, isC := r.Results[0].(*ssa.Call)
				if !isC || cl.Common().StaticCallee() == nil {
					ok = false
					continue
				}
				cal := cl.Common().StaticCallee()
				if cal != np && cal.Name() != "StrictPolicy" && cal.Name() != "NewPolicy" {
					ok = false
				}
			}
		}
		R.Check(ok, "C17.R4", "ctor:"+name, name, c.P.Pos(fn.Pos()), "returns a policy created by NewPolicy() in this call", "the constructor may return a cached/shared policy: extending one instance would change another")
	}
	// NewPolicy returns the address of a local
	if np != nil {
		ok := true
		for _, b := range np.Blocks {
			if r, isR := b.Instrs[len(b.Instrs)-1].(*ssa.Return); isR {
				if _, isA := r.Results[0].(*ssa.Alloc); !isA {
					ok = false
				}
			}
		}
		R.Check(ok, "C17.R4", "ctor:NewPolicy", "NewPolicy", c.P.Pos(np.Pos()), "returns a freshly allocated Policy", "NewPolicy may return a shared instance")
	}
}

package rules

import (
	"fmt"
	"go/token"
	"go/types"

	"golang.org/x/tools/go/ssa"

	"verif/tools/load"
	"verif/tools/model"
)

func init() { register("C16", "proof", runC16) }

// errCarriers: the values that hold a write's error — the extracted error itself and, transitively, every phi or
// value-preserving conversion it flows into (an inlined helper hands its error back through such a phi).
func errCarriers(ex ssa.Value) map[ssa.Value]bool {
	out := map[ssa.Value]bool{ex: true}
	work := []ssa.Value{ex}
	for len(work) > 0 {
		v := work[len(work)-1]
		work = work[:len(work)-1]
		if v.Referrers() == nil {
			continue
		}
		for _, r := range *v.Referrers() {
			switch x := r.(type) {
			case *ssa.Phi:
				if !out[x] {
					out[x] = true
					work = append(work, x)
				}
			case *ssa.ChangeInterface:
				if !out[x] {
					out[x] = true
					work = append(work, x)
				}
			}
		}
	}
	return out
}

// errCheckOf: for a write call, returns the error carriers, the If that tests the error and the
// index of the successor taken when err != nil.
func errCheckOf(ci ssa.CallInstruction) (errv map[ssa.Value]bool, ifi *ssa.If, failSucc int, why string) {
	v, ok := ci.(ssa.Value)
	if !ok {
		return nil, nil, 0, "call is a go/defer statement"
	}
	refs := v.Referrers()
	if refs == nil {
		return nil, nil, 0, "result unused"
	}
	for _, r := range *refs {
		ex, ok := r.(*ssa.Extract)
		if !ok || !types.Identical(ex.Type(), types.Universe.Lookup("error").Type()) {
			continue
		}
		car := errCarriers(ex)
		// the nearest test: prefer one in the write's own block, else any
		var best *ssa.If
		bestK := 0
		for cv := range car {
			if cv.Referrers() == nil {
				continue
			}
			for _, r2 := range *cv.Referrers() {
				bo, ok := r2.(*ssa.BinOp)
				if !ok || (bo.Op != token.NEQ && bo.Op != token.EQL) {
					continue
				}
				var other ssa.Value = bo.Y
				if bo.Y == cv {
					other = bo.X
				}
				if c, ok := other.(*ssa.Const); !ok || !c.IsNil() {
					continue
				}
				for _, r3 := range *bo.Referrers() {
					if i, ok := r3.(*ssa.If); ok {
						k := 0
						if bo.Op == token.EQL {
							k = 1
						}
						if best == nil || i.Block() == ci.Block() || (best.Block() != ci.Block() && i.Block().Index < best.Block().Index) {
							best, bestK = i, k
						}
					}
				}
			}
		}
		if best != nil {
			return car, best, bestK, ""
		}
		return car, nil, 0, "error result extracted but never compared with nil in a branch"
	}
	return nil, nil, 0, "error result is dropped (never extracted)"
}

// writeToTest: every path from the instruction after `from` reaches block `to` without passing a destination write,
// a return or the token loop header.
func writeToTest(from ssa.Instruction, to *ssa.BasicBlock, header *ssa.BasicBlock, isWrite map[ssa.Instruction]bool) string {
	b := from.Block()
	after := false
	for _, in := range b.Instrs {
		if in == from {
			after = true
			continue
		}
		if after && isWrite[in] {
			return "another destination write happens before the error is tested"
		}
	}
	if b == to {
		return ""
	}
	seen := map[*ssa.BasicBlock]bool{}
	stack := append([]*ssa.BasicBlock(nil), b.Succs...)
	for len(stack) > 0 {
		x := stack[len(stack)-1]
		stack = stack[:len(stack)-1]
		if seen[x] || x == to {
			continue
		}
		seen[x] = true
		if x == header {
			return "the token loop continues before the error is tested"
		}
		for _, in := range x.Instrs {
			if isWrite[in] {
				return "another destination write happens before the error is tested"
			}
			if _, ok := in.(*ssa.Return); ok {
				return "the function can return before the error is tested"
			}
		}
		if len(x.Succs) == 0 {
			return "a path ends before the error is tested"
		}
		stack = append(stack, x.Succs...)
	}
	return ""
}

func runC16(c *Ctx) {
	R := c.R
	R.Rule("C16.R1", "every destination write's error result is extracted and tested against nil on every path from the write, before any other destination write, return or loop iteration")
	R.Rule("C16.R2", "fail-stop: on the err != nil edge of a write the function returns that very error value; no destination write and no path back to the token loop is reachable from that edge")
	R.Rule("C16.R3", "the writer does not escape: the io.Writer parameter (and its wrappers) is used only as the receiver of destination writes, in the stringWriter type assertion, or stored in the asStringWriter adapter")
	R.Rule("C16.R4", "reader errors surface: after Tokenizer.Next()==ErrorToken the only `return nil` is guarded by Err()==io.EOF and every other return yields the Err() value; sanitizeWithBuff returns a fresh empty buffer on error; SanitizeReaderToWriter returns sanitize's error unchanged")
	R.Rule("C16.R6", "the source's errors reach the tokenizer (= C15.R4, cited): the reader parameter of sanitize is only handed to html.NewTokenizer — a wrapper or a look-ahead between the caller's reader and the tokenizer can swallow, delay or re-order a read error, which R4 (judging Tokenizer.Err) then never sees")
	readerOpaque(c, "C16.R6", "something stands between the caller's reader and the tokenizer and can swallow or alter a read error")
	R.Rule("C16.R5", "asStringWriter.WriteString forwards Write's results unchanged")
	R.Assume(TrustGo, "bytes.Buffer writes never fail", "the destination's Write/WriteString performs no hidden retry; a transient failure is reported as a non-nil error")

	s, err := model.FindSan(c.P)
	if err != nil {
		R.Unknown("C16.R1", "sanitize", "(*Policy).sanitize", "", err.Error())
		return
	}
	R.Analysed["sanitize"] = s.Describe()
	fn := "(*Policy).sanitize"
	nWrites := 0
	isWrite := map[ssa.Instruction]bool{}
	for _, w := range s.Writes {
		isWrite[w.Call] = true
	}
	for i, w := range s.Writes {
		nWrites++
		key := fmt.Sprintf("write:%s:%s#%d", w.Arm, w.Payload, ordinalInArm(s, i))
		cons := fmt.Sprintf("%s: write of %s in arm %s", fn, w.Detail, w.Arm)
		pos := c.P.Pos(w.Call.Pos())
		errv, ifi, failSucc, why := errCheckOf(w.Call)
		if ifi == nil {
			R.Fail("C16.R1", key, cons, pos, why)
			continue
		}
		// every path from the write leads to the test, with no other write, return or loop iteration in between
		if why := writeToTest(w.Call, ifi.Block(), s.Header, isWrite); why != "" {
			R.Fail("C16.R1", key, cons, pos, why)
			continue
		}
		R.OK("C16.R1", key, cons, pos, "error extracted and tested against nil before anything else happens")
		// R2
		start := ifi.Block().Succs[failSucc]
		// A later test of the same error (the join behind an inlined helper: `if err != nil { return err }`) is
		// followed only along its err != nil edge, provided the tested φ carries this write's error on every edge
		// over which the walk can reach it.
		solid := map[ssa.Value]bool{}
		for v := range errv {
			if _, isPhi := v.(*ssa.Phi); !isPhi {
				solid[v] = true
			}
		}
		failEdgeOf := func(b *ssa.BasicBlock) int {
			i, ok := b.Instrs[len(b.Instrs)-1].(*ssa.If)
			if !ok {
				return -1
			}
			bo, ok := i.Cond.(*ssa.BinOp)
			if !ok || (bo.Op != token.NEQ && bo.Op != token.EQL) {
				return -1
			}
			cv, other := bo.X, bo.Y
			if c, ok := cv.(*ssa.Const); ok && c.IsNil() {
				cv, other = other, cv
			}
			if c, ok := other.(*ssa.Const); !ok || !c.IsNil() || !solid[cv] {
				return -1
			}
			if bo.Op == token.EQL {
				return 1
			}
			return 0
		}
		var seen map[*ssa.BasicBlock]bool
		bad := ""
		rets := 0
		for round := 0; round < 5; round++ {
			seen = map[*ssa.BasicBlock]bool{}
			stack := []*ssa.BasicBlock{start}
			for len(stack) > 0 {
				b := stack[len(stack)-1]
				stack = stack[:len(stack)-1]
				if seen[b] {
					continue
				}
				seen[b] = true
				if b == s.Header {
					continue
				}
				if k := failEdgeOf(b); k >= 0 {
					stack = append(stack, b.Succs[k])
					continue
				}
				stack = append(stack, b.Succs...)
			}
			// φ carriers all of whose reachable incoming edges carry the error
			changed := false
			for v := range errv {
				ph, isPhi := v.(*ssa.Phi)
				if !isPhi || solid[v] || !seen[ph.Block()] {
					continue
				}
				ok := true
				for i, pr := range ph.Block().Preds {
					reach := seen[pr] && pr != s.Header
					if ph.Block() == start && pr == ifi.Block() {
						reach = true
					}
					if k := -1; reach && seen[pr] {
						if k = failEdgeOf(pr); k >= 0 && pr.Succs[k] != ph.Block() {
							reach = false
						}
					}
					if reach && !solid[ph.Edges[i]] {
						ok = false
					}
				}
				if ok {
					solid[v] = true
					changed = true
				}
			}
			if !changed {
				break
			}
		}
		for b := range seen {
			if bad != "" {
				break
			}
			if b == s.Header {
				bad = "the err != nil edge continues into the token loop (processing goes on after a failed write)"
				break
			}
			for _, in := range b.Instrs {
				if isWrite[in] {
					bad = "a destination write at " + c.P.Pos(in.Pos()) + " is reachable after the failed write"
				}
				if r, ok := in.(*ssa.Return); ok {
					rets++
					if len(r.Results) != 1 || !errv[r.Results[0]] {
						bad = "return at " + c.P.Pos(r.Pos()) + " does not return the write's error value"
					}
				}
			}
		}
		if bad == "" && rets == 0 {
			bad = "no return reachable from the err != nil edge"
		}
		R.Check(bad == "", "C16.R2", key, cons, pos, "err != nil edge returns the error, nothing else reachable", bad)
	}
	R.Role("C16.R1", "destination write sites in sanitize", nWrites, 6)

	// R3: uses of the writer parameter and of values flowing from it
	nUses := 0
	var visit func(v ssa.Value, seen map[ssa.Value]bool)
	visit = func(v ssa.Value, seen map[ssa.Value]bool) {
		if seen[v] {
			return
		}
		seen[v] = true
		refs := v.Referrers()
		if refs == nil {
			return
		}
		for _, r := range *refs {
			nUses++
			key := "use:" + fmt.Sprintf("%T", r)
			pos := c.P.Pos(r.Pos())
			switch x := r.(type) {
			case *ssa.TypeAssert:
				visit(x, seen)
			case *ssa.Extract:
				visit(x, seen)
			case *ssa.Phi:
				visit(x, seen)
			case *ssa.MakeInterface:
				visit(x, seen)
			case *ssa.ChangeInterface:
				visit(x, seen)
			case *ssa.If, *ssa.DebugRef:
			case *ssa.Store:
				// allowed: storing into a field of a locally allocated adapter struct
				root := x.Addr
				if fa, ok := root.(*ssa.FieldAddr); ok {
					if a, ok := fa.X.(*ssa.Alloc); ok && x.Val == v {
						visit(a, seen)
						continue
					}
				}
				R.Fail("C16.R3", key+"@"+s.A.Sym.Of(x.Addr), fn+": writer stored to "+s.A.Sym.Of(x.Addr), pos, "the writer escapes into memory other than the local adapter")
			case *ssa.FieldAddr:
				// field of adapter alloc: only stores of the writer
				for _, r2 := range *x.Referrers() {
					if st, ok := r2.(*ssa.Store); !ok || st.Addr != x {
						R.Fail("C16.R3", key, fn+": adapter field used by "+fmt.Sprintf("%T", r2), pos, "adapter field read outside the adapter's own methods")
					}
				}
			case ssa.CallInstruction:
				if isWrite[x] && x.Common().IsInvoke() && x.Common().Value == v {
					continue
				}
				R.Fail("C16.R3", "call:"+calleeStr(x), fn+": writer passed to/used by "+calleeStr(x), pos, "the writer is used other than as the receiver of a checked destination write")
			default:
				R.Fail("C16.R3", key, fn+": writer used by "+fmt.Sprintf("%T", r), pos, "unrecognised use of the writer")
			}
		}
	}
	before := len(R.Obls)
	visit(s.Writer, map[ssa.Value]bool{})
	if len(R.Obls) == before {
		R.OK("C16.R3", "writer-uses", fmt.Sprintf("%s: %d uses of the writer and its wrappers", fn, nUses), c.P.Pos(s.Fn.Pos()), "all uses are receiver positions of destination writes, the type assertion, phi/interface conversions, or the adapter store")
	}

	// R4: reader error path
	c16ReaderErrors(c, s)

	// R5: adapter
	ad := adapterWriteString(c)
	if ad == nil {
		// adapter might have been removed if sanitize requires StringWriter; then R5 is moot only if no wrapper is created
		R.Unknown("C16.R5", "adapter", "(*asStringWriter).WriteString", "", "adapter method not found")
	} else {
		ok, why := forwardsWrite(ad)
		R.Check(ok, "C16.R5", "adapter", "(*asStringWriter).WriteString", c.P.Pos(ad.Pos()), "returns the results of Write([]byte(s)) unchanged", why)
	}
}

func calleeStr(ci ssa.CallInstruction) string {
	c := ci.Common()
	if c.IsInvoke() {
		return "invoke " + c.Method.Name()
	}
	if f := c.StaticCallee(); f != nil {
		return f.String()
	}
	return "dynamic call"
}

func ordinalInArm(s *model.San, i int) int {
	n := 0
	for j := 0; j < i; j++ {
		if s.Writes[j].Arm == s.Writes[i].Arm && s.Writes[j].Payload == s.Writes[i].Payload {
			n++
		}
	}
	return n
}

// forwardsWrite: single block: t = invoke a.Writer.Write(conv(s)); return extract t#0, extract t#1
func forwardsWrite(fn *ssa.Function) (bool, string) {
	if len(fn.Blocks) != 1 {
		return false, "adapter has control flow"
	}
	var call *ssa.Call
	for _, in := range fn.Blocks[0].Instrs {
		if c, ok := in.(*ssa.Call); ok {
			if call != nil {
				return false, "adapter makes more than one call"
			}
			call = c
		}
	}
	if call == nil || !call.Common().IsInvoke() || call.Common().Method.Name() != "Write" {
		return false, "adapter does not invoke Write on the wrapped writer"
	}
	conv, ok := call.Common().Args[0].(*ssa.Convert)
	if !ok || conv.X != fn.Params[1] {
		return false, "adapter does not pass []byte(s) of its own parameter"
	}
	ret := fn.Blocks[0].Instrs[len(fn.Blocks[0].Instrs)-1].(*ssa.Return)
	// `return a.Write(..)` of a tuple-returning call lowers to extracts
	if len(ret.Results) != 2 {
		return false, "adapter does not return two results"
	}
	for i, r := range ret.Results {
		ex, ok := r.(*ssa.Extract)
		if !ok || ex.Tuple != call || ex.Index != i {
			return false, fmt.Sprintf("result %d is not Write's result %d", i, i)
		}
	}
	return true, ""
}

func c16ReaderErrors(c *Ctx, s *model.San) {
	R := c.R
	fn := "(*Policy).sanitize"
	// the If testing Next()==ErrorToken
	var errIf *ssa.If
	var errSucc int
	for _, r := range *s.NextCall.Referrers() {
		bo, ok := r.(*ssa.BinOp)
		if !ok || bo.Op != token.EQL && bo.Op != token.NEQ {
			continue
		}
		k, ok := bo.Y.(*ssa.Const)
		if !ok || k.Int64() != 0 {
			continue
		}
		for _, r2 := range *bo.Referrers() {
			if i, ok := r2.(*ssa.If); ok {
				errIf = i
				if bo.Op == token.NEQ {
					errSucc = 1
				}
			}
		}
	}
	if errIf == nil {
		R.Unknown("C16.R4", "errtoken-test", fn+": Tokenizer.Next() == ErrorToken", "", "test not recognised")
		return
	}
	start := errIf.Block().Succs[errSucc]
	q, err := s.A.NewQuery(nil)
	_ = q
	_ = err
	// collect Err() call
	var errCall *ssa.Call
	seen := map[*ssa.BasicBlock]bool{}
	stack := []*ssa.BasicBlock{start}
	var rets []*ssa.Return
	loops := false
	for len(stack) > 0 {
		b := stack[len(stack)-1]
		stack = stack[:len(stack)-1]
		if seen[b] {
			continue
		}
		seen[b] = true
		if b == s.Header {
			loops = true
			continue
		}
		for _, in := range b.Instrs {
			if cl, ok := in.(*ssa.Call); ok && model.CalleeIs(cl.Common(), model.HTMLPkg, "Tokenizer", "Err") {
				errCall = cl
			}
			if r, ok := in.(*ssa.Return); ok {
				rets = append(rets, r)
			}
		}
		stack = append(stack, b.Succs...)
	}
	pos := c.P.Pos(errIf.Pos())
	if loops {
		R.Fail("C16.R4", "errtoken-continues", fn+": ErrorToken branch", pos, "after ErrorToken the loop continues (the error is swallowed)")
	}
	if errCall == nil {
		R.Fail("C16.R4", "err-call", fn+": ErrorToken branch", pos, "Tokenizer.Err() is never consulted on the ErrorToken branch")
		return
	}
	// query: track the atom Err()==io.EOF
	A := s.A
	// make sure conditions are translated
	for b := range seen {
		if ifi, ok := b.Instrs[len(b.Instrs)-1].(*ssa.If); ok {
			A.Cond(ifi.Cond)
		}
	}
	eofKey := ""
	for _, r := range *errCall.Referrers() {
		if bo, ok := r.(*ssa.BinOp); ok && (bo.Op == token.EQL || bo.Op == token.NEQ) {
			other := bo.Y
			if other == ssa.Value(errCall) {
				other = bo.X
			}
			if ld, ok := other.(*ssa.UnOp); ok {
				if g, ok := ld.X.(*ssa.Global); ok && g.Pkg.Pkg.Path() == "io" && g.Name() == "EOF" {
					f := A.Cond(bo)
					m := map[int]bool{}
					f.Atoms(m)
					for k := range m {
						eofKey = A.Name(k)
					}
				}
			}
		}
	}
	if eofKey == "" {
		R.Fail("C16.R4", "eof-test", fn+": ErrorToken branch", pos, "Err() is not compared with io.EOF")
		return
	}
	q2, err2 := A.NewQuery([]int{A.AtomIndex(eofKey)})
	if err2 != nil {
		R.Unknown("C16.R4", "eof-query", fn, pos, err2.Error())
		return
	}
	q2.Barrier[s.Header] = true
	q2.Run(start, nil)
	for i, r := range rets {
		key := fmt.Sprintf("return#%d", i)
		rp := c.P.Pos(r.Pos())
		if len(r.Results) != 1 {
			R.Fail("C16.R4", key, fn+": return on ErrorToken branch", rp, "unexpected result arity")
			continue
		}
		if r.Results[0] == ssa.Value(errCall) {
			R.OK("C16.R4", key, fn+": return tokenizer.Err()", rp, "returns the tokenizer's error value")
			continue
		}
		if k, ok := r.Results[0].(*ssa.Const); ok && k.IsNil() {
			ok2, cex := q2.Holds(q2.StateAt(r), A.Lit(eofKey))
			R.Check(ok2, "C16.R4", key, fn+": return nil on ErrorToken branch", rp, "guarded by Err() == io.EOF", "return nil reachable with Err() != io.EOF ["+cex+"]")
			continue
		}
		R.Fail("C16.R4", key, fn+": return on ErrorToken branch", rp, "returns neither nil nor the tokenizer's error")
	}
	R.Role("C16.R4", "returns on the ErrorToken branch", len(rets), 2)

	// sanitizeWithBuff
	swb := bufferFunnel(c)
	if swb == nil {
		R.Unknown("C16.R4", "sanitizeWithBuff", "(*Policy).sanitizeWithBuff", "", "function not found")
	} else {
		c16WithBuff(c, swb)
	}
	// SanitizeReaderToWriter returns sanitize(r,w) directly
	srw := c.P.Func(load.ModPath, "(*Policy).SanitizeReaderToWriter")
	if srw == nil {
		R.Unknown("C16.R4", "SanitizeReaderToWriter", "(*Policy).SanitizeReaderToWriter", "", "function not found")
	} else {
		ok := false
		why := "does not return the result of sanitize(r, w) unchanged"
		if len(srw.Blocks) == 1 {
			ins := srw.Blocks[0].Instrs
			if ret, ok2 := ins[len(ins)-1].(*ssa.Return); ok2 && len(ret.Results) == 1 {
				if cl, ok3 := ret.Results[0].(*ssa.Call); ok3 && cl.Common().StaticCallee() == s.Fn &&
					cl.Common().Args[1] == ssa.Value(srw.Params[1]) && cl.Common().Args[2] == ssa.Value(srw.Params[2]) {
					ok = true
				}
			}
		}
		R.Check(ok, "C16.R4", "SanitizeReaderToWriter", "(*Policy).SanitizeReaderToWriter", c.P.Pos(srw.Pos()), "returns sanitize(r, w)", why)
	}
}

func c16WithBuff(c *Ctx, fn *ssa.Function) {
	R := c.R
	A := model.NewAnalysis(fn)
	name := "(*Policy).sanitizeWithBuff"
	var call *ssa.Call
	var buff *ssa.Alloc
	for _, b := range fn.Blocks {
		for _, in := range b.Instrs {
			if cl, ok := in.(*ssa.Call); ok && cl.Common().StaticCallee() != nil && cl.Common().StaticCallee().Name() == "sanitize" {
				call = cl
			}
		}
	}
	if call == nil {
		R.Unknown("C16.R4", "withbuff-call", name, c.P.Pos(fn.Pos()), "call to sanitize not found")
		return
	}
	// destination argument: MakeInterface(Alloc bytes.Buffer)
	if mi, ok := call.Common().Args[2].(*ssa.MakeInterface); ok {
		buff, _ = mi.X.(*ssa.Alloc)
	}
	if buff == nil {
		R.Unknown("C16.R4", "withbuff-dest", name, c.P.Pos(call.Pos()), "destination is not a local buffer")
		return
	}
	for _, b := range fn.Blocks {
		if ifi, ok := b.Instrs[len(b.Instrs)-1].(*ssa.If); ok {
			A.Cond(ifi.Cond)
		}
	}
	errKey := "(" + A.Sym.Of(call) + " == nil)"
	ai := A.AtomIndex(errKey)
	if ai < 0 {
		R.Fail("C16.R4", "withbuff-test", name, c.P.Pos(call.Pos()), "sanitize's error is not compared with nil")
		return
	}
	q, err := A.NewQuery([]int{ai})
	if err != nil {
		R.Unknown("C16.R4", "withbuff-query", name, "", err.Error())
		return
	}
	q.Run(fn.Blocks[0], nil)
	n := 0
	for _, b := range fn.Blocks {
		ret, ok := b.Instrs[len(b.Instrs)-1].(*ssa.Return)
		if !ok {
			continue
		}
		for _, lf := range returnLeaves(q, ret) {
			n++
			key := fmt.Sprintf("withbuff-return#%d", n)
			pos := c.P.Pos(ret.Pos())
			if lf.v == ssa.Value(buff) {
				ok2, cex := q.Holds(lf.st, A.Lit(errKey))
				R.Check(ok2, "C16.R4", key, name+": return &buff", pos, "the filled buffer is returned only when sanitize returned nil", "the (partially) filled buffer can be returned although sanitize failed ["+cex+"]")
				continue
			}
			if a, ok := lf.v.(*ssa.Alloc); ok && a != buff {
				// fresh buffer: must have no writes
				clean := true
				for _, r := range *a.Referrers() {
					if r == ssa.Instruction(ret) {
						continue
					}
					switch x := r.(type) {
					case *ssa.DebugRef:
					case *ssa.Phi:
						if ret.Results[0] != ssa.Value(x) {
							clean = false
						}
					default:
						clean = false
					}
				}
				R.Check(clean, "C16.R4", key, name+": return &bytes.Buffer{}", pos, "fresh, untouched buffer", "the buffer returned on error has other uses")
				continue
			}
			R.Fail("C16.R4", key, name+": return", pos, "returns neither the destination buffer nor a fresh empty one")
		}
	}
	R.Role("C16.R4", "returns of sanitizeWithBuff", n, 2)
}

package rules

import (
	"fmt"
	"go/types"

	"golang.org/x/tools/go/ssa"

	"verif/tools/load"
	"verif/tools/model"
	"verif/tools/pa"
)

func init() { register("C01", "other", runC01) }

// anyMatchObligation checks, for a module function whose bool result reports "some rule matched",
// that the result can be true only if an edge of class `allow` was crossed in this call.
// allow(at) classifies atoms of fn's analysis; retIdx selects the bool result.
func anyMatchObligation(c *Ctx, rule, key string, fn *ssa.Function, retIdx int, allow func(A *pa.Analysis, at *pa.Atom) bool, allowText string) {
	R := c.R
	name := shortFn(fn)
	A := model.NewAnalysis(fn)
	translateAll(A)
	var allowAtoms []int
	for i, at := range A.Atoms {
		if allow(A, at) {
			allowAtoms = append(allowAtoms, i)
		}
	}
	ev := A.EventVar("allow-edge-crossed")
	// track: ev, allow atoms, and the returned flags
	track := append([]int{ev}, allowAtoms...)
	var rets []*ssa.Return
	for _, b := range fn.Blocks {
		if r, ok := b.Instrs[len(b.Instrs)-1].(*ssa.Return); ok {
			rets = append(rets, r)
			m := map[int]bool{}
			A.Cond(r.Results[retIdx]).Atoms(m)
			for k := range m {
				track = append(track, k)
			}
		}
	}
	q, err := A.NewQuery(track)
	if err != nil {
		R.Unknown(rule, key, name, c.P.Pos(fn.Pos()), err.Error())
		return
	}
	allowF := orAtoms(allowAtoms)
	q.EdgeHook = func(b *ssa.BasicBlock, k int) func(uint32) []uint32 {
		// an edge sets the event iff its condition implies some allow atom
		cond := A.EdgeCond(b, k)
		if len(allowAtoms) == 0 {
			return nil
		}
		implies := true
		// check cond => allowF over the tracked atoms
		st := q.Filter(q.InitWith(nil), cond)
		if ok, _ := q.Holds(st, allowF); !ok {
			implies = false
		}
		if !implies {
			return nil
		}
		return func(a uint32) []uint32 { return []uint32{q.With(a, ev, true)} }
	}
	q.Run(fn.Blocks[0], q.InitWith(map[int]bool{ev: false}))
	for i, r := range rets {
		st := q.StateAt(r)
		k := fmt.Sprintf("%s:return#%d", key, i)
		if st == nil {
			continue
		}
		goal := pa.Implies(A.Cond(r.Results[retIdx]), pa.AtomF(ev))
		ok, cex := q.Holds(st, goal)
		R.Check(ok, rule, k, name+": result can be true only after "+allowText, c.P.Pos(r.Pos()),
			fmt.Sprintf("true result implies an allow edge was crossed (%d allow atoms)", len(allowAtoms)),
			"the function can report a match without any rule having matched: ["+cex+"]")
	}
	R.Role(rule, key+": allow tests inside "+name, len(allowAtoms), 1)
}

func runC01(c *Ctx) {
	R := c.R
	R.Rule("C01.R1", "output provenance: every destination write has payload token.String() (escaping serialiser), the literal \" \", or raw token.Data; raw token.Data only in the Text arm and only under allowUnsafe")
	R.Rule("C01.R2", "allowlist gate: at every tag write in the StartTag, EndTag and SelfClosingTag arms the path condition implies mapok(elsAndAttrs, token.Data) ∨ matchRegex(token.Data) ∨ MatchString(<key of elsMatchingAndAttrs>, token.Data)")
	R.Rule("C01.R3", "callee obligation: (*Policy).matchRegex reports matched=true only after MatchString(<range key of elsMatchingAndAttrs>, elementName) was true; the returned map is freshly made and filled only from the matching pattern's rules")
	R.Rule("C01.R4", "the Doctype arm writes nothing")
	R.Rule("C01.R5", "comment gate: the comment write happens only under allowComments and its payload is token.String()")
	R.Rule("C01.R6", "an unknown token type returns a non-nil error and writes nothing")
	R.Rule("C01.R9", "the library never registers an element pattern itself: the functions that store into the element-pattern table (the exported pattern builders) are not called from within the module")
	noInternalPatternRegistration(c, "C01.R9")
	R.Rule("C01.R8", "an element enters the allowlist only for a reason: in the attribute builders (OnElements, OnElementsMatching) an element's table entry is created only inside the loop over the attribute names being registered, or under the builder's allow-without-attributes flag — AllowAttrs() with no names must not allowlist anything")
	R.Rule("C01.R12", "an element's table entry is created under its own key (= C17.R2, cited): every update of a rule table stores append(entry for the same key, x), or an empty entry made only when the entry for that very key was absent — an entry created under another key (the value pattern instead of the element pattern) admits elements the policy never named")
	R.Cite(map[string]string{"C17.R2": "C01.R12"}, func() { c17AppendOnly(c, model.FindFields(c.P)) })
	R.Rule("C01.R11", "what every policy starts from allows no element: neither NewPolicy nor init(), nor anything they call, adds an entry to the element table, the element-pattern table or the global attribute table (they create the tables and fill the two default sets only)")
	newPolicyAllowsNothing(c, "C01.R11")
	R.Rule("C01.R10", "a policy's element tables are its own (= C17.R4, cited): the maps installed in the element-rule and element-pattern fields are freshly made by the storing function — a table shared with another policy (a cached constructor result, an incomplete copy) admits in one policy the elements allowed in the other")
	if F10 := model.FindFields(c.P); F10 != nil {
		e1, e2 := F10.Get("elsAndAttrs"), F10.Get("elsMatchingAndAttrs")
		freshTables(c, "C01.R10", func(f string) bool { return f == e1 || f == e2 }, 2)
	}
	R.Rule("C01.R7", "the element tables (elsAndAttrs, elsMatchingAndAttrs) are written only by builder methods, never on a sanitising path (except the !initialized-guarded makes in init)")
	R.Assume(TrustGo, TrustTokenizer, TrustTokenString, "what a browser's HTML5 parser makes of the emitted bytes (token splitting/merging, foreign content, unescaped characters inside admitted tag names) is NOT decided")
	sc := newSC(c, "C01.R1")
	if sc == nil {
		return
	}
	U := sc.U()
	// R1
	counts := map[string]int{}
	extraT := []*pa.F{U}
	for _, w := range sc.S.Writes {
		if w.RawWhen != nil {
			extraT = append(extraT, w.RawWhen)
		}
	}
	qText, _ := sc.armQuery("Text", extraT...)
	for i, w := range sc.S.Writes {
		key := writeKey(sc.S, i)
		counts[w.Arm+":"+w.Payload]++
		switch w.Payload {
		case "Mixed":
			counts[w.Arm+":TokenString"]++
			if w.Arm != "Text" || qText == nil {
				R.Fail("C01.R1", key, writeDescr(w), sc.pos(w.Call), "raw token.Data written outside the Text arm")
				continue
			}
			st := qText.StateAt(w.Call)
			ok, cex := true, ""
			if st != nil {
				ok, cex = qText.Holds(st, pa.Implies(w.RawWhen, U))
			}
			R.Check(ok, "C01.R1", key, writeDescr(w), sc.pos(w.Call), "token.String(), or raw data only under allowUnsafe", "unescaped token.Data can reach the output without AllowUnsafe: ["+cex+"]")
		case "TokenString", "Space":
			if w.Arm == "" || w.Arm == "shared" {
				R.Fail("C01.R1", key, writeDescr(w), sc.pos(w.Call), "write outside the token-type arms")
			} else {
				R.OK("C01.R1", key, writeDescr(w), sc.pos(w.Call), "payload class "+w.Payload)
			}
		case "RawData":
			if w.Arm != "Text" || qText == nil {
				R.Fail("C01.R1", key, writeDescr(w), sc.pos(w.Call), "raw token.Data written outside the Text arm")
				continue
			}
			st := qText.StateAt(w.Call)
			ok, cex := true, ""
			if st != nil {
				ok, cex = qText.Holds(st, U)
			}
			R.Check(ok, "C01.R1", key, writeDescr(w), sc.pos(w.Call), "raw write only under allowUnsafe", "unescaped token.Data can reach the output without AllowUnsafe: ["+cex+"]")
		default:
			R.Fail("C01.R1", key, writeDescr(w), sc.pos(w.Call), "value written is neither token.String(), \" \" nor token.Data: "+w.Detail)
		}
	}
	for _, arm := range tagArms {
		R.Role("C01.R1", "tag write (token.String()) in arm "+arm, counts[arm+":TokenString"], 1)
	}
	R.Role("C01.R1", "escaped text write in arm Text", counts["Text:TokenString"], 1)

	// R2
	allow, descr := sc.elementAllowAtoms()
	R.Analysed["element_allow_atoms"] = descr
	G := orAtoms(allow)
	for _, arm := range tagArms {
		// the verdict of a scan may reach the write through the result variable of an inlined helper: the atoms such
		// flags are computed from are tracked too
		extra := []*pa.F{G}
		if a := sc.S.Arms[arm]; a != nil {
			for _, k := range sc.A.FlagSupport(a.Blocks, 6) {
				extra = append(extra, pa.AtomF(k))
			}
		}
		q, err := sc.armQuery(arm, extra...)
		if err != nil {
			R.Unknown("C01.R2", "arm:"+arm, arm, "", err.Error())
			continue
		}
		for i, w := range sc.S.Writes {
			if w.Arm != arm || w.Payload == "Space" {
				continue
			}
			st := q.StateAt(w.Call)
			if st == nil {
				R.OK("C01.R2", writeKey(sc.S, i), writeDescr(w), sc.pos(w.Call), "unreachable")
				continue
			}
			ok, cex := q.Holds(st, G)
			R.Check(ok, "C01.R2", writeKey(sc.S, i), writeDescr(w), sc.pos(w.Call), "path condition implies "+sc.A.Str(G), "a tag can be written although no element table admitted its name: ["+cex+"]")
		}
	}
	R.Role("C01.R2", "element-allow tests in sanitize", len(allow), 3)

	// R3
	mr := c.P.Func(load.ModPath, "(*Policy).matchRegex")
	if mr == nil {
		// acceptable only if sanitize does not rely on it
		for _, d := range descr {
			if len(d) > 0 && containsStr(d, "matchRegex") {
				R.Unknown("C01.R3", "matchRegex", "(*Policy).matchRegex", "", "function not found")
			}
		}
	} else {
		sub := &SC{c: c, S: sc.S, F: sc.F}
		anyMatchObligation(c, "C01.R3", "matchRegex", mr, 1, func(A *pa.Analysis, at *pa.Atom) bool {
			if at.Kind != "val" {
				return false
			}
			cl, ok := at.Resolve(at.X).(*ssa.Call)
			if !ok || !isMatchString(cl.Common()) {
				return false
			}
			return sub.isRangeKeyOfRole(at, cl.Common().Args[0], "elsMatchingAndAttrs") && at.Resolve(cl.Common().Args[1]) == ssa.Value(mr.Params[1])
		}, "MatchString(<key of elsMatchingAndAttrs>, elementName)")
		c01ReturnedMap(c, sc, mr)
	}

	// R4
	nd := 0
	for _, w := range sc.S.Writes {
		if w.Arm == "Doctype" {
			nd++
			R.Fail("C01.R4", "doctype-write:"+w.Payload, writeDescr(w), sc.pos(w.Call), "the Doctype arm writes to the destination")
		}
	}
	if a := sc.S.Arms["Doctype"]; a == nil {
		R.Unknown("C01.R4", "doctype-arm", "Doctype arm", "", "arm not recognised")
	} else if nd == 0 {
		R.OK("C01.R4", "doctype-arm", fmt.Sprintf("(*Policy).sanitize: Doctype arm (%d blocks)", len(a.Blocks)), c.P.Pos(a.From.Instrs[len(a.From.Instrs)-1].Pos()), "no destination write in the arm")
	}

	// R5
	AC := sc.fieldLit(sc.A, sc.S.Recv, "allowComments")
	if q, err := sc.armQuery("Comment", AC); err != nil {
		R.Unknown("C01.R5", "arm:Comment", "Comment arm", "", err.Error())
	} else {
		n := 0
		for i, w := range sc.S.Writes {
			if w.Arm != "Comment" {
				continue
			}
			n++
			st := q.StateAt(w.Call)
			ok, cex := true, ""
			if st != nil {
				ok, cex = q.Holds(st, AC)
			}
			R.Check(ok && w.Payload == "TokenString", "C01.R5", writeKey(sc.S, i), writeDescr(w), sc.pos(w.Call), "under allowComments, payload token.String()", "comment written without the allowComments gate or not through token.String(): ["+cex+"] payload="+w.Payload)
		}
		_ = n
	}

	// R6
	if sc.S.Default == nil {
		R.Unknown("C01.R6", "default-arm", "default arm", "", "not recognised")
	} else {
		seen := map[*ssa.BasicBlock]bool{}
		stack := []*ssa.BasicBlock{sc.S.Default}
		bad := ""
		rets := 0
		for len(stack) > 0 {
			b := stack[len(stack)-1]
			stack = stack[:len(stack)-1]
			if seen[b] {
				continue
			}
			seen[b] = true
			if b == sc.S.Header {
				bad = "an unknown token type is silently skipped (falls back into the token loop)"
				continue
			}
			for _, in := range b.Instrs {
				if r, ok := in.(*ssa.Return); ok {
					rets++
					if k, ok := r.Results[0].(*ssa.Const); ok && k.IsNil() {
						bad = "returns nil for an unknown token type"
					}
				}
			}
			stack = append(stack, b.Succs...)
		}
		for _, w := range sc.S.Writes {
			if w.Arm == "default" {
				bad = "writes to the destination for an unknown token type"
			}
		}
		R.Check(bad == "" && rets > 0, "C01.R6", "default-arm", "(*Policy).sanitize: default arm", c.P.Pos(lastPos(sc.S.Default)), "returns a non-nil error, writes nothing", bad)
	}

	// R7
	tableWriters(c, "C01.R7", []string{"elsAndAttrs", "elsMatchingAndAttrs"})
	c01EntryCreation(c)
}

func containsStr(s, sub string) bool {
	return len(s) >= len(sub) && (func() bool {
		for i := 0; i+len(sub) <= len(s); i++ {
			if s[i:i+len(sub)] == sub {
				return true
			}
		}
		return false
	})()
}

// c01ReturnedMap: result #0 of matchRegex is a MakeMap of this call and every MapUpdate into it
// happens under the match edge with values taken from the matching entry.
func c01ReturnedMap(c *Ctx, sc *SC, fn *ssa.Function) {
	R := c.R
	for i, b := range fn.Blocks {
		r, ok := b.Instrs[len(b.Instrs)-1].(*ssa.Return)
		if !ok {
			continue
		}
		// a map made by this call, no map at all (nil), or a merge of those (made lazily on the first match)
		var fresh func(v ssa.Value, d int) bool
		fresh = func(v ssa.Value, d int) bool {
			switch x := v.(type) {
			case *ssa.MakeMap:
				return true
			case *ssa.Const:
				return x.IsNil()
			case *ssa.Phi:
				if d > 6 {
					return true // a cycle of φs closes on values already judged
				}
				for _, e := range x.Edges {
					if e != v && !fresh(e, d+1) {
						return false
					}
				}
				return true
			}
			return false
		}
		isMake := fresh(r.Results[0], 0)
		R.Check(isMake, "C01.R3", fmt.Sprintf("matchRegex:map#%d", i), "(*Policy).matchRegex: returned rule map", c.P.Pos(r.Pos()), "freshly made in this call", "the returned map is not allocated by this call ("+fmt.Sprintf("%T", r.Results[0])+"): merged rules would alias or mutate policy state")
	}
	_ = types.Typ
}

// sanitisingSet: module functions reachable (static calls, closures, method values) from the four entry points.
func sanitisingSet(P *load.Program) map[*ssa.Function]bool {
	set := map[*ssa.Function]bool{}
	var work []*ssa.Function
	for _, n := range []string{"(*Policy).Sanitize", "(*Policy).SanitizeBytes", "(*Policy).SanitizeReader", "(*Policy).SanitizeReaderToWriter"} {
		if f := P.Func(load.ModPath, n); f != nil {
			work = append(work, f)
		}
	}
	inModule := func(f *ssa.Function) bool {
		return f != nil && len(f.Blocks) > 0 && ((f.Pkg != nil && len(f.Pkg.Pkg.Path()) >= len(load.ModPath) && f.Pkg.Pkg.Path()[:len(load.ModPath)] == load.ModPath) || (f.Parent() != nil))
	}
	for len(work) > 0 {
		f := work[len(work)-1]
		work = work[:len(work)-1]
		if set[f] || !inModule(f) {
			continue
		}
		set[f] = true
		for _, b := range f.Blocks {
			for _, in := range b.Instrs {
				if ci, ok := in.(ssa.CallInstruction); ok {
					if cal := ci.Common().StaticCallee(); cal != nil {
						work = append(work, cal)
					}
				}
				// function values (closures, method values, plain funcs) created here may be called later
				var ops [12]*ssa.Value
				for _, op := range in.Operands(ops[:0]) {
					if op == nil || *op == nil {
						continue
					}
					switch x := (*op).(type) {
					case *ssa.Function:
						work = append(work, x)
					case *ssa.MakeClosure:
						if fn, ok := x.Fn.(*ssa.Function); ok {
							work = append(work, fn)
						}
					}
				}
			}
		}
	}
	return set
}

// tableWriters: stores / map updates / deletes on the given role fields must not occur in the sanitising set.
func tableWriters(c *Ctx, rule string, roles []string) {
	R := c.R
	F := model.FindFields(c.P)
	S := sanitisingSet(c.P)
	want := map[string]string{}
	for _, r := range roles {
		if f := F.Get(r); f != "" {
			want[f] = r
		}
	}
	nW := 0
	for _, fn := range moduleFuncs(c.P) {
		for _, b := range fn.Blocks {
			for _, in := range b.Instrs {
				field, what := "", ""
				switch x := in.(type) {
				case *ssa.Store:
					field, what = model.PolicyField(x.Addr), "store"
				case *ssa.MapUpdate:
					field, what = model.LoadedPolicyField(x.Map), "map update"
				case *ssa.Call:
					if bi, ok := x.Common().Value.(*ssa.Builtin); ok && bi.Name() == "delete" {
						field, what = model.LoadedPolicyField(x.Common().Args[0]), "delete"
					}
				}
				if _, ok := want[field]; !ok || field == "" {
					continue
				}
				nW++
				key := fmt.Sprintf("%s:%s:%s", shortFn(fn), what, field)
				cons := fmt.Sprintf("%s: %s of Policy.%s", shortFn(fn), what, field)
				if !S[fn] {
					R.OK(rule, key, cons, c.P.Pos(in.Pos()), "builder-side (not reachable from a Sanitize* entry point)")
					continue
				}
				// allowed: inside init under !initialized
				if fn == c.P.Func(load.ModPath, "(*Policy).init") {
					A := model.NewAnalysis(fn)
					translateAll(A)
					init := A.Lit(fn.Params[0].Name() + "." + F.Get("initialized"))
					q, err := A.NewQuery([]int{init.Atom})
					if err == nil {
						q.Run(fn.Blocks[0], nil)
						if st := q.StateAt(in); st != nil {
							if ok, _ := q.Holds(st, pa.Not(init)); ok {
								R.OK(rule, key, cons, c.P.Pos(in.Pos()), "in init(), dominated by !initialized (dead once a policy is constructed)")
								continue
							}
						}
					}
				}
				R.Fail(rule, key, cons, c.P.Pos(in.Pos()), "a policy table is written on a sanitising path")
			}
		}
	}
	R.Role(rule, "writers of "+fmt.Sprint(roles), nW, 1)
}

// c01EntryCreation (C01.R8): creation of element-table entries in the attribute builders.
func c01EntryCreation(c *Ctx) { c01EntryCreationRule(c, "C01.R8", "") }

func c01EntryCreationRule(c *Ctx, rule, consequence string) {
	R := c.R
	F := model.FindFields(c.P)
	tables := map[string]bool{}
	for _, r := range []string{"elsAndAttrs", "elsMatchingAndAttrs"} {
		if f := F.Get(r); f != "" {
			tables[f] = true
		}
	}
	n := 0
	for _, name := range []string{"(*attrPolicyBuilder).OnElements", "(*attrPolicyBuilder).OnElementsMatching"} {
		fn := c.P.Func(load.ModPath, name)
		if fn == nil {
			R.Unknown(rule, name, name, "", "builder not found")
			continue
		}
		A := model.NewAnalysis(fn)
		translateAll(A)
		loops := model.SliceRangeLoops(fn)
		cnt := 0
		for _, b := range fn.Blocks {
			for _, in := range b.Instrs {
				mu, ok := in.(*ssa.MapUpdate)
				if !ok || !tables[model.LoadedPolicyField(mu.Map)] {
					continue
				}
				if _, isMake := mu.Value.(*ssa.MakeMap); !isMake {
					continue
				}
				n++
				cnt++
				// inside a loop over a []string that is not the builder's parameter list (i.e. the attribute names)
				inAttrLoop := false
				for _, l := range loops {
					if !l.Blocks[b] || l.Over.Type().String() != "[]string" {
						continue
					}
					isParam := false
					for _, p := range fn.Params {
						if l.Over == ssa.Value(p) {
							isParam = true
						}
					}
					if !isParam {
						inAttrLoop = true
					}
				}
				// or dominated by the true edge of a boolean builder field (allowEmpty)
				underFlag := false
				for d := b.Idom(); d != nil && !underFlag; d = d.Idom() {
					for k, sblk := range d.Succs {
						if len(d.Succs) != 2 || d.Succs[0] == d.Succs[1] || !(sblk == b || sblk.Dominates(b)) || len(sblk.Preds) != 1 {
							continue
						}
						for a, pol := range impliedLiterals(A.EdgeCond(d, k)) {
							at := A.Atoms[a]
							// or under `len(attrNames) > 0`: a non-empty list of names of the builder
							if !pol && at.Kind == "len0" {
								if u, ok := at.Resolve(at.X).(*ssa.UnOp); ok {
									if fa, ok := u.X.(*ssa.FieldAddr); ok && fa.X == ssa.Value(fn.Params[0]) && u.Type().String() == "[]string" {
										underFlag = true
									}
								}
							}
							if pol && at.Kind == "val" {
								if u, ok := at.Resolve(at.X).(*ssa.UnOp); ok {
									if fa, ok := u.X.(*ssa.FieldAddr); ok && fa.X == ssa.Value(fn.Params[0]) {
										if bt, ok := u.Type().Underlying().(*types.Basic); ok && bt.Kind() == types.Bool {
											underFlag = true
										}
									}
								}
							}
						}
					}
				}
				R.Check(inAttrLoop || underFlag, rule, fmt.Sprintf("%s:entry#%d", name, cnt), name+": creation of an element's table entry", c.P.Pos(mu.Pos()),
					"only while registering an attribute name, or when the element is allowed without attributes", "the element's entry is created even when no attribute name is registered: AllowAttrs() with an empty name list would put the element on the allowlist"+consequence)
			}
		}
	}
	R.Role(rule, "entry creations in the attribute builders", n, 2)
}

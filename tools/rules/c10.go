package rules

import (
	"fmt"
	"go/token"
	"go/types"
	"sort"
	"strings"

	"golang.org/x/tools/go/ssa"

	"verif/tools/load"
	"verif/tools/model"
	"verif/tools/pa"
	"verif/tools/pats"
	"verif/tools/relang"
)

func init() { register("C10", "other", runC10) }

func runC10(c *Ctx) {
	c10Prog = c.P
	R := c.R
	R.Rule("C10.R1", "routing: an incoming attribute whose key is \"style\" is never kept through the generic attribute rules when style rules exist for the element (global style rules, a non-empty element entry, or a matching element pattern with rules); it goes through sanitizeStyles instead")
	R.Rule("C10.R2", "declaration admission: in sanitizeStyles a declaration is appended to the kept list only across handler(v)==true, stringInSlice(v, enum) or regexp.MatchString(v) of a rule registered for the derived property in the element's or the global style table; the property is derived from dec.Property only by ToLower and TrimPrefix of constant vendor prefixes; v is removeUnicode(ToLower(dec.Value)) in that order (escapes are decoded on the lower-cased text because the escape regexp only knows lower-case hex digits)")
	R.Rule("C10.R3", "the output is rebuilt from kept declarations only: attr.Val is strings.Join(kept, \"; \") or \"\"; \"\" on a parse error; each kept string is dec.Property + \": \" + dec.Value of the declaration that was matched")
	R.Rule("C10.R4", "a style rule always carries a matcher: in stylePolicyBuilder.OnElements/OnElementsMatching/Globally every appended stylePolicy had handler, enum or regexp stored with a value known non-nil on that path, css.GetDefaultHandler(property) being the last resort")
	R.Rule("C10.R5", "unknown properties are rejected: css.GetDefaultHandler returns a non-nil entry of defaultStyleHandlers or BaseHandler; BaseHandler returns false on every path; stringInSlice returns true only across an equality test of an element with the needle, and that test is case-insensitive (the value is lower-cased, the enum entries are stored as written)")
	R.Rule("C10.R6", "kept declarations stay in parse order: the kept list is only appended to inside the declaration loop and no sorting/reordering call occurs in sanitizeStyles")
	R.Rule("C10.R7", "no two keys of a rule table share one mutable entry: every map stored as a table entry is created by a make that is stored by exactly that one update and lies inside every loop containing the update")
	sharedEntryRule(c, "C10.R7", styleTables, "a style rule registered later for one element is applied to the others too")
	R.Rule("C10.R10", "every matcher registered for the property is consulted (= C07.R4 merges, cited): in sanitizeStyles the style rules of the matching element patterns are merged by m[k] = append(m[k], rules...) — an assignment would let one pattern's matchers replace another's, and a declaration one of them accepts is dropped")
	mergesAccumulate(c, "C10.R10", "(*Policy).sanitizeStyles")
	R.Rule("C10.R12", "each declaration is kept at most once: on no path through one iteration of the declaration loop of sanitizeStyles are there two appends to the kept list (after a rule accepted the value the scan ends)")
	declarationKeptOnce(c, "C10.R12", "the style attribute carries the declaration once per rule that accepts it")
	R.Rule("C10.R11", "declarations are judged by the registered rules (= C13.R1, cited): no sanitising path writes into a policy's tables — merging pattern-scoped style rules into a map taken from the policy would let the rules of one pattern apply to elements matching only another, for the rest of the policy's life")
	c13SharedWrites(c, "C10.R11", "style rules registered for one element pattern leak into the policy's table of another: declarations that are not allowlisted for an element are kept", true)
	R.Rule("C10.R9", "the default handler is the last resort: css.GetDefaultHandler(property) is stored into a style rule only on paths where the builder's handler is nil, its enum empty and its regexp nil — next to a user-supplied matcher it would take precedence in sanitizeStyles")
	defaultHandlerLastResort(c, "C10.R9")
	R.Rule("C10.R8", "one matcher per property: in the style builders a style rule value that is modified inside a loop is created in that loop, so the default handler chosen for one property is never carried over to the next")
	freshRulePerIteration(c, "C10.R8")
	R.Assume(TrustGo, "douceur ParseDeclarations is total and returns declarations in source order", "that the emitted original declaration means to a browser what the transformed copy the matcher saw means (CSS escapes/comments/!important) is NOT decided", "user-supplied handlers are pure")
	F := model.FindFields(c.P)
	c10Styles(c, F)
	c10Routing(c, F)
	c10Builders(c, F)
	c10Fallback(c)
}

func c10Styles(c *Ctx, F *model.Fields) {
	R := c.R
	fn := c.P.Func(load.ModPath, "(*Policy).sanitizeStyles")
	if fn == nil {
		R.Unknown("C10.R2", "sanitizeStyles", "(*Policy).sanitizeStyles", "", "function not found")
		return
	}
	A := model.NewAnalysis(fn)
	translateAll(A)
	recv := fn.Params[0]
	// the declaration loop: range over ParseDeclarations(...)#0
	var loop *model.RangeLoop
	var parse *ssa.Call
	for _, l := range model.SliceRangeLoops(fn) {
		if t := extractOf(l.Over, 0); t != nil {
			if cl := isCallTo(t, "parser.ParseDeclarations"); cl != nil {
				loop, parse = l, cl
			}
		}
	}
	if loop == nil {
		R.Unknown("C10.R2", "decl-loop", "(*Policy).sanitizeStyles: range over the parsed declarations", "", "loop not found (anchor lost)")
		return
	}
	// the declaration pointer of the iteration
	var dec ssa.Value
	for _, b := range sortedBlocks(loop.Blocks) {
		for _, in := range b.Instrs {
			if u, ok := in.(*ssa.UnOp); ok && u.Op == token.MUL {
				if ia, ok := u.X.(*ssa.IndexAddr); ok && ia.X == loop.Over {
					dec = u
				}
			}
		}
	}
	if dec == nil {
		R.Unknown("C10.R2", "decl-elem", "(*Policy).sanitizeStyles declaration loop", "", "range element not recognised")
		return
	}
	decSym := A.Sym.Of(dec)
	propSrc, valSrc := decSym+".Property", decSym+".Value"
	wantVal := "removeUnicode(strings.ToLower(" + valSrc + "))"
	altVal := "strings.ToLower(removeUnicode(" + valSrc + "))"
	// tables: sps (derived from elsAndStyles / patterns) and globalStyles
	_ = recv

	// collect matcher atoms grouped by rule prefix
	var goalAlts []*pa.F
	valueSyms := map[string]bool{}
	propSyms := map[string]bool{}
	tables := map[string]bool{}
	// matcher atoms mention the rule they belong to: lookup(<table>,<prop>)#0[i] (comma-ok lookup, guarded by its ok
	// flag) or lookup(<table>,<prop>)[i] (plain lookup: a missing entry is an empty list)
	type grp struct {
		table, prop string
		commaOK     bool
	}
	groups := map[grp][]*pa.F{}
	ruleOf := func(k string) (grp, string, bool) {
		li := strings.Index(k, "lookup(")
		if li < 0 {
			return grp{}, "", false
		}
		depth := 0
		end := -1
		for x := li + len("lookup"); x < len(k); x++ {
			if k[x] == '(' {
				depth++
			} else if k[x] == ')' {
				depth--
				if depth == 0 {
					end = x
					break
				}
			}
		}
		if end < 0 {
			return grp{}, "", false
		}
		inner := k[li+len("lookup(") : end]
		ci := lastTopComma(inner)
		if ci < 0 {
			return grp{}, "", false
		}
		g := grp{table: inner[:ci], prop: inner[ci+1:]}
		rest := k[end+1:]
		switch {
		case strings.HasPrefix(rest, "#0["):
			g.commaOK = true
			return g, k[li : end+1+len("#0[")], true
		case strings.HasPrefix(rest, "["):
			return g, k[li : end+1+len("[")], true
		}
		return grp{}, "", false
	}
	for j, at2 := range A.Atoms {
		k2 := at2.Key
		g, pfx, ok := ruleOf(k2)
		if !ok {
			continue
		}
		switch {
		case strings.HasPrefix(k2, "dyncall("+pfx) && strings.Contains(k2, "].handler;"):
			v := k2[strings.Index(k2, "].handler;")+len("].handler;"):]
			v = v[:strings.LastIndex(v, ")@")]
			valueSyms[v] = true
			groups[g] = append(groups[g], pa.AtomF(j))
		case strings.HasPrefix(k2, "stringInSlice(") && strings.HasSuffix(k2, ","+pfx+restIdx(k2, pfx)+"].enum)"):
			v := k2[len("stringInSlice(") : len(k2)-len(","+pfx+restIdx(k2, pfx)+"].enum)")]
			valueSyms[v] = true
			groups[g] = append(groups[g], pa.AtomF(j))
		case strings.HasPrefix(k2, "(*regexp.Regexp).MatchString("+pfx) && strings.Contains(k2, "].regexp,"):
			v := k2[strings.Index(k2, "].regexp,")+len("].regexp,") : len(k2)-1]
			valueSyms[v] = true
			groups[g] = append(groups[g], pa.AtomF(j))
		}
	}
	var gkeys []grp
	for g := range groups {
		gkeys = append(gkeys, g)
	}
	sort.Slice(gkeys, func(a, b int) bool {
		return gkeys[a].table+"|"+gkeys[a].prop < gkeys[b].table+"|"+gkeys[b].prop
	})
	for _, g := range gkeys {
		alts := groups[g]
		if g.commaOK {
			mk := A.AtomIndex("mapok(" + g.table + "," + g.prop + ")")
			if mk < 0 {
				continue
			}
			goalAlts = append(goalAlts, pa.And(pa.AtomF(mk), pa.Or(alts...)))
		} else {
			goalAlts = append(goalAlts, pa.Or(alts...))
		}
		tables[g.table] = true
		propSyms[g.prop] = true
	}
	goal := pa.Or(goalAlts...)
	R.Role("C10.R2", "style rule tables consulted in the declaration loop", len(tables), 2)
	// value derivation
	for v := range valueSyms {
		switch v {
		case wantVal:
			R.OK("C10.R2", "value-derivation", "(*Policy).sanitizeStyles: value handed to the matchers", c.P.Pos(loop.Header.Instrs[0].Pos()), "removeUnicode(strings.ToLower(dec.Value))")
		case altVal:
			// acceptable only if the escape regexp also knows upper-case hex digits
			okU := false
			for _, pv := range pats.RegexpVars(c.P.Main) {
				if pv.Name == "cssUnicodeChar" && pv.Const {
					b := relang.NewBuilder()
					b.AddPattern(pv.Pattern)
					b.AddString("\\AF09af ")
					a := b.Build()
					if d, err := relang.FromRegexp(pv.Pattern, a); err == nil && d.Accepts(`\A`) && d.Accepts(`\F`) {
						okU = true
					}
				}
			}
			R.Check(okU, "C10.R2", "value-derivation", "(*Policy).sanitizeStyles: value handed to the matchers", c.P.Pos(loop.Header.Instrs[0].Pos()), "ToLower(removeUnicode(v)) with a case-insensitive escape regexp",
				"escapes are decoded before lower-casing, but the escape regexp only recognises lower-case hex digits: an escape containing A-F is cut short and the matcher sees a different value than a browser decodes")
		default:
			R.Fail("C10.R2", "value-derivation:"+shorten(v), "(*Policy).sanitizeStyles: value handed to the matchers", c.P.Pos(loop.Header.Instrs[0].Pos()), "the matchers are applied to "+v+" instead of removeUnicode(strings.ToLower(dec.Value))")
		}
	}
	R.Role("C10.R2", "distinct values handed to matchers", len(valueSyms), 1)
	// property derivation
	for pv := range propSyms {
		ok, why := c10PropDerivation(A, fn, pv, propSrc)
		R.Check(ok, "C10.R2", "property-derivation", "(*Policy).sanitizeStyles: property used for table lookups", c.P.Pos(loop.Header.Instrs[0].Pos()), "ToLower(dec.Property) with constant vendor prefixes trimmed", why)
	}
	// admission at appends
	tm := map[int]bool{}
	goal.Atoms(tm)
	var tl []int
	for k := range tm {
		tl = append(tl, k)
	}
	// the verdict of a rule scan may travel in a flag (an inlined helper's result): track what is branched on between
	// the first rule lookup and the end of the iteration, when that fits
	{
		after := map[*ssa.BasicBlock]bool{}
		var stack []*ssa.BasicBlock
		for b := range loop.Blocks {
			for _, in := range b.Instrs {
				if l, ok := in.(*ssa.Lookup); ok {
					if mt, ok := l.X.Type().Underlying().(*types.Map); ok && strings.HasSuffix(mt.Elem().String(), "stylePolicy") {
						stack = append(stack, b)
					}
				}
			}
		}
		for len(stack) > 0 {
			b := stack[len(stack)-1]
			stack = stack[:len(stack)-1]
			if after[b] || !loop.Blocks[b] || b == loop.Header {
				continue
			}
			after[b] = true
			stack = append(stack, b.Succs...)
		}
		tm2 := map[int]bool{}
		for b := range after {
			if ifi, ok := b.Instrs[len(b.Instrs)-1].(*ssa.If); ok {
				A.Cond(ifi.Cond).Atoms(tm2)
			}
		}
		var ext []int
		for k := range tm2 {
			if !tm[k] {
				ext = append(ext, k)
			}
		}
		sort.Ints(ext)
		if len(tl)+len(ext) <= pa.MaxTracked-2 {
			tl = append(tl, ext...)
		}
	}
	q, err := A.NewQuery(tl)
	if err != nil {
		R.Unknown("C10.R2", "query", "(*Policy).sanitizeStyles", "", err.Error())
		return
	}
	q.Barrier[loop.Header] = true
	q.Run(loop.Body, nil)
	nApp := 0
	wantStr := "((" + propSrc + " + \": \") + " + valSrc + ")"
	var cleanPhi *ssa.Phi
	for _, b := range sortedBlocks(loop.Blocks) {
		for _, in := range b.Instrs {
			cl, ok := in.(*ssa.Call)
			if !ok {
				continue
			}
			ac, base := model.IsAppend(cl)
			if ac == nil {
				continue
			}
			v := model.AppendedValue(cl)
			if v == nil || v.Type().String() != "string" {
				continue
			}
			if ph, ok := base.(*ssa.Phi); ok && ph.Block() == loop.Header {
				cleanPhi = ph
			}
			nApp++
			key := fmt.Sprintf("append#%d", nApp)
			pos := c.P.Pos(cl.Pos())
			st := q.StateAt(cl)
			if st == nil {
				continue
			}
			ok1, cex := q.Holds(st, goal)
			R.Check(ok1, "C10.R2", key, "(*Policy).sanitizeStyles: append of a declaration to the kept list", pos, "admitted by a handler / enum / regexp edge of a rule for the derived property", "a declaration can be kept although no registered matcher accepted it: ["+cex+"]")
			R.Check(A.Sym.Of(v) == wantStr, "C10.R3", key+":text", "(*Policy).sanitizeStyles: kept declaration text", pos, "dec.Property + \": \" + dec.Value of the matched declaration", "the kept text is "+A.Sym.Of(v))
		}
	}
	R.Role("C10.R2", "appends to the kept-declaration list", nApp, 1)

	// R3: stores to attr.Val after the parse, and returns
	var attrAl *ssa.Alloc
	for _, in := range fn.Blocks[0].Instrs {
		if st, ok := in.(*ssa.Store); ok && st.Val == ssa.Value(fn.Params[1]) {
			attrAl, _ = st.Addr.(*ssa.Alloc)
		}
	}
	if attrAl == nil || parse == nil {
		R.Unknown("C10.R3", "attr-local", "(*Policy).sanitizeStyles: local copy of the attribute", "", "not recognised")
	} else {
		n := 0
		for _, st := range model.FieldStoresTo(attrAl, "Val") {
			if !parse.Block().Dominates(st.Block()) || st.Block() == parse.Block() {
				continue // input preparation before the parse
			}
			n++
			key := fmt.Sprintf("val-store#%d", n)
			pos := c.P.Pos(st.Pos())
			if k, ok := constString(st.Val); ok {
				R.Check(k == "", "C10.R3", key, "(*Policy).sanitizeStyles: attr.Val = "+fmt.Sprintf("%q", k), pos, "empty", "a constant style value is emitted")
				continue
			}
			isJoin := func(v ssa.Value) bool {
				if j := isCallTo(v, "strings.Join"); j != nil {
					sep, _ := constString(j.Common().Args[1])
					return sep == "; " && cleanPhi != nil && j.Common().Args[0] == ssa.Value(cleanPhi)
				}
				return false
			}
			okJ := isJoin(st.Val)
			if ph, isPhi := st.Val.(*ssa.Phi); isPhi && !okJ {
				// a merge of the two admissible values (e.g. the result of an inlined helper): Join(kept, "; ") or ""
				okJ = true
				for _, e := range ph.Edges {
					if k, isC := constString(e); isC && k == "" {
						continue
					}
					if !isJoin(e) {
						okJ = false
					}
				}
			}
			R.Check(okJ, "C10.R3", key, "(*Policy).sanitizeStyles: attr.Val = "+A.Sym.Of(st.Val), pos, "strings.Join(kept, \"; \")", "the emitted style value is not rebuilt from the kept declarations only")
		}
		R.Role("C10.R3", "stores to attr.Val after the parse", n, 1)
		// every way from the parse to a return rewrites attr.Val (otherwise the unfiltered value would be returned)
		storeBlk := map[*ssa.BasicBlock]bool{}
		for _, st := range model.FieldStoresTo(attrAl, "Val") {
			if parse.Block().Dominates(st.Block()) && st.Block() != parse.Block() {
				storeBlk[st.Block()] = true
			}
		}
		for _, b := range fn.Blocks {
			if _, ok := b.Instrs[len(b.Instrs)-1].(*ssa.Return); !ok || !parse.Block().Dominates(b) {
				continue
			}
			seen := map[*ssa.BasicBlock]bool{}
			stack := []*ssa.BasicBlock{b}
			uncovered := false
			for len(stack) > 0 {
				x := stack[len(stack)-1]
				stack = stack[:len(stack)-1]
				if seen[x] || storeBlk[x] {
					continue
				}
				seen[x] = true
				if x == parse.Block() {
					uncovered = true
					break
				}
				stack = append(stack, x.Preds...)
			}
			R.Check(!uncovered, "C10.R3", fmt.Sprintf("rewritten-before-return:b%s", b.Comment), "(*Policy).sanitizeStyles: paths from the parse to this return", c.P.Pos(lastPos(b)), "attr.Val is rewritten on every path", "a path returns the attribute without rebuilding its value from the kept declarations")
		}
		// parse error path stores ""
		for _, b := range fn.Blocks {
			ret, ok := b.Instrs[len(b.Instrs)-1].(*ssa.Return)
			if !ok {
				continue
			}
			R.Check(model.LoadOfAlloc(ret.Results[0]) == attrAl, "C10.R3", fmt.Sprintf("return:b%s", b.Comment), "(*Policy).sanitizeStyles: return", c.P.Pos(ret.Pos()), "returns the local attribute", "returns something other than the rebuilt attribute")
		}
	}
	// R6
	bad := ""
	for _, b := range fn.Blocks {
		for _, in := range b.Instrs {
			if cl, ok := in.(*ssa.Call); ok && cl.Common().StaticCallee() != nil {
				n := pa.CalleeName(cl.Common().StaticCallee())
				if strings.HasPrefix(n, "sort.") || strings.HasPrefix(n, "slices.") {
					bad = n
				}
			}
		}
	}
	R.Check(bad == "" && cleanPhi != nil, "C10.R6", "order", "(*Policy).sanitizeStyles: kept list", c.P.Pos(fn.Pos()), "append-only inside the declaration loop, no reordering call", "kept declarations may be reordered ("+bad+")")
}

func shorten(s string) string {
	if len(s) > 60 {
		return s[:60]
	}
	return s
}

func lastTopComma(s string) int {
	d := 0
	idx := -1
	for i, r := range s {
		switch r {
		case '(', '[':
			d++
		case ')', ']':
			d--
		case ',':
			if d == 0 {
				idx = i
			}
		}
	}
	return idx
}

// restIdx extracts the index expression following pfx in k ("" if absent).
func restIdx(k, pfx string) string {
	i := strings.Index(k, pfx)
	if i < 0 {
		return "\x00"
	}
	rest := k[i+len(pfx):]
	d := 0
	for j, r := range rest {
		switch r {
		case '[', '(':
			d++
		case ')':
			d--
		case ']':
			if d == 0 {
				return rest[:j]
			}
			d--
		}
	}
	return "\x00"
}

// c10PropDerivation: the property symbol is a phi whose operands are strings.ToLower(dec.Property)
// or strings.TrimPrefix(<itself>, <element of a constant slice>).
var c10Prog *load.Program

func c10PropDerivation(A *pa.Analysis, fn *ssa.Function, propSym, propSrc string) (bool, string) {
	for _, b := range fn.Blocks {
		for _, in := range b.Instrs {
			v, ok := in.(ssa.Value)
			if !ok || A.Sym.Of(v) != propSym {
				continue
			}
			ph, isPhi := v.(*ssa.Phi)
			if !isPhi {
				if A.Sym.Of(v) == "strings.ToLower("+propSrc+")" {
					return true, ""
				}
				return false, "property is " + A.Sym.Of(v)
			}
			for _, e := range ph.Edges {
				es := A.Sym.Of(e)
				if es == "strings.ToLower("+propSrc+")" {
					continue
				}
				if tp := isCallTo(e, "strings.TrimPrefix"); tp != nil && tp.Common().Args[0] == ssa.Value(ph) {
					// prefix must come from a slice literal of constants
					if u, ok := tp.Common().Args[1].(*ssa.UnOp); ok {
						if ia, ok := u.X.(*ssa.IndexAddr); ok {
							if sl, ok := ia.X.(*ssa.Slice); ok {
								if al, ok := sl.X.(*ssa.Alloc); ok && allConstStores(al) {
									continue
								}
							}
							if _, ok := model.ConstSliceOf(c10Prog, ia.X); ok {
								continue // a package-level list of constants that is only ever read
							}
						}
					}
					return false, "a non-constant prefix is trimmed from the property"
				}
				return false, "property may be " + es
			}
			return true, ""
		}
	}
	return false, "property value not found"
}

func allConstStores(al *ssa.Alloc) bool {
	n := 0
	for _, r := range *al.Referrers() {
		if ia, ok := r.(*ssa.IndexAddr); ok {
			for _, r2 := range *ia.Referrers() {
				if st, ok := r2.(*ssa.Store); ok {
					n++
					if _, ok := st.Val.(*ssa.Const); !ok {
						return false
					}
				}
			}
		}
	}
	return n > 0
}

func c10Routing(c *Ctx, F *model.Fields) {
	R := c.R
	fn := c.P.Func(load.ModPath, "(*Policy).sanitizeAttrs")
	if fn == nil || len(fn.Params) != 4 {
		R.Unknown("C10.R1", "sanitizeAttrs", "(*Policy).sanitizeAttrs", "", "not found")
		return
	}
	A := model.NewAnalysis(fn)
	translateAll(A)
	recv, elemName, attrsP := fn.Params[0], fn.Params[1], fn.Params[2]
	var loop *model.RangeLoop
	for _, l := range model.SliceRangeLoops(fn) {
		if l.Over == ssa.Value(attrsP) {
			loop = l
		}
	}
	if loop == nil {
		R.Unknown("C10.R1", "filter-loop", "(*Policy).sanitizeAttrs filter loop", "", "not found")
		return
	}
	elemSym := ""
	for _, b := range sortedBlocks(loop.Blocks) {
		for _, in := range b.Instrs {
			if u, ok := in.(*ssa.UnOp); ok && u.Op == token.MUL {
				if ia, ok := u.X.(*ssa.IndexAddr); ok && ia.X == ssa.Value(attrsP) {
					elemSym = A.Sym.Of(u)
				}
			}
		}
	}
	styleKey := A.AtomIndex("(" + elemSym + ".Key == \"style\")")
	gs := recv.Name() + "." + F.Get("globalStyles")
	es := recv.Name() + "." + F.Get("elsAndStyles")
	ms := recv.Name() + "." + F.Get("elsMatchingAndStyles")
	g1 := A.AtomIndex("(len(" + gs + ") == 0)")
	g2a := A.AtomIndex("mapok(" + es + "," + elemName.Name() + ")")
	g2b := A.AtomIndex("(len(lookup(" + es + "," + elemName.Name() + ")#0) == 0)")
	// the element's own rules may also be tested with a plain lookup: len(p.elsAndStyles[name]) > 0
	g2c := A.AtomIndex("(len(lookup(" + es + "," + elemName.Name() + ")) == 0)")
	var elemRules *pa.F
	switch {
	case g2a >= 0 && g2b >= 0 && g2c >= 0:
		elemRules = pa.Or(pa.And(pa.AtomF(g2a), pa.Not(pa.AtomF(g2b))), pa.Not(pa.AtomF(g2c)))
	case g2a >= 0 && g2b >= 0:
		elemRules = pa.And(pa.AtomF(g2a), pa.Not(pa.AtomF(g2b)))
	case g2c >= 0:
		elemRules = pa.Not(pa.AtomF(g2c))
		g2a, g2b = g2c, g2c
	}
	if styleKey < 0 || g1 < 0 || elemRules == nil {
		R.Unknown("C10.R1", "atoms", "(*Policy).sanitizeAttrs: style routing tests", c.P.Pos(fn.Pos()), fmt.Sprintf("expected tests not found (key==\"style\": %v, len(globalStyles): %v, elsAndStyles lookup: %v, its length: %v)", styleKey >= 0, g1 >= 0, g2a >= 0, g2b >= 0))
		return
	}
	// pattern event: edge where MatchString(<key of elsMatchingAndStyles>, elementName) and the value is non-empty
	var msAtoms, nonEmptyV []int
	for i, at := range A.Atoms {
		if strings.HasPrefix(at.Key, "(*regexp.Regexp).MatchString(next(range("+ms+"))") && strings.HasSuffix(at.Key, "#1,"+elemName.Name()+")") {
			msAtoms = append(msAtoms, i)
		}
		if strings.HasPrefix(at.Key, "(len(next(range("+ms+"))") && strings.HasSuffix(at.Key, "#2) == 0)") {
			nonEmptyV = append(nonEmptyV, i)
		}
	}
	evPS := A.EventVar("pattern-style-rules-exist")
	// the scan of the pattern-scoped style rules ran to its end (so "no pattern rule applies" is an established fact)
	evScan := A.EventVar("pattern-style-rules-scanned")
	var scanLoops []*model.AnyLoop
	for _, l := range model.RangeLoopsAll(fn) {
		if l.IsMap && model.LoadedPolicyField(l.Over) == F.Get("elsMatchingAndStyles") {
			scanLoops = append(scanLoops, l)
		}
	}
	track := []int{styleKey, g1, g2a, g2b, evPS, evScan}
	if g2c >= 0 {
		track = append(track, g2c)
	}
	track = append(track, msAtoms...)
	track = append(track, nonEmptyV...)
	q, err := A.NewQuery(track)
	if err != nil {
		R.Unknown("C10.R1", "query", "(*Policy).sanitizeAttrs", "", err.Error())
		return
	}
	patF := pa.And(orAtoms(msAtoms), pa.Not(orAtoms(nonEmptyV)))
	q.EdgeHook = func(b *ssa.BasicBlock, k int) func(uint32) []uint32 {
		if len(msAtoms) == 0 {
			return nil
		}
		// set the event on edges after which both facts are established in the current iteration
		st := q.Filter(q.InitWith(nil), A.EdgeCond(b, k))
		_ = st
		return nil
	}
	// simpler and sound: the event is set on the edge whose source state implies patF
	q.EdgeHook = func(b *ssa.BasicBlock, k int) func(uint32) []uint32 {
		if len(msAtoms) == 0 || len(nonEmptyV) == 0 {
			return nil
		}
		scanDone := false
		for _, l := range scanLoops {
			if b == l.Header && b.Succs[k] == l.Exit {
				scanDone = true
			}
		}
		return func(a uint32) []uint32 {
			if scanDone {
				a = q.With(a, evScan, true)
			}
			m := true
			for _, x := range msAtoms {
				if !q.Bit(a, x) {
					m = false
				}
			}
			for _, x := range nonEmptyV {
				if q.Bit(a, x) {
					m = false
				}
			}
			if m && patF != nil {
				// only meaningful while the loop-local atoms are constrained; they are forgotten on back edges
				if condMentions(A.EdgeCond(b, k), append(append([]int{}, msAtoms...), nonEmptyV...)) {
					return []uint32{q.With(a, evPS, true)}
				}
			}
			return []uint32{a}
		}
	}
	q.Run(fn.Blocks[0], q.InitWith(map[int]bool{evPS: false, evScan: false}))
	exist := pa.Or(pa.Not(pa.AtomF(g1)), elemRules, pa.AtomF(evPS))
	R.Role("C10.R1", "scans of the pattern-scoped style rules in sanitizeAttrs", len(scanLoops), 1)
	// the data-attribute branch: appends reached only under isDataAttribute(key)
	var dataF *pa.F
	var qd *pa.Query
	if ida := c.P.Func(load.ModPath, "isDataAttribute"); ida != nil {
		for _, b := range sortedBlocks(loop.Blocks) {
			for _, in := range b.Instrs {
				if cl, ok := in.(*ssa.Call); ok && cl.Common().StaticCallee() == ida && A.Sym.Of(cl.Common().Args[0]) == elemSym+".Key" {
					dataF = A.Cond(cl)
				}
			}
		}
	}
	if dataF != nil {
		dm := map[int]bool{}
		dataF.Atoms(dm)
		var dl []int
		for k := range dm {
			dl = append(dl, k)
		}
		var err2 error
		qd, err2 = A.NewQuery(dl)
		if err2 != nil {
			dataF = nil
		} else {
			qd.Barrier[loop.Header] = true
			qd.Run(loop.Body, nil)
		}
	}
	n := 0
	ss := c.P.Func(load.ModPath, "(*Policy).sanitizeStyles")
	for _, b := range sortedBlocks(loop.Blocks) {
		for _, in := range b.Instrs {
			cl, ok := in.(*ssa.Call)
			if !ok {
				continue
			}
			if ac, _ := model.IsAppend(cl); ac == nil {
				continue
			}
			v := model.AppendedValue(cl)
			if v == nil || A.Sym.Of(v) != elemSym {
				continue
			}
			n++
			st := q.StateAt(cl)
			if st == nil {
				continue
			}
			if dataF != nil {
				if isData, _ := qd.Holds(qd.StateAt(cl), dataF); isData && qd.StateAt(cl) != nil {
					R.OK("C10.R1", fmt.Sprintf("generic-append#%d", n), "(*Policy).sanitizeAttrs filter loop: append of a data-* attribute", c.P.Pos(cl.Pos()), "reached only under isDataAttribute(key): the key starts with data- and cannot be \"style\"")
					continue
				}
			}
			// completeness of the routing decision: a style attribute handled by the generic rules means that no style rule
			// applies — which is only known once the pattern-scoped rules were scanned to the end
			okC, cexC := q.Holds(st, pa.Implies(pa.AtomF(styleKey), pa.Or(exist, pa.AtomF(evScan))))
			R.Check(okC, "C10.R1", fmt.Sprintf("generic-append#%d:sources-consulted", n), "(*Policy).sanitizeAttrs filter loop: generic append of the range element", c.P.Pos(cl.Pos()), "a style attribute gets here only after the pattern-scoped style rules were scanned", "a style attribute can be handled by the generic attribute rules without the pattern-scoped style rules having been consulted: rules attached with OnElementsMatching are then ignored for this element (the style is dropped, or kept unfiltered): ["+cexC+"]")
			ok1, cex := q.Holds(st, pa.Not(pa.And(pa.AtomF(styleKey), exist)))
			R.Check(ok1, "C10.R1", fmt.Sprintf("generic-append#%d", n), "(*Policy).sanitizeAttrs filter loop: generic append of the range element", c.P.Pos(cl.Pos()), "never a style attribute while style rules exist for the element", "a style attribute can be kept by the generic attribute rules although style rules exist for the element (its declarations would not be filtered): ["+cex+"]")
		}
	}
	R.Role("C10.R1", "generic appends in the filter loop", n, 3)
	// and the style branch calls sanitizeStyles with (element, elementName)
	nc := 0
	for _, b := range sortedBlocks(loop.Blocks) {
		for _, in := range b.Instrs {
			if cl, ok := in.(*ssa.Call); ok && ss != nil && cl.Common().StaticCallee() == ss {
				nc++
				okA := A.Sym.Of(cl.Common().Args[1]) == elemSym && cl.Common().Args[2] == ssa.Value(elemName)
				R.Check(okA, "C10.R1", "call-sanitizeStyles", "(*Policy).sanitizeAttrs: call of sanitizeStyles", c.P.Pos(cl.Pos()), "on the range element and the element name", "sanitizeStyles is applied to something other than the current attribute/element")
			}
		}
	}
	R.Role("C10.R1", "calls of sanitizeStyles in the filter loop", nc, 1)
}

func condMentions(f *pa.F, atoms []int) bool {
	m := map[int]bool{}
	f.Atoms(m)
	for _, a := range atoms {
		if m[a] {
			return true
		}
	}
	return false
}

func c10Builders(c *Ctx, F *model.Fields) {
	R := c.R
	gdh := c.P.Func(load.ModPath+"/css", "GetDefaultHandler")
	for _, name := range []string{"(*stylePolicyBuilder).OnElements", "(*stylePolicyBuilder).OnElementsMatching", "(*stylePolicyBuilder).Globally"} {
		fn := c.P.Func(load.ModPath, name)
		if fn == nil {
			R.Unknown("C10.R4", name, name, "", "builder not found")
			continue
		}
		A := model.NewAnalysis(fn)
		translateAll(A)
		// the stylePolicy local
		var sp *ssa.Alloc
		for _, b := range fn.Blocks {
			for _, in := range b.Instrs {
				if al, ok := in.(*ssa.Alloc); ok && strings.HasSuffix(al.Type().String(), ".stylePolicy") && !strings.Contains(al.Type().String(), "[") {
					sp = al
				}
			}
		}
		if sp == nil {
			R.Unknown("C10.R4", name, name, c.P.Pos(fn.Pos()), "local stylePolicy value not found")
			continue
		}
		ev := A.EventVar("matcher-stored")
		var track []int
		track = append(track, ev)
		type stInfo struct {
			st   *ssa.Store
			goal *pa.F
		}
		var infos []stInfo
		for _, field := range []string{"handler", "enum", "regexp"} {
			for _, st := range model.FieldStoresTo(sp, field) {
				var goal *pa.F
				if cl, ok := st.Val.(*ssa.Call); ok && gdh != nil && cl.Common().StaticCallee() == gdh {
					goal = pa.True
				} else {
					vs := A.Sym.Of(st.Val)
					nilA := A.AtomIndex("(" + vs + " == nil)")
					lenA := A.AtomIndex("(len(" + vs + ") == 0)")
					switch {
					case nilA >= 0:
						goal = pa.Not(pa.AtomF(nilA))
						track = append(track, nilA)
					case lenA >= 0:
						goal = pa.Not(pa.AtomF(lenA))
						track = append(track, lenA)
					default:
						goal = pa.False
					}
				}
				infos = append(infos, stInfo{st, goal})
			}
		}
		q, err := A.NewQuery(track)
		if err != nil {
			R.Unknown("C10.R4", name, name, "", err.Error())
			continue
		}
		for _, inf := range infos {
			inf := inf
			q.Hooks[inf.st] = func(a uint32) []uint32 {
				if inf.goal.Eval3(func(atom int) int8 {
					if q.Pos(atom) < 0 {
						return 2
					}
					if q.Bit(a, atom) {
						return 1
					}
					return 0
				}) == 1 {
					return []uint32{q.With(a, ev, true)}
				}
				return []uint32{a}
			}
		}
		// a fresh sp per iteration: reset the event where sp is allocated
		q.Hooks[sp] = func(a uint32) []uint32 { return []uint32{q.With(a, ev, false)} }
		q.Run(fn.Blocks[0], q.InitWith(map[int]bool{ev: false}))
		n := 0
		for _, b := range fn.Blocks {
			for _, in := range b.Instrs {
				cl, ok := in.(*ssa.Call)
				if !ok {
					continue
				}
				if ac, _ := model.IsAppend(cl); ac == nil {
					continue
				}
				v := model.AppendedValue(cl)
				if v == nil || model.LoadOfAlloc(v) != sp {
					continue
				}
				n++
				st := q.StateAt(cl)
				if st == nil {
					continue
				}
				ok1, cex := q.Holds(st, pa.AtomF(ev))
				R.Check(ok1, "C10.R4", name, name+": append of the style rule", c.P.Pos(cl.Pos()), "a matcher known non-nil was stored on every path", "a style rule can be registered with no matcher at all (nil handler, empty enum, nil regexp): sanitizeStyles would then never accept — or, worse, a nil handler call panics: ["+cex+"]")
			}
		}
		R.Role("C10.R4", "rule appends in "+name, n, 1)
	}
}

func c10Fallback(c *Ctx) {
	R := c.R
	cssPkg := load.ModPath + "/css"
	gdh := c.P.Func(cssPkg, "GetDefaultHandler")
	base := c.P.Func(cssPkg, "BaseHandler")
	if gdh == nil || base == nil {
		R.Unknown("C10.R5", "css-fallback", "css.GetDefaultHandler / css.BaseHandler", "", "functions not found")
		return
	}
	// BaseHandler: every return is the constant false
	okB := true
	for _, b := range base.Blocks {
		if r, ok := b.Instrs[len(b.Instrs)-1].(*ssa.Return); ok {
			if !model.IsFalse(r.Results[0]) {
				okB = false
			}
		}
	}
	R.Check(okB, "C10.R5", "BaseHandler", "css.BaseHandler", c.P.Pos(base.Pos()), "returns false on every path", "the fallback handler can accept a value: properties without a handler would be kept")
	// GetDefaultHandler: returns are either BaseHandler or a lookup of the handler table with the parameter as key
	A := model.NewAnalysis(gdh)
	translateAll(A)
	n, nBase := 0, 0
	isEntry := func(x ssa.Value) bool {
		if ex, ok := x.(*ssa.Extract); ok && ex.Index == 0 {
			x = ex.Tuple
		}
		lk, ok := x.(*ssa.Lookup)
		if !ok {
			return false
		}
		u, ok := lk.X.(*ssa.UnOp)
		if !ok {
			return false
		}
		g, ok := u.X.(*ssa.Global)
		return ok && g.Name() == "defaultStyleHandlers" && lk.Index == ssa.Value(gdh.Params[0])
	}
	// judge: the value v, as it leaves block b towards a return
	var judge func(v ssa.Value, b *ssa.BasicBlock, pos token.Pos, depth int)
	judge = func(v ssa.Value, b *ssa.BasicBlock, pos token.Pos, depth int) {
		if phi, ok := v.(*ssa.Phi); ok && depth < 3 {
			for i, e := range phi.Edges {
				judge(e, phi.Block().Preds[i], pos, depth+1)
			}
			return
		}
		n++
		okR := false
		why := "returns " + A.Sym.Of(v)
		if f, ok := v.(*ssa.Function); ok && f == base {
			okR = true
		}
		if ct, ok := v.(*ssa.ChangeType); ok {
			if f, ok := ct.X.(*ssa.Function); ok && f == base {
				okR = true
			}
		}
		if okR {
			nBase++
		}
		if isEntry(v) {
			// the entry is returned only where it is known to be there: under entry != nil or the comma-ok flag
			why = "returns the table entry without having tested that there is one: for an unknown property the result is a nil handler, not one that rejects"
			for d, at := b, b; d != nil && !okR; at, d = d, d.Idom() {
				_ = at
				iff, ok := d.Instrs[len(d.Instrs)-1].(*ssa.If)
				if !ok || len(d.Succs) != 2 || d.Succs[0] == d.Succs[1] || d == b {
					continue
				}
				for k, sblk := range d.Succs {
					if !(sblk == b || sblk.Dominates(b)) || len(sblk.Preds) != 1 {
						continue
					}
					switch cnd := iff.Cond.(type) {
					case *ssa.BinOp:
						x, y := cnd.X, cnd.Y
						if model.IsNil(x) {
							x, y = y, x
						}
						if isEntry(x) && model.IsNil(y) && (cnd.Op == token.NEQ && k == 0 || cnd.Op == token.EQL && k == 1) {
							okR = true
						}
					case *ssa.Extract:
						if lk, ok := cnd.Tuple.(*ssa.Lookup); ok && cnd.Index == 1 && lk.CommaOk && isEntry(lk) && k == 0 {
							okR = true
						}
					}
				}
			}
		}
		R.Check(okR, "C10.R5", fmt.Sprintf("GetDefaultHandler:return#%d", n), "css.GetDefaultHandler: returned value", c.P.Pos(pos), "handler table entry for the same key where one exists, or BaseHandler", why)
	}
	for _, b := range gdh.Blocks {
		if r, ok := b.Instrs[len(b.Instrs)-1].(*ssa.Return); ok {
			judge(r.Results[0], b, r.Pos(), 0)
		}
	}
	R.Role("C10.R5", "returns of GetDefaultHandler", n, 2)
	R.Check(nBase > 0, "C10.R5", "GetDefaultHandler:fallback", "css.GetDefaultHandler: fallback", c.P.Pos(gdh.Pos()), "BaseHandler is returned on some path", "no path returns the reject-all handler")
	// stringInSlice obligation
	sis := c.P.Func(load.ModPath, "stringInSlice")
	if sis == nil {
		R.Unknown("C10.R5", "stringInSlice", "stringInSlice", "", "not found")
		return
	}
	anyMatchObligation(c, "C10.R5", "stringInSlice", sis, 0, func(A2 *pa.Analysis, at *pa.Atom) bool {
		switch at.Kind {
		case "val":
			if cl, ok := at.Resolve(at.X).(*ssa.Call); ok {
				if ef := isCallTo(cl, "strings.EqualFold"); ef != nil {
					a0, a1 := ef.Common().Args[0], ef.Common().Args[1]
					return a0 == ssa.Value(sis.Params[0]) || a1 == ssa.Value(sis.Params[0])
				}
			}
		case "eq":
			return at.Resolve(at.X) == ssa.Value(sis.Params[0]) || at.Resolve(at.Y) == ssa.Value(sis.Params[0])
		}
		return false
	}, "an equality test of a haystack element with the needle")
	enumCaseRule(c, "C10.R5")
}

// enumCaseRule: enum entries and the (lower-cased) value they are compared with agree in letter case.
func enumCaseRule(c *Ctx, rule string) {
	R := c.R
	sis := c.P.Func(load.ModPath, "stringInSlice")
	if sis == nil {
		R.Unknown(rule, "stringInSlice:case", "stringInSlice", "", "not found")
		return
	}
	// the value handed to the matchers is lower-cased (C10.R2) while MatchingEnum stores its entries as given: the
	// comparison has to be case-insensitive, or the entries have to be lower-cased when they are registered —
	// otherwise an entry with an upper-case letter can never match and a conforming declaration is dropped
	fold := false
	exact := false
	for _, b := range sis.Blocks {
		for _, in := range b.Instrs {
			switch x := in.(type) {
			case *ssa.Call:
				if ef := isCallTo(x, "strings.EqualFold"); ef != nil {
					fold = true
				}
			case *ssa.BinOp:
				if x.Op == token.EQL && (x.X == ssa.Value(sis.Params[0]) || x.Y == ssa.Value(sis.Params[0])) {
					exact = true
				}
			}
		}
	}
	lowered := false
	if me := c.P.Func(load.ModPath, "(*stylePolicyBuilder).MatchingEnum"); me != nil {
		for _, b := range me.Blocks {
			for _, in := range b.Instrs {
				if cl, ok := in.(*ssa.Call); ok && isCallTo(cl, "strings.ToLower") != nil {
					lowered = true
				}
			}
		}
	}
	R.Check(fold && !exact || lowered, rule, "stringInSlice:case", "stringInSlice / MatchingEnum: letter case of enum entries", c.P.Pos(sis.Pos()),
		"case-insensitive comparison (strings.EqualFold)", "enum entries are compared case-sensitively with a lower-cased value and are not lower-cased on registration: an entry containing an upper-case letter never matches")
}

package rules

import (
	"fmt"
	"sort"
	"strings"
	"verif/tools/relang"

	"golang.org/x/tools/go/ssa"

	"verif/tools/load"
	"verif/tools/model"
	"verif/tools/policyx"
)

func init() { register("C04", "other", runC04) }

type ugcSpec struct {
	Global    []string            `json:"global_attributes"`
	Elements  map[string][]string `json:"elements"`
	Forbidden []string            `json:"forbidden_elements"`
	Schemes   []string            `json:"schemes"`
	Required  map[string]bool     `json:"required_flags"`
	NoCalls   []string            `json:"forbidden_calls"`
	Skip      []string            `json:"default_skip_content"`
	URLAttrs  map[string][]string `json:"url_attributes"`
	Examples  map[string]any      `json:"value_examples"`
	PassBare  []string            `json:"pass_without_attributes"`
	Cmd       map[string]struct {
		Base     string              `json:"base"`
		Flags    map[string]bool     `json:"extra_flags"`
		Elements []string            `json:"extra_elements"`
		MustCall []string            `json:"must_call"`
		Attrs    map[string][]string `json:"extra_attrs"`
		Global   []string            `json:"extra_global_attrs"`
		Schemes  []string            `json:"extra_schemes"`
	} `json:"cmd"`
}

func setOf(ss []string) map[string]bool {
	m := map[string]bool{}
	for _, s := range ss {
		m[s] = true
	}
	return m
}

func sortedKeys(m map[string]bool) []string {
	var out []string
	for k := range m {
		out = append(out, k)
	}
	sort.Strings(out)
	return out
}

func runC04(c *Ctx) {
	R := c.R
	R.Rule("C04.R1", "StrictPolicy is empty: its abstractly evaluated table has no element, attribute, style or scheme rule and no option set — only the default skip-content and bare-element sets")
	R.Rule("C04.R2", "UGC upper bound: every element of the evaluated UGCPolicy table is in the documented vocabulary and none is forbidden (script, style, iframe, object, embed, form controls, base, meta, link, svg, math, …); every (element, attribute) rule and every global attribute is documented; no attribute named style or starting with on; schemes are exactly mailto/http/https, no scheme regexp or custom scheme; relative URLs, nofollow and URL checking are on; none of AllowUnsafe, AllowDataAttributes, AllowComments, AllowStyles, RewriteSrc, element patterns … is reached")
	R.Rule("C04.R3", "UGC lower bound: every documented element and (element, attribute) pair is present in the evaluated table (conforming documents pass), and the only thing the policy adds is rel=nofollow")
	R.Rule("C04.R4", "every URL-valued attribute allowed by UGCPolicy (href, cite, src) sits at one of the URL-checked positions of C03, and attributes without a value pattern are exactly those URL attributes")
	R.Rule("C04.R6", "value patterns do not reject conforming values: every pattern UGCPolicy registers for an attribute (globally or on an element) accepts the conforming example values of spec/ugc_vocabulary.json for that attribute (exact DFA membership under MatchString semantics)")
	R.Rule("C04.R5", "defaults: NewPolicy's skip-content set contains script, style, iframe, object, title, noscript, noembed, noframes, frameset, nostyle")
	R.Rule("C04.R11", "validURL parses what it was given (= C03.R11, cited): no decoding, unescaping or re-casing of the value before url.Parse — a URL of a conforming document that is decoded once more comes out changed (&amp;reg= → ®=)")
	parsesWhatItWasGiven(c, "C04.R11")
	R.Rule("C04.R10", "the shipped constructors hand out independent policies: a Policy is never copied by value (a cached prototype returned as a shallow copy shares its tables with every policy handed out before and after)")
	noPolicyCopies(c, "C04.R10", "customising one policy obtained from a shipped constructor widens every other one, StrictPolicy() included")
	R.Rule("C04.R9", "the URL positions of the shipped vocabulary are checked positions (= C03.R1/R2/R5, cited): for every (element, attribute) URL position, sanitizeAttrs specialised to the element keeps an attribute with that key only across validURL's true result and with validURL's (or the rewriter's) value — so what UGCPolicy lets through at a.href, q.cite, img.src … carries only the schemes it allows")
	{
		var uspec urlSpec
		if err := c.Spec("url_positions.json", &uspec); err != nil {
			R.Unknown("C04.R9", "spec", "spec/url_positions.json", "", err.Error())
		} else {
			R.Cite(map[string]string{"C03.R1": "C04.R9", "C03.R2": "C04.R9", "C03.R5": "C04.R9"}, func() {
				c03Positions(c, model.FindFields(c.P), &uspec)
			})
		}
	}
	R.Rule("C04.R8", "documents of any size pass: the tokenizer runs in its default configuration (no SetMaxBuf / AllowCDATA / raw-text switches), so no token of a conforming document makes the sanitiser fail or change mode")
	if sc4 := newSC(c, "C04.R8"); sc4 != nil {
		c06TokenizerConfig(sc4, "C04.R8", "the tokenizer is reconfigured or handed on: a conforming document with a long token (or the construct the switch concerns) is no longer returned unchanged")
	}
	R.Rule("C04.R7", "URLs of conforming documents are not rejected: with URL checking on, validURL returns false only for a tabled reason — white space outside a data: URL, a parse error, a non-empty scheme not admitted by the scheme table / patterns / custom checks, or a scheme-less URL while relative URLs are off or the re-serialised URL is empty")
	c03ValidURL(c, model.FindFields(c.P), "C04.R7")
	R.Assume(TrustGo, "builder methods have their documented meaning (C17) and the sanitiser honours the tables (C01–C03); what an HTML5 parser builds from the output is NOT decided")
	var spec ugcSpec
	if err := c.Spec("ugc_vocabulary.json", &spec); err != nil {
		R.Unknown("C04.R2", "spec", "spec/ugc_vocabulary.json", "", err.Error())
		return
	}
	ev := policyx.New(c.P)
	get := func(name string) *policyx.Table {
		fn := c.P.Func(load.ModPath, name)
		if fn == nil {
			R.Unknown("C04.R1", "ctor:"+name, name, "", "constructor not found")
			return nil
		}
		t, err := ev.EvalConstructor(fn)
		if err != nil {
			R.Unknown("C04.R1", "ctor:"+name, name, c.P.Pos(fn.Pos()), "constructor is no longer straight-line constant builder code, its table cannot be extracted: "+err.Error())
			return nil
		}
		return t
	}
	// R1 + R5
	if t := get("StrictPolicy"); t != nil {
		fn := c.P.Func(load.ModPath, "StrictPolicy")
		pos := c.P.Pos(fn.Pos())
		empty := len(t.Elements) == 0 && len(t.ElemAttrs) == 0 && len(t.GlobalAttrs) == 0 && len(t.ElemPatterns) == 0 && len(t.Schemes) == 0 && len(t.SchemeRegexps) == 0 && len(t.Flags) == 0 && t.StyleRules == 0 && len(t.BarePatterns) == 0
		R.Check(empty, "C04.R1", "strict-empty", "StrictPolicy: evaluated table", pos, "no rule, no option", fmt.Sprintf("StrictPolicy allows something: elements=%v global=%v schemes=%v flags=%v", sortedKeys(t.Elements), t.GlobalAttrs, t.Schemes, t.Flags))
		for _, s := range spec.Skip {
			R.Check(t.Skip[s], "C04.R5", "skip:"+s, "NewPolicy: default skip-content set contains "+s, pos, "present", "missing from the default skip-content set: the content of a removed <"+s+"> would be emitted as text")
		}
		R.Analysed["strict_table"] = map[string]any{"skip": sortedKeys(t.Skip), "bare": len(t.Bare)}
	}
	t := get("UGCPolicy")
	if t == nil {
		return
	}
	fn := c.P.Func(load.ModPath, "UGCPolicy")
	pos := c.P.Pos(fn.Pos())
	docEl := spec.Elements
	c04Examples(c, t, &spec, pos)
	nb := 0
	for _, e := range spec.PassBare {
		nb++
		R.Check(t.Bare[e], "C04.R3", "bare:"+e, "UGCPolicy: <"+e+"> without attributes", pos, "in the set of elements allowed without attributes", "a documented element that needs no attribute is dropped when it carries none: a conforming document does not pass unchanged")
	}
	R.Role("C04.R3", "elements that must pass without attributes", nb, 50)
	forb := setOf(spec.Forbidden)
	glob := setOf(spec.Global)
	// R2 upper bound
	for _, el := range sortedKeys(t.Elements) {
		_, ok := docEl[el]
		switch {
		case forb[el]:
			R.Fail("C04.R2", "element:"+el, "UGCPolicy allows element <"+el+">", pos, "a forbidden element is allowed by the shipped UGC policy")
		case !ok:
			R.Fail("C04.R2", "element:"+el, "UGCPolicy allows element <"+el+">", pos, "element is not part of the documented UGC vocabulary")
		default:
			R.OK("C04.R2", "element:"+el, "UGCPolicy allows element <"+el+">", pos, "documented")
		}
	}
	badAttr := func(a string) string {
		if a == "style" {
			return "the style attribute"
		}
		if strings.HasPrefix(a, "on") {
			return "an event-handler attribute"
		}
		return ""
	}
	for _, el := range sortedKeys(t.Elements) {
		doc := setOf(docEl[el])
		for _, r := range t.ElemAttrs[el] {
			key := "attr:" + el + "." + r.Attr
			if why := badAttr(r.Attr); why != "" {
				R.Fail("C04.R2", key, "UGCPolicy allows "+r.Attr+" on <"+el+">", pos, why+" is allowed")
				continue
			}
			R.Check(doc[r.Attr], "C04.R2", key, "UGCPolicy allows "+r.Attr+" on <"+el+">", pos, "documented", "attribute is not part of the documented UGC vocabulary for this element")
		}
	}
	for _, r := range t.GlobalAttrs {
		key := "global:" + r.Attr
		if why := badAttr(r.Attr); why != "" {
			R.Fail("C04.R2", key, "UGCPolicy allows "+r.Attr+" globally", pos, why+" is allowed on every element")
			continue
		}
		R.Check(glob[r.Attr] && r.HasPat, "C04.R2", key, "UGCPolicy allows "+r.Attr+" globally", pos, "documented, with a value pattern", "undocumented global attribute, or one without a value pattern")
	}
	wantS := setOf(spec.Schemes)
	for s, kind := range t.Schemes {
		R.Check(wantS[s] && kind == "", "C04.R2", "scheme:"+s, "UGCPolicy allows URL scheme "+s, pos, "documented", "scheme outside mailto/http/https (or with a custom policy)")
	}
	R.Check(len(t.SchemeRegexps) == 0 && len(t.ElemPatterns) == 0 && len(t.BarePatterns) == 0 && t.StyleRules == 0, "C04.R2", "no-patterns", "UGCPolicy: pattern-based rules", pos, "none", fmt.Sprintf("scheme regexps=%v element patterns=%v style rules=%d", t.SchemeRegexps, t.ElemPatterns, t.StyleRules))
	for f, v := range spec.Required {
		R.Check(t.Flags[f] == v, "C04.R2", "flag:"+f, "UGCPolicy option "+f, pos, fmt.Sprintf("= %v", v), fmt.Sprintf("expected %v, evaluated %v", v, t.Flags[f]))
	}
	for _, f := range spec.NoCalls {
		R.Check(t.Called[f] == 0 && !t.Flags[f], "C04.R2", "nocall:"+f, "UGCPolicy does not use "+f, pos, "not reached", "the shipped UGC policy reaches "+f)
	}
	// R3 lower bound
	for _, el := range sortedKeys(boolKeys(docEl)) {
		R.Check(t.Elements[el], "C04.R3", "element:"+el, "documented element <"+el+"> is allowed", pos, "present", "a documented element is no longer allowed: conforming documents lose it")
		have := map[string]bool{}
		for _, r := range t.ElemAttrs[el] {
			have[r.Attr] = true
		}
		for _, a := range docEl[el] {
			R.Check(have[a], "C04.R3", "attr:"+el+"."+a, "documented attribute "+a+" on <"+el+">", pos, "present", "a documented attribute is no longer allowed")
		}
	}
	gh := map[string]bool{}
	for _, r := range t.GlobalAttrs {
		gh[r.Attr] = true
	}
	for _, a := range spec.Global {
		R.Check(gh[a], "C04.R3", "global:"+a, "documented global attribute "+a, pos, "present", "a documented global attribute is no longer allowed")
	}
	for _, s := range spec.Schemes {
		_, ok := t.Schemes[s]
		R.Check(ok, "C04.R3", "scheme:"+s, "documented scheme "+s, pos, "present", "a documented scheme is no longer allowed")
	}
	// R4
	urlPos := map[string]map[string]bool{}
	for a, els := range spec.URLAttrs {
		urlPos[a] = setOf(els)
	}
	for _, el := range sortedKeys(t.Elements) {
		for _, r := range t.ElemAttrs[el] {
			if m, isURL := urlPos[r.Attr]; isURL {
				R.Check(m[el], "C04.R4", "urlattr:"+el+"."+r.Attr, "UGCPolicy allows URL attribute "+r.Attr+" on <"+el+">", pos, "a URL-checked position", "a URL attribute is allowed at a position where the sanitiser does not check URLs")
			} else {
				R.Check(r.HasPat, "C04.R4", "pattern:"+el+"."+r.Attr, "UGCPolicy rule "+el+"."+r.Attr, pos, "has a value pattern", "a non-URL attribute is allowed with any value")
			}
		}
	}
	R.Analysed["ugc_table"] = map[string]any{"elements": len(t.Elements), "element_rules": countRules(t), "global_rules": len(t.GlobalAttrs), "schemes": sortedKeys(strKeys(t.Schemes)), "flags": t.Flags, "calls": t.Called}
}

func boolKeys(m map[string][]string) map[string]bool {
	o := map[string]bool{}
	for k := range m {
		o[k] = true
	}
	return o
}
func strKeys(m map[string]string) map[string]bool {
	o := map[string]bool{}
	for k := range m {
		o[k] = true
	}
	return o
}
func countRules(t *policyx.Table) int {
	n := 0
	for _, rs := range t.ElemAttrs {
		n += len(rs)
	}
	return n
}

var _ = ssa.Value(nil)

// c04Examples (C04.R6): each registered value pattern accepts the conforming examples for its attribute.
func c04Examples(c *Ctx, t *policyx.Table, spec *ugcSpec, pos string) {
	R := c.R
	var keys []string
	for k := range spec.Examples {
		if !strings.HasPrefix(k, "_") {
			keys = append(keys, k)
		}
	}
	sort.Strings(keys)
	n := 0
	for _, k := range keys {
		var exs []string
		if arr, ok := spec.Examples[k].([]any); ok {
			for _, e := range arr {
				if s, ok := e.(string); ok {
					exs = append(exs, s)
				}
			}
		}
		el, attr := "", k
		if i := strings.Index(k, "."); i >= 0 {
			el, attr = k[:i], k[i+1:]
		}
		var rules []policyx.AttrRule
		where := "globally"
		if el == "" {
			for _, r := range t.GlobalAttrs {
				if r.Attr == attr {
					rules = append(rules, r)
				}
			}
		} else {
			where = "on <" + el + ">"
			for _, r := range t.ElemAttrs[el] {
				if r.Attr == attr {
					rules = append(rules, r)
				}
			}
		}
		if len(rules) == 0 {
			R.Fail("C04.R6", "examples:"+k, "UGCPolicy: value pattern of "+attr+" "+where, pos, "no rule registered for this attribute (conforming values are dropped)")
			continue
		}
		for ri, r := range rules {
			if !r.HasPat {
				continue
			}
			n++
			b := relang.NewBuilder()
			if err := b.AddPattern(r.Pattern); err != nil {
				R.Unknown("C04.R6", fmt.Sprintf("examples:%s#%d", k, ri+1), "UGCPolicy: value pattern of "+attr+" "+where, pos, err.Error())
				continue
			}
			for _, e := range exs {
				b.AddString(e)
			}
			d, err := relang.FromRegexp(r.Pattern, b.Build())
			if err != nil {
				R.Unknown("C04.R6", fmt.Sprintf("examples:%s#%d", k, ri+1), "UGCPolicy: value pattern of "+attr+" "+where, pos, err.Error())
				continue
			}
			bad := ""
			for _, e := range exs {
				if !d.Accepts(e) {
					bad = e
				}
			}
			o := R.Check(bad == "", "C04.R6", fmt.Sprintf("examples:%s#%d", k, ri+1), fmt.Sprintf("UGCPolicy: value pattern %q of %s %s", r.Pattern, attr, where), pos, fmt.Sprintf("accepts %d conforming examples", len(exs)), "the pattern rejects a conforming value: a document written in the documented vocabulary loses this attribute")
			if bad != "" {
				o.Witness = bad
			}
		}
	}
	R.Role("C04.R6", "value patterns checked against examples", n, 10)
}

package rules

import (
	"fmt"
	"strings"

	"golang.org/x/tools/go/ssa"

	"verif/tools/load"
	"verif/tools/policyx"
)

// c15Cmd: the bundled tools build their documented policy and print exactly p.Sanitize(stdin).
func c15Cmd(c *Ctx) {
	R := c.R
	var spec ugcSpec
	if err := c.Spec("ugc_vocabulary.json", &spec); err != nil {
		R.Unknown("C15.R5", "spec", "spec/ugc_vocabulary.json", "", err.Error())
		return
	}
	ev := policyx.New(c.P)
	ugcFn := c.P.Func(load.ModPath, "UGCPolicy")
	var ugc *policyx.Table
	if ugcFn != nil {
		ugc, _ = ev.EvalConstructor(ugcFn)
	}
	n := 0
	for _, pkg := range c.P.Cmds {
		name := pkg.PkgPath[strings.LastIndex(pkg.PkgPath, "/")+1:]
		sp := c.P.SSA[pkg.PkgPath]
		if sp == nil {
			continue
		}
		main := sp.Func("main")
		if main == nil {
			R.Unknown("C15.R5", name, "cmd/"+name+": main", "", "main not found")
			continue
		}
		n++
		want, ok := spec.Cmd[name]
		if !ok {
			R.Unknown("C15.R5", name, "cmd/"+name, c.P.Pos(main.Pos()), "no documented policy for this tool in spec/ugc_vocabulary.json")
			continue
		}
		t, sanCall, err := ev.EvalMainPolicy(main)
		pos := c.P.Pos(main.Pos())
		if err != nil {
			R.Unknown("C15.R5", name+":policy", "cmd/"+name+": policy built in main", pos, "not straight-line constant builder code: "+err.Error())
			continue
		}
		// policy: base ⊆ table, documented extras present, flags set
		bad := ""
		if want.Base == "UGCPolicy" && ugc != nil {
			for el := range ugc.Elements {
				if !t.Elements[el] {
					bad = "UGC element " + el + " missing"
				}
			}
			for s := range ugc.Schemes {
				if _, ok := t.Schemes[s]; !ok {
					bad = "UGC scheme " + s + " missing"
				}
			}
			if t.Called["AllowStandardAttributes"] == 0 {
				bad = "not based on UGCPolicy()"
			}
		}
		for f, v := range want.Flags {
			if t.Flags[f] != v {
				bad = fmt.Sprintf("option %s is %v, documented %v", f, t.Flags[f], v)
			}
		}
		for _, el := range want.Elements {
			if !t.Elements[el] {
				bad = "documented extra element " + el + " missing"
			}
		}
		for _, m := range want.MustCall {
			if t.Called[m] == 0 {
				bad = "documented helper " + m + " not applied"
			}
		}
		extra := map[string]bool{}
		for _, el := range want.Elements {
			extra[el] = true
		}
		if ugc != nil {
			for el := range t.Elements {
				if !ugc.Elements[el] && !extra[el] {
					bad = "undocumented extra element " + el
				}
			}
		}
		if t.Flags["AllowUnsafe"] {
			bad = "AllowUnsafe is switched on"
		}
		// attribute rules, global rules and schemes beyond the base are exactly the documented ones
		if ugc != nil && want.Base == "UGCPolicy" {
			key := func(r policyx.AttrRule) string { return fmt.Sprintf("%s|%v|%s", r.Attr, r.HasPat, r.Pattern) }
			got := map[string]bool{}
			for el, rs := range t.ElemAttrs {
				base := map[string]bool{}
				for _, r := range ugc.ElemAttrs[el] {
					base[key(r)] = true
				}
				for _, r := range rs {
					if !base[key(r)] {
						got[el+"@"+r.Attr] = true
					}
				}
			}
			doc := map[string]bool{}
			for el, as := range want.Attrs {
				for _, a := range as {
					doc[el+"@"+a] = true
				}
			}
			for _, k := range sortedKeys(got) {
				if !doc[k] {
					bad = "undocumented attribute rule " + k + " (element@attribute)"
				}
			}
			for _, k := range sortedKeys(doc) {
				if !got[k] {
					bad = "documented attribute rule " + k + " (element@attribute) missing"
				}
			}
			gbase, ggot, gdoc := map[string]bool{}, map[string]bool{}, setOf(want.Global)
			for _, r := range ugc.GlobalAttrs {
				gbase[key(r)] = true
			}
			for _, r := range t.GlobalAttrs {
				if !gbase[key(r)] {
					ggot[r.Attr] = true
				}
			}
			for _, k := range sortedKeys(ggot) {
				if !gdoc[k] {
					bad = "undocumented global attribute rule " + k
				}
			}
			for _, k := range sortedKeys(gdoc) {
				if !ggot[k] {
					bad = "documented global attribute rule " + k + " missing"
				}
			}
			sdoc := setOf(want.Schemes)
			for s := range t.Schemes {
				if _, ok := ugc.Schemes[s]; !ok && !sdoc[s] {
					bad = "undocumented URL scheme " + s
				}
			}
			for s := range sdoc {
				if _, ok := t.Schemes[s]; !ok {
					bad = "documented URL scheme " + s + " missing"
				}
			}
			if len(t.ElemPatterns) != len(ugc.ElemPatterns) || len(t.SchemeRegexps) != len(ugc.SchemeRegexps) {
				bad = "undocumented element or scheme patterns"
			}
		}
		R.Check(bad == "", "C15.R5", name+":policy", "cmd/"+name+": policy built in main", pos, "documented policy ("+want.Base+" plus the documented additions)", "the tool's policy differs from its documentation: "+bad)
		// I/O shape
		okIO, why := cmdIO(main, sanCall)
		R.Check(okIO, "C15.R5", name+":io", "cmd/"+name+": stdin → p.Sanitize → stdout", c.P.Pos(sanCall.Pos()), "the Sanitize result of all of stdin is written to stdout exactly once, unformatted, and nothing else is", why)
	}
	R.Role("C15.R5", "command-line tools", n, 2)
}

func isGlobalLoad(v ssa.Value, pkg, name string) bool {
	u, ok := v.(*ssa.UnOp)
	if !ok {
		return false
	}
	g, ok := u.X.(*ssa.Global)
	return ok && g.Pkg.Pkg.Path() == pkg && g.Name() == name
}

func cmdIO(main *ssa.Function, san *ssa.Call) (bool, string) {
	// argument: string(<ReadAll(os.Stdin)#0>)
	arg := san.Common().Args[1]
	cv, ok := arg.(*ssa.Convert)
	if !ok {
		return false, "Sanitize is not applied to string(<bytes read>)"
	}
	ex, ok := cv.X.(*ssa.Extract)
	if !ok || ex.Index != 0 {
		return false, "Sanitize's input is not the result of a read"
	}
	rd, ok := ex.Tuple.(*ssa.Call)
	if !ok || rd.Common().StaticCallee() == nil || rd.Common().StaticCallee().Name() != "ReadAll" {
		return false, "input is not read with io.ReadAll"
	}
	src := rd.Common().Args[0]
	if mi, ok := src.(*ssa.MakeInterface); ok {
		src = mi.X
	}
	if !isGlobalLoad(src, "os", "Stdin") {
		return false, "input is not read from os.Stdin"
	}
	// output: the Sanitize result flows (through the variadic interface slice) into fmt.Fprint(os.Stdout, ...)
	printed := 0
	for _, b := range main.Blocks {
		for _, in := range b.Instrs {
			cl, ok := in.(*ssa.Call)
			if !ok || cl.Common().StaticCallee() == nil {
				continue
			}
			cal := cl.Common().StaticCallee()
			if cal.Pkg == nil {
				continue
			}
			toStdout := func(w ssa.Value) bool {
				if mi, ok := w.(*ssa.MakeInterface); ok {
					w = mi.X
				}
				return isGlobalLoad(w, "os", "Stdout")
			}
			isResult := func(v ssa.Value) bool {
				if cv, ok := v.(*ssa.Convert); ok { // []byte(result)
					v = cv.X
				}
				return v == ssa.Value(san)
			}
			switch cal.Pkg.Pkg.Path() {
			case "os":
				// os.Stdout.WriteString(result) / os.Stdout.Write([]byte(result))
				if (cal.Name() == "WriteString" || cal.Name() == "Write") && len(cl.Common().Args) == 2 && toStdout(cl.Common().Args[0]) {
					if !isResult(cl.Common().Args[1]) {
						return false, "something other than the Sanitize result is written to os.Stdout"
					}
					printed++
				}
			case "io":
				if cal.Name() == "WriteString" && len(cl.Common().Args) == 2 && toStdout(cl.Common().Args[0]) {
					if !isResult(cl.Common().Args[1]) {
						return false, "something other than the Sanitize result is written to os.Stdout"
					}
					printed++
				}
			case "fmt":
				if cal.Name() == "Print" {
					// fmt.Print(result): a single string operand is written as is
					sl, ok := cl.Common().Args[0].(*ssa.Slice)
					al, ok2 := (ssa.Value)(nil), false
					if ok {
						al, ok2 = sl.X.(*ssa.Alloc)
					}
					n, good := 0, ok && ok2
					if good {
						for _, r := range *al.(*ssa.Alloc).Referrers() {
							if ia, ok := r.(*ssa.IndexAddr); ok {
								for _, r2 := range *ia.Referrers() {
									if st, ok := r2.(*ssa.Store); ok {
										n++
										mi, ok := st.Val.(*ssa.MakeInterface)
										if !ok || mi.X != ssa.Value(san) {
											good = false
										}
									}
								}
							}
						}
					}
					if n != 1 || !good {
						return false, "fmt.Print prints something other than exactly the Sanitize result"
					}
					printed++
					continue
				}
				if strings.HasPrefix(cal.Name(), "Print") {
					return false, "extra output through fmt." + cal.Name()
				}
				if strings.HasPrefix(cal.Name(), "Fprint") {
					w := cl.Common().Args[0]
					if mi, ok := w.(*ssa.MakeInterface); ok {
						w = mi.X
					}
					if !isGlobalLoad(w, "os", "Stdout") {
						continue // e.g. stderr diagnostics
					}
					if cal.Name() != "Fprint" {
						return false, "output through fmt." + cal.Name() + " adds formatting/newline"
					}
					// the variadic slice holds exactly the Sanitize result
					sl, ok := cl.Common().Args[1].(*ssa.Slice)
					if !ok {
						return false, "unexpected argument list of fmt.Fprint"
					}
					al, ok := sl.X.(*ssa.Alloc)
					if !ok {
						return false, "unexpected argument list of fmt.Fprint"
					}
					n, good := 0, true
					for _, r := range *al.Referrers() {
						if ia, ok := r.(*ssa.IndexAddr); ok {
							for _, r2 := range *ia.Referrers() {
								if st, ok := r2.(*ssa.Store); ok {
									n++
									mi, ok := st.Val.(*ssa.MakeInterface)
									if !ok || mi.X != ssa.Value(san) {
										good = false
									}
								}
							}
						}
					}
					if n != 1 || !good {
						return false, "fmt.Fprint(os.Stdout, …) prints something other than exactly the Sanitize result"
					}
					printed++
				}
			}
		}
	}
	if printed != 1 {
		return false, fmt.Sprintf("the result is printed %d times", printed)
	}
	return true, ""
}

package rules

import (
	"fmt"
	"go/token"
	"go/types"
	"strings"
	"sync"

	"golang.org/x/tools/go/ssa"

	"verif/tools/load"
	"verif/tools/model"
	"verif/tools/pa"
)

func init() { register("C11", "other", runC11) }

var relTokens = []string{"nofollow", "noreferrer", "noopener"}

var memoMu sync.Mutex

// tokenAdded: storing v into an attribute's Val adds `tok` as a separate space-delimited token.
// kind: "extend" (old + " tok"), "fresh" (constant containing tok), "glue" (old + "tok", needs a clean end), "" (no).
func tokenAdded(v ssa.Value, tok string, oldIs func(ssa.Value) bool) string {
	if k, ok := constString(v); ok {
		for _, f := range strings.Fields(k) {
			if f == tok {
				return "fresh"
			}
		}
		return ""
	}
	bo, ok := v.(*ssa.BinOp)
	if !ok || bo.Op != token.ADD {
		return ""
	}
	k, ok := constString(bo.Y)
	if !ok || !oldIs(bo.X) {
		return ""
	}
	has := false
	for _, f := range strings.Fields(k) {
		if f == tok {
			has = true
		}
	}
	if !has {
		return ""
	}
	if strings.HasPrefix(k, " ") {
		return "extend"
	}
	return "glue"
}

// joinedList: v = strings.Join(list, sep) with a whitespace-only non-empty constant sep, where list is a local
// []string that starts empty and grows only by appends of constants, and is used for nothing but that growth and
// the Join. Returns the growing appends with their constants.
func joinedList(v ssa.Value) (map[*ssa.Call]string, bool) {
	j := isCallTo(v, "strings.Join")
	if j == nil {
		return nil, false
	}
	sep, ok := constString(j.Common().Args[1])
	if !ok || sep == "" || strings.TrimSpace(sep) != "" {
		return nil, false
	}
	apps := map[*ssa.Call]string{}
	chain := map[ssa.Value]bool{}
	var walk func(x ssa.Value) bool
	walk = func(x ssa.Value) bool {
		if chain[x] {
			return true
		}
		switch t := x.(type) {
		case *ssa.Const:
			return t.IsNil()
		case *ssa.MakeSlice:
			chain[x] = true
			c, ok := t.Len.(*ssa.Const)
			return ok && c.Int64() == 0
		case *ssa.Phi:
			chain[x] = true
			for _, e := range t.Edges {
				if !walk(e) {
					return false
				}
			}
			return true
		case *ssa.Call:
			ac, base := model.IsAppend(t)
			if ac == nil {
				return false
			}
			k, ok := constString(model.AppendedValue(ac))
			if !ok {
				return false
			}
			chain[x] = true
			apps[ac] = k
			return walk(base)
		}
		return false
	}
	if !walk(j.Common().Args[0]) {
		return nil, false
	}
	for x := range chain {
		refs := x.Referrers()
		if refs == nil {
			continue
		}
		for _, r := range *refs {
			switch t := r.(type) {
			case *ssa.DebugRef:
			case *ssa.Phi:
				if !chain[t] {
					return nil, false
				}
			case *ssa.Call:
				if t == j {
					continue
				}
				if ac, base := model.IsAppend(t); ac == nil || base != x || !chain[t] {
					return nil, false
				}
			default:
				return nil, false
			}
		}
	}
	return apps, true
}

// tokenwiseHelper: fn(value, token string) bool returns true only across an equality
// (== or strings.EqualFold) between an element of strings.Fields(value) and token.
func tokenwiseHelper(c *Ctx, fn *ssa.Function) bool {
	if fn == nil || len(fn.Params) != 2 || len(fn.Blocks) == 0 {
		return false
	}
	ok := true
	found := false
	A := model.NewAnalysis(fn)
	translateAll(A)
	isField := func(v ssa.Value) bool {
		u, ok := v.(*ssa.UnOp)
		if !ok {
			return false
		}
		ia, ok := u.X.(*ssa.IndexAddr)
		if !ok {
			return false
		}
		f := isCallTo(ia.X, "strings.Fields")
		return f != nil && f.Common().Args[0] == ssa.Value(fn.Params[0])
	}
	var allow []int
	for i, at := range A.Atoms {
		switch at.Kind {
		case "eq":
			if (isField(at.X) && at.Y == ssa.Value(fn.Params[1])) || (isField(at.Y) && at.X == ssa.Value(fn.Params[1])) {
				allow = append(allow, i)
			}
		case "val":
			if ef := isCallTo(at.X, "strings.EqualFold"); ef != nil {
				a0, a1 := ef.Common().Args[0], ef.Common().Args[1]
				if (isField(a0) && a1 == ssa.Value(fn.Params[1])) || (isField(a1) && a0 == ssa.Value(fn.Params[1])) {
					allow = append(allow, i)
				}
			}
		}
	}
	if len(allow) == 0 {
		return false
	}
	ev := A.EventVar("token-matched")
	track := append([]int{ev}, allow...)
	var rets []*ssa.Return
	for _, b := range fn.Blocks {
		if r, isR := b.Instrs[len(b.Instrs)-1].(*ssa.Return); isR {
			rets = append(rets, r)
			m := map[int]bool{}
			A.Cond(r.Results[0]).Atoms(m)
			for k := range m {
				track = append(track, k)
			}
		}
	}
	q, err := A.NewQuery(track)
	if err != nil {
		return false
	}
	af := orAtoms(allow)
	q.EdgeHook = func(b *ssa.BasicBlock, k int) func(uint32) []uint32 {
		if okI, _ := q.Holds(q.Filter(q.InitWith(nil), A.EdgeCond(b, k)), af); okI {
			return func(a uint32) []uint32 { return []uint32{q.With(a, ev, true)} }
		}
		return nil
	}
	q.Run(fn.Blocks[0], q.InitWith(map[int]bool{ev: false}))
	for _, r := range rets {
		st := q.StateAt(r)
		if st == nil {
			continue
		}
		found = true
		if okR, _ := q.Holds(st, pa.Implies(A.Cond(r.Results[0]), pa.AtomF(ev))); !okR {
			ok = false
		}
	}
	return ok && found
}

// presenceTest classifies a value atom as a presence test for a rel token on some string.
// returns (token, subject value, tokenwise)
func presenceTest(c *Ctx, at *pa.Atom, memo map[*ssa.Function]bool) (string, ssa.Value, bool) {
	if at.Kind != "val" {
		return "", nil, false
	}
	cl, ok := at.Resolve(at.X).(*ssa.Call)
	if !ok || cl.Common().StaticCallee() == nil || len(cl.Common().Args) != 2 {
		return "", nil, false
	}
	k, ok := constString(cl.Common().Args[1])
	if !ok {
		return "", nil, false
	}
	isTok := false
	for _, t := range relTokens {
		if t == k {
			isTok = true
		}
	}
	if !isTok {
		return "", nil, false
	}
	fn := cl.Common().StaticCallee()
	if pa.CalleeName(fn) == "strings.Contains" {
		return k, cl.Common().Args[0], false
	}
	if fn.Pkg != nil && strings.HasPrefix(fn.Pkg.Pkg.Path(), load.ModPath) {
		memoMu.Lock()
		tw, seen := memo[fn]
		memoMu.Unlock()
		if !seen {
			tw = tokenwiseHelper(c, fn)
			memoMu.Lock()
			memo[fn] = tw
			memoMu.Unlock()
		}
		return k, cl.Common().Args[0], tw
	}
	return k, cl.Common().Args[0], false
}

func runC11(c *Ctx) {
	R := c.R
	R.Rule("C11.R1", "element table: for elementName a, area and link (specialised analyses), with a hardening option on and a surviving attribute, the href-discovery code is reached")
	R.Rule("C11.R2", "presence tests are token-wise: every test of a rel value for nofollow/noreferrer/noopener is a call of a helper that returns true only across an equality between an element of strings.Fields(value) and the token; a substring test (strings.Contains) does not establish presence")
	R.Rule("C11.R3", "must-add (typestate): on every path through the hardening block with an href found, when nofollow (resp. noreferrer) is required — requireX ∨ (external ∧ requireXFullyQualified) — a rel value carrying the token is produced before the function returns: by extending an existing rel value with \" token\", by a synthesised rel attribute whose constant value holds the token, or on the true edge of a token-wise presence test; every modified attribute copy is appended before the iteration ends; tokens are never glued to a previous one. The same for noopener whenever a target=\"_blank\" is found or produced")
	R.Rule("C11.R7", "every pass over the attribute list is one the rules know (= C12.R8, cited): no unrecognised loop edits the list and the list is never re-sliced — a de-duplication that keeps the last of two target attributes drops the _blank the rel tokens were added for")
	attributePassesKnown(c, "C11.R7", "what the link-hardening rules established (rel tokens, target) can be undone after the fact")
	R.Rule("C11.R6", "options survive lazy initialisation: an existing Policy is only ever updated field by field — no function stores a whole Policy value through a pointer it did not allocate (a `*p = Policy{…}` in init would reset every option set before)")
	optionsSurviveInit(c, "C11.R6", "the link-hardening options set before the first rule are lost and links come out without rel / target")
	R.Rule("C11.R5", "every href is noticed: an iteration of the href scan whose attribute key is href leaves the href-found flag set, whatever else it learns about the value (parse failures included)")
	R.Rule("C11.R4", "the 'external link' flag is sticky and host-based: inside the href loop it is only ever set to true, on the edge url.Parse(href).Host != \"\"; the add-predicates are requireX ∨ (external ∧ requireXFullyQualified)")
	R.Assume(TrustGo, "browsers' notion of 'has a host' for odd URLs (net/url vs WHATWG) is not decided", "which of the two attribute lists (rewritten copy vs original) is finally returned is not decided")
	F := model.FindFields(c.P)
	fn := c.P.Func(load.ModPath, "(*Policy).sanitizeAttrs")
	if fn == nil || len(fn.Params) != 4 {
		R.Unknown("C11.R1", "sanitizeAttrs", "(*Policy).sanitizeAttrs", "", "not found")
		return
	}
	memo := map[*ssa.Function]bool{}
	// R2 on the unspecialised function
	{
		A := model.NewAnalysis(fn)
		translateAll(A)
		n := 0
		seen := map[string]int{}
		for _, at := range A.Atoms {
			tok, _, tw := presenceTest(c, at, memo)
			if tok == "" {
				continue
			}
			n++
			seen[tok]++
			cl := at.Resolve(at.X).(*ssa.Call)
			key := fmt.Sprintf("presence:%s#%d", tok, seen[tok])
			R.Check(tw, "C11.R2", key, "(*Policy).sanitizeAttrs: test of a rel value for \""+tok+"\" via "+pa.CalleeName(cl.Common().StaticCallee()), c.P.Pos(cl.Pos()),
				"token-wise helper", "presence of the token is decided by a substring test: a rel value that merely contains the word (e.g. rel=\"x"+tok+"x\") is treated as already carrying the token, and the required token is not added")
		}
		R.Role("C11.R2", "presence tests for rel tokens", n, 3)
	}
	// warm the helper memo sequentially, then analyse the specialisations in parallel
	{
		A := model.NewAnalysis(fn)
		translateAll(A)
		for _, at := range A.Atoms {
			presenceTest(c, at, memo)
		}
	}
	var wg sync.WaitGroup
	for _, elem := range []string{"a", "area", "link"} {
		for _, tok := range relTokens {
			wg.Add(1)
			go func(elem, tok string) {
				defer wg.Done()
				defer func() {
					if e := recover(); e != nil {
						R.Unknown("C11.R3", elem+":"+tok+":panic", "checker panic", "", fmt.Sprint(e))
					}
				}()
				c11Elem(c, F, fn, elem, tok, memo)
			}(elem, tok)
		}
	}
	wg.Wait()
}

func c11Elem(c *Ctx, F *model.Fields, fn *ssa.Function, elem string, tok string, memo map[*ssa.Function]bool) {
	R := c.R
	recv := fn.Params[0]
	{
		A := model.NewAnalysis(fn)
		A.BindConst(fn.Params[1], elem)
		translateAll(A)
		fl := func(role string) *pa.F { return A.Lit(recv.Name() + "." + F.Get(role)) }
		// href loop: the smallest range loop containing a url.Parse call whose result's .Host is read
		var hrefLoop *model.RangeLoop
		var hostLoads = map[ssa.Value]bool{}
		for _, l := range model.SliceRangeLoops(fn) {
			for _, b := range sortedBlocks(l.Blocks) {
				for _, in := range b.Instrs {
					u, ok := in.(*ssa.UnOp)
					if !ok {
						continue
					}
					if x := fieldLoadOf(u, "Host"); x != nil {
						if t := extractOf(x, 0); t != nil && isCallTo(t, "url.Parse") != nil {
							hostLoads[u] = true
							if hrefLoop == nil || len(l.Blocks) <= len(hrefLoop.Blocks) {
								hrefLoop = l
							}
						}
					}
				}
			}
		}
		key := elem + ":" + tok
		if hrefLoop == nil {
			R.Unknown("C11.R1", key, "(*Policy).sanitizeAttrs[elementName="+elem+"]: href discovery loop", "", "loop reading url.Parse(...).Host not found (anchor lost)")
			return
		}
		var mentionsHostD func(v ssa.Value, d int) bool
		mentionsHostD = func(v ssa.Value, d int) bool {
			if bo, ok := v.(*ssa.BinOp); ok {
				return hostLoads[bo.X] || hostLoads[bo.Y]
			}
			// the result variable of an inlined `isExternal(href) bool`: false, or a test of the host
			if ph, ok := v.(*ssa.Phi); ok && d < 3 {
				n := 0
				for _, e := range ph.Edges {
					if model.IsFalse(e) {
						continue
					}
					if !mentionsHostD(e, d+1) {
						return false
					}
					n++
				}
				return n > 0
			}
			return false
		}
		mentionsHost := func(v ssa.Value) bool { return mentionsHostD(v, 0) }
		hostGuarded := func(pred *ssa.BasicBlock) bool {
			pb := pred
			for pb != nil && len(pb.Preds) == 1 {
				if ifi, ok := pb.Preds[0].Instrs[len(pb.Preds[0].Instrs)-1].(*ssa.If); ok {
					return mentionsHost(ifi.Cond)
				}
				pb = pb.Preds[0]
			}
			return false
		}
		var hrefFound, external *ssa.Phi
		for _, in := range hrefLoop.Header.Instrs {
			ph, ok := in.(*ssa.Phi)
			if !ok {
				break
			}
			if ph.Type().String() != "bool" {
				continue
			}
			isExt := false
			for _, st := range model.JointSites(ph, ph) {
				if !hrefLoop.Blocks[st.Pred] || st.V1 == ssa.Value(ph) {
					continue
				}
				if mentionsHost(st.V1) || (model.IsTrue(st.V1) && hostGuarded(st.Pred)) {
					isExt = true
				}
			}
			// hrefFound also becomes true on host-guarded edges; external is the one ALL of whose changes relate to the host
			if isExt {
				all := true
				for _, st := range model.JointSites(ph, ph) {
					if !hrefLoop.Blocks[st.Pred] || st.V1 == ssa.Value(ph) {
						continue
					}
					if !(mentionsHost(st.V1) || hostGuarded(st.Pred)) {
						all = false
					}
				}
				isExt = all
			}
			if isExt {
				external = ph
			} else {
				hrefFound = ph
			}
		}
		if hrefFound == nil || external == nil {
			R.Unknown("C11.R4", key, "(*Policy).sanitizeAttrs[elementName="+elem+"]: hrefFound / externalLink flags", c.P.Pos(lastPos(hrefLoop.Header)), "flags of the href loop not recognised")
			return
		}
		if tok == "nofollow" {
			// R4: sticky external flag
			okS := true
			why := ""
			for _, st := range model.JointSites(external, external) {
				if !hrefLoop.Blocks[st.Pred] {
					if !model.IsFalse(st.V1) {
						okS, why = false, "not initialised to false"
					}
					continue
				}
				if st.V1 == ssa.Value(external) {
					continue
				}
				if !model.IsTrue(st.V1) {
					okS, why = false, "assigned "+A.Sym.Of(st.V1)+" inside the loop: a later href can clear the flag set by an earlier host-qualified one"
				}
			}
			R.Check(okS, "C11.R4", elem+":external-sticky", "(*Policy).sanitizeAttrs[elementName="+elem+"]: externalLink flag", c.P.Pos(lastPos(hrefLoop.Header)), "only ever set to true inside the href loop", "the external-link flag is "+why)
			// R5: every href is noticed — an iteration of the scan whose attribute key is href leaves the href-found
			// flag set, whatever else it finds out about the value (a value that fails to parse is still a link)
			{
				var keyAtoms []int
				for ai, at := range A.Atoms {
					if at.Kind != "eq" {
						continue
					}
					if k, ok := constString(at.Y); !ok || k != "href" {
						continue
					}
					if in, ok := at.X.(ssa.Instruction); ok && hrefLoop.Blocks[in.Block()] {
						keyAtoms = append(keyAtoms, ai)
					}
				}
				R.Role("C11.R5", "tests of the attribute key against href in the href scan ("+elem+")", len(keyAtoms), 1)
				track := append([]int{}, keyAtoms...)
				m := map[int]bool{}
				A.Cond(hrefFound).Atoms(m)
				for _, e := range hrefFound.Edges {
					A.Cond(e).Atoms(m)
				}
				for k := range m {
					track = append(track, k)
				}
				if q5, err := A.NewQuery(track); err != nil {
					R.Unknown("C11.R5", elem+":href-noticed", "(*Policy).sanitizeAttrs[elementName="+elem+"]: href scan", c.P.Pos(lastPos(hrefLoop.Header)), err.Error())
				} else if len(keyAtoms) > 0 {
					q5.Barrier[hrefLoop.Header] = true
					q5.Run(hrefLoop.Body, nil)
					n5 := 0
					for i, pred := range hrefLoop.Header.Preds {
						if !hrefLoop.Blocks[pred] {
							continue
						}
						for k, sc := range pred.Succs {
							if sc != hrefLoop.Header {
								continue
							}
							es := q5.EdgeState(pred, k)
							if es == nil || pa.Empty(es) {
								continue
							}
							n5++
							ok5, cex := q5.Holds(es, pa.Implies(orAtoms(keyAtoms), A.Cond(hrefFound.Edges[i])))
							R.Check(ok5, "C11.R5", fmt.Sprintf("%s:href-noticed:%s", elem, blockRoleA(A, pred)), "(*Policy).sanitizeAttrs[elementName="+elem+"]: end of an iteration of the href scan", c.P.Pos(lastPos(pred)), "href-found flag set whenever the key is href", "an attribute whose key is href can pass the scan without the href-found flag being set (the link is then not hardened at all): ["+cex+"]")
						}
					}
					R.Role("C11.R5", "iteration ends of the href scan ("+elem+")", n5, 1)
				}
			}
		}
		// predicates
		var req, reqFQ *pa.F
		switch tok {
		case "nofollow":
			req, reqFQ = fl("requireNoFollow"), fl("requireNoFollowFQ")
		case "noreferrer":
			req, reqFQ = fl("requireNoReferrer"), fl("requireNoReferrerFQ")
		}
		ext := A.Cond(external)
		hf := A.Cond(hrefFound)
		// events
		evT := A.EventVar("rel-carries-" + tok)
		evPend := A.EventVar("modified-copy-not-yet-appended")
		evGlue := A.EventVar("token-glued")
		evClean := A.EventVar("value-ends-clean")
		evTB := A.EventVar("target-blank-present")
		evHF := A.EventVar("href-found")
		evExt := A.EventVar("href-has-host")
		evScan := A.EventVar("attributes-scanned-for-target")
		track := []int{evT, evPend, evGlue, evClean, evTB, evHF, evExt, evScan}
		if tok == "noopener" {
			track = append(track, fl("addTargetBlankFQ").Atom)
		} else {
			for _, role := range []string{"requireNoFollow", "requireNoFollowFQ", "requireNoReferrer", "requireNoReferrerFQ"} {
				track = append(track, fl(role).Atom)
			}
		}
		// the loop(s) holding the presence test for this token
		tokLoops := map[*ssa.BasicBlock]bool{}
		for _, at := range A.Atoms {
			if t, _, _ := presenceTest(c, at, memo); t == tok {
				if in, ok := at.Resolve(at.X).(ssa.Instruction); ok {
					for _, l := range model.SliceRangeLoops(fn) {
						if l.Blocks[in.Block()] {
							for b := range l.Blocks {
								tokLoops[b] = true
							}
						}
					}
				}
			}
		}
		for i, at := range A.Atoms {
			if at.Kind == "eq" {
				k, ok := constString(at.Y)
				if !ok {
					continue
				}
				in, isIn := at.X.(ssa.Instruction)
				switch {
				case k == "target" && tok == "noopener":
					track = append(track, i)
				case k == "rel" && isIn && (tokLoops[in.Block()] || tok == "noopener"):
					track = append(track, i)
				}
			}
		}
		for _, f := range []*pa.F{ext, hf} {
			m := map[int]bool{}
			f.Atoms(m)
			for k := range m {
				track = append(track, k)
			}
		}
		if req != nil {
			track = append(track, req.Atom, reqFQ.Atom)
		}
		var presTrue []int
		for i, at := range A.Atoms {
			t, _, tw := presenceTest(c, at, memo)
			if t == tok {
				track = append(track, i)
				if tw {
					presTrue = append(presTrue, i)
				}
			}
			// target == "_blank" tests
			if at.Kind == "eq" && tok == "noopener" {
				if k, ok := constString(at.Y); ok && k == "_blank" {
					track = append(track, i)
				}
			}
		}
		region := hrefLoop.Header.Idom()
		A.PhiFilter = func(ph *ssa.Phi) bool { return region != nil && region.Dominates(ph.Block()) }
		q, err := A.NewQuery(track)
		if err != nil {
			R.Unknown("C11.R3", key, "(*Policy).sanitizeAttrs[elementName="+elem+"]", "", err.Error())
			return
		}
		// hooks
		attrAllocs := map[*ssa.Alloc]bool{}
		for _, b := range fn.Blocks {
			for _, in := range b.Instrs {
				if al, ok := in.(*ssa.Alloc); ok {
					if pt, ok := al.Type().Underlying().(interface {
						Elem() interface{ String() string }
					}); ok {
						_ = pt
					}
					if strings.HasSuffix(al.Type().String(), "html.Attribute") && !strings.Contains(al.Type().String(), "[") {
						attrAllocs[al] = true
					}
				}
			}
		}
		// edges on which a constant-built accumulator takes a constant that carries the token (see "accumulated" below)
		type cfgEdge struct{ from, to *ssa.BasicBlock }
		accEdges := map[cfgEdge]bool{}
		for al := range attrAllocs {
			al := al
			// allocation: zero value "" is clean
			q.Hooks[al] = func(a uint32) []uint32 { return []uint32{q.With(a, evClean, true)} }
			for _, st := range model.WholeStoresTo(al) {
				q.Hooks[st] = func(a uint32) []uint32 { return []uint32{q.With(a, evClean, false)} }
			}
			for _, st := range model.FieldStoresTo(al, "Val") {
				st := st
				oldIs := func(v ssa.Value) bool {
					u, ok := v.(*ssa.UnOp)
					if !ok {
						return false
					}
					fa, ok := u.X.(*ssa.FieldAddr)
					return ok && fa.X == ssa.Value(al) && pa.FieldName(fa) == "Val"
				}
				kind := tokenAdded(st.Val, tok, oldIs)
				if apps, ok := joinedList(st.Val); ok {
					// a value assembled as strings.Join(tokens, " "): the token joins at the append that puts it in
					// the list; the value is complete (and still to be appended) at this store
					kind = "joined"
					for ac, k := range apps {
						has := false
						for _, f := range strings.Fields(k) {
							if f == tok {
								has = true
							}
						}
						if has {
							q.Hooks[ac] = func(a uint32) []uint32 {
								return []uint32{q.With(q.With(a, evT, true), evPend, true)}
							}
						}
					}
				}
				if _, isC := st.Val.(*ssa.Const); kind == "" && !isC && constBuilt(st.Val) {
					// a value assembled from constants in a local accumulator (`rel := ""; if a { rel = add(rel, "nofollow") }`,
					// the helper inlined): the token joins where a concatenation or a merge brings in a constant carrying it
					kind = "accumulated"
					hasTok := func(k string) bool {
						for _, f := range strings.Fields(k) {
							if f == tok {
								return true
							}
						}
						return false
					}
					endsSpaceV := func(v ssa.Value) bool {
						if bo, ok := v.(*ssa.BinOp); ok && bo.Op == token.ADD {
							if k, ok := constString(bo.Y); ok && k != "" && strings.TrimRight(k, " \t\n") != k {
								return true
							}
						}
						if k, ok := constString(v); ok && (k == "" || strings.TrimRight(k, " \t\n") != k) {
							return true
						}
						return false
					}
					seenN := map[ssa.Value]bool{}
					var walk func(v ssa.Value)
					walk = func(v ssa.Value) {
						if seenN[v] {
							return
						}
						seenN[v] = true
						switch x := v.(type) {
						case *ssa.Phi:
							for i, e := range x.Edges {
								if k, ok := constString(e); ok {
									if hasTok(k) {
										accEdges[cfgEdge{x.Block().Preds[i], x.Block()}] = true
									}
									continue
								}
								walk(e)
							}
						case *ssa.BinOp:
							walk(x.X)
							walk(x.Y)
							if k, ok := constString(x.Y); ok && hasTok(k) {
								glued := !(strings.TrimLeft(k, " \t\n") != k || endsSpaceV(x.X))
								q.Hooks[x] = func(a uint32) []uint32 {
									a = q.With(a, evT, true)
									if glued {
										a = q.With(a, evGlue, true)
									}
									return []uint32{a}
								}
							}
						}
					}
					walk(st.Val)
				}
				isBlank := false
				if k, ok := constString(st.Val); ok && k == "_blank" {
					isBlank = true
				}
				endsSpace := false
				if bo, ok := st.Val.(*ssa.BinOp); ok && bo.Op == token.ADD {
					if k, ok := constString(bo.Y); ok && strings.HasSuffix(k, " ") {
						endsSpace = true
					}
				}
				if k, ok := constString(st.Val); ok && (k == "" || strings.HasSuffix(k, " ")) {
					endsSpace = true
				}
				q.Hooks[st] = func(a uint32) []uint32 {
					switch kind {
					case "extend", "fresh":
						a = q.With(a, evT, true)
						a = q.With(a, evPend, true)
					case "joined", "accumulated":
						a = q.With(a, evPend, true)
					case "glue":
						if !q.Bit(a, evClean) {
							a = q.With(a, evGlue, true)
						}
						a = q.With(a, evT, true)
						a = q.With(a, evPend, true)
					}
					if isBlank {
						a = q.With(a, evTB, true)
					}
					a = q.With(a, evClean, endsSpace)
					return []uint32{a}
				}
			}
		}
		// appends clear the pending flag
		for _, b := range fn.Blocks {
			for _, in := range b.Instrs {
				if cl, ok := in.(*ssa.Call); ok {
					if ac, _ := model.IsAppend(cl); ac != nil {
						if v := model.AppendedValue(cl); v != nil && model.LoadOfAlloc(v) != nil && attrAllocs[model.LoadOfAlloc(v)] {
							q.Hooks[in] = func(a uint32) []uint32 { return []uint32{q.With(a, evPend, false)} }
						}
					}
				}
			}
		}
		presF := orAtoms(presTrue)
		q.EdgeHook = func(b *ssa.BasicBlock, k int) func(uint32) []uint32 {
			cond := A.EdgeCond(b, k)
			var setT, setTB bool
			if len(presTrue) > 0 {
				if okI, _ := q.Holds(q.Filter(q.InitWith(nil), cond), presF); okI {
					setT = true
				}
			}
			// an existing target="_blank"
			if cond.Op == 'a' {
				at := A.Atoms[cond.Atom]
				if at.Kind == "eq" {
					if kk, ok := constString(at.Y); ok && kk == "_blank" {
						setTB = true
					}
				}
			}
			// the `if hrefFound` true edge: remember that an href exists and whether it has a host
			setHF := cond.Op == 'a' && cond.Atom == hf.Atom && hf.Op == 'a'
			// the edge on which a Val is known to be empty: the value ends clean
			setClean := false
			if cond.Op == 'a' {
				at := A.Atoms[cond.Atom]
				if at.Kind == "eq" {
					if kk, ok := constString(at.Y); ok && kk == "" {
						if u, ok := at.X.(*ssa.UnOp); ok {
							if fa, ok := u.X.(*ssa.FieldAddr); ok && pa.FieldName(fa) == "Val" {
								setClean = true
							}
						}
					}
				}
			}
			if !setT && !setTB && !setHF && !setClean {
				return nil
			}
			return func(a uint32) []uint32 {
				if setT {
					a = q.With(a, evT, true)
				}
				if setTB {
					a = q.With(a, evTB, true)
				}
				if setClean {
					a = q.With(a, evClean, true)
				}
				if setHF {
					a = q.With(a, evHF, true)
					if ext.Op == 'a' && q.Pos(ext.Atom) >= 0 {
						a = q.With(a, evExt, q.Bit(a, ext.Atom))
					}
				}
				return []uint32{a}
			}
		}
		// traversals that look at each attribute's key for "target": entering one means an existing target="_blank"
		// cannot go unnoticed
		targetLoop := map[*ssa.BasicBlock]*model.RangeLoop{}
		for _, l := range model.SliceRangeLoops(fn) {
			for b := range l.Blocks {
				if ifi, ok := b.Instrs[len(b.Instrs)-1].(*ssa.If); ok {
					m := map[int]bool{}
					A.Cond(ifi.Cond).Atoms(m)
					for ai := range m {
						at := A.Atoms[ai]
						if at.Kind == "eq" {
							if kk, ok := constString(at.Y); ok && kk == "target" {
								targetLoop[l.Header] = l
							}
						}
					}
				}
			}
		}
		inner := q.EdgeHook
		q.EdgeHook = func(b *ssa.BasicBlock, k int) func(uint32) []uint32 {
			f := inner(b, k)
			// starting the traversal is what counts (an empty list holds no target attribute)
			if l := targetLoop[b.Succs[k]]; l != nil && !l.Blocks[b] {
				return func(a uint32) []uint32 {
					a = q.With(a, evScan, true)
					if f != nil {
						return f(a)
					}
					return []uint32{a}
				}
			}
			return f
		}
		if len(accEdges) > 0 {
			inner2 := q.EdgeHook
			q.EdgeHook = func(b *ssa.BasicBlock, k int) func(uint32) []uint32 {
				f := inner2(b, k)
				if !accEdges[cfgEdge{b, b.Succs[k]}] {
					return f
				}
				return func(a uint32) []uint32 {
					a = q.With(a, evT, true)
					if f != nil {
						return f(a)
					}
					return []uint32{a}
				}
			}
		}
		for _, b := range fn.Blocks {
			if !region.Dominates(b) {
				q.Barrier[b] = true
			}
		}
		q.Run(region, q.InitWith(map[int]bool{evT: false, evPend: false, evGlue: false, evClean: false, evTB: false, evHF: false, evExt: false, evScan: false}))

		// R1: the hardening block is reachable from the function entry for this element
		if tok == "nofollow" {
			reach := map[*ssa.BasicBlock]bool{}
			stack := []*ssa.BasicBlock{fn.Blocks[0]}
			for len(stack) > 0 {
				b := stack[len(stack)-1]
				stack = stack[:len(stack)-1]
				if reach[b] {
					continue
				}
				reach[b] = true
				for k, sc := range b.Succs {
					if A.EdgeCond(b, k) == pa.False {
						continue
					}
					stack = append(stack, sc)
				}
			}
			R.Check(reach[hrefLoop.Header], "C11.R1", elem, "(*Policy).sanitizeAttrs[elementName="+elem+"]: href discovery", c.P.Pos(lastPos(hrefLoop.Header)), "reached for this element", "the link-hardening code is not reached for <"+elem+">")
			// … and it is entered whenever any of the five link options is on: every return that lies behind the gate and
			// was reached without entering the block has all five options off (a gate that names one option twice and
			// another not at all skips the block for policies that switched on only the forgotten one)
			func() {
				var opts []*pa.F
				var tr []int
				for _, role := range []string{"requireNoFollow", "requireNoFollowFQ", "requireNoReferrer", "requireNoReferrerFQ", "addTargetBlankFQ"} {
					f := fl(role)
					if f == nil || f.Op != 'a' {
						R.Unknown("C11.R1", elem+":gate", "(*Policy).sanitizeAttrs[elementName="+elem+"]: gate of the hardening block", "", "option "+role+" not resolvable")
						return
					}
					opts = append(opts, f)
					tr = append(tr, f.Atom)
				}
				evIn := A.EventVar("hardening-block-entered")
				tr = append(tr, evIn)
				// "nothing survived" tests on the way to the block (an empty list has no link to harden)
				var empties []*pa.F
				for d := hrefLoop.Header.Idom(); d != nil; d = d.Idom() {
					if iff, ok := d.Instrs[len(d.Instrs)-1].(*ssa.If); ok {
						m := map[int]bool{}
						A.Cond(iff.Cond).Atoms(m)
						for a := range m {
							isAttrs := false
							if x := A.Atoms[a].X; x != nil {
								if sl, ok := x.Type().Underlying().(*types.Slice); ok && strings.HasSuffix(sl.Elem().String(), "html.Attribute") {
									isAttrs = true
								}
							}
							if A.Atoms[a].Kind == "len0" && isAttrs && len(tr) < 12 {
								dup := false
								for _, t := range tr {
									if t == a {
										dup = true
									}
								}
								if !dup {
									tr = append(tr, a)
									empties = append(empties, pa.AtomF(a))
								}
							}
						}
					}
				}
				savedFilter := A.PhiFilter
				A.PhiFilter = func(*ssa.Phi) bool { return false }
				qg, err := A.NewQuery(tr)
				A.PhiFilter = savedFilter
				if err != nil {
					R.Unknown("C11.R1", elem+":gate", "(*Policy).sanitizeAttrs[elementName="+elem+"]: gate of the hardening block", "", err.Error())
					return
				}
				qg.EdgeHook = func(b *ssa.BasicBlock, k int) func(uint32) []uint32 {
					if b.Succs[k] == hrefLoop.Header || b.Succs[k] == region && region != nil && region.Dominates(hrefLoop.Header) && b != region {
						return func(a uint32) []uint32 { return []uint32{qg.With(a, evIn, true)} }
					}
					return nil
				}
				qg.Run(fn.Blocks[0], qg.InitWith(map[int]bool{evIn: false}))
				// the gate: the nearest dominator of the block's entry that branches
				gate := hrefLoop.Header.Idom()
				for gate != nil && len(gate.Succs) < 2 {
					gate = gate.Idom()
				}
				// the whole option test (a chain of short-circuit tests) starts at the first dominator that tests an option
				for d := gate; d != nil; d = d.Idom() {
					if iff, ok := d.Instrs[len(d.Instrs)-1].(*ssa.If); ok {
						m := map[int]bool{}
						A.Cond(iff.Cond).Atoms(m)
						for _, o := range opts {
							if m[o.Atom] {
								gate = d
							}
						}
					}
				}
				if gate == nil {
					R.Unknown("C11.R1", elem+":gate", "(*Policy).sanitizeAttrs[elementName="+elem+"]: gate of the hardening block", "", "gate not found")
					return
				}
				behind := map[*ssa.BasicBlock]bool{}
				st := []*ssa.BasicBlock{gate}
				for len(st) > 0 {
					b := st[len(st)-1]
					st = st[:len(st)-1]
					if behind[b] {
						continue
					}
					behind[b] = true
					st = append(st, b.Succs...)
				}
				var notAny []*pa.F
				for _, o := range opts {
					notAny = append(notAny, pa.Not(o))
				}
				goal := pa.Or(append([]*pa.F{pa.AtomF(evIn), pa.And(notAny...)}, empties...)...)
				okG, cexG := true, ""
				nr := 0
				for _, b := range fn.Blocks {
					r, isR := b.Instrs[len(b.Instrs)-1].(*ssa.Return)
					if !isR || !behind[b] {
						continue
					}
					nr++
					stt := qg.StateAt(r)
					if stt == nil {
						continue
					}
					if ok1, cex := qg.Holds(stt, goal); !ok1 {
						okG, cexG = false, cex
					}
				}
				R.Check(okG && nr > 0, "C11.R1", elem+":gate", "(*Policy).sanitizeAttrs[elementName="+elem+"]: gate of the hardening block", c.P.Pos(lastPos(gate)), "skipped only when all five link options are off (or no attribute survived)", "the hardening block can be skipped although a link option is on: ["+cexG+"]")
			}()
		}
		// R3 at the edges leaving the hardening region
		n := 0
		for _, b := range fn.Blocks {
			if !region.Dominates(b) {
				continue
			}
			for k, succ := range b.Succs {
				if region.Dominates(succ) {
					continue
				}
				st := q.EdgeState(b, k)
				if st == nil || pa.Empty(st) {
					continue
				}
				n++
				var need *pa.F
				if tok == "noopener" {
					if elem != "a" {
						continue
					}
					need = pa.AtomF(evTB)
				} else {
					need = pa.And(pa.AtomF(evHF), pa.Or(req, pa.And(pa.AtomF(evExt), reqFQ)))
				}
				rk := fmt.Sprintf("%s:exit:%s", key, blockRoleA(A, b))
				pos := c.P.Pos(lastPos(b))
				cons := fmt.Sprintf("(*Policy).sanitizeAttrs[elementName=%s]: leaving the link-hardening block (%s) — rel must carry %q", elem, blockRoleA(A, b), tok)
				ok1, cex := q.Holds(st, pa.Implies(need, pa.AtomF(evT)))
				R.Check(ok1, "C11.R3", rk, cons, pos, "token produced whenever required", "the hardening block can be left with "+tok+" required but no rel value known to carry it as a token: ["+cex+"]")
				if tok == "noopener" && elem == "a" {
					ok3, cex3 := q.Holds(st, pa.Implies(pa.AtomF(evHF), pa.AtomF(evScan)))
					R.Check(ok3, "C11.R3", rk+":scanned", cons, pos, "the attributes were examined for an existing target", "an <a> with an href can leave the hardening block without its attributes having been examined for target=\"_blank\": an existing target=\"_blank\" then stays without rel=noopener: ["+cex3+"]")
				}
				ok2, cex2 := q.Holds(st, pa.And(pa.Not(pa.AtomF(evPend)), pa.Not(pa.AtomF(evGlue))))
				R.Check(ok2, "C11.R3", rk+":appended", cons, pos, "every modified copy was appended; no glued token", "a rel value was extended but the modified copy may never be appended (or a token was glued to the previous one): ["+cex2+"]")
			}
		}
		R.Role("C11.R3", "returns reached for "+key, n, 1)
	}
}

func blockRoleA(A *pa.Analysis, b *ssa.BasicBlock) string {
	if ifi, ok := b.Instrs[len(b.Instrs)-1].(*ssa.If); ok {
		s := A.Str(A.Cond(ifi.Cond))
		if len(s) > 70 {
			s = s[:70]
		}
		return "if-" + s
	}
	return b.Comment
}

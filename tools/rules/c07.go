package rules

import (
	"fmt"
	"go/types"
	"sort"
	"strings"

	"golang.org/x/tools/go/ssa"

	"verif/tools/load"
	"verif/tools/model"
	"verif/tools/pa"
)

func init() { register("C07", "other", runC07) }

// ruleSource: the value a loop ranges over comes from a policy rule table (field of Policy, a
// lookup in one, the rules parameter of sanitizeAttrs, or a map merged from them).
func ruleSource(A *pa.Analysis, F *model.Fields, v ssa.Value) (string, bool) {
	s := A.Sym.Of(v)
	// the Policy field the value is read from (directly, or through a lookup in it)
	var fieldOf func(x ssa.Value, d int) string
	fieldOf = func(x ssa.Value, d int) string {
		if d > 4 {
			return ""
		}
		if f := model.LoadedPolicyField(x); f != "" {
			return f
		}
		switch y := x.(type) {
		case *ssa.Lookup:
			return fieldOf(y.X, d+1)
		case *ssa.Extract:
			return fieldOf(y.Tuple, d+1)
		}
		return ""
	}
	fld := fieldOf(v, 0)
	for _, role := range []string{"elsAndAttrs", "elsMatchingAndAttrs", "globalAttrs", "elsAndStyles", "elsMatchingAndStyles", "globalStyles", "allowURLSchemes", "allowURLSchemeRegexps", "bareRegexps"} {
		f := F.Get(role)
		if f == "" {
			continue
		}
		if fld != "" {
			if fld == f {
				return role, true
			}
			continue
		}
		// fall back on the symbolic rendering (whole field name, not a prefix of a longer one)
		if i := strings.Index(s, "."+f); i >= 0 {
			rest := s[i+1+len(f):]
			if rest == "" || !(rest[0] == '_' || rest[0] >= 'a' && rest[0] <= 'z' || rest[0] >= 'A' && rest[0] <= 'Z' || rest[0] >= '0' && rest[0] <= '9') {
				return role, true
			}
		}
	}
	if strings.Contains(s, "lookup(aps,") || strings.Contains(s, "lookup(phi(sps)") {
		return "element rules", true
	}
	// structurally (whatever the variables are called): a lookup in the per-element rule map — a map parameter of the
	// function, or a local map of rules that is not itself a Policy field (a φ / make / lookup result)
	base := v
	if ex, ok := base.(*ssa.Extract); ok {
		base = ex.Tuple
	}
	if lk, ok := base.(*ssa.Lookup); ok && model.LoadedPolicyField(lk.X) == "" {
		if mt, ok := lk.X.Type().Underlying().(*types.Map); ok {
			el := mt.Elem().String()
			if strings.HasSuffix(el, "attrPolicy") || strings.HasSuffix(el, "stylePolicy") {
				switch lk.X.(type) {
				case *ssa.Parameter, *ssa.Phi, *ssa.MakeMap, *ssa.Lookup, *ssa.Extract:
					return "element rules", true
				}
			}
		}
	}
	return "", false
}

func runC07(c *Ctx) {
	R := c.R
	R.Rule("C07.R1", "any-match loops never reject early: in every loop that iterates over registered rules (attribute rules, style rules, scheme regexps, custom URL policies, element patterns, bare-element patterns) each edge that leaves the loop before exhaustion comes after an accept effect of that iteration (an append, an accepting return, or a flag set to true); a rule that does not match only moves on to the next rule")
	R.Rule("C07.R2", "fall-through between rule scopes: when the element-scope rules for an attribute (resp. style property) are exhausted or absent, control reaches the global-scope lookup for the same key")
	R.Rule("C07.R3", "kept tokens are written verbatim: the only field of the token ever modified before Token.String() is Attr, which receives sanitizeAttrs' result; sanitizeAttrs and sanitizeStyles only append in iteration order (no sorting/reordering calls)")
	R.Rule("C07.R4", "rule-source completeness: the rules applied to an element incorporate every table that can hold a rule for it — the explicit entry and all matching element patterns — for attributes (sanitize → sanitizeAttrs) and for styles (sanitizeStyles)")
	R.Rule("C07.R6", "matchers and stored rules agree in letter case: style values are lower-cased before matching, so MatchingEnum entries are compared case-insensitively (or lower-cased on registration) — otherwise a conforming value listed with an upper-case letter is dropped")
	R.Rule("C07.R5", "rule tables are append-only (decided by C17.R2, referenced)")
	R.Assume(TrustGo, "byte-for-byte identity of the serialisation (attribute quoting, entity forms) is x/net/html's Token.String against 'canonical serialisation' and is NOT decided")
	F := model.FindFields(c.P)
	R.Rule("C07.R7", "URLs the policy allows are not rejected: with URL checking on, validURL returns false only for a tabled reason — white space outside a data: URL, a parse error, a non-empty scheme not admitted by the scheme table / patterns / custom checks, or a scheme-less URL while relative URLs are off or the re-serialised URL is empty")
	c03ValidURL(c, F, "C07.R7")
	R.Rule("C07.R13", "every documented data-* name passes (= the language of C02.R6, the other inclusion): the key language isDataAttribute accepts contains data-<non-empty, no upper case, no ';', not starting with xml> — decided exactly on the function's regexps and segmentation")
	{
		sub := &Ctx{P: c.P, R: newScratchReport(), Tier: c.Tier, VerifDir: c.VerifDir}
		c02DataAttr(sub, "C07.R13")
		n13 := 0
		for _, o := range sub.R.Obls {
			if o.Rule != "C07.R13" && o.Status == "discharged" {
				continue
			}
			n13++
			k := strings.TrimPrefix(strings.TrimPrefix(o.Key, "C07.R13|"), "C02.R6|")
			switch o.Status {
			case "discharged":
				R.OK("C07.R13", k, o.Construct, o.Pos, o.Reason)
			case "undecided":
				R.Unknown("C07.R13", k, o.Construct, o.Pos, o.Reason)
			default:
				if o.Rule == "C07.R13" {
					R.Fail("C07.R13", k, o.Construct, o.Pos, o.Reason)
				}
			}
		}
		R.Role("C07.R13", "language comparison of isDataAttribute", n13, 1)
	}
	R.Rule("C07.R12", "attribute values are rewritten only where the policy says so (= C20.R2, cited): apart from the appended rel tokens every store to an attribute's Val in sanitizeAttrs is a constant, a projection of the old value, or the result of validURL / the src rewriter — a value re-assembled by the sanitiser (split and re-joined, re-cased, re-quoted) no longer passes unchanged")
	{
		sub := &Ctx{P: c.P, R: newScratchReport(), Tier: c.Tier, VerifDir: c.VerifDir}
		runC20(sub)
		n12 := 0
		for _, o := range sub.R.Obls {
			if o.Rule != "C20.R2" {
				continue
			}
			n12++
			k := strings.TrimPrefix(o.Key, "C20.R2|")
			switch o.Status {
			case "discharged":
				R.OK("C07.R12", "C20.R2:"+k, o.Construct, o.Pos, o.Reason)
			case "undecided":
				R.Unknown("C07.R12", "C20.R2:"+k, o.Construct, o.Pos, o.Reason)
			default:
				R.Fail("C07.R12", "C20.R2:"+k, o.Construct, o.Pos, o.Reason)
			}
		}
		R.Role("C07.R12", "rewrites of attribute values judged by C20.R2", n12, 3)
	}
	R.Rule("C07.R11", "a result handed out stays as returned (= C13.R1, cited): no sanitising path writes to memory that outlives the call, so the bytes of a conforming document that was returned are not overwritten by a later call")
	c13SharedWrites(c, "C07.R11", "the bytes of a result already returned can be overwritten by a later call: the conforming document the caller holds is no longer what was returned", true)
	R.Rule("C07.R10", "the default handler is the last resort: css.GetDefaultHandler(property) is stored into a style rule only on paths where the builder's handler is nil, its enum empty and its regexp nil — next to a user-supplied matcher it would take precedence in sanitizeStyles")
	defaultHandlerLastResort(c, "C07.R10")
	R.Rule("C07.R9", "names are looked up as delivered: in the tag arms of sanitize every policy-table lookup keyed by a name and every name argument of the module's own functions is token.Data itself (what the builders store is strings.ToLower(name), which is what the tokenizer delivers)")
	namesAsDelivered(c, "C07.R9")
	R.Rule("C07.R8", "one matcher per property: in the style builders a style rule value that is modified inside a loop is created in that loop, so the default handler chosen for one property is never carried over to the next")
	freshRulePerIteration(c, "C07.R8")
	nLoops := 0
	found := map[string]int{}
	for _, name := range []string{"(*Policy).sanitizeAttrs", "(*Policy).sanitizeStyles", "(*Policy).validURL", "(*Policy).matchRegex", "(*Policy).allowNoAttrs", "(*Policy).sanitize"} {
		fn := c.P.Func(load.ModPath, name)
		if fn == nil {
			R.Unknown("C07.R1", "fn:"+name, name, "", "function not found")
			continue
		}
		A := model.NewAnalysis(fn)
		translateAll(A)
		perRole := map[string]int{}
		for _, l := range model.RangeLoopsAll(fn) {
			role, ok := ruleSource(A, F, l.Over)
			if !ok {
				continue
			}
			nLoops++
			perRole[role]++
			found[name+"|"+role]++
			key := fmt.Sprintf("%s:loop:%s#%d", pa.CalleeName(fn), role, perRole[role])
			cons := fmt.Sprintf("%s: loop over %s (%s)", pa.CalleeName(fn), role, stripIDs(A.Sym.Of(l.Over)))
			pos := c.P.Pos(lastPos(l.Header))
			bad := ""
			for _, b := range sortedBlocks(l.Blocks) {
				if b == l.Header {
					continue
				}
				for _, s := range b.Succs {
					if l.Blocks[s] {
						continue
					}
					if why := earlyExitOK(l, b, s); why != "" {
						bad = why + " (exit at " + c.P.Pos(lastPos(b)) + ")"
					}
				}
			}
			R.Check(bad == "", "C07.R1", key, cons, pos, "every early exit follows an accept effect", "a non-matching rule can stop the scan: "+bad)
		}
	}
	R.Role("C07.R1", "rule loops", nLoops, 9)
	// the instances confirmed by reading today's tree are the reference: a rule scan that stops
	// being a loop (e.g. an unconditional break makes go/ssa drop the back edge) must not vanish silently
	for _, e := range []struct {
		fn, role string
		min      int
	}{
		{"(*Policy).sanitizeAttrs", "element rules", 1}, {"(*Policy).sanitizeAttrs", "globalAttrs", 1}, {"(*Policy).sanitizeAttrs", "elsMatchingAndStyles", 1},
		{"(*Policy).sanitizeStyles", "element rules", 1}, {"(*Policy).sanitizeStyles", "globalStyles", 1}, {"(*Policy).sanitizeStyles", "elsMatchingAndStyles", 1},
		{"(*Policy).validURL", "allowURLSchemeRegexps", 1}, {"(*Policy).validURL", "allowURLSchemes", 1},
		{"(*Policy).matchRegex", "elsMatchingAndAttrs", 1}, {"(*Policy).allowNoAttrs", "bareRegexps", 1}, {"(*Policy).sanitize", "elsMatchingAndAttrs", 1},
	} {
		R.Role("C07.R1", "loop over "+e.role+" in "+e.fn, found[e.fn+"|"+e.role], e.min)
	}
	c07FallThrough(c, F)
	c07Verbatim(c, F)
	c07Completeness(c, F)
	enumCaseRule(c, "C07.R6")
	R.OK("C07.R5", "ref", "rule tables are append-only", "", "decided by C17.R2")
}

// earlyExitOK: edge b -> s leaves loop l before exhaustion; returns "" if an accept effect precedes it.
func earlyExitOK(l *model.AnyLoop, b, s *ssa.BasicBlock) string {
	// the exit target performs the accept effect straight away: follow the unconditional chain
	prev, x := b, s
	for step := 0; step < 4; step++ {
		// flag set to true on the edge prev -> x
		for i, p := range x.Preds {
			if p != prev {
				continue
			}
			for _, in := range x.Instrs {
				ph, ok := in.(*ssa.Phi)
				if !ok {
					break
				}
				if model.IsTrue(ph.Edges[i]) {
					return ""
				}
			}
		}
		for _, in := range x.Instrs {
			if cl, ok := in.(*ssa.Call); ok {
				if ac, _ := model.IsAppend(cl); ac != nil {
					return ""
				}
			}
			if r, ok := in.(*ssa.Return); ok {
				for _, res := range r.Results {
					if model.IsTrue(res) {
						return ""
					}
				}
			}
		}
		if len(x.Succs) != 1 {
			break
		}
		prev, x = x, x.Succs[0]
	}
	// an append (or flag-setting block) on the way from the header to b inside this iteration
	seen := map[*ssa.BasicBlock]bool{}
	var back func(x *ssa.BasicBlock) bool
	back = func(x *ssa.BasicBlock) bool {
		if seen[x] || !l.Blocks[x] {
			return false
		}
		seen[x] = true
		for _, in := range x.Instrs {
			if cl, ok := in.(*ssa.Call); ok {
				if ac, _ := model.IsAppend(cl); ac != nil {
					return true
				}
			}
		}
		if x == l.Header {
			return false
		}
		// all predecessors inside the loop must have it (must-pass)
		any := false
		for _, p := range x.Preds {
			if !l.Blocks[p] {
				continue
			}
			any = true
			if !back(p) {
				return false
			}
		}
		return any
	}
	if back(b) {
		return ""
	}
	return "the loop is left without an accept effect in that iteration"
}

func c07FallThrough(c *Ctx, F *model.Fields) {
	R := c.R
	type scope struct {
		fn, globRole, elemType, what string
	}
	for _, sc := range []scope{
		{"(*Policy).sanitizeAttrs", "globalAttrs", "attrPolicy", "attribute"},
		{"(*Policy).sanitizeStyles", "globalStyles", "stylePolicy", "style property"},
	} {
		fn := c.P.Func(load.ModPath, sc.fn)
		if fn == nil {
			R.Unknown("C07.R2", sc.fn, sc.fn, "", "not found")
			continue
		}
		key := pa.CalleeName(fn)
		cons := key + ": element-scope rules exhausted or absent → global-scope lookup of the same " + sc.what
		A := model.NewAnalysis(fn)
		translateAll(A)
		glob := F.Get(sc.globRole)
		// lookups of rule lists: map[string][]<rule type>; global = map loaded from the receiver's global table
		type lk struct {
			in     *ssa.Lookup
			global bool
			key    string
		}
		var lks []lk
		for _, b := range fn.Blocks {
			for _, in := range b.Instrs {
				l, ok := in.(*ssa.Lookup)
				if !ok {
					continue
				}
				mt, ok := l.X.Type().Underlying().(*types.Map)
				if !ok {
					continue
				}
				sl, ok := mt.Elem().Underlying().(*types.Slice)
				if !ok {
					continue
				}
				if n, ok := sl.Elem().(*types.Named); !ok || n.Obj().Name() != sc.elemType {
					continue
				}
				// a lookup that only serves as the base of an append (merging rule tables) consults nothing
				onlyAppendBase := l.Referrers() != nil && len(*l.Referrers()) > 0
				if l.Referrers() != nil {
					for _, r := range *l.Referrers() {
						if ac, base := model.IsAppend(valueOf(r)); ac == nil || base != ssa.Value(l) {
							onlyAppendBase = false
						}
					}
				}
				if onlyAppendBase {
					continue
				}
				lks = append(lks, lk{l, glob != "" && model.LoadedPolicyField(l.X) == glob, A.Sym.Of(l.Index)})
			}
		}
		var elemKeys []string
		seenK := map[string]bool{}
		nG := 0
		for _, l := range lks {
			if l.global {
				nG++
			} else if !seenK[l.key] {
				seenK[l.key] = true
				elemKeys = append(elemKeys, l.key)
			}
		}
		if len(elemKeys) == 0 || nG == 0 {
			R.Unknown("C07.R2", key, cons, c.P.Pos(fn.Pos()), fmt.Sprintf("scope lookups not recognised (element-scope lookups: %d, global-scope lookups: %d)", len(elemKeys), nG))
			continue
		}
		sort.Strings(elemKeys)
		for _, k := range elemKeys {
			// the loop whose iterations decide one key: the outermost slice loop containing an element-scope lookup of k
			var loop *model.RangeLoop
			for _, l := range model.SliceRangeLoops(fn) {
				has := false
				for _, x := range lks {
					if !x.global && x.key == k && l.Blocks[x.in.Block()] {
						has = true
					}
				}
				if has && (loop == nil || l.Blocks[loop.Header]) {
					loop = l
				}
			}
			okey := key + ":" + stripIDs(k)
			if loop == nil {
				R.Unknown("C07.R2", okey, cons, c.P.Pos(fn.Pos()), "the element-scope lookup is not inside a loop over the items being filtered")
				continue
			}
			evE, evG, evApp := A.EventVar("element-scope-consulted"), A.EventVar("global-scope-consulted"), A.EventVar("item-kept")
			// path-sensitive where affordable: the conditions branched on inside the item loop
			track := []int{evE, evG, evApp}
			tm := map[int]bool{}
			// only conditions evaluated after the first consultation matter
			after := map[*ssa.BasicBlock]bool{}
			var stack []*ssa.BasicBlock
			for _, x := range lks {
				if x.key == k && loop.Blocks[x.in.Block()] {
					stack = append(stack, x.in.Block())
				}
			}
			for len(stack) > 0 {
				b := stack[len(stack)-1]
				stack = stack[:len(stack)-1]
				if after[b] || !loop.Blocks[b] || b == loop.Header {
					continue
				}
				after[b] = true
				stack = append(stack, b.Succs...)
			}
			for b := range after {
				if ifi, ok := b.Instrs[len(b.Instrs)-1].(*ssa.If); ok {
					A.Cond(ifi.Cond).Atoms(tm)
				}
			}
			var extra []int
			for a := range tm {
				extra = append(extra, a)
			}
			sort.Ints(extra)
			A.PhiFilter = func(ph *ssa.Phi) bool { return loop.Blocks[ph.Block()] }
			q, err := A.NewQuery(append(append([]int{}, track...), extra...))
			if err != nil {
				R.Notes = append(R.Notes, "C07.R2 "+okey+": path-insensitive fallback ("+err.Error()+")")
				A.PhiFilter = func(*ssa.Phi) bool { return false }
				q, err = A.NewQuery(track)
			}
			if err != nil {
				R.Unknown("C07.R2", okey, cons, c.P.Pos(fn.Pos()), err.Error())
				continue
			}
			for _, x := range lks {
				if x.key != k {
					continue
				}
				e := evE
				if x.global {
					e = evG
				}
				q.Hooks[x.in] = func(a uint32) []uint32 { return []uint32{q.With(a, e, true)} }
			}
			for b := range loop.Blocks {
				for _, in := range b.Instrs {
					if cl, ok := in.(*ssa.Call); ok {
						if ac, _ := model.IsAppend(cl); ac != nil {
							q.Hooks[in] = func(a uint32) []uint32 { return []uint32{q.With(a, evApp, true)} }
						}
					}
				}
			}
			q.Barrier[loop.Header] = true
			q.Run(loop.Body, q.InitWith(map[int]bool{evE: false, evG: false, evApp: false}))
			goal := pa.Implies(pa.And(pa.AtomF(evE), pa.Not(pa.AtomF(evApp))), pa.AtomF(evG))
			bad := ""
			nBack := 0
			for _, p := range loop.Header.Preds {
				if !loop.Blocks[p] {
					continue
				}
				for kk, s := range p.Succs {
					if s != loop.Header {
						continue
					}
					st := q.EdgeState(p, kk)
					if st == nil || pa.Empty(st) {
						continue
					}
					nBack++
					if ok, cex := q.Holds(st, goal); !ok {
						bad = fmt.Sprintf("an item can be dropped after only its element-scope rules were consulted (back edge at %s: %s)", c.P.Pos(lastPos(p)), cex)
					}
				}
			}
			if nBack == 0 {
				R.Unknown("C07.R2", okey, cons, c.P.Pos(lastPos(loop.Header)), "no back edge of the item loop reached")
				continue
			}
			R.Check(bad == "", "C07.R2", okey, cons, c.P.Pos(lastPos(loop.Header)), "every iteration that consulted the element-scope rules and kept nothing also consulted the global-scope rules for the same key", "element-scope rules shadow global rules: "+bad)
		}
	}
}

// straightTo: from block a, following only unconditional jumps, control arrives at b.
func straightTo(a, b *ssa.BasicBlock) bool {
	for i := 0; i < 8; i++ {
		if a == b {
			return true
		}
		if len(a.Succs) != 1 {
			return false
		}
		a = a.Succs[0]
	}
	return false
}

func c07Verbatim(c *Ctx, F *model.Fields) {
	R := c.R
	s, err := model.FindSan(c.P)
	if err != nil {
		R.Unknown("C07.R3", "sanitize", "(*Policy).sanitize", "", err.Error())
		return
	}
	sa := c.P.Func(load.ModPath, "(*Policy).sanitizeAttrs")
	n := 0
	for _, b := range s.Fn.Blocks {
		for _, in := range b.Instrs {
			st, ok := in.(*ssa.Store)
			if !ok {
				continue
			}
			root := st.Addr
			for {
				if fa, ok := root.(*ssa.FieldAddr); ok {
					root = fa.X
					continue
				}
				break
			}
			if root != ssa.Value(s.TokAlloc) {
				continue
			}
			n++
			if st.Addr == ssa.Value(s.TokAlloc) {
				R.OK("C07.R3", "token-store:whole", "(*Policy).sanitize: token := tokenizer.Token()", c.P.Pos(st.Pos()), "the token as read")
				continue
			}
			fa := st.Addr.(*ssa.FieldAddr)
			okS := pa.FieldName(fa) == "Attr"
			if cl, isC := st.Val.(*ssa.Call); !isC || sa == nil || cl.Common().StaticCallee() != sa {
				okS = false
			}
			R.Check(okS, "C07.R3", "token-store:"+pa.FieldName(fa)+":"+s.ArmOf(b), "(*Policy).sanitize arm "+s.ArmOf(b)+": store to token."+pa.FieldName(fa), c.P.Pos(st.Pos()), "token.Attr := sanitizeAttrs(...)", "a field of the token other than Attr is modified (or Attr receives something else) before it is serialised: allowed content would not pass unchanged")
		}
	}
	R.Role("C07.R3", "stores to the current token", n, 3)
	for _, name := range []string{"(*Policy).sanitizeAttrs", "(*Policy).sanitizeStyles"} {
		fn := c.P.Func(load.ModPath, name)
		if fn == nil {
			continue
		}
		bad := ""
		for _, b := range fn.Blocks {
			for _, in := range b.Instrs {
				if cl, ok := in.(*ssa.Call); ok && cl.Common().StaticCallee() != nil {
					nm := pa.CalleeName(cl.Common().StaticCallee())
					if strings.HasPrefix(nm, "sort.") || strings.HasPrefix(nm, "slices.") {
						bad = nm
					}
				}
			}
		}
		R.Check(bad == "", "C07.R3", "order:"+pa.CalleeName(fn), pa.CalleeName(fn)+": order of kept items", c.P.Pos(fn.Pos()), "append-only, no reordering call", "kept items may be reordered by "+bad)
	}
}

func c07Completeness(c *Ctx, F *model.Fields) {
	R := c.R
	sc := newSC(c, "C07.R4")
	if sc == nil {
		return
	}
	mergesAccumulate(c, "C07.R4")
	sa := c.P.Func(load.ModPath, "(*Policy).sanitizeAttrs")
	mr := c.P.Func(load.ModPath, "(*Policy).matchRegex")
	A := sc.A
	for _, arm := range []string{"StartTag", "SelfClosingTag"} {
		ev := A.EventVar("element-patterns-consulted")
		q, err := A.NewQuery([]int{ev})
		if err != nil {
			R.Unknown("C07.R4", "attrs:"+arm, arm, "", err.Error())
			continue
		}
		q.Barrier[sc.S.Header] = true
		var call *ssa.Call
		for _, b := range sortedBlocks(sc.S.Arms[arm].Blocks) {
			for _, in := range b.Instrs {
				if cl, ok := in.(*ssa.Call); ok {
					if mr != nil && cl.Common().StaticCallee() == mr {
						q.Hooks[in] = func(a uint32) []uint32 { return []uint32{q.With(a, ev, true)} }
					}
					if sa != nil && cl.Common().StaticCallee() == sa {
						call = cl
					}
				}
			}
		}
		if call == nil {
			R.Unknown("C07.R4", "attrs:"+arm, "(*Policy).sanitize arm "+arm+": call of sanitizeAttrs", "", "call not found")
			continue
		}
		q.Run(sc.S.Arms[arm].Entry, q.InitWith(map[int]bool{ev: false}))
		ok, _ := q.Holds(q.StateAt(call), pa.AtomF(ev))
		R.Check(ok, "C07.R4", "attrs:"+arm, "(*Policy).sanitize arm "+arm+": rules handed to sanitizeAttrs", c.P.Pos(call.Pos()),
			"pattern rules are merged on every path",
			"when the element has an explicit entry in elsAndAttrs, matching element patterns are not consulted: attribute rules attached through OnElementsMatching are ignored for that element (the explicit entry shadows them)")
	}
	// styles
	fn := c.P.Func(load.ModPath, "(*Policy).sanitizeStyles")
	if fn == nil {
		R.Unknown("C07.R4", "styles", "(*Policy).sanitizeStyles", "", "not found")
		return
	}
	A2 := model.NewAnalysis(fn)
	translateAll(A2)
	ev := A2.EventVar("style-patterns-consulted")
	q, err := A2.NewQuery([]int{ev})
	if err != nil {
		return
	}
	ms := fn.Params[0].Name() + "." + F.Get("elsMatchingAndStyles")
	var parse *ssa.Call
	for _, b := range fn.Blocks {
		for _, in := range b.Instrs {
			if rg, ok := in.(*ssa.Range); ok && A2.Sym.Of(rg.X) == ms {
				q.Hooks[in] = func(a uint32) []uint32 { return []uint32{q.With(a, ev, true)} }
			}
			if cl, ok := in.(*ssa.Call); ok && isCallTo(cl, "parser.ParseDeclarations") != nil {
				parse = cl
			}
		}
	}
	if parse == nil {
		R.Unknown("C07.R4", "styles", "(*Policy).sanitizeStyles", "", "ParseDeclarations call not found")
		return
	}
	q.Run(fn.Blocks[0], q.InitWith(map[int]bool{ev: false}))
	ok, _ := q.Holds(q.StateAt(parse), pa.AtomF(ev))
	R.Check(ok, "C07.R4", "styles", "(*Policy).sanitizeStyles: style rules applied to the element", c.P.Pos(parse.Pos()),
		"pattern style rules are merged on every path",
		"when the element has a non-empty explicit entry in elsAndStyles, matching element patterns are not consulted: style rules attached through OnElementsMatching are ignored for that element")
}

func valueOf(in ssa.Instruction) ssa.Value {
	v, _ := in.(ssa.Value)
	return v
}

// mergesAccumulate: where the rules of several matching element patterns are merged into one per-call table
// (matchRegex for attributes, sanitizeStyles for styles) every update has the form m[k] = append(m[k], rules...):
// an assignment m[k] = rules would make one pattern's rules replace another's for the same attribute / property.
func mergesAccumulate(c *Ctx, rule string, only ...string) {
	R := c.R
	n := 0
	names := []string{"(*Policy).matchRegex", "(*Policy).sanitizeStyles"}
	if len(only) > 0 {
		names = only
	}
	for _, name := range names {
		fn := c.P.Func(load.ModPath, name)
		if fn == nil {
			continue
		}
		cnt := 0
		for _, l := range model.RangeLoopsAll(fn) {
			if !l.IsMap {
				continue
			}
			for _, b := range sortedBlocks(l.Blocks) {
				for _, in := range b.Instrs {
					mu, ok := in.(*ssa.MapUpdate)
					if !ok {
						continue
					}
					// only updates whose value is a rule list
					st, ok := mu.Value.Type().Underlying().(*types.Slice)
					if !ok {
						continue
					}
					if nt, ok := st.Elem().(*types.Named); !ok || (nt.Obj().Name() != "attrPolicy" && nt.Obj().Name() != "stylePolicy") {
						continue
					}
					// count each update once (it sits in the innermost loop and in every enclosing one)
					inner := true
					for _, l2 := range model.RangeLoopsAll(fn) {
						if l2.Header != l.Header && l.Blocks[l2.Header] && l2.Blocks[b] {
							inner = false
						}
					}
					if !inner {
						continue
					}
					n++
					cnt++
					okAcc := false
					if ac, base := model.IsAppend(mu.Value); ac != nil {
						lk, _ := base.(*ssa.Lookup)
						if ex, isEx := base.(*ssa.Extract); isEx {
							lk, _ = ex.Tuple.(*ssa.Lookup)
						}
						okAcc = lk != nil && lk.X == mu.Map && lk.Index == mu.Key
					}
					R.Check(okAcc, rule, fmt.Sprintf("merge:%s#%d", pa.CalleeName(fn), cnt), pa.CalleeName(fn)+": merge of pattern rules into the per-call table", c.P.Pos(mu.Pos()),
						"m[k] = append(m[k], rules...)", "the rules of one matching pattern replace those of another for the same key instead of being added to them")
				}
			}
		}
	}
	R.Role(rule, "merges of pattern rules", n, len(names))
}

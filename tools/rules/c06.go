package rules

import (
	"fmt"
	"strings"
	"verif/tools/model"

	"golang.org/x/tools/go/ssa"

	"verif/tools/pa"
)

func init() { register("C06", "other", runC06) }

func runC06(c *Ctx) {
	R := c.R
	R.Rule("C06.R1", "escaped provenance: in the Text arm every write is token.String() of the current token (html.EscapeString of the decoded text) unless it happens under allowUnsafe; no other value is ever written for a text token")
	R.Rule("C06.R2", "exactly-once: along every path through one iteration of the token loop at most one payload (token.String()/raw) and at most one space is written and never both; a Text iteration that writes nothing is inside skipped content or inside script/style without allowUnsafe; a space is written only under addSpaces; with addSpaces on, outside skipped content, for a tag that is neither script/style nor a skip-set element, exactly one of {tag, space} is written (one space per removed tag, none per kept tag); Comment and Doctype iterations never write a space")
	R.Rule("C06.R7", "the adapter for writers without WriteString writes the whole string (= C16.R5, cited): it returns the results of one Write([]byte(s)) unchanged — sanitize ignores the byte count, so a short write with a nil error silently cuts text")
	if ad := adapterWriteString(c); ad != nil {
		okA, whyA := forwardsWrite(ad)
		R.Check(okA, "C06.R7", "adapter", "(*asStringWriter).WriteString", c.P.Pos(ad.Pos()), "returns the results of Write([]byte(s)) unchanged", whyA)
	}
	R.Rule("C06.R6", "text is skipped only for the elements the policy names (= C08.R5, cited): SkipElementsContent / AllowElementsContent store and delete keys that are exactly strings.ToLower(name) — a key spelled differently on the delete side leaves the element's text removed although the policy asked to keep it")
	namesLowered(c, "C06.R6", map[string]bool{"(*Policy).SkipElementsContent": true, "(*Policy).AllowElementsContent": true}, 2)
	R.Rule("C06.R5", "the text handed out stays the text that was written: no sanitising path writes to memory that outlives the call (a pooled or cached buffer whose bytes are returned would be overwritten by the next call) (= C13.R1, cited for this consequence)")
	c13SharedWrites(c, "C06.R5", "the bytes of an earlier result can be overwritten by a later call: the text a caller reads from the returned value is no longer the input's text", true)
	R.Rule("C06.R4", "the tokenizer runs in its default configuration: the only methods invoked on the value returned by html.NewTokenizer are Next, Token, Err and Raw (AllowCDATA, SetMaxBuf, NextIsNotRawText … change which input bytes are delivered as text, so that the text of the output is no longer the text of the input)")
	R.Rule("C06.R3", "nothing is written outside the token-type arms (between Tokenizer.Next and the switch, or after the loop)")
	R.Assume(TrustGo, TrustTokenizer, TrustTokenString, "equality of the text an HTML tokenizer reads from input and output (decode/escape round trip, CR/LF/NUL normalisation, invalid UTF-8) is a property of x/net/html and is NOT decided")
	R.Rule("C06.R11", "text is dropped only inside a region the skip rules opened (= C08.R2/R2c, cited): the skip flag and depth change only under the tabled conditions — a region opened for an element that is not in the skip set (a look-up in a sibling table) is never closed, and every later text token is lost")
	{
		sub := &Ctx{P: c.P, R: newScratchReport(), Tier: c.Tier, VerifDir: c.VerifDir}
		runC08(sub)
		n11 := 0
		for _, o := range sub.R.Obls {
			if o.Rule != "C08.R2" && o.Rule != "C08.R2c" {
				continue
			}
			n11++
			k := strings.Replace(o.Key, "|", ":", 1)
			switch o.Status {
			case "discharged":
				R.OK("C06.R11", k, o.Construct, o.Pos, o.Reason)
			case "undecided":
				R.Unknown("C06.R11", k, o.Construct, o.Pos, o.Reason)
			default:
				R.Fail("C06.R11", k, o.Construct, o.Pos, o.Reason)
			}
		}
		R.Role("C06.R11", "skip-state obligations of C08.R2", n11, 5)
	}
	R.Rule("C06.R10", "text is skipped only for the elements this policy names (= C08.R6, cited): the map installed in a policy's skip-content field is freshly made by the storing function — a default set shared by reference lets AllowElementsContent / SkipElementsContent on one policy change which text another policy drops")
	if F10 := model.FindFields(c.P); F10 != nil {
		skipField10 := F10.Get("skipSet")
		freshTables(c, "C06.R10", func(f string) bool { return f == skipField10 }, 1)
	}
	R.Rule("C06.R9", "the added space is a space (= C20.R3 / C01.R1, cited): every destination write of sanitize is Token.String(), the constant \" \" or raw data — a separator taken from a field or computed is not \"exactly one added space per removed tag\" for every way a policy can be built")
	singleSerialiser(c, "C06.R9", "what is written for a removed tag (or for text) is no longer the escaped token or the single space the property speaks of")
	R.Rule("C06.R8", "no token the tokenizer can deliver aborts the run: each of the six html.TokenType values that Token() can carry once Next() did not report ErrorToken (Text, StartTag, EndTag, SelfClosingTag, Comment, Doctype) has an arm of its own in the dispatcher of sanitize, so that the `unknown token` return of the default arm — which discards everything written so far in the string entry points and the rest of the text in the streaming one — is never taken for real input")
	sc := newSC(c, "C06.R1")
	if sc == nil {
		return
	}
	{
		S := sc.S
		defaultReturns := false
		if S.Default != nil {
			seen := map[*ssa.BasicBlock]bool{}
			stack := []*ssa.BasicBlock{S.Default}
			for len(stack) > 0 {
				b := stack[len(stack)-1]
				stack = stack[:len(stack)-1]
				if seen[b] || b == S.Header {
					continue
				}
				seen[b] = true
				if _, ok := b.Instrs[len(b.Instrs)-1].(*ssa.Return); ok {
					defaultReturns = true
				}
				stack = append(stack, b.Succs...)
			}
		}
		n := 0
		for _, name := range []string{"Text", "StartTag", "EndTag", "SelfClosingTag", "Comment", "Doctype"} {
			a := S.Arms[name]
			if a != nil && a.Entry != S.Default {
				n++
				R.OK("C06.R8", "arm:"+name, "(*Policy).sanitize: arm for html."+name+"Token", sc.pos(a.From.Instrs[len(a.From.Instrs)-1]), "the token type has an arm of its own")
				continue
			}
			R.Check(!defaultReturns, "C06.R8", "arm:"+name, "(*Policy).sanitize: arm for html."+name+"Token", c.P.Pos(S.Fn.Pos()), "no arm, and the default arm goes on with the next token",
				"a token of this type takes the default arm, which returns: an input containing one loses its text (the whole result for Sanitize/SanitizeBytes/SanitizeReader, the rest of the stream for SanitizeReaderToWriter)")
		}
		R.Role("C06.R8", "token types with an arm of their own", n, 5)
	}
	A := sc.A
	U := sc.U()
	lv := sc.S.FindLoopVars()
	ea := sc.elemAtoms()
	// R1 + R3
	nText := 0
	qText, _ := sc.armQuery("Text", U)
	for i, w := range sc.S.Writes {
		key := writeKey(sc.S, i)
		if w.Arm == "" || w.Arm == "shared" || w.Arm == "default" {
			R.Fail("C06.R3", key, writeDescr(w), sc.pos(w.Call), "destination write outside the token-type arms")
			continue
		}
		if w.Arm != "Text" {
			continue
		}
		nText++
		switch w.Payload {
		case "Mixed":
			ok, cex := false, "Text arm not analysable"
			if qT2, _ := sc.armQuery("Text", U, w.RawWhen); qT2 != nil {
				if st := qT2.StateAt(w.Call); st != nil {
					ok, cex = qT2.Holds(st, pa.Implies(w.RawWhen, U))
				} else {
					ok = true
				}
			}
			R.Check(ok, "C06.R1", key, writeDescr(w), sc.pos(w.Call), "token.String(), or raw data only under allowUnsafe", "text can reach the output unescaped without AllowUnsafe: ["+cex+"]")
		case "TokenString":
			R.OK("C06.R1", key, writeDescr(w), sc.pos(w.Call), "escaped serialisation of the current token")
		case "RawData":
			ok, cex := false, "Text arm not analysable"
			if qText != nil {
				if st := qText.StateAt(w.Call); st != nil {
					ok, cex = qText.Holds(st, U)
				} else {
					ok = true
				}
			}
			R.Check(ok, "C06.R1", key, writeDescr(w), sc.pos(w.Call), "raw write only under allowUnsafe", "text can reach the output unescaped without AllowUnsafe: ["+cex+"]")
		default:
			R.Fail("C06.R1", key, writeDescr(w), sc.pos(w.Call), "text token written through something other than token.String(): "+w.Detail)
		}
	}
	R.Role("C06.R1", "writes in the Text arm", nText, 1)
	if nw := len(sc.S.Writes); nw > 0 {
		c06TokenizerConfig(sc, "C06.R4", "the tokenizer is reconfigured or handed on: the delivered text may differ from the input's text (e.g. CDATA sections delivered as text)")
		R.OK("C06.R3", "all-writes-in-arms", fmt.Sprintf("(*Policy).sanitize: %d destination writes, each inside exactly one token-type arm", nw), c.P.Pos(sc.S.Fn.Pos()), "checked per write")
	}

	// R2
	evT, evT2, evS, evS2 := A.EventVar("payload-written"), A.EventVar("payload-written-twice"), A.EventVar("space-written"), A.EventVar("space-written-twice")
	AS := sc.fieldLit(A, sc.S.Recv, "addSpaces")
	var skipIn *pa.F = pa.False
	if lv.Skip != nil {
		skipIn = A.Cond(lv.Skip)
	}
	phi := sc.mrsPhi()
	var Ms, Mt []int
	if phi != nil {
		Ms, Mt = sc.mrsTests(phi, "script"), sc.mrsTests(phi, "style")
	}
	S, T := sc.nameTests("script"), sc.nameTests("style")
	for _, arm := range []string{"Comment", "Text", "StartTag", "EndTag", "SelfClosingTag"} {
		if a := sc.S.Arms[arm]; a == nil {
			R.Unknown("C06.R2", "arm:"+arm, arm, "", "arm not recognised")
			continue
		}
		var curFs []*pa.F
		for _, w := range sc.S.Writes {
			if w.Arm == arm && lv.Skip != nil {
				if cur := sc.S.CurrentValue(lv.Skip, w.Call.Block()); cur != nil {
					curFs = append(curFs, A.Cond(cur))
				}
			}
		}
		extra := append([]*pa.F{pa.AtomF(evT), pa.AtomF(evT2), pa.AtomF(evS), pa.AtomF(evS2), AS, skipIn, U, orAtoms(Ms), orAtoms(Mt)}, curFs...)
		as, err := sc.armElemQueryHooks(arm, ea, func(q *pa.Query) {
			for _, w := range sc.S.Writes {
				if w.Arm != arm {
					continue
				}
				one, two := evT, evT2
				if w.Payload == "Space" {
					one, two = evS, evS2
				}
				q.Hooks[w.Call.(ssa.Instruction)] = func(a uint32) []uint32 {
					if q.Bit(a, one) {
						a = q.With(a, two, true)
					}
					return []uint32{q.With(a, one, true)}
				}
			}
		}, map[int]bool{evT: false, evT2: false, evS: false, evS2: false}, extra...)
		if err != nil {
			R.Unknown("C06.R2", "arm:"+arm, arm, "", err.Error())
			continue
		}
		n := 0
		hdr := sc.S.Header
		for i, pred := range hdr.Preds {
			if sc.S.ArmOf(pred) != arm {
				continue
			}
			var k int
			for j, s2 := range pred.Succs {
				if s2 == hdr {
					k = j
				}
			}
			es := as.q.EdgeState(pred, k)
			if es == nil || pa.Empty(es) {
				continue
			}
			n++
			key := fmt.Sprintf("backedge:%s:%s", arm, blockRole(sc, pred))
			pos := c.P.Pos(lastPos(pred))
			cons := fmt.Sprintf("(*Policy).sanitize arm %s back edge (%s)", arm, blockRole(sc, pred))
			atMostOne := pa.And(pa.Not(pa.AtomF(evT2)), pa.Not(pa.AtomF(evS2)), pa.Not(pa.And(pa.AtomF(evT), pa.AtomF(evS))))
			ok, cex := as.q.Holds(es, atMostOne)
			R.Check(ok, "C06.R2", key+":at-most-one", cons, pos, "at most one write in this iteration", "more than one write for a single token: ["+cex+"]")
			skipOut := pa.False
			if lv.Skip != nil {
				skipOut = A.Cond(lv.Skip.Edges[i])
			}
			switch arm {
			case "Text":
				goal := pa.And(pa.Not(pa.AtomF(evS)), pa.Or(pa.AtomF(evT), skipIn, skipOut, pa.And(pa.Not(U), pa.Or(orAtoms(Ms), orAtoms(Mt)))))
				ok, cex := as.q.Holds(es, goal)
				R.Check(ok, "C06.R2", key+":text-written", cons, pos, "text written, or suppressed for a tabled reason; no space", "a text token can be dropped (or replaced by a space) outside skipped/script/style content: ["+cex+"]")
			case "Comment":
				ok, cex := as.q.Holds(es, pa.Not(pa.AtomF(evS)))
				R.Check(ok, "C06.R2", key+":no-space", cons, pos, "no space for a comment", "a space is written for a comment token: ["+cex+"]")
			default:
				ok, cex := as.q.Holds(es, pa.Implies(pa.AtomF(evS), AS))
				R.Check(ok, "C06.R2", key+":space-needs-flag", cons, pos, "space only under addSpaces", "a space can be written although AddSpaceWhenStrippingTag is off: ["+cex+"]")
				notSS := pa.And(pa.Not(pa.And(lits(sc.inArm(arm, S))...)), pa.Not(pa.And(lits(sc.inArm(arm, T))...)))
				if len(sc.inArm(arm, S)) == 0 || len(sc.inArm(arm, T)) == 0 {
					notSS = pa.True
				}
				ante := pa.And(AS, pa.Not(skipIn), notSS, pa.Not(orAtoms(sc.inArm(arm, ea.K))))
				ok2, cex2 := as.q.Holds(es, pa.Implies(ante, pa.Or(pa.AtomF(evT), pa.AtomF(evS))))
				R.Check(ok2, "C06.R2", key+":one-space-per-removed-tag", cons, pos, "with addSpaces on (outside skipped content, not script/style/skip-set) the tag or exactly one space is written", "with AddSpaceWhenStrippingTag a removed tag can leave no space (or a kept tag none of its bytes): ["+cex2+"]")
			}
		}
		min := 1
		R.Role("C06.R2", "back edges of arm "+arm, n, min)
	}
	// Doctype: no writes at all (region empty or write-free)
	nd := 0
	for _, w := range sc.S.Writes {
		if w.Arm == "Doctype" {
			nd++
		}
	}
	R.Check(nd == 0, "C06.R2", "doctype:no-write", "(*Policy).sanitize arm Doctype", "", "writes nothing", "the Doctype arm writes")
}

// c06TokenizerConfig (C06.R4): only Next/Token/Err/Raw are called on the tokenizer.
func c06TokenizerConfig(sc *SC, rule, why string) {
	R := sc.c.R
	tk := sc.S.Tokenizer
	if tk == nil || tk.Referrers() == nil {
		R.Unknown(rule, "tokenizer", "(*Policy).sanitize: the tokenizer", "", "tokenizer value not recognised")
		return
	}
	allowed := map[string]bool{"Next": true, "Token": true, "Err": true, "Raw": true}
	n := 0
	seen := map[ssa.Value]bool{}
	var visit func(v ssa.Value)
	visit = func(v ssa.Value) {
		if seen[v] || v.Referrers() == nil {
			return
		}
		seen[v] = true
		for _, r := range *v.Referrers() {
			switch x := r.(type) {
			case *ssa.Phi:
				visit(x)
			case ssa.CallInstruction:
				cal := x.Common().StaticCallee()
				name := "?"
				if cal != nil {
					name = cal.Name()
				}
				n++
				okC := cal != nil && len(x.Common().Args) > 0 && x.Common().Args[0] == v && allowed[name]
				R.Check(okC, rule, "tokenizer-call:"+name, "(*Policy).sanitize: tokenizer."+name, sc.c.P.Pos(x.Pos()), "reads the token stream", why)
			case *ssa.DebugRef:
			default:
				n++
				R.Fail(rule, "tokenizer-use:"+fmt.Sprintf("%T", r), "(*Policy).sanitize: use of the tokenizer", sc.c.P.Pos(r.Pos()), "the tokenizer value is stored or passed on")
			}
		}
	}
	visit(tk)
	R.Role(rule, "uses of the tokenizer", n, 2)
}

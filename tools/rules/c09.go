package rules

import (
	"fmt"
	"go/token"

	"golang.org/x/tools/go/ssa"

	"verif/tools/load"
	"verif/tools/model"
	"verif/tools/pa"
)

func init() { register("C09", "other", runC09) }

// isTopOf: v is a load of &stack[len(stack)-1].
func isTopOf(v ssa.Value, stack ssa.Value) bool {
	u, ok := v.(*ssa.UnOp)
	if !ok || u.Op != token.MUL {
		return false
	}
	ia, ok := u.X.(*ssa.IndexAddr)
	if !ok || ia.X != stack {
		return false
	}
	bo, ok := ia.Index.(*ssa.BinOp)
	if !ok || bo.Op != token.SUB {
		return false
	}
	if k, ok := bo.Y.(*ssa.Const); !ok || k.Int64() != 1 {
		return false
	}
	ln, ok := bo.X.(*ssa.Call)
	if !ok {
		return false
	}
	b, ok := ln.Common().Value.(*ssa.Builtin)
	return ok && b.Name() == "len" && ln.Common().Args[0] == stack
}

// pushedValueIsTokData: the variadic slice appended holds exactly one element, a load of token.Data.
func (sc *SC) pushedValueIsTokData(arg ssa.Value) bool {
	sl, ok := arg.(*ssa.Slice)
	if !ok {
		return false
	}
	al, ok := sl.X.(*ssa.Alloc)
	if !ok {
		return false
	}
	n, okv := 0, true
	for _, r := range *al.Referrers() {
		ia, ok := r.(*ssa.IndexAddr)
		if !ok {
			continue
		}
		for _, r2 := range *ia.Referrers() {
			if st, ok := r2.(*ssa.Store); ok {
				n++
				if sc.S.TokenField(st.Val) != "Data" {
					okv = false
				}
			}
		}
	}
	return n == 1 && okv
}

func runC09(c *Ctx) {
	R := c.R
	R.Rule("C09.R1", "stack/flag invariant is inductive: on every back edge of the token loop, (pending-close flag) ⇔ (pending-close stack non-empty) is re-established: unchanged stack ⇒ unchanged flag; append ⇒ flag true; shrink-by-one ⇒ flag false exactly when the shrunk stack is empty; no other stack update exists")
	R.Rule("C09.R2c", "completeness: every StartTag path on which an admitted element is left without attributes and is not allowed bare pushes its name; every SelfClosingTag path on which a non-void admitted element is left without attributes and is not allowed bare pushes its name too (browsers and the tokenizer ignore the slash, the end tag follows); every EndTag path (past the script/style gate) on which the pending flag is set and token.Data equals the top of the stack pops it")
	R.Rule("C09.R2", "push/pop conditions: a push happens only in the StartTag arm, pushes token.Data, on an edge whose path condition implies 'no attribute survived ∧ ¬allowNoAttrs(token.Data)'; a pop happens only in the EndTag arm under flag ∧ token.Data == top of stack; no tag write is reachable after a push or a pop in the same iteration")
	R.Rule("C09.R3", "every drop has a tabled reason: a StartTag/SelfClosingTag iteration that writes no tag is disallowed, gated, dropped for lack of attributes, or inside skipped content; an EndTag iteration that writes no tag is disallowed, gated, popped, or inside skipped content — the same admission predicate (element table ∨ element pattern) in both arms")
	R.Rule("C09.R4", "pushes are matchable: the push edge is reached only for elements that can have an end tag (a void-element test on token.Data guards it)")
	noPolicyCopies(c, "C09.R8", "a builder call on the other policy between a start tag and its end tag changes the skip set under the document and unbalances the skip counter")
	R.Rule("C09.R8", "the skip set a document is judged by cannot change under it (= C08.R6, cited): each policy owns a freshly made skip set — with a shared one, a builder call on another policy between a start tag and its end tag unbalances the skip counter")
	if F8 := model.FindFields(c.P); F8 != nil {
		skipField := F8.Get("skipSet")
		freshTables(c, "C09.R8", func(f string) bool { return f == skipField }, 1)
	}
	R.Rule("C09.R7", "the start-tag and end-tag arms agree on admission by pattern: matchRegex's match flag is sticky (only ever set to true inside the scan), like the end-tag arm's own scan")
	matchedIsSticky(c, "C09.R7")
	R.Rule("C09.R6", "frames, not names: an end tag is matched with the dropped start tag it belongs to — the arm handling start tags consults the top of the pending-close stack, so that same-name elements that are not pushed between a push and its pop can be told apart from the pushed one")
	R.Rule("C09.R5", "the SelfClosingTag arm never pops; it pushes only what the StartTag arm would push, and only for non-void elements (R2)")
	R.Assume(TrustGo, TrustTokenizer, "balance over every token sequence depends on the run-time contents of the stack; the rules fix its transitions and the agreement of the two arms")
	sc := newSC(c, "C09.R1")
	if sc == nil {
		return
	}
	lv := sc.S.FindLoopVars()
	if lv.Pending == nil || lv.Stack == nil {
		for _, w := range lv.Why {
			R.Unknown("C09.R1", "loopvars:"+w, "(*Policy).sanitize loop state", "", "anchor lost: "+w)
		}
		return
	}
	A := sc.A
	ea := sc.elemAtoms()
	pend := A.Cond(lv.Pending)
	var skipCur *pa.F
	if lv.Skip != nil {
		skipCur = A.Cond(lv.Skip)
	} else {
		skipCur = pa.False
	}
	ana := c.P.Func(load.ModPath, "(*Policy).allowNoAttrs")
	var anaAtoms, l0Atoms, topEq []int
	for i, at := range A.Atoms {
		switch at.Kind {
		case "val":
			if cl, ok := at.Resolve(at.X).(*ssa.Call); ok && ana != nil && cl.Common().StaticCallee() == ana && sc.isTokData(at, cl.Common().Args[1]) {
				anaAtoms = append(anaAtoms, i)
			}
		case "len0":
			if sc.S.TokenField(at.Resolve(at.X)) == "Attr" {
				l0Atoms = append(l0Atoms, i)
			}
		case "eq":
			x, y := at.Resolve(at.X), at.Resolve(at.Y)
			if (sc.S.TokenField(x) == "Data" && isTopOf(y, lv.Stack)) || (sc.S.TokenField(y) == "Data" && isTopOf(x, lv.Stack)) {
				topEq = append(topEq, i)
			}
		}
	}
	voidAtoms := sc.voidTestAtoms()
	// a void element in the default skip set that the void table does not list opens a region that never closes:
	// every later end tag of an already emitted element is then dropped
	c08VoidCoverage(sc, "C09.R4")
	evPush, evPop, evWrote := A.EventVar("pushed"), A.EventVar("popped"), A.EventVar("tag-written")

	type armRun struct {
		as *armState
	}
	runs := map[string]*armState{}
	getArm := func(arm string) *armState {
		if as, ok := runs[arm]; ok {
			return as
		}
		// collect len0 atoms of shrunk stacks for this function
		var extra []*pa.F
		extra = append(extra, pend, skipCur, orAtoms(anaAtoms), orAtoms(l0Atoms), orAtoms(topEq), orAtoms(voidAtoms),
			pa.AtomF(evPush), pa.AtomF(evPop), pa.AtomF(evWrote))
		for i, at := range A.Atoms {
			if at.Kind == "len0" && model.IsShrinkByOne(at.Resolve(at.X), lv.Stack) {
				extra = append(extra, pa.AtomF(i))
			}
		}
		// current-skip values at the tag writes
		for _, w := range sc.S.Writes {
			if w.Arm == arm && w.Payload == "TokenString" && lv.Skip != nil {
				if cur := sc.S.CurrentValue(lv.Skip, w.Call.Block()); cur != nil {
					extra = append(extra, A.Cond(cur))
				}
			}
		}
		as, err := sc.armElemQueryHooks(arm, ea, func(q *pa.Query) {
			for _, b := range sc.S.Fn.Blocks {
				for _, in := range b.Instrs {
					switch x := in.(type) {
					case *ssa.Call:
						if _, ok := model.IsAppendTo(x, lv.Stack); ok {
							q.Hooks[in] = func(a uint32) []uint32 { return []uint32{q.With(a, evPush, true)} }
						}
					case *ssa.Slice:
						if model.IsShrinkByOne(x, lv.Stack) {
							q.Hooks[in] = func(a uint32) []uint32 { return []uint32{q.With(a, evPop, true)} }
						}
					}
				}
			}
			for _, w := range sc.S.Writes {
				if w.Payload == "TokenString" {
					in := w.Call.(ssa.Instruction)
					prev := q.Hooks[in]
					_ = prev
					q.Hooks[in] = func(a uint32) []uint32 { return []uint32{q.With(a, evWrote, true)} }
				}
			}
		}, map[int]bool{evPush: false, evPop: false, evWrote: false}, extra...)
		if err != nil {
			R.Unknown("C09.R1", "arm:"+arm, arm, "", err.Error())
			as = nil
		}
		runs[arm] = as
		return as
	}

	hdr := sc.S.Header
	nPush, nPop := 0, 0
	r4done := map[ssa.Value]bool{}
	// the joint assignments of (flag, stack): on back edges and, when the two variables are merged earlier (e.g. in the
	// result of an inlined helper), on the edges into those merge blocks
	// the assignments of (flag, stack) seen on the back edges; where the stack operand is itself a merge (e.g. the
	// result variable of an inlined helper) the merge is taken apart edge by edge, together with the flag's merge in
	// the same block
	var sites []model.Site
	var expand func(f, s ssa.Value, pred, blk *ssa.BasicBlock, depth int)
	expand = func(f, s ssa.Value, pred, blk *ssa.BasicBlock, depth int) {
		if sp, ok := s.(*ssa.Phi); ok && sp != lv.Stack && depth < 6 && sp.Block() != hdr {
			for i, e := range sp.Edges {
				fi := f
				if fp, ok := f.(*ssa.Phi); ok && fp.Block() == sp.Block() {
					fi = fp.Edges[i]
				}
				expand(fi, e, sp.Block().Preds[i], sp.Block(), depth+1)
			}
			return
		}
		sites = append(sites, model.Site{Pred: pred, Block: blk, V1: f, V2: s})
	}
	for i, pred := range hdr.Preds {
		expand(lv.Pending.Edges[i], lv.Stack.Edges[i], pred, hdr, 0)
	}
	seenSite := map[string]bool{}
	for _, site := range sites {
		f, s := site.V1, site.V2
		pred := site.Pred
		sk := fmt.Sprintf("%d>%d|%s|%s", pred.Index, site.Block.Index, f.Name(), s.Name())
		if seenSite[sk] {
			continue
		}
		seenSite[sk] = true
		arm := sc.S.ArmOf(pred)
		pos := c.P.Pos(lastPos(pred))
		if !hdr.Dominates(pred) {
			okE := model.IsFalse(f)
			if k, isC := s.(*ssa.Const); !isC || !k.IsNil() {
				okE = false
			}
			R.Check(okE, "C09.R1", "entry", "(*Policy).sanitize: initial (pending flag, stack)", pos, "(false, nil)", "loop state not initialised to (false, empty)")
			continue
		}
		k := site.SuccIndex()
		key := fmt.Sprintf("backedge:%s:%s:%s", arm, siteVal(lv.Stack, s), blockRole(sc, pred))
		cons := fmt.Sprintf("(*Policy).sanitize arm %s back edge (%s): (flag, stack) := (%s, %s)", arm, blockRole(sc, pred), A.Sym.Of(f), siteVal(lv.Stack, s))
		if s == ssa.Value(lv.Stack) {
			if f == ssa.Value(lv.Pending) {
				R.OK("C09.R1", key, cons, pos, "both unchanged")
				continue
			}
			as := getArm(arm)
			if as == nil {
				continue
			}
			es := as.q.EdgeState(pred, k)
			ff := A.Cond(f)
			ok, cex := as.q.Holds(es, pa.Or(pa.And(ff, pend), pa.And(pa.Not(ff), pa.Not(pend))))
			R.Check(ok, "C09.R1", key, cons, pos, "flag value unchanged", "the pending-close flag changes while the stack does not: ["+cex+"]")
			continue
		}
		as := getArm(arm)
		if as == nil {
			continue
		}
		es := as.q.EdgeState(pred, k)
		if es == nil || pa.Empty(es) {
			R.OK("C09.R1", key, cons, pos, "edge unreachable")
			continue
		}
		if arg, ok := model.IsAppendTo(s, lv.Stack); ok {
			nPush++
			ok1, cex := as.q.Holds(es, A.Cond(f))
			R.Check(ok1, "C09.R1", key, cons, pos, "flag true after append", "stack grows but the flag may stay false (the pushed entry would never be popped): ["+cex+"]")
			// R2
			goal := sc.lacksAttrs(as, arm, l0Atoms, anaAtoms)
			ok2, cex2 := as.q.Holds(es, goal)
			// the SelfClosingTag arm may push as well, but only for a non-void element (whose "/" browsers ignore)
			armOK := arm == "StartTag"
			if arm == "SelfClosingTag" && len(voidAtoms) > 0 {
				armOK, _ = as.q.Holds(es, pa.Not(orAtoms(voidAtoms)))
			}
			R.Check(ok2 && armOK && sc.pushedValueIsTokData(arg), "C09.R2", key, cons, pos, "push of token.Data in the StartTag arm (or, for a non-void element, the SelfClosingTag arm) under "+A.Str(goal),
				fmt.Sprintf("push outside its condition (arm=%s, pushes token.Data=%v): [%s]", arm, sc.pushedValueIsTokData(arg), cex2))
			// R4 (one obligation per push instruction, whatever the number of back edges it reaches)
			key4 := "push:" + arm
			cons4 := "(*Policy).sanitize arm " + arm + ": push of token.Data on the pending-close stack"
			if r4done[s] {
				continue
			}
			r4done[s] = true
			pos4 := c.P.Pos(s.(*ssa.Call).Pos())
			if len(voidAtoms) == 0 {
				R.Fail("C09.R4", key4, cons4, pos4, "a void element (img, br, input, ...) dropped for lack of attributes is pushed on the pending-close stack although no end tag will ever pop it; the entry then shadows the enclosing entries and their end tags are emitted alone")
			} else {
				ok4, cex4 := as.q.Holds(es, pa.Not(orAtoms(voidAtoms)))
				R.Check(ok4, "C09.R4", key4, cons4, pos4, "push only for non-void elements", "a void element (img, br, input, ...) dropped for lack of attributes is pushed on the pending-close stack although no end tag will ever pop it; the stale entry shadows the enclosing entries, whose end tags are then emitted alone: ["+cex4+"]")
			}
			continue
		}
		if model.IsShrinkByOne(s, lv.Stack) {
			nPop++
			var l0 *pa.F
			for ai, at := range A.Atoms {
				if at.Kind == "len0" && at.Resolve(at.X) == s {
					l0 = pa.AtomF(ai)
				}
			}
			if l0 == nil {
				R.Fail("C09.R1", key, cons, pos, "the stack shrinks but its emptiness is never tested: the flag cannot be cleared correctly")
			} else {
				ff := A.Cond(f)
				ok1, cex := as.q.Holds(es, pa.Or(pa.And(ff, pa.Not(l0)), pa.And(pa.Not(ff), l0)))
				R.Check(ok1, "C09.R1", key, cons, pos, "flag false exactly when the shrunk stack is empty", "after a pop the flag does not reflect emptiness of the stack: ["+cex+"]")
			}
			goal := pa.And(pend, orAtoms(topEq))
			if len(topEq) == 0 {
				goal = pa.False
			}
			ok2, cex2 := as.q.Holds(es, goal)
			R.Check(ok2 && arm == "EndTag", "C09.R2", key, cons, pos, "pop in the EndTag arm under flag ∧ token.Data == top", fmt.Sprintf("pop outside its condition (arm=%s): [%s]", arm, cex2))
			continue
		}
		R.Fail("C09.R1", key, cons, pos, "stack update is neither an append of one name nor a shrink by one")
	}
	R.Role("C09.R1", "push back edges", nPush, 1)
	R.Role("C09.R1", "pop back edges", nPop, 1)
	R.Role("C09.R2", "allowNoAttrs(token.Data) tests", len(anaAtoms), 1)
	R.Role("C09.R2", "top-of-stack == token.Data tests", len(topEq), 1)

	// R6: frames, not names.  The pop condition recognises the end tag of a dropped element by its name alone.  A start
	// tag of the same name that arrives while that name is on top of the stack and is not itself pushed (it is kept, or
	// not written because content is being skipped) has its end tag first — which then pops the outer frame.  The arm
	// that handles start tags must therefore look at the top of the stack (to count such nested elements).
	{
		isTop := map[int]bool{}
		for _, t := range topEq {
			isTop[t] = true
		}
		found := false
		var at0 *ssa.BasicBlock
		for _, b := range sc.S.Fn.Blocks {
			if sc.S.ArmOf(b) != "StartTag" {
				continue
			}
			if at0 == nil {
				at0 = b
			}
			if ifi, ok := b.Instrs[len(b.Instrs)-1].(*ssa.If); ok {
				m := map[int]bool{}
				A.Cond(ifi.Cond).Atoms(m)
				for k := range m {
					if isTop[k] {
						found = true
					}
				}
			}
		}
		pos6 := ""
		if at0 != nil {
			pos6 = c.P.Pos(lastPos(at0))
		}
		R.Check(found, "C09.R6", "nesting:StartTag", "(*Policy).sanitize arm StartTag: same-name elements nested in a dropped element", pos6, "the arm compares the start tag's name with the top of the pending-close stack", "the pending-close stack is matched by name only and the StartTag arm never looks at its top: a start tag that is not pushed (kept, or inside skipped content) while an element of the same name is on top of the stack has its end tag dropped in place of the outer element's, whose own end tag is then emitted alone")
	}

	// R2: no tag write after push/pop
	for _, arm := range tagArms {
		as := getArm(arm)
		if as == nil {
			continue
		}
		for i, w := range sc.S.Writes {
			if w.Arm != arm || w.Payload != "TokenString" {
				continue
			}
			st := as.q.StateAt(w.Call)
			if st == nil {
				continue
			}
			ok, cex := as.q.Holds(st, pa.And(pa.Not(pa.AtomF(evPush)), pa.Not(pa.AtomF(evPop))))
			R.Check(ok, "C09.R2", writeKey(sc.S, i)+":no-write-after-push-pop", writeDescr(w), sc.pos(w.Call), "not reachable after a push/pop", "a tag is written in the same iteration that pushed/popped its name: ["+cex+"]")
		}
	}

	// R2c + R3 + R5 at back edges
	for _, arm := range tagArms {
		as := getArm(arm)
		if as == nil {
			continue
		}
		allowedStart := pa.Or(orAtoms(sc.inArm(arm, ea.E)), orAtoms(sc.inArm(arm, ea.PMcall)))
		lacks := sc.lacksAttrs(as, arm, l0Atoms, anaAtoms)
		n := 0
		for i, pred := range hdr.Preds {
			if sc.S.ArmOf(pred) != arm {
				continue
			}
			n++
			var k int
			for j, s2 := range pred.Succs {
				if s2 == hdr {
					k = j
				}
			}
			es := as.q.EdgeState(pred, k)
			if es == nil || pa.Empty(es) {
				continue
			}
			key := fmt.Sprintf("backedge:%s:%s", arm, blockRole(sc, pred))
			pos := c.P.Pos(lastPos(pred))
			cons := fmt.Sprintf("(*Policy).sanitize arm %s back edge (%s)", arm, blockRole(sc, pred))
			s := lv.Stack.Edges[i]
			// skip flag value that guarded the write in this iteration = value flowing to the header
			skipOut := pa.False
			if lv.Skip != nil {
				skipOut = A.Cond(lv.Skip.Edges[i])
			}
			wrote := pa.AtomF(evWrote)
			switch arm {
			case "StartTag":
				if _, isPush := model.IsAppendTo(s, lv.Stack); !isPush {
					notVoid := pa.True
					if len(voidAtoms) > 0 {
						notVoid = pa.Not(orAtoms(voidAtoms))
					}
					ok, cex := as.q.Holds(es, pa.Not(pa.And(allowedStart, as.gatepass, lacks, notVoid)))
					R.Check(ok, "C09.R2c", key, cons, pos, "no push needed on this edge", "an admitted element with no surviving attribute that is not allowed bare can leave the arm without being pushed: ["+cex+"]")
				}
				ok, cex := as.q.Holds(es, pa.Or(wrote, pa.Not(allowedStart), pa.Not(as.gatepass), lacks, skipOut, skipCur))
				R.Check(ok, "C09.R3", key, cons, pos, "tag written or dropped for a tabled reason", "a start tag can be dropped for no tabled reason: ["+cex+"]")
			case "SelfClosingTag":
				// the value reaching the header may merge a push with the unchanged stack (`if !void { push }`)
				var keepOrPush func(v ssa.Value, d int) bool
				keepOrPush = func(v ssa.Value, d int) bool {
					if v == ssa.Value(lv.Stack) {
						return true
					}
					if _, ok := model.IsAppendTo(v, lv.Stack); ok {
						return true
					}
					if ph, ok := v.(*ssa.Phi); ok && d < 4 && ph.Block() != hdr {
						for _, e := range ph.Edges {
							if !keepOrPush(e, d+1) {
								return false
							}
						}
						return true
					}
					return false
				}
				R.Check(keepOrPush(s, 0), "C09.R5", key, cons, pos, "stack untouched or pushed", "the SelfClosingTag arm pops or rewrites the pending-close stack")
				// a non-void element written with "/" is a start tag to browsers and to the tokenizer: its end tag follows
				if len(voidAtoms) == 0 {
					R.Fail("C09.R2c", key, cons, pos, "the SelfClosingTag arm does not distinguish void elements: a non-void element dropped for lack of attributes is not pushed, so its end tag is emitted alone")
				} else {
					ok, cex := as.q.Holds(es, pa.Or(pa.AtomF(evPush), pa.Not(pa.And(allowedStart, as.gatepass, lacks, pa.Not(orAtoms(voidAtoms))))))
					R.Check(ok, "C09.R2c", key, cons, pos, "pushed, or no push needed on this edge", "an admitted non-void element written as a self-closing tag, left without attributes and not allowed bare, can leave the arm without being pushed: its end tag (which follows, browsers and the tokenizer ignore the slash) is then emitted alone: ["+cex+"]")
				}
				ok, cex := as.q.Holds(es, pa.Or(wrote, pa.Not(allowedStart), pa.Not(as.gatepass), lacks, skipOut, skipCur))
				R.Check(ok, "C09.R3", key, cons, pos, "tag written or dropped for a tabled reason", "a self-closing tag can be dropped for no tabled reason: ["+cex+"]")
			case "EndTag":
				if len(topEq) > 0 {
					okP, cexP := as.q.Holds(es, pa.Or(pa.AtomF(evPop), pa.Not(pa.And(pend, orAtoms(topEq), as.gatepass))))
					R.Check(okP, "C09.R2c", key+":pop", cons, pos, "popped, or no pop needed on this edge", "an end tag that equals the top of the pending-close stack (past the script/style gate) can leave the arm without popping it: the stale entry then swallows a later end tag of that name or hides the enclosing entries: ["+cexP+"]")
				}
				ok, cex := as.q.Holds(es, pa.Or(wrote, as.disallowed, pa.Not(as.gatepass), pa.AtomF(evPop), skipOut, skipCur))
				R.Check(ok, "C09.R3", key, cons, pos, "tag written or dropped for a tabled reason", "an end tag can be dropped for no tabled reason: ["+cex+"]")
			}
		}
		R.Role("C09.R3", "back edges of arm "+arm, n, 1)
	}
}

// lacksAttrs builds "no attribute survived ∧ ¬allowNoAttrs(token.Data)" for one arm: the length
// test that counts is the one established at the allowNoAttrs call (the post-sanitizeAttrs load).
func (sc *SC) lacksAttrs(as *armState, arm string, l0Atoms, anaAtoms []int) *pa.F {
	ana := sc.inArm(arm, anaAtoms)
	if len(ana) == 0 {
		return pa.False
	}
	// only a test of the attribute list as it will be written counts: a load of token.Attr that a store to token.Attr
	// (the result of sanitizeAttrs) can still follow speaks about the attributes of the input, not the survivors
	finalLoad := func(ld *ssa.UnOp) bool {
		blocks := sc.S.Arms[arm].Blocks
		seen := map[*ssa.BasicBlock]bool{}
		stack := []*ssa.BasicBlock{ld.Block()}
		first := true
		for len(stack) > 0 {
			b := stack[len(stack)-1]
			stack = stack[:len(stack)-1]
			if seen[b] && !first {
				continue
			}
			after := !first || false
			for _, in := range b.Instrs {
				if first && in == ssa.Instruction(ld) {
					after = true
					continue
				}
				if !after {
					continue
				}
				if st, ok := in.(*ssa.Store); ok {
					if fa, ok := st.Addr.(*ssa.FieldAddr); ok && fa.X == ssa.Value(sc.S.TokAlloc) && pa.FieldName(fa) == "Attr" {
						return false
					}
				}
			}
			first = false
			seen[b] = true
			for _, nx := range b.Succs {
				if blocks[nx] && nx != sc.S.Header && !seen[nx] {
					stack = append(stack, nx)
				}
			}
		}
		return true
	}
	// atoms are keyed by the symbolic value: the same atom can stand for loads in several arms — judge the loads of
	// this arm that carry the atom's symbol
	final := func(atom int) bool {
		at := sc.A.Atoms[atom]
		x, ok := at.Resolve(at.X).(*ssa.UnOp)
		if !ok {
			return false
		}
		want := sc.A.Sym.Of(x)
		n := 0
		for b := range sc.S.Arms[arm].Blocks {
			for _, in := range b.Instrs {
				ld, ok := in.(*ssa.UnOp)
				if !ok || sc.S.TokenField(ld) != "Attr" || sc.A.Sym.Of(ld) != want {
					continue
				}
				n++
				if !finalLoad(ld) {
					return false
				}
			}
		}
		return n > 0
	}
	var finals []int
	for _, l := range l0Atoms {
		if final(l) {
			finals = append(finals, l)
		}
	}
	l0Atoms = finals
	var post []int
	anaFn := sc.c.P.Func(load.ModPath, "(*Policy).allowNoAttrs")
	for _, b := range sortedBlocks(sc.S.Arms[arm].Blocks) {
		for _, in := range b.Instrs {
			call, ok := in.(*ssa.Call)
			if !ok || anaFn == nil || call.Common().StaticCallee() != anaFn {
				continue
			}
			st := as.q.StateAt(call)
			if st == nil {
				continue
			}
			for _, l := range sc.inArm(arm, l0Atoms) {
				if ok, _ := as.q.Holds(st, pa.AtomF(l)); ok {
					post = append(post, l)
				}
			}
		}
	}
	if len(post) == 0 {
		return pa.False
	}
	return pa.And(orAtoms(post), pa.Not(orAtoms(ana)))
}

package rules

import (
	"go/ast"

	"golang.org/x/tools/go/ssa"

	"verif/tools/pats"
)

// globalMapHasKeys: package-level map variable g is initialised by a composite literal whose
// constant string keys include all of want, and is never written elsewhere in the module.
func globalMapHasKeys(c *Ctx, g *ssa.Global, want []string) bool {
	for _, pkg := range c.P.Pkgs {
		if pkg.Types != g.Pkg.Pkg {
			continue
		}
		for _, f := range pkg.Syntax {
			for _, d := range f.Decls {
				gd, ok := d.(*ast.GenDecl)
				if !ok {
					continue
				}
				for _, sp := range gd.Specs {
					vs, ok := sp.(*ast.ValueSpec)
					if !ok {
						continue
					}
					for i, n := range vs.Names {
						if n.Name != g.Name() || i >= len(vs.Values) {
							continue
						}
						cl, ok := ast.Unparen(vs.Values[i]).(*ast.CompositeLit)
						if !ok {
							return false
						}
						have := map[string]bool{}
						for _, e := range cl.Elts {
							if kv, ok := e.(*ast.KeyValueExpr); ok {
								if s, ok := pats.ConstString(pkg.TypesInfo, kv.Key); ok {
									have[s] = true
								}
							}
						}
						for _, w := range want {
							if !have[w] {
								return false
							}
						}
						return true
					}
				}
			}
		}
	}
	return false
}

package rules

import (
	"fmt"
	"go/constant"
	"go/token"
	"go/types"
	"sort"
	"strconv"
	"strings"
	"unicode"

	"golang.org/x/tools/go/ssa"

	"verif/tools/load"
	"verif/tools/model"
	"verif/tools/pa"
)

func init() { register("C12", "other", runC12) }

var crossOriginElems = []string{"audio", "img", "link", "script", "video"}

// keyLoop finds the range loop over an attribute list whose body tests <elem>.Key == key.
func keyLoop(A *pa.Analysis, fn *ssa.Function, key string) (*model.RangeLoop, int) {
	var best *model.RangeLoop
	bestAtom := -1
	for _, l := range model.SliceRangeLoops(fn) {
		for _, b := range sortedBlocks(l.Blocks) {
			ifi, ok := b.Instrs[len(b.Instrs)-1].(*ssa.If)
			if !ok {
				continue
			}
			f := A.Cond(ifi.Cond)
			if f.Op == '!' { // `if x.Key != key { continue }`
				f = f.Kids[0]
			}
			if f.Op != 'a' {
				continue
			}
			at := A.Atoms[f.Atom]
			if at.Kind != "eq" {
				continue
			}
			if k, ok := constString(at.Y); ok && k == key && strings.HasSuffix(at.Key, ".Key == \""+key+"\")") {
				if best == nil || len(l.Blocks) < len(best.Blocks) {
					best, bestAtom = l, f.Atom
				}
			}
		}
	}
	return best, bestAtom
}

// loopExitsOnlyAtHeader: every edge leaving the natural loop starts at its header.
func loopExitsOnlyAtHeader(l *model.RangeLoop) (bool, *ssa.BasicBlock) {
	for _, b := range sortedBlocks(l.Blocks) {
		for _, s := range b.Succs {
			if !l.Blocks[s] && b != l.Header {
				return false, b
			}
		}
	}
	return true, nil
}

func runC12(c *Ctx) {
	R := c.R
	R.Rule("C12.R1", "element tables: for audio, img, link, script, video (specialised analyses) with requireCrossOriginAnonymous on and a surviving attribute, a crossorigin=\"anonymous\" attribute is in the returned list; for iframe with a sandbox set installed, a sandbox attribute is in the returned list")
	R.Rule("C12.R2", "overwrite-or-append: the crossorigin loop visits every attribute (no early exit), stores the constant \"anonymous\" into the very element whose Key is crossorigin, and the attribute appended when none was found is {crossorigin, anonymous}")
	R.Rule("C12.R3", "sandbox filter: for every attribute whose Key is sandbox (no early exit) the value is replaced by strings.Join(kept, \" \"), kept being appended to only with a token of strings.Fields(old value) under set[token] ∧ ¬seen[token], with seen[token]=true recorded; the attribute appended when none was found is {sandbox, \"\"}")
	R.Rule("C12.R4", "last writer wins: after the crossorigin block only the sandbox block writes attribute values or appends attributes, and after the sandbox block nothing does")
	R.Rule("C12.R8", "every pass over the attribute list is one the rules know: each loop of sanitizeAttrs that builds or edits an attribute list tests an attribute key against one of the constants the sanitiser handles or looks the key up in a rule table; and the list is never re-sliced — a cap, a de-duplication or a re-ordering added after the forced attributes were put in can take them out again")
	attributePassesKnown(c, "C12.R8", "what the forced-attribute rules established (crossorigin, sandbox present on every element that leaves) can be undone after the fact")
	R.Rule("C12.R7", "the helper bundle AllowIFrames(vals...) installs the sandbox requirement on every path: each return is dominated by RequireSandboxOnIFrame(vals...)")
	allowIFramesRequiresSandbox(c, "C12.R7")
	R.Rule("C12.R6", "options survive lazy initialisation: an existing Policy is only ever updated field by field — no function stores a whole Policy value through a pointer it did not allocate (a `*p = Policy{…}` in init would reset every option set before)")
	optionsSurviveInit(c, "C12.R6", "RequireCrossOriginAnonymous / RequireSandboxOnIFrame set before the first rule are lost and the forced attributes are not emitted")
	R.Rule("C12.R5", "RequireSandboxOnIFrame installs a fresh set and has a case for each of the SandboxValue constants storing the kebab-case spelling of its name (SandboxAllowTopNavigation → allow-top-navigation)")
	R.Assume(TrustGo, "strings.Fields / strings.Join contracts")
	F := model.FindFields(c.P)
	fn := c.P.Func(load.ModPath, "(*Policy).sanitizeAttrs")
	if fn == nil || len(fn.Params) != 4 {
		R.Unknown("C12.R1", "sanitizeAttrs", "(*Policy).sanitizeAttrs", "", "not found")
		return
	}
	for _, e := range crossOriginElems {
		c12Forced(c, F, fn, e, "crossorigin", "anonymous")
	}
	c12Forced(c, F, fn, "iframe", "sandbox", "")
	c12Sandbox(c, F, fn)
	c12LastWriter(c, F, fn)
	c12Enum(c, F)
}

// c12Forced: with elementName bound to elem, the forced attribute exists at return.
func c12Forced(c *Ctx, F *model.Fields, fn *ssa.Function, elem, key, constVal string) {
	R := c.R
	A := model.NewAnalysis(fn)
	A.BindConst(fn.Params[1], elem)
	translateAll(A)
	recv := fn.Params[0]
	var flag *pa.F
	if key == "crossorigin" {
		flag = A.Lit(recv.Name() + "." + F.Get("requireCrossOriginAnonymous"))
	} else {
		flag = pa.Not(A.Lit("(" + recv.Name() + "." + F.Get("requireSandboxOnIFrame") + " == nil)"))
	}
	loop, keyAtom := keyLoop(A, fn, key)
	okey := elem + ":" + key
	cons := fmt.Sprintf("(*Policy).sanitizeAttrs[elementName=%s]: forced attribute %s", elem, key)
	if loop == nil {
		R.Unknown("C12.R1", okey, cons, "", "loop testing Key == \""+key+"\" not found (anchor lost)")
		return
	}
	pos := c.P.Pos(lastPos(loop.Header))
	evHave := A.EventVar("forced-attribute-present")
	evStored := A.EventVar("value-stored-this-iteration")
	track := []int{evHave, evStored, keyAtom}
	m := map[int]bool{}
	flag.Atoms(m)
	for k := range m {
		track = append(track, k)
	}
	// "emitted with attributes": the emptiness test of the attribute list that guards the block
	var guards []int
	for d := loop.Header.Idom(); d != nil; d = d.Idom() {
		ifi, ok := d.Instrs[len(d.Instrs)-1].(*ssa.If)
		if !ok {
			continue
		}
		gm := map[int]bool{}
		A.Cond(ifi.Cond).Atoms(gm)
		for k := range gm {
			at := A.Atoms[k]
			if at.Kind == "len0" && strings.Contains(at.X.Type().String(), "html.Attribute") {
				guards = append(guards, k)
			}
		}
		if len(guards) > 0 {
			break
		}
	}
	track = append(track, guards...)
	nonEmpty := pa.Not(orAtoms(guards))
	// returns that do not come after the block (early exits) must be returns of a list known to be empty
	emptyRet := map[*ssa.Return][]int{}
	for _, b := range fn.Blocks {
		ret, ok := b.Instrs[len(b.Instrs)-1].(*ssa.Return)
		if !ok || len(ret.Results) != 1 {
			continue
		}
		for ai, at := range A.Atoms {
			if at.Kind == "len0" && at.Resolve(at.X) == ret.Results[0] {
				emptyRet[ret] = append(emptyRet[ret], ai)
				track = append(track, ai)
			}
		}
	}
	A.PhiFilter = func(ph *ssa.Phi) bool { return loop.Blocks[ph.Block()] || loop.Header.Dominates(ph.Block()) }
	q, err := A.NewQuery(track)
	if err != nil {
		R.Unknown("C12.R1", okey, cons, pos, err.Error())
		return
	}
	// stores into <ranged slice>[i].Val inside the loop; synthesised attribute appends after it
	nStore := 0
	for _, b := range fn.Blocks {
		for _, in := range b.Instrs {
			switch x := in.(type) {
			case *ssa.Store:
				fa, ok := x.Addr.(*ssa.FieldAddr)
				if !ok || pa.FieldName(fa) != "Val" {
					continue
				}
				ia, ok := fa.X.(*ssa.IndexAddr)
				if !ok || !loop.Blocks[b] {
					continue
				}
				nStore++
				sameElem := ia.X == loop.Over && ia.Index == loopIndexInc(loop)
				valOK := true
				if key == "crossorigin" {
					k, isC := constString(x.Val)
					valOK = isC && k == constVal
				}
				R.Check(sameElem && valOK, "C12.R2", okey+":store", cons+": store into the attribute's Val", c.P.Pos(x.Pos()), "stores into the element being visited"+map[bool]string{true: " the constant \"" + constVal + "\"", false: ""}[key == "crossorigin"], "the forced value is stored into another element, or is not the required constant")
				if sameElem && valOK {
					q.Hooks[in] = func(a uint32) []uint32 { return []uint32{q.With(q.With(a, evHave, true), evStored, true)} }
				}
			case *ssa.Call:
				if ac, _ := model.IsAppend(x); ac == nil {
					continue
				}
				v := model.AppendedValue(x)
				al := model.LoadOfAlloc(v)
				if al == nil || len(model.WholeStoresTo(al)) > 0 {
					continue
				}
				ks := model.FieldStoresTo(al, "Key")
				vs := model.FieldStoresTo(al, "Val")
				if len(ks) != 1 {
					continue
				}
				if k, _ := constString(ks[0].Val); k != key {
					continue
				}
				okV := len(vs) == 1
				if okV {
					k, isC := constString(vs[0].Val)
					okV = isC && k == constVal
				}
				R.Check(okV, "C12.R2", okey+":append", cons+": appended when none was found", c.P.Pos(x.Pos()), fmt.Sprintf("{%s, %q}", key, constVal), "the synthesised attribute does not carry the required constant value")
				if okV {
					q.Hooks[in] = func(a uint32) []uint32 { return []uint32{q.With(a, evHave, true)} }
				}
			}
		}
	}
	q.EdgeHook = func(b *ssa.BasicBlock, k int) func(uint32) []uint32 {
		if b.Succs[k] == loop.Header && loop.Blocks[b] { // new iteration
			return func(a uint32) []uint32 { return []uint32{q.With(a, evStored, false)} }
		}
		return nil
	}
	q.Run(fn.Blocks[0], q.InitWith(map[int]bool{evHave: false, evStored: false}))
	// no early exit
	if ok, from := loopExitsOnlyAtHeader(loop); !ok {
		R.Fail("C12.R2", okey+":all-visited", cons+": loop over the attribute list", c.P.Pos(lastPos(from)), "the loop can stop before all attributes were visited: a later duplicate "+key+" attribute keeps its supplied value")
	} else {
		R.OK("C12.R2", okey+":all-visited", cons+": loop over the attribute list", pos, "only exit is exhaustion of the list")
	}
	// per iteration: key matched => stored
	for _, b := range sortedBlocks(loop.Blocks) {
		for k, s := range b.Succs {
			if s != loop.Header || b == loop.Header {
				continue
			}
			st := q.EdgeState(b, k)
			if st == nil || pa.Empty(st) {
				continue
			}
			ok1, cex := q.Holds(st, pa.Implies(pa.AtomF(keyAtom), pa.AtomF(evStored)))
			R.Check(ok1, "C12.R2", okey+":iter:"+blockRoleA(A, b), cons+": iteration end", c.P.Pos(lastPos(b)), "an attribute with this key always has its value replaced", "an attribute with key "+key+" can keep its supplied value: ["+cex+"]")
		}
	}
	// at returns after the loop: flag => have
	n := 0
	for _, b := range fn.Blocks {
		ret, ok := b.Instrs[len(b.Instrs)-1].(*ssa.Return)
		if !ok {
			continue
		}
		st := q.StateAt(ret)
		if st == nil {
			continue
		}
		n++
		ne := nonEmpty
		if !reaches(loop.Exit, b) {
			// an exit before the block: allowed only with a list known to be empty
			ne = pa.True
			if len(emptyRet[ret]) > 0 {
				ne = pa.Not(orAtoms(emptyRet[ret]))
			}
		}
		ok1, cex := q.Holds(st, pa.Implies(pa.And(flag, ne), pa.AtomF(evHave)))
		R.Check(ok1, "C12.R1", fmt.Sprintf("%s:return#%d", okey, n), cons, c.P.Pos(ret.Pos()), "present whenever the option is on", "the function can return a non-empty attribute list for <"+elem+"> without the forced "+key+" attribute although the option is on: ["+cex+"]")
	}
	R.Role("C12.R1", "returns after the "+key+" block for "+elem, n, 1)
	R.Role("C12.R2", "stores of the forced value for "+okey, nStore, 1)
}

func reaches(from, to *ssa.BasicBlock) bool {
	seen := map[*ssa.BasicBlock]bool{}
	stack := []*ssa.BasicBlock{from}
	for len(stack) > 0 {
		b := stack[len(stack)-1]
		stack = stack[:len(stack)-1]
		if seen[b] {
			continue
		}
		seen[b] = true
		if b == to {
			return true
		}
		stack = append(stack, b.Succs...)
	}
	return false
}

func c12Sandbox(c *Ctx, F *model.Fields, fn *ssa.Function) {
	R := c.R
	A := model.NewAnalysis(fn)
	translateAll(A)
	loop, _ := keyLoop(A, fn, "sandbox")
	if loop == nil {
		R.Unknown("C12.R3", "sandbox-loop", "(*Policy).sanitizeAttrs: sandbox loop", "", "not found")
		return
	}
	cons := "(*Policy).sanitizeAttrs: sandbox value filter"
	// the store of the new value
	var store *ssa.Store
	for _, b := range sortedBlocks(loop.Blocks) {
		for _, in := range b.Instrs {
			if st, ok := in.(*ssa.Store); ok {
				if fa, ok := st.Addr.(*ssa.FieldAddr); ok && pa.FieldName(fa) == "Val" {
					if _, ok := fa.X.(*ssa.IndexAddr); ok {
						store = st
					}
				}
			}
		}
	}
	if store == nil {
		R.Fail("C12.R3", "store", cons, c.P.Pos(lastPos(loop.Header)), "the sandbox attribute's value is never replaced")
		return
	}
	pos := c.P.Pos(store.Pos())
	j := isCallTo(store.Val, "strings.Join")
	sep := ""
	if j != nil {
		sep, _ = constString(j.Common().Args[1])
	}
	if j == nil || sep != " " {
		R.Fail("C12.R3", "store", cons, pos, "the new value is not strings.Join(kept, \" \") but "+A.Sym.Of(store.Val))
		return
	}
	kept := j.Common().Args[0]
	// kept is a phi tree over appends of the inner loop's element
	var inner *model.RangeLoop
	for _, l := range model.SliceRangeLoops(fn) {
		if l != loop && loop.Blocks[l.Header] {
			if f := isCallTo(l.Over, "strings.Fields"); f != nil {
				inner = l
			}
		}
	}
	if inner == nil {
		R.Fail("C12.R3", "tokens", cons, pos, "the tokens are not taken from strings.Fields of the supplied value")
		return
	}
	fields := isCallTo(inner.Over, "strings.Fields")
	// Fields argument must be the Val of the attribute being visited
	srcOK := false
	if u, ok := fields.Common().Args[0].(*ssa.UnOp); ok {
		if fa, ok := u.X.(*ssa.FieldAddr); ok && pa.FieldName(fa) == "Val" {
			srcOK = true
		}
	}
	if !srcOK {
		s := A.Sym.Of(fields.Common().Args[0])
		srcOK = strings.HasSuffix(s, ".Val")
	}
	R.Check(srcOK, "C12.R3", "tokens", cons+": token source", c.P.Pos(fields.Pos()), "strings.Fields(<attribute>.Val)", "tokens come from "+A.Sym.Of(fields.Common().Args[0]))
	// appends to kept inside the inner loop
	elemSym := ""
	for _, b := range sortedBlocks(inner.Blocks) {
		for _, in := range b.Instrs {
			if u, ok := in.(*ssa.UnOp); ok && u.Op == token.MUL {
				if ia, ok := u.X.(*ssa.IndexAddr); ok && ia.X == inner.Over {
					elemSym = A.Sym.Of(u)
				}
			}
		}
	}
	setT := fn.Params[0].Name() + "." + F.Get("requireSandboxOnIFrame")
	allowA := A.AtomIndex("lookup(" + setT + "," + elemSym + ")")
	var seenA = -1
	var seenMap ssa.Value
	for i, at := range A.Atoms {
		if strings.HasPrefix(at.Key, "lookup(") && strings.HasSuffix(at.Key, ","+elemSym+")") && i != allowA {
			if lk, ok := at.X.(*ssa.Lookup); ok {
				if _, isMk := lk.X.(*ssa.MakeMap); isMk {
					seenA, seenMap = i, lk.X
				}
			}
		}
	}
	if allowA < 0 || seenA < 0 {
		R.Fail("C12.R3", "guards", cons, pos, fmt.Sprintf("expected tests set[token] and seen[token] on the Fields element not found (set: %v, seen: %v)", allowA >= 0, seenA >= 0))
		return
	}
	evSeen := A.EventVar("seen-recorded")
	q, err := A.NewQuery([]int{allowA, seenA, evSeen})
	if err != nil {
		R.Unknown("C12.R3", "query", cons, pos, err.Error())
		return
	}
	q.Barrier[inner.Header] = true
	for _, b := range sortedBlocks(inner.Blocks) {
		for _, in := range b.Instrs {
			if mu, ok := in.(*ssa.MapUpdate); ok && mu.Map == seenMap && A.Sym.Of(mu.Key) == elemSym && model.IsTrue(mu.Value) {
				q.Hooks[in] = func(a uint32) []uint32 { return []uint32{q.With(a, evSeen, true)} }
			}
		}
	}
	q.Run(inner.Body, q.InitWith(map[int]bool{evSeen: false}))
	nApp := 0
	tree := map[ssa.Value]bool{kept: true}
	if ph, ok := kept.(*ssa.Phi); ok {
		var walk func(p *ssa.Phi)
		walk = func(p *ssa.Phi) {
			for _, e := range p.Edges {
				if !tree[e] {
					tree[e] = true
					if p2, ok := e.(*ssa.Phi); ok {
						walk(p2)
					}
				}
			}
		}
		walk(ph)
	}
	for _, b := range sortedBlocks(loop.Blocks) {
		for _, in := range b.Instrs {
			cl, ok := in.(*ssa.Call)
			if !ok || !tree[cl] {
				continue
			}
			if ac, _ := model.IsAppend(cl); ac == nil {
				continue
			}
			nApp++
			v := model.AppendedValue(cl)
			okV := v != nil && A.Sym.Of(v) == elemSym && inner.Blocks[b]
			st := q.StateAt(cl)
			ok1, cex := false, "append outside the token loop"
			if st != nil {
				ok1, cex = q.Holds(st, pa.And(pa.AtomF(allowA), pa.Not(pa.AtomF(seenA))))
			}
			R.Check(okV && ok1, "C12.R3", fmt.Sprintf("keep#%d", nApp), cons+": token kept", c.P.Pos(cl.Pos()), "the Fields element, under set[token] ∧ ¬seen[token]", "a token can be kept although it is not in the policy's set or was already kept: ["+cex+"]")
		}
	}
	R.Role("C12.R3", "appends to the kept-token list", nApp, 1)
	// seen recorded on every path that keeps a token: at inner back edges, (allow ∧ ¬seen_at_entry) ⇒ recorded is implied by hook order; check at back edges
	for _, b := range sortedBlocks(inner.Blocks) {
		for k, s := range b.Succs {
			if s != inner.Header || b == inner.Header {
				continue
			}
			st := q.EdgeState(b, k)
			if st == nil || pa.Empty(st) {
				continue
			}
			ok1, cex := q.Holds(st, pa.Implies(pa.And(pa.AtomF(allowA), pa.Not(pa.AtomF(seenA))), pa.AtomF(evSeen)))
			R.Check(ok1, "C12.R3", "seen:"+blockRoleA(A, b), cons+": duplicate bookkeeping", c.P.Pos(lastPos(b)), "a kept token is recorded as seen", "a kept token may not be recorded as seen (duplicates would survive): ["+cex+"]")
		}
	}
	if ok, from := loopExitsOnlyAtHeader(loop); !ok {
		R.Fail("C12.R3", "all-visited", cons+": loop over the attribute list", c.P.Pos(lastPos(from)), "the loop can stop before all attributes were visited: a later duplicate sandbox attribute keeps its supplied tokens")
	}
	if ok, from := loopExitsOnlyAtHeader(inner); !ok {
		R.Fail("C12.R3", "all-tokens", cons+": loop over the tokens", c.P.Pos(lastPos(from)), "the token loop can stop early")
	}
}

func c12LastWriter(c *Ctx, F *model.Fields, fn *ssa.Function) {
	R := c.R
	A := model.NewAnalysis(fn)
	translateAll(A)
	co, _ := keyLoop(A, fn, "crossorigin")
	sb, _ := keyLoop(A, fn, "sandbox")
	if co == nil || sb == nil {
		return
	}
	isWrite := func(in ssa.Instruction) (bool, string) {
		switch x := in.(type) {
		case *ssa.Store:
			if fa, ok := x.Addr.(*ssa.FieldAddr); ok && pa.FieldName(fa) == "Val" {
				if _, ok := fa.X.(*ssa.IndexAddr); ok {
					return true, "store to an attribute's Val"
				}
			}
		case *ssa.Call:
			if ac, _ := model.IsAppend(x); ac != nil {
				if v := model.AppendedValue(x); v != nil && model.IsAttrType(v.Type()) {
					return true, "append of an attribute"
				}
			}
		}
		return false, ""
	}
	// region after crossorigin loop exit
	after := func(start *ssa.BasicBlock) map[*ssa.BasicBlock]bool {
		seen := map[*ssa.BasicBlock]bool{}
		stack := []*ssa.BasicBlock{start}
		for len(stack) > 0 {
			b := stack[len(stack)-1]
			stack = stack[:len(stack)-1]
			if seen[b] {
				continue
			}
			seen[b] = true
			stack = append(stack, b.Succs...)
		}
		return seen
	}
	// everything reachable after the sandbox block's own writes: blocks reachable from sb.Exit that are not in sb and not the sandbox not-found append
	bad := 0
	sbRegion := after(sb.Header)
	for _, b := range sortedBlocks(after(co.Exit)) {
		for _, in := range b.Instrs {
			w, what := isWrite(in)
			if !w || co.Blocks[b] {
				continue
			}
			// allowed: crossorigin's own not-found append, and anything of the sandbox block
			if cl, ok := in.(*ssa.Call); ok {
				if al := model.LoadOfAlloc(model.AppendedValue(cl)); al != nil {
					ks := model.FieldStoresTo(al, "Key")
					if len(ks) == 1 {
						if k, _ := constString(ks[0].Val); k == "crossorigin" || k == "sandbox" {
							continue
						}
					}
				}
			}
			if sb.Blocks[b] {
				continue
			}
			_ = sbRegion
			bad++
			R.Fail("C12.R4", "late-write:"+what, "(*Policy).sanitizeAttrs: "+what+" after the forced-attribute blocks", c.P.Pos(in.Pos()), "an attribute is written after crossorigin/sandbox were forced: the forced value may be overwritten or a second attribute appended")
		}
	}
	if bad == 0 {
		R.OK("C12.R4", "last-writers", "(*Policy).sanitizeAttrs: effects after the crossorigin block", c.P.Pos(lastPos(co.Exit)), "only the sandbox block's own writes follow")
	}
}

func kebab(name string) string {
	name = strings.TrimPrefix(name, "Sandbox")
	var sb strings.Builder
	for i, r := range name {
		if unicode.IsUpper(r) {
			if i > 0 {
				sb.WriteByte('-')
			}
			sb.WriteRune(unicode.ToLower(r))
		} else {
			sb.WriteRune(r)
		}
	}
	return sb.String()
}

func c12Enum(c *Ctx, F *model.Fields) {
	R := c.R
	fn := c.P.Func(load.ModPath, "(*Policy).RequireSandboxOnIFrame")
	if fn == nil {
		R.Unknown("C12.R5", "RequireSandboxOnIFrame", "(*Policy).RequireSandboxOnIFrame", "", "not found")
		return
	}
	// constants of type SandboxValue
	consts := map[int64]string{}
	scope := c.P.Main.Types.Scope()
	for _, n := range scope.Names() {
		if k, ok := scope.Lookup(n).(*types.Const); ok {
			if nt, ok := k.Type().(*types.Named); ok && nt.Obj().Name() == "SandboxValue" {
				v, _ := constant.Int64Val(k.Val())
				consts[v] = n
			}
		}
	}
	A := model.NewAnalysis(fn)
	translateAll(A)
	setField := F.Get("requireSandboxOnIFrame")
	// fresh make
	fresh := false
	for _, in := range fn.Blocks[0].Instrs {
		if st, ok := in.(*ssa.Store); ok && model.PolicyField(st.Addr) == setField {
			if _, ok := st.Val.(*ssa.MakeMap); ok {
				fresh = true
			}
		}
	}
	R.Check(fresh, "C12.R5", "fresh-set", "(*Policy).RequireSandboxOnIFrame: the set is replaced", c.P.Pos(fn.Pos()), "a freshly made map is stored first", "the previous set is extended rather than replaced (or no set is installed)")
	got := map[int64]string{}
	for _, b := range fn.Blocks {
		for _, in := range b.Instrs {
			mu, ok := in.(*ssa.MapUpdate)
			if !ok || model.LoadedPolicyField(mu.Map) != setField {
				continue
			}
			// table form: set[tokens[v]] = true, tokens being a constant package-level map from SandboxValue to the token
			if tbl := constTableOf(mu.Key); tbl != nil && model.IsTrue(mu.Value) {
				for k, tok := range tbl {
					if n, err := strconv.ParseInt(k, 10, 64); err == nil {
						if t, err := strconv.Unquote(tok); err == nil {
							got[n] = t
						}
					}
				}
				continue
			}
			key, isC := constString(mu.Key)
			if !isC || !model.IsTrue(mu.Value) {
				R.Fail("C12.R5", "update:"+A.Sym.Of(mu.Key), "(*Policy).RequireSandboxOnIFrame: set update", c.P.Pos(mu.Pos()), "non-constant token or value other than true")
				continue
			}
			// which constant leads here: the unique predecessor's If
			if len(b.Preds) == 1 {
				if ifi, ok := b.Preds[0].Instrs[len(b.Preds[0].Instrs)-1].(*ssa.If); ok && b.Preds[0].Succs[0] == b {
					if bo, ok := ifi.Cond.(*ssa.BinOp); ok && bo.Op == token.EQL {
						if k, ok := bo.Y.(*ssa.Const); ok {
							got[k.Int64()] = key
						}
					}
				}
			}
		}
	}
	var vals []int64
	for v := range consts {
		vals = append(vals, v)
	}
	sort.Slice(vals, func(i, j int) bool { return vals[i] < vals[j] })
	for _, v := range vals {
		name := consts[v]
		want := kebab(name)
		g, ok := got[v]
		switch {
		case !ok:
			R.Fail("C12.R5", "case:"+name, "(*Policy).RequireSandboxOnIFrame: case "+name, c.P.Pos(fn.Pos()), "no case stores a token for this constant: the value is silently ignored")
		case g != want:
			R.Fail("C12.R5", "case:"+name, "(*Policy).RequireSandboxOnIFrame: case "+name, c.P.Pos(fn.Pos()), fmt.Sprintf("stores %q, expected %q", g, want))
		default:
			R.OK("C12.R5", "case:"+name, "(*Policy).RequireSandboxOnIFrame: case "+name, c.P.Pos(fn.Pos()), "stores "+want)
		}
	}
	R.Role("C12.R5", "SandboxValue constants", len(vals), 14)
}

// constTableOf: v is the value found by a lookup in a constant package-level map (pa.ConstMaps); returns that map.
func constTableOf(v ssa.Value) map[string]string {
	var lk *ssa.Lookup
	switch x := v.(type) {
	case *ssa.Extract:
		if x.Index == 0 {
			lk, _ = x.Tuple.(*ssa.Lookup)
		}
	case *ssa.Lookup:
		lk = x
	}
	if lk == nil {
		return nil
	}
	u, ok := lk.X.(*ssa.UnOp)
	if !ok {
		return nil
	}
	g, ok := u.X.(*ssa.Global)
	if !ok {
		return nil
	}
	return pa.ConstMaps[g]
}

package rules

import (
	"fmt"
	"go/token"
	"regexp"
	"strings"

	"golang.org/x/tools/go/ssa"

	"verif/tools/load"
	"verif/tools/model"
	"verif/tools/pa"
	"verif/tools/pats"
	"verif/tools/relang"
)

func init() { register("C02", "other", runC02) }

func runC02(c *Ctx) {
	R := c.R
	R.Rule("C02.R1", "admission: in the filter loop over the incoming attributes, the range element is appended to the kept list only under: allowDataAttributes ∧ isDataAttribute(key); or key==\"style\" routed through sanitizeStyles with a non-empty result; or mapok(aps, key) ∧ (rule.regexp==nil ∨ rule.regexp.MatchString(value)) for a rule of aps[key]; or the same over globalAttrs[key] — key and value being those of the very element appended")
	R.Rule("C02.R2", "value patterns are judged before any rewriting: the filter loop contains no validURL call and no store to an attribute's Val")
	R.Rule("C02.R3", "every attribute appended anywhere in sanitizeAttrs is a range element of an earlier attribute list (possibly with its Val rewritten) or a synthesised attribute whose Key is one of the constants rel, target, crossorigin, sandbox")
	R.Rule("C02.R4", "bare elements: in the StartTag and SelfClosingTag arms a tag is written only if an attribute survived or allowNoAttrs(token.Data); allowNoAttrs returns true only across a lookup in the bare-element set or a MatchString of a registered bare-element pattern on its argument")
	R.Rule("C02.R5", "argument provenance: sanitizeAttrs is called with (token.Data, token.Attr, rules) where rules is the value found in elsAndAttrs[token.Data] or returned by matchRegex(token.Data), and its result is stored back into token.Attr")
	R.Rule("C02.R7", "each incoming attribute is kept at most once: no path through one iteration of the filter loop appends twice")
	R.Rule("C02.R12", "patterns as registered: outside package initialisers every store into a *regexp.Regexp field of a builder or rule stores a parameter, nil or a copy of such a field — never the result of a call (a pattern merged, re-compiled or simplified by the library accepts other values than the one the caller wrote)")
	patternsAsRegistered(c, "C02.R12")
	R.Rule("C02.R11", "bare permission only on request: outside init() every update of the bare-element set / pattern list is under the true edge of the builder's own boolean flag; the flag is only ever stored a constant; the functions storing true (AllowNoAttrs) are not called from within the library")
	barePermissionOnRequest(c, "C02.R11")
	R.Rule("C02.R10", "a policy's set of elements allowed without attributes is its own (= C17.R4, cited): the map installed in that field is freshly made by the storing function — a default table shared between policies would let AllowNoAttrs() on one policy allow bare elements in all of them")
	if F10 := model.FindFields(c.P); F10 != nil {
		bare := F10.Get("bareSet")
		freshTables(c, "C02.R10", func(f string) bool { return f == bare }, 1)
	}
	R.Rule("C02.R9", "the rules merged for one tag are that tag's own (= C01.R3, cited): matchRegex returns a map allocated by the call — merging pattern rules into a map taken from the policy would attach one pattern's attribute rules to other elements for the rest of the policy's life")
	if mr := c.P.Func(load.ModPath, "(*Policy).matchRegex"); mr != nil {
		if sc9 := newSC(c, "C02.R9"); sc9 != nil {
			R.Cite(map[string]string{"C01.R3": "C02.R9"}, func() { c01ReturnedMap(c, sc9, mr) })
		}
	}
	R.Rule("C02.R8", "no two keys of a rule table share one mutable entry: every map stored as a table entry is created by a make that is stored by exactly that one update and lies inside every loop containing the update")
	sharedEntryRule(c, "C02.R8", attrTables, "an attribute rule registered later for one element is applied to the others too")
	R.Rule("C02.R6", "isDataAttribute accepts only data-<non-empty>, without upper-case letters or ';', not starting with xml (exact language computation on the three regexps and the Split segmentation)")
	R.Assume(TrustGo, TrustTokenizer, TrustRegexp, "quality of user-supplied value patterns is out of scope; duplicated attributes / exotic attribute-name bytes as re-read by a parser are not decided")
	F := model.FindFields(c.P)
	fn := c.P.Func(load.ModPath, "(*Policy).sanitizeAttrs")
	if fn == nil || len(fn.Params) != 4 {
		R.Unknown("C02.R1", "sanitizeAttrs", "(*Policy).sanitizeAttrs", "", "function not found / unexpected signature")
		return
	}
	A := model.NewAnalysis(fn)
	translateAll(A)
	recv, attrsP, apsP := fn.Params[0], fn.Params[2], fn.Params[3]
	var loop *model.RangeLoop
	for _, l := range model.SliceRangeLoops(fn) {
		if l.Over == ssa.Value(attrsP) {
			loop = l
		}
	}
	if loop == nil {
		R.Unknown("C02.R1", "filter-loop", "(*Policy).sanitizeAttrs: range over the incoming attributes", "", "loop not found (anchor lost)")
		return
	}
	elemSym := ""
	for _, b := range sortedBlocks(loop.Blocks) {
		for _, in := range b.Instrs {
			if u, ok := in.(*ssa.UnOp); ok && u.Op == token.MUL {
				if ia, ok := u.X.(*ssa.IndexAddr); ok && ia.X == ssa.Value(attrsP) {
					elemSym = A.Sym.Of(u)
				}
			}
		}
	}
	if elemSym == "" {
		R.Unknown("C02.R1", "filter-elem", "(*Policy).sanitizeAttrs filter loop", "", "range element not recognised")
		return
	}
	keySym, valSym := elemSym+".Key", elemSym+".Val"
	DA := A.Lit(recv.Name() + "." + F.Get("allowDataAttributes"))
	// isDataAttribute(key)
	var dataF *pa.F = pa.False
	ida := c.P.Func(load.ModPath, "isDataAttribute")
	for _, b := range sortedBlocks(loop.Blocks) {
		for _, in := range b.Instrs {
			if cl, ok := in.(*ssa.Call); ok && ida != nil && cl.Common().StaticCallee() == ida && A.Sym.Of(cl.Common().Args[0]) == keySym {
				dataF = A.Cond(cl)
			}
		}
	}
	ruleGoal := func(table string) *pa.F {
		// the rule list for this key: found by a comma-ok lookup (then the ok flag is part of the condition) or by a
		// plain lookup (a missing key yields an empty list, which admits nothing)
		var goals []*pa.F
		for _, form := range []struct {
			pfx    string
			needOK bool
		}{{"lookup(" + table + "," + keySym + ")#0[", true}, {"lookup(" + table + "," + keySym + ")[", false}} {
			var alts []*pa.F
			for i, at := range A.Atoms {
				k := at.Key
				if strings.HasPrefix(k, "("+form.pfx) && strings.HasSuffix(k, "].regexp == nil)") {
					P := k[1 : len(k)-len(".regexp == nil)")]
					alts = append(alts, pa.AtomF(i))
					ms := A.AtomIndex("(*regexp.Regexp).MatchString(" + P + ".regexp," + valSym + ")")
					if ms >= 0 {
						alts = append(alts, pa.AtomF(ms))
					}
				}
			}
			if len(alts) == 0 {
				continue
			}
			if form.needOK {
				mk := A.AtomIndex("mapok(" + table + "," + keySym + ")")
				if mk < 0 {
					continue
				}
				goals = append(goals, pa.And(pa.AtomF(mk), pa.Or(alts...)))
			} else {
				goals = append(goals, pa.Or(alts...))
			}
		}
		return pa.Or(goals...)
	}
	apsGoal := ruleGoal(apsP.Name())
	globGoal := ruleGoal(recv.Name() + "." + F.Get("globalAttrs"))
	styleKey := A.AtomIndex("(" + keySym + " == \"style\")")
	ss := c.P.Func(load.ModPath, "(*Policy).sanitizeStyles")
	styleSymPrefix := ""
	if ss != nil {
		styleSymPrefix = pa.CalleeName(ss) + "(" + recv.Name() + "," + elemSym + ","
	}
	wholeGoal := pa.Or(pa.And(DA, dataF), apsGoal, globGoal)
	var trackFs = []*pa.F{wholeGoal}
	if styleKey >= 0 {
		trackFs = append(trackFs, pa.AtomF(styleKey))
	}
	for i, at := range A.Atoms {
		if strings.HasPrefix(at.Key, "("+styleSymPrefix) && strings.HasSuffix(at.Key, ".Val == \"\")") {
			trackFs = append(trackFs, pa.AtomF(i))
		}
	}
	tm := map[int]bool{}
	for _, f := range trackFs {
		f.Atoms(tm)
	}
	var tl []int
	for k := range tm {
		tl = append(tl, k)
	}
	q, err := A.NewQuery(tl)
	if err != nil {
		R.Unknown("C02.R1", "filter-query", "(*Policy).sanitizeAttrs filter loop", "", err.Error())
		return
	}
	q.Barrier[loop.Header] = true
	q.Run(loop.Body, nil)
	nApp := map[string]int{}
	for _, b := range sortedBlocks(loop.Blocks) {
		for _, in := range b.Instrs {
			cl, ok := in.(*ssa.Call)
			if !ok {
				continue
			}
			if ac, _ := model.IsAppend(cl); ac == nil {
				continue
			}
			v := model.AppendedValue(cl)
			if v == nil || !model.IsAttrType(v.Type()) {
				continue
			}
			vs := A.Sym.Of(v)
			st := q.StateAt(cl)
			pos := c.P.Pos(cl.Pos())
			if st == nil {
				continue
			}
			switch {
			case vs == elemSym:
				nApp["whole"]++
				key := fmt.Sprintf("append:elem#%d", nApp["whole"])
				ok1, cex := q.Holds(st, wholeGoal)
				R.Check(ok1, "C02.R1", key, "(*Policy).sanitizeAttrs filter loop: append of the range element", pos, "admitted by a data-attribute / element-rule / global-rule edge on its own key and value", "an attribute can be kept although no rule admitted its key and value: ["+cex+"]")
			case styleSymPrefix != "" && strings.HasPrefix(vs, styleSymPrefix):
				nApp["style"]++
				key := fmt.Sprintf("append:style#%d", nApp["style"])
				empty := A.AtomIndex("(" + vs + ".Val == \"\")")
				goal := pa.False
				if styleKey >= 0 && empty >= 0 {
					goal = pa.And(pa.AtomF(styleKey), pa.Not(pa.AtomF(empty)))
				}
				ok1, cex := q.Holds(st, goal)
				R.Check(ok1, "C02.R1", key, "(*Policy).sanitizeAttrs filter loop: append of sanitizeStyles' result", pos, "only for key==style and a non-empty sanitised value", "the sanitised style attribute is kept outside its condition: ["+cex+"]")
			default:
				nApp["other"]++
				R.Fail("C02.R1", fmt.Sprintf("append:other#%d", nApp["other"]), "(*Policy).sanitizeAttrs filter loop: append of "+vs, pos, "an attribute value other than the range element or sanitizeStyles' result is kept")
			}
		}
	}
	R.Role("C02.R1", "appends of the range element in the filter loop", nApp["whole"], 3)
	R.Analysed["filter_loop"] = map[string]any{"blocks": len(loop.Blocks), "elem": elemSym, "appends": nApp}

	// R2
	vu := c.P.Func(load.ModPath, "(*Policy).validURL")
	bad := 0
	for _, b := range sortedBlocks(loop.Blocks) {
		for _, in := range b.Instrs {
			switch x := in.(type) {
			case *ssa.Call:
				if vu != nil && x.Common().StaticCallee() == vu {
					bad++
					R.Fail("C02.R2", "validURL-in-filter", "(*Policy).sanitizeAttrs filter loop: call of validURL", c.P.Pos(x.Pos()), "URL normalisation happens before/while value patterns are judged")
				}
			case *ssa.Store:
				if fa, ok := x.Addr.(*ssa.FieldAddr); ok && pa.FieldName(fa) == "Val" {
					bad++
					R.Fail("C02.R2", "val-store-in-filter", "(*Policy).sanitizeAttrs filter loop: store to an attribute's Val", c.P.Pos(x.Pos()), "an attribute value is rewritten before value patterns are judged")
				}
			}
		}
	}
	if bad == 0 {
		R.OK("C02.R2", "filter-loop-pure", fmt.Sprintf("(*Policy).sanitizeAttrs filter loop (%d blocks)", len(loop.Blocks)), c.P.Pos(lastPos(loop.Header)), "no validURL call and no Val store inside the loop")
	}

	// R3
	synthKeys := map[string]bool{"rel": true, "target": true, "crossorigin": true, "sandbox": true}
	nSynth, nRange := 0, 0
	seenAl := map[*ssa.Alloc]bool{}
	for _, b := range fn.Blocks {
		for _, in := range b.Instrs {
			cl, ok := in.(*ssa.Call)
			if !ok {
				continue
			}
			if ac, _ := model.IsAppend(cl); ac == nil {
				continue
			}
			v := model.AppendedValue(cl)
			if v == nil || !model.IsAttrType(v.Type()) {
				continue
			}
			al := model.LoadOfAlloc(v)
			if al == nil {
				R.Fail("C02.R3", "append:"+A.Sym.Of(v), "(*Policy).sanitizeAttrs: append of "+A.Sym.Of(v), c.P.Pos(cl.Pos()), "appended attribute is not a local copy of a range element nor a synthesised local")
				continue
			}
			if seenAl[al] {
				continue
			}
			seenAl[al] = true
			ws := model.WholeStoresTo(al)
			if len(ws) == 0 {
				nSynth++
				ks := model.FieldStoresTo(al, "Key")
				okK := len(ks) > 0
				name := ""
				for _, s := range ks {
					k, isC := constString(s.Val)
					if !isC || !synthKeys[k] {
						okK = false
					}
					name = k
				}
				R.Check(okK, "C02.R3", "synth:"+name, "(*Policy).sanitizeAttrs: synthesised attribute "+al.Comment, c.P.Pos(al.Pos()), "constant key "+name, "a synthesised attribute has a non-constant key or a key outside {rel,target,crossorigin,sandbox}")
				continue
			}
			nRange++
			okW := true
			why := ""
			for _, s := range ws {
				if u, ok := s.Val.(*ssa.UnOp); ok {
					if _, ok := u.X.(*ssa.IndexAddr); ok {
						continue
					}
				}
				if cl2, ok := s.Val.(*ssa.Call); ok && ss != nil && cl2.Common().StaticCallee() == ss {
					continue
				}
				okW = false
				why = A.Sym.Of(s.Val)
			}
			ksts := model.FieldStoresTo(al, "Key")
			if len(ksts) > 0 {
				okW = false
				why = "its Key is overwritten"
			}
			R.Check(okW, "C02.R3", fmt.Sprintf("copy:%s#%d", al.Comment, nRange), "(*Policy).sanitizeAttrs: local attribute copy "+al.Comment, c.P.Pos(al.Pos()), "holds a range element of an attribute list (key never changed)", "a kept attribute comes from "+why)
		}
	}
	R.Role("C02.R3", "synthesised attributes", nSynth, 4)

	c02Bare(c, F)
	c02Provenance(c, F)
	c02DataAttr(c)
	keptAtMostOnce(c, "C02.R7")
}

func c02Bare(c *Ctx, F *model.Fields) {
	R := c.R
	sc := newSC(c, "C02.R4")
	if sc == nil {
		return
	}
	A := sc.A
	ea := sc.elemAtoms()
	ana := c.P.Func(load.ModPath, "(*Policy).allowNoAttrs")
	var anaAtoms, l0Atoms []int
	for i, at := range A.Atoms {
		switch at.Kind {
		case "val":
			if cl, ok := at.Resolve(at.X).(*ssa.Call); ok && ana != nil && cl.Common().StaticCallee() == ana && sc.isTokData(at, cl.Common().Args[1]) {
				anaAtoms = append(anaAtoms, i)
			}
		case "len0":
			if sc.S.TokenField(at.Resolve(at.X)) == "Attr" {
				l0Atoms = append(l0Atoms, i)
			}
		}
	}
	for _, arm := range []string{"StartTag", "SelfClosingTag"} {
		skipF := pa.False
		if lv := sc.S.FindLoopVars(); lv.Skip != nil {
			skipF = A.Cond(lv.Skip)
		}
		as, err := sc.armElemQuery(arm, ea, orAtoms(anaAtoms), orAtoms(l0Atoms), skipF)
		if err != nil {
			R.Unknown("C02.R4", "arm:"+arm, arm, "", err.Error())
			continue
		}
		lacks := sc.lacksAttrs(as, arm, l0Atoms, anaAtoms)
		n := 0
		for i, w := range sc.S.Writes {
			if w.Arm != arm || w.Payload != "TokenString" {
				continue
			}
			n++
			st := as.q.StateAt(w.Call)
			if st == nil {
				continue
			}
			if lacks == pa.False {
				R.Fail("C02.R4", writeKey(sc.S, i), writeDescr(w), sc.pos(w.Call), "no 'no attribute survived ∧ ¬allowNoAttrs' test guards this write")
				continue
			}
			ok, cex := as.q.Holds(st, pa.Not(lacks))
			R.Check(ok, "C02.R4", writeKey(sc.S, i), writeDescr(w), sc.pos(w.Call), "written only if an attribute survived or the element is allowed bare", "an element the policy permits only with attributes can be emitted bare: ["+cex+"]")
		}
		R.Role("C02.R4", "tag write in arm "+arm, n, 1)
	}
	if ana == nil {
		R.Unknown("C02.R4", "allowNoAttrs", "(*Policy).allowNoAttrs", "", "function not found")
		return
	}
	anyMatchObligation(c, "C02.R4", "allowNoAttrs", ana, 0, func(A2 *pa.Analysis, at *pa.Atom) bool {
		switch at.Kind {
		case "mapok":
			return model.LoadedPolicyField(at.Resolve(at.X)) == F.Get("bareSet") && at.Resolve(at.Y) == ssa.Value(ana.Params[1])
		case "val":
			if cl, ok := at.Resolve(at.X).(*ssa.Call); ok && isMatchString(cl.Common()) && at.Resolve(cl.Common().Args[1]) == ssa.Value(ana.Params[1]) {
				if u, ok := cl.Common().Args[0].(*ssa.UnOp); ok {
					if ia, ok := u.X.(*ssa.IndexAddr); ok {
						return model.LoadedPolicyField(ia.X) == F.Get("bareRegexps")
					}
				}
			}
		}
		return false
	}, "a hit in the bare-element set or a bare-element pattern match")
}

func c02Provenance(c *Ctx, F *model.Fields) {
	R := c.R
	s, err := model.FindSan(c.P)
	if err != nil {
		return
	}
	sa := c.P.Func(load.ModPath, "(*Policy).sanitizeAttrs")
	mr := c.P.Func(load.ModPath, "(*Policy).matchRegex")
	n := 0
	for _, b := range s.Fn.Blocks {
		for _, in := range b.Instrs {
			cl, ok := in.(*ssa.Call)
			if !ok || cl.Common().StaticCallee() != sa {
				continue
			}
			n++
			arm := s.ArmOf(b)
			args := cl.Common().Args
			okA := len(args) == 4 && args[0] == ssa.Value(s.Recv) && s.TokenField(args[1]) == "Data" && s.TokenField(args[2]) == "Attr"
			var fromRules func(v ssa.Value, d int) bool
			fromRules = func(v ssa.Value, d int) bool {
				if d > 4 {
					return false
				}
				switch x := v.(type) {
				case *ssa.Phi:
					for _, e := range x.Edges {
						if !fromRules(e, d+1) {
							return false
						}
					}
					return true
				case *ssa.Extract:
					if x.Index != 0 {
						return false
					}
					if lk, ok := x.Tuple.(*ssa.Lookup); ok {
						return model.LoadedPolicyField(lk.X) == F.Get("elsAndAttrs") && s.TokenField(lk.Index) == "Data"
					}
					if c2, ok := x.Tuple.(*ssa.Call); ok {
						return mr != nil && c2.Common().StaticCallee() == mr && s.TokenField(c2.Common().Args[1]) == "Data"
					}
				}
				return false
			}
			okR := len(args) == 4 && fromRules(args[3], 0)
			// result stored back into token.Attr
			stored := false
			for _, r := range *cl.Referrers() {
				if st, ok := r.(*ssa.Store); ok && st.Val == ssa.Value(cl) {
					if fa, ok := st.Addr.(*ssa.FieldAddr); ok && fa.X == ssa.Value(s.TokAlloc) && pa.FieldName(fa) == "Attr" {
						stored = true
					}
				}
			}
			R.Check(okA && okR && stored, "C02.R5", "call:"+arm, "(*Policy).sanitize arm "+arm+": call of sanitizeAttrs", c.P.Pos(cl.Pos()),
				"called with (token.Data, token.Attr, rules of that element) and stored back into token.Attr",
				fmt.Sprintf("sanitizeAttrs is called with other arguments or its result is not what is emitted (args ok=%v, rules from the element tables=%v, stored into token.Attr=%v)", okA, okR, stored))
		}
	}
	R.Role("C02.R5", "calls of sanitizeAttrs in sanitize", n, 2)
}

var dataSeg = regexp.MustCompile(`^data-`)

// c02DataAttr computes the language isDataAttribute accepts and compares it with the documented data-* form: ⊆ for C02.R6;
// with lowerRule set, also ⊇ under that rule id (C07: every documented data-* name passes).
func c02DataAttr(c *Ctx, lowerRule ...string) {
	R := c.R
	fn := c.P.Func(load.ModPath, "isDataAttribute")
	if fn == nil || len(fn.Params) != 1 {
		R.Unknown("C02.R6", "isDataAttribute", "isDataAttribute", "", "function not found")
		return
	}
	pos := c.P.Pos(fn.Pos())
	vars := pats.RegexpVars(c.P.Main)
	pats.FindWrites(vars, c.P.Pkgs)
	by := map[string]*pats.Var{}
	for _, v := range vars {
		by[v.Name] = v
	}
	A := model.NewAnalysis(fn)
	translateAll(A)
	F := A.ReturnsTrue()
	if F == nil {
		R.Unknown("C02.R6", "shape", "isDataAttribute", pos, "the function is not an acyclic chain of tests (language not computed)")
		return
	}
	val := ssa.Value(fn.Params[0])
	// alphabet: the regexps used plus the documented form
	b := relang.NewBuilder()
	b.AddString("data-xmlAZ;az09")
	b.AddPattern(`^data-[^A-Z;]+$`)
	b.AddPattern(`^[^\s]*$`)
	used := map[int]bool{}
	F.Atoms(used)
	type reTest struct {
		v   *pats.Var
		arg ssa.Value
	}
	tests := map[int]reTest{}
	for i := range used {
		at := A.Atoms[i]
		if cl, ok := at.Resolve(at.X).(*ssa.Call); ok && at.Kind == "val" && isMatchString(cl.Common()) {
			if u, ok := cl.Common().Args[0].(*ssa.UnOp); ok {
				if g, ok := u.X.(*ssa.Global); ok && by[g.Name()] != nil {
					v := by[g.Name()]
					if !v.Const || len(v.Writes) > 0 {
						R.Unknown("C02.R6", "pattern:"+v.Name, "var "+v.Name, c.P.Pos(v.Pos), "pattern not constant or variable reassigned")
						return
					}
					b.AddPattern(v.Pattern)
					tests[i] = reTest{v, cl.Common().Args[1]}
				}
			}
		}
	}
	a := b.Build()
	all := relang.All(a)
	hasSep := func(sep string) *relang.DFA { return relang.Concat(all, relang.Literal(a, sep), all) }
	// pre(x, L) = { val | x ∈ L } for the derived strings the function looks at
	var pre func(x ssa.Value, L *relang.DFA) (*relang.DFA, string)
	splitOf := func(x ssa.Value) (sep string, n int64, ok bool) {
		cl, isC := x.(*ssa.Call)
		if !isC {
			return "", 0, false
		}
		if sp := isCallTo(cl, "strings.Split"); sp != nil && sp.Common().Args[0] == val {
			s, okS := constString(sp.Common().Args[1])
			return s, -1, okS && s != ""
		}
		if sp := isCallTo(cl, "strings.SplitN"); sp != nil && sp.Common().Args[0] == val {
			s, okS := constString(sp.Common().Args[1])
			k, okK := sp.Common().Args[2].(*ssa.Const)
			if okS && okK && s != "" {
				return s, k.Int64(), true
			}
		}
		return "", 0, false
	}
	selfBorder := func(sep string) bool { // a proper prefix of sep that is also a suffix
		for k := 1; k < len(sep); k++ {
			if sep[:k] == sep[len(sep)-k:] {
				return true
			}
		}
		return false
	}
	pre = func(x ssa.Value, L *relang.DFA) (*relang.DFA, string) {
		if x == val {
			return L, ""
		}
		switch v := x.(type) {
		case *ssa.UnOp: // element of a Split result
			ia, ok := v.X.(*ssa.IndexAddr)
			if !ok {
				break
			}
			idx, ok := ia.Index.(*ssa.Const)
			sep, n, okS := splitOf(ia.X)
			if !ok || !okS || selfBorder(sep) {
				break
			}
			noSep := hasSep(sep).Complement()
			lit := relang.Literal(a, sep)
			switch {
			case idx.Int64() == 1 && n == 2:
				// everything after the first separator
				return relang.Concat(noSep, lit, L), ""
			case idx.Int64() == 1 && n < 0:
				// the text between the first and the second separator
				return relang.Concat(noSep, lit, relang.Inter(L, noSep), relang.Opt(relang.Concat(lit, all))), ""
			case idx.Int64() == 0:
				return relang.Union(relang.Inter(L, noSep), relang.Concat(relang.Inter(L, noSep), lit, all)), ""
			}
		case *ssa.Extract: // before / after of strings.Cut(val, sep)
			if ct := isCallTo(v.Tuple, "strings.Cut"); ct != nil && ct.Common().Args[0] == val {
				if sep, ok := constString(ct.Common().Args[1]); ok && sep != "" && !selfBorder(sep) {
					noSep := hasSep(sep).Complement()
					lit := relang.Literal(a, sep)
					switch v.Index {
					case 0: // text before the first separator, or the whole string when there is none
						return relang.Union(relang.Inter(L, noSep), relang.Concat(relang.Inter(L, noSep), lit, all)), ""
					case 1: // text after the first separator, "" when there is none
						d := relang.Concat(noSep, lit, L)
						if L.Accepts("") {
							d = relang.Union(d, noSep)
						}
						return d, ""
					}
				}
			}
		case *ssa.Call:
			if tp := isCallTo(v, "strings.TrimPrefix"); tp != nil && tp.Common().Args[0] == val {
				if p, ok := constString(tp.Common().Args[1]); ok {
					lit := relang.Literal(a, p)
					starts := relang.Concat(lit, all)
					return relang.Union(relang.Concat(lit, L), relang.Diff(L, starts)), ""
				}
			}
		case *ssa.Slice:
			if v.X == val && v.High == nil && v.Max == nil {
				if lo, ok := v.Low.(*ssa.Const); ok {
					// byte offset: only sound to model when the skipped prefix is ASCII, which a dominating whole-value
					// test must establish — approximated by skipping that many arbitrary runes (ASCII case is exact)
					parts := []*relang.DFA{}
					for k := int64(0); k < lo.Int64(); k++ {
						parts = append(parts, relang.AnyRune(a))
					}
					parts = append(parts, L)
					return relang.Concat(parts...), ""
				}
			}
		}
		return nil, "the tested string " + stripIDs(A.Sym.Of(x)) + " is not a modelled part of the key"
	}
	var eval func(f *pa.F) (*relang.DFA, string)
	eval = func(f *pa.F) (*relang.DFA, string) {
		switch f.Op {
		case 'c':
			if f.C {
				return all, ""
			}
			return relang.Empty(a), ""
		case '!':
			d, why := eval(f.Kids[0])
			if d == nil {
				return nil, why
			}
			return d.Complement(), ""
		case '&', '|':
			var acc *relang.DFA
			for _, k := range f.Kids {
				d, why := eval(k)
				if d == nil {
					return nil, why
				}
				switch {
				case acc == nil:
					acc = d
				case f.Op == '&':
					acc = relang.Inter(acc, d)
				default:
					acc = relang.Union(acc, d)
				}
			}
			return acc, ""
		case 'a':
			at := A.Atoms[f.Atom]
			if t, ok := tests[f.Atom]; ok {
				return pre(t.arg, relang.MustRegexp(t.v.Pattern, a))
			}
			// len(strings.Split…(val, sep)) == k
			if at.Kind == "eq" {
				x, y := at.Resolve(at.X), at.Resolve(at.Y)
				if _, isC := x.(*ssa.Const); isC {
					x, y = y, x
				}
				if k, isC := y.(*ssa.Const); isC && isLenCall(x) {
					if sep, n, ok := splitOf(x.(*ssa.Call).Common().Args[0]); ok && !selfBorder(sep) {
						noSep := hasSep(sep).Complement()
						switch {
						case k.Int64() == 1:
							return noSep, ""
						case k.Int64() == 2 && n == 2:
							return hasSep(sep), ""
						}
					}
				}
			}
			// strings.ContainsAny / ContainsRune / Contains on a modelled part of the key
			if at.Kind == "val" {
				if cl, ok := at.Resolve(at.X).(*ssa.Call); ok && cl.Common().StaticCallee() != nil && len(cl.Common().Args) == 2 {
					var L *relang.DFA
					switch pa.CalleeName(cl.Common().StaticCallee()) {
					case "strings.ContainsAny":
						if set, ok := constString(cl.Common().Args[1]); ok && set != "" {
							L = relang.Concat(all, relang.Runes(a, []rune(set)...), all)
						}
					case "strings.ContainsRune":
						if k, ok := cl.Common().Args[1].(*ssa.Const); ok && k.Value != nil {
							L = relang.Concat(all, relang.Runes(a, rune(k.Int64())), all)
						}
					case "strings.Contains":
						if sub, ok := constString(cl.Common().Args[1]); ok {
							L = relang.Concat(all, relang.Literal(a, sub), all)
						}
					}
					if L != nil {
						return pre(cl.Common().Args[0], L)
					}
				}
			}
			// found result of strings.Cut(val, sep)
			if at.Kind == "val" {
				if ex, ok := at.Resolve(at.X).(*ssa.Extract); ok && ex.Index == 2 {
					if ct := isCallTo(ex.Tuple, "strings.Cut"); ct != nil && ct.Common().Args[0] == val {
						if sep, ok := constString(ct.Common().Args[1]); ok && sep != "" {
							return hasSep(sep), ""
						}
					}
				}
			}
			return nil, "condition " + stripIDs(at.Key) + " is not a modelled test of the key"
		}
		return nil, "unexpected formula"
	}
	acc, why := eval(F)
	if acc == nil {
		R.Unknown("C02.R6", "shape", "isDataAttribute", pos, why+" (language not computed)")
		return
	}
	doc := relang.Diff(relang.MustRegexp(`^data-[^A-Z;]+$`, a), relang.MustRegexp(`^data-xml.+`, a))
	ok, w := relang.Subset(acc, doc)
	o := R.Check(ok, "C02.R6", "language", "isDataAttribute: accepted key language", pos, "⊆ data-<non-empty, no upper case, no ';', not xml…>", "accepts a key outside the documented data-* form")
	if !ok {
		o.Witness = w
	}
	if len(lowerRule) > 0 {
		// names as the tokenizer delivers them: no white space (Go's `.` does not match a newline, which no attribute name
		// can contain anyway)
		docNames := relang.Inter(doc, relang.MustRegexp(`^[^\s]*$`, a))
		ok2, w2 := relang.Subset(docNames, acc)
		o2 := R.Check(ok2, lowerRule[0], "language", "isDataAttribute: accepted key language", pos, "⊇ data-<non-empty, no upper case, no ';', not xml…>", "rejects a key of the documented data-* form: with AllowDataAttributes() a conforming document loses the attribute")
		if !ok2 {
			o2.Witness = w2
		}
	}
	R.Analysed["isDataAttribute"] = map[string]any{"regexp_tests": len(tests), "condition": stripIDs(A.Str(F)), "accepted_language_states": acc.N()}
}

func isLenCall(v ssa.Value) bool {
	cl, ok := v.(*ssa.Call)
	if !ok {
		return false
	}
	bi, ok := cl.Common().Value.(*ssa.Builtin)
	return ok && bi.Name() == "len"
}

// keptAtMostOnce: in the filter loop of sanitizeAttrs an incoming attribute is appended to the kept list at most once
// per iteration.  (Kept twice, the output carries a duplicate attribute; sanitising that output keeps each copy twice
// again, so the attribute count doubles with every pass.)
func keptAtMostOnce(c *Ctx, rule string) {
	R := c.R
	fn := c.P.Func(load.ModPath, "(*Policy).sanitizeAttrs")
	if fn == nil || len(fn.Params) != 4 {
		R.Unknown(rule, "once", "(*Policy).sanitizeAttrs", "", "function not found")
		return
	}
	var loop *model.RangeLoop
	for _, l := range model.SliceRangeLoops(fn) {
		if l.Over == ssa.Value(fn.Params[2]) {
			loop = l
		}
	}
	if loop == nil {
		R.Unknown(rule, "once", "(*Policy).sanitizeAttrs: range over the incoming attributes", "", "loop not found (anchor lost)")
		return
	}
	A := model.NewAnalysis(fn)
	translateAll(A)
	ev := A.EventVar("attribute-kept-in-this-iteration")
	A.PhiFilter = func(*ssa.Phi) bool { return false }
	q, err := A.NewQuery([]int{ev})
	if err != nil {
		R.Unknown(rule, "once", "(*Policy).sanitizeAttrs filter loop", "", err.Error())
		return
	}
	var sites []*ssa.Call
	for _, b := range sortedBlocks(loop.Blocks) {
		for _, in := range b.Instrs {
			cl, ok := in.(*ssa.Call)
			if !ok {
				continue
			}
			if ac, _ := model.IsAppend(cl); ac == nil {
				continue
			}
			if v := model.AppendedValue(cl); v == nil || !model.IsAttrType(v.Type()) {
				continue
			}
			sites = append(sites, cl)
			q.Hooks[cl] = func(a uint32) []uint32 { return []uint32{q.With(a, ev, true)} }
		}
	}
	q.Barrier[loop.Header] = true
	q.Run(loop.Body, q.InitWith(map[int]bool{ev: false}))
	for i, cl := range sites {
		st := q.StateAt(cl)
		if st == nil || pa.Empty(st) {
			continue
		}
		ok, _ := q.Holds(st, pa.Not(pa.AtomF(ev)))
		R.Check(ok, rule, fmt.Sprintf("once:append#%d", i+1), "(*Policy).sanitizeAttrs filter loop: append of an attribute", c.P.Pos(cl.Pos()), "no earlier append in the same iteration", "an attribute that was already kept in this iteration can be kept again (control continues to a second rule scope after a match): the output carries it twice")
	}
	R.Role(rule, "appends in the filter loop", len(sites), 3)
}

package rules

import (
	"fmt"
	"go/token"
	"regexp"
	"strings"

	"golang.org/x/tools/go/ssa"

	"verif/tools/load"
	"verif/tools/model"
	"verif/tools/pa"
	"verif/tools/pats"
	"verif/tools/relang"
)

func init() { register("C02", "other", runC02) }

func runC02(c *Ctx) {
	R := c.R
	R.Rule("C02.R1", "admission: in the filter loop over the incoming attributes, the range element is appended to the kept list only under: allowDataAttributes ∧ isDataAttribute(key); or key==\"style\" routed through sanitizeStyles with a non-empty result; or mapok(aps, key) ∧ (rule.regexp==nil ∨ rule.regexp.MatchString(value)) for a rule of aps[key]; or the same over globalAttrs[key] — key and value being those of the very element appended")
	R.Rule("C02.R2", "value patterns are judged before any rewriting: the filter loop contains no validURL call and no store to an attribute's Val")
	R.Rule("C02.R3", "every attribute appended anywhere in sanitizeAttrs is a range element of an earlier attribute list (possibly with its Val rewritten) or a synthesised attribute whose Key is one of the constants rel, target, crossorigin, sandbox")
	R.Rule("C02.R4", "bare elements: in the StartTag and SelfClosingTag arms a tag is written only if an attribute survived or allowNoAttrs(token.Data); allowNoAttrs returns true only across a lookup in the bare-element set or a MatchString of a registered bare-element pattern on its argument")
	R.Rule("C02.R5", "argument provenance: sanitizeAttrs is called with (token.Data, token.Attr, rules) where rules is the value found in elsAndAttrs[token.Data] or returned by matchRegex(token.Data), and its result is stored back into token.Attr")
	R.Rule("C02.R6", "isDataAttribute accepts only data-<non-empty>, without upper-case letters or ';', not starting with xml (exact language computation on the three regexps and the Split segmentation)")
	R.Assume(TrustGo, TrustTokenizer, TrustRegexp, "quality of user-supplied value patterns is out of scope; duplicated attributes / exotic attribute-name bytes as re-read by a parser are not decided")
	F := model.FindFields(c.P)
	fn := c.P.Func(load.ModPath, "(*Policy).sanitizeAttrs")
	if fn == nil || len(fn.Params) != 4 {
		R.Unknown("C02.R1", "sanitizeAttrs", "(*Policy).sanitizeAttrs", "", "function not found / unexpected signature")
		return
	}
	A := model.NewAnalysis(fn)
	translateAll(A)
	recv, attrsP, apsP := fn.Params[0], fn.Params[2], fn.Params[3]
	var loop *model.RangeLoop
	for _, l := range model.SliceRangeLoops(fn) {
		if l.Over == ssa.Value(attrsP) {
			loop = l
		}
	}
	if loop == nil {
		R.Unknown("C02.R1", "filter-loop", "(*Policy).sanitizeAttrs: range over the incoming attributes", "", "loop not found (anchor lost)")
		return
	}
	elemSym := ""
	for _, b := range sortedBlocks(loop.Blocks) {
		for _, in := range b.Instrs {
			if u, ok := in.(*ssa.UnOp); ok && u.Op == token.MUL {
				if ia, ok := u.X.(*ssa.IndexAddr); ok && ia.X == ssa.Value(attrsP) {
					elemSym = A.Sym.Of(u)
				}
			}
		}
	}
	if elemSym == "" {
		R.Unknown("C02.R1", "filter-elem", "(*Policy).sanitizeAttrs filter loop", "", "range element not recognised")
		return
	}
	keySym, valSym := elemSym+".Key", elemSym+".Val"
	DA := A.Lit(recv.Name() + "." + F.Get("allowDataAttributes"))
	// isDataAttribute(key)
	var dataF *pa.F = pa.False
	ida := c.P.Func(load.ModPath, "isDataAttribute")
	for _, b := range sortedBlocks(loop.Blocks) {
		for _, in := range b.Instrs {
			if cl, ok := in.(*ssa.Call); ok && ida != nil && cl.Common().StaticCallee() == ida && A.Sym.Of(cl.Common().Args[0]) == keySym {
				dataF = A.Cond(cl)
			}
		}
	}
	ruleGoal := func(table string) *pa.F {
		// the rule list for this key: found by a comma-ok lookup (then the ok flag is part of the condition) or by a
		// plain lookup (a missing key yields an empty list, which admits nothing)
		var goals []*pa.F
		for _, form := range []struct {
			pfx    string
			needOK bool
		}{{"lookup(" + table + "," + keySym + ")#0[", true}, {"lookup(" + table + "," + keySym + ")[", false}} {
			var alts []*pa.F
			for i, at := range A.Atoms {
				k := at.Key
				if strings.HasPrefix(k, "("+form.pfx) && strings.HasSuffix(k, "].regexp == nil)") {
					P := k[1 : len(k)-len(".regexp == nil)")]
					alts = append(alts, pa.AtomF(i))
					ms := A.AtomIndex("(*regexp.Regexp).MatchString(" + P + ".regexp," + valSym + ")")
					if ms >= 0 {
						alts = append(alts, pa.AtomF(ms))
					}
				}
			}
			if len(alts) == 0 {
				continue
			}
			if form.needOK {
				mk := A.AtomIndex("mapok(" + table + "," + keySym + ")")
				if mk < 0 {
					continue
				}
				goals = append(goals, pa.And(pa.AtomF(mk), pa.Or(alts...)))
			} else {
				goals = append(goals, pa.Or(alts...))
			}
		}
		return pa.Or(goals...)
	}
	apsGoal := ruleGoal(apsP.Name())
	globGoal := ruleGoal(recv.Name() + "." + F.Get("globalAttrs"))
	styleKey := A.AtomIndex("(" + keySym + " == \"style\")")
	ss := c.P.Func(load.ModPath, "(*Policy).sanitizeStyles")
	styleSymPrefix := ""
	if ss != nil {
		styleSymPrefix = pa.CalleeName(ss) + "(" + recv.Name() + "," + elemSym + ","
	}
	wholeGoal := pa.Or(pa.And(DA, dataF), apsGoal, globGoal)
	var trackFs = []*pa.F{wholeGoal}
	if styleKey >= 0 {
		trackFs = append(trackFs, pa.AtomF(styleKey))
	}
	for i, at := range A.Atoms {
		if strings.HasPrefix(at.Key, "("+styleSymPrefix) && strings.HasSuffix(at.Key, ".Val == \"\")") {
			trackFs = append(trackFs, pa.AtomF(i))
		}
	}
	tm := map[int]bool{}
	for _, f := range trackFs {
		f.Atoms(tm)
	}
	var tl []int
	for k := range tm {
		tl = append(tl, k)
	}
	q, err := A.NewQuery(tl)
	if err != nil {
		R.Unknown("C02.R1", "filter-query", "(*Policy).sanitizeAttrs filter loop", "", err.Error())
		return
	}
	q.Barrier[loop.Header] = true
	q.Run(loop.Body, nil)
	nApp := map[string]int{}
	for _, b := range sortedBlocks(loop.Blocks) {
		for _, in := range b.Instrs {
			cl, ok := in.(*ssa.Call)
			if !ok {
				continue
			}
			if ac, _ := model.IsAppend(cl); ac == nil {
				continue
			}
			v := model.AppendedValue(cl)
			if v == nil || !model.IsAttrType(v.Type()) {
				continue
			}
			vs := A.Sym.Of(v)
			st := q.StateAt(cl)
			pos := c.P.Pos(cl.Pos())
			if st == nil {
				continue
			}
			switch {
			case vs == elemSym:
				nApp["whole"]++
				key := fmt.Sprintf("append:elem#%d", nApp["whole"])
				ok1, cex := q.Holds(st, wholeGoal)
				R.Check(ok1, "C02.R1", key, "(*Policy).sanitizeAttrs filter loop: append of the range element", pos, "admitted by a data-attribute / element-rule / global-rule edge on its own key and value", "an attribute can be kept although no rule admitted its key and value: ["+cex+"]")
			case styleSymPrefix != "" && strings.HasPrefix(vs, styleSymPrefix):
				nApp["style"]++
				key := fmt.Sprintf("append:style#%d", nApp["style"])
				empty := A.AtomIndex("(" + vs + ".Val == \"\")")
				goal := pa.False
				if styleKey >= 0 && empty >= 0 {
					goal = pa.And(pa.AtomF(styleKey), pa.Not(pa.AtomF(empty)))
				}
				ok1, cex := q.Holds(st, goal)
				R.Check(ok1, "C02.R1", key, "(*Policy).sanitizeAttrs filter loop: append of sanitizeStyles' result", pos, "only for key==style and a non-empty sanitised value", "the sanitised style attribute is kept outside its condition: ["+cex+"]")
			default:
				nApp["other"]++
				R.Fail("C02.R1", fmt.Sprintf("append:other#%d", nApp["other"]), "(*Policy).sanitizeAttrs filter loop: append of "+vs, pos, "an attribute value other than the range element or sanitizeStyles' result is kept")
			}
		}
	}
	R.Role("C02.R1", "appends of the range element in the filter loop", nApp["whole"], 3)
	R.Analysed["filter_loop"] = map[string]any{"blocks": len(loop.Blocks), "elem": elemSym, "appends": nApp}

	// R2
	vu := c.P.Func(load.ModPath, "(*Policy).validURL")
	bad := 0
	for _, b := range sortedBlocks(loop.Blocks) {
		for _, in := range b.Instrs {
			switch x := in.(type) {
			case *ssa.Call:
				if vu != nil && x.Common().StaticCallee() == vu {
					bad++
					R.Fail("C02.R2", "validURL-in-filter", "(*Policy).sanitizeAttrs filter loop: call of validURL", c.P.Pos(x.Pos()), "URL normalisation happens before/while value patterns are judged")
				}
			case *ssa.Store:
				if fa, ok := x.Addr.(*ssa.FieldAddr); ok && pa.FieldName(fa) == "Val" {
					bad++
					R.Fail("C02.R2", "val-store-in-filter", "(*Policy).sanitizeAttrs filter loop: store to an attribute's Val", c.P.Pos(x.Pos()), "an attribute value is rewritten before value patterns are judged")
				}
			}
		}
	}
	if bad == 0 {
		R.OK("C02.R2", "filter-loop-pure", fmt.Sprintf("(*Policy).sanitizeAttrs filter loop (%d blocks)", len(loop.Blocks)), c.P.Pos(lastPos(loop.Header)), "no validURL call and no Val store inside the loop")
	}

	// R3
	synthKeys := map[string]bool{"rel": true, "target": true, "crossorigin": true, "sandbox": true}
	nSynth, nRange := 0, 0
	seenAl := map[*ssa.Alloc]bool{}
	for _, b := range fn.Blocks {
		for _, in := range b.Instrs {
			cl, ok := in.(*ssa.Call)
			if !ok {
				continue
			}
			if ac, _ := model.IsAppend(cl); ac == nil {
				continue
			}
			v := model.AppendedValue(cl)
			if v == nil || !model.IsAttrType(v.Type()) {
				continue
			}
			al := model.LoadOfAlloc(v)
			if al == nil {
				R.Fail("C02.R3", "append:"+A.Sym.Of(v), "(*Policy).sanitizeAttrs: append of "+A.Sym.Of(v), c.P.Pos(cl.Pos()), "appended attribute is not a local copy of a range element nor a synthesised local")
				continue
			}
			if seenAl[al] {
				continue
			}
			seenAl[al] = true
			ws := model.WholeStoresTo(al)
			if len(ws) == 0 {
				nSynth++
				ks := model.FieldStoresTo(al, "Key")
				okK := len(ks) > 0
				name := ""
				for _, s := range ks {
					k, isC := constString(s.Val)
					if !isC || !synthKeys[k] {
						okK = false
					}
					name = k
				}
				R.Check(okK, "C02.R3", "synth:"+name, "(*Policy).sanitizeAttrs: synthesised attribute "+al.Comment, c.P.Pos(al.Pos()), "constant key "+name, "a synthesised attribute has a non-constant key or a key outside {rel,target,crossorigin,sandbox}")
				continue
			}
			nRange++
			okW := true
			why := ""
			for _, s := range ws {
				if u, ok := s.Val.(*ssa.UnOp); ok {
					if _, ok := u.X.(*ssa.IndexAddr); ok {
						continue
					}
				}
				if cl2, ok := s.Val.(*ssa.Call); ok && ss != nil && cl2.Common().StaticCallee() == ss {
					continue
				}
				okW = false
				why = A.Sym.Of(s.Val)
			}
			ksts := model.FieldStoresTo(al, "Key")
			if len(ksts) > 0 {
				okW = false
				why = "its Key is overwritten"
			}
			R.Check(okW, "C02.R3", fmt.Sprintf("copy:%s#%d", al.Comment, nRange), "(*Policy).sanitizeAttrs: local attribute copy "+al.Comment, c.P.Pos(al.Pos()), "holds a range element of an attribute list (key never changed)", "a kept attribute comes from "+why)
		}
	}
	R.Role("C02.R3", "synthesised attributes", nSynth, 4)

	c02Bare(c, F)
	c02Provenance(c, F)
	c02DataAttr(c)
}

func c02Bare(c *Ctx, F *model.Fields) {
	R := c.R
	sc := newSC(c, "C02.R4")
	if sc == nil {
		return
	}
	A := sc.A
	ea := sc.elemAtoms()
	ana := c.P.Func(load.ModPath, "(*Policy).allowNoAttrs")
	var anaAtoms, l0Atoms []int
	for i, at := range A.Atoms {
		switch at.Kind {
		case "val":
			if cl, ok := at.Resolve(at.X).(*ssa.Call); ok && ana != nil && cl.Common().StaticCallee() == ana && sc.isTokData(at, cl.Common().Args[1]) {
				anaAtoms = append(anaAtoms, i)
			}
		case "len0":
			if sc.S.TokenField(at.Resolve(at.X)) == "Attr" {
				l0Atoms = append(l0Atoms, i)
			}
		}
	}
	for _, arm := range []string{"StartTag", "SelfClosingTag"} {
		skipF := pa.False
		if lv := sc.S.FindLoopVars(); lv.Skip != nil {
			skipF = A.Cond(lv.Skip)
		}
		as, err := sc.armElemQuery(arm, ea, orAtoms(anaAtoms), orAtoms(l0Atoms), skipF)
		if err != nil {
			R.Unknown("C02.R4", "arm:"+arm, arm, "", err.Error())
			continue
		}
		lacks := sc.lacksAttrs(as, arm, l0Atoms, anaAtoms)
		n := 0
		for i, w := range sc.S.Writes {
			if w.Arm != arm || w.Payload != "TokenString" {
				continue
			}
			n++
			st := as.q.StateAt(w.Call)
			if st == nil {
				continue
			}
			if lacks == pa.False {
				R.Fail("C02.R4", writeKey(sc.S, i), writeDescr(w), sc.pos(w.Call), "no 'no attribute survived ∧ ¬allowNoAttrs' test guards this write")
				continue
			}
			ok, cex := as.q.Holds(st, pa.Not(lacks))
			R.Check(ok, "C02.R4", writeKey(sc.S, i), writeDescr(w), sc.pos(w.Call), "written only if an attribute survived or the element is allowed bare", "an element the policy permits only with attributes can be emitted bare: ["+cex+"]")
		}
		R.Role("C02.R4", "tag write in arm "+arm, n, 1)
	}
	if ana == nil {
		R.Unknown("C02.R4", "allowNoAttrs", "(*Policy).allowNoAttrs", "", "function not found")
		return
	}
	anyMatchObligation(c, "C02.R4", "allowNoAttrs", ana, 0, func(A2 *pa.Analysis, at *pa.Atom) bool {
		switch at.Kind {
		case "mapok":
			return model.LoadedPolicyField(at.Resolve(at.X)) == F.Get("bareSet") && at.Resolve(at.Y) == ssa.Value(ana.Params[1])
		case "val":
			if cl, ok := at.Resolve(at.X).(*ssa.Call); ok && isMatchString(cl.Common()) && at.Resolve(cl.Common().Args[1]) == ssa.Value(ana.Params[1]) {
				if u, ok := cl.Common().Args[0].(*ssa.UnOp); ok {
					if ia, ok := u.X.(*ssa.IndexAddr); ok {
						return model.LoadedPolicyField(ia.X) == F.Get("bareRegexps")
					}
				}
			}
		}
		return false
	}, "a hit in the bare-element set or a bare-element pattern match")
}

func c02Provenance(c *Ctx, F *model.Fields) {
	R := c.R
	s, err := model.FindSan(c.P)
	if err != nil {
		return
	}
	sa := c.P.Func(load.ModPath, "(*Policy).sanitizeAttrs")
	mr := c.P.Func(load.ModPath, "(*Policy).matchRegex")
	n := 0
	for _, b := range s.Fn.Blocks {
		for _, in := range b.Instrs {
			cl, ok := in.(*ssa.Call)
			if !ok || cl.Common().StaticCallee() != sa {
				continue
			}
			n++
			arm := s.ArmOf(b)
			args := cl.Common().Args
			okA := len(args) == 4 && args[0] == ssa.Value(s.Recv) && s.TokenField(args[1]) == "Data" && s.TokenField(args[2]) == "Attr"
			var fromRules func(v ssa.Value, d int) bool
			fromRules = func(v ssa.Value, d int) bool {
				if d > 4 {
					return false
				}
				switch x := v.(type) {
				case *ssa.Phi:
					for _, e := range x.Edges {
						if !fromRules(e, d+1) {
							return false
						}
					}
					return true
				case *ssa.Extract:
					if x.Index != 0 {
						return false
					}
					if lk, ok := x.Tuple.(*ssa.Lookup); ok {
						return model.LoadedPolicyField(lk.X) == F.Get("elsAndAttrs") && s.TokenField(lk.Index) == "Data"
					}
					if c2, ok := x.Tuple.(*ssa.Call); ok {
						return mr != nil && c2.Common().StaticCallee() == mr && s.TokenField(c2.Common().Args[1]) == "Data"
					}
				}
				return false
			}
			okR := len(args) == 4 && fromRules(args[3], 0)
			// result stored back into token.Attr
			stored := false
			for _, r := range *cl.Referrers() {
				if st, ok := r.(*ssa.Store); ok && st.Val == ssa.Value(cl) {
					if fa, ok := st.Addr.(*ssa.FieldAddr); ok && fa.X == ssa.Value(s.TokAlloc) && pa.FieldName(fa) == "Attr" {
						stored = true
					}
				}
			}
			R.Check(okA && okR && stored, "C02.R5", "call:"+arm, "(*Policy).sanitize arm "+arm+": call of sanitizeAttrs", c.P.Pos(cl.Pos()),
				"called with (token.Data, token.Attr, rules of that element) and stored back into token.Attr",
				fmt.Sprintf("sanitizeAttrs is called with other arguments or its result is not what is emitted (args ok=%v, rules from the element tables=%v, stored into token.Attr=%v)", okA, okR, stored))
		}
	}
	R.Role("C02.R5", "calls of sanitizeAttrs in sanitize", n, 2)
}

var dataSeg = regexp.MustCompile(`^data-`)

func c02DataAttr(c *Ctx) {
	R := c.R
	fn := c.P.Func(load.ModPath, "isDataAttribute")
	if fn == nil {
		R.Unknown("C02.R6", "isDataAttribute", "isDataAttribute", "", "function not found")
		return
	}
	vars := pats.RegexpVars(c.P.Main)
	pats.FindWrites(vars, c.P.Pkgs)
	by := map[string]*pats.Var{}
	for _, v := range vars {
		by[v.Name] = v
	}
	// which regexps does isDataAttribute use, on which value, and with which polarity?
	A := model.NewAnalysis(fn)
	translateAll(A)
	type use struct {
		v     *pats.Var
		onSeg bool
	}
	var uses []use
	splitSep := ""
	splitOnce := false
	for _, b := range fn.Blocks {
		for _, in := range b.Instrs {
			cl, ok := in.(*ssa.Call)
			if !ok {
				continue
			}
			if isMatchString(cl.Common()) {
				if u, ok := cl.Common().Args[0].(*ssa.UnOp); ok {
					if g, ok := u.X.(*ssa.Global); ok && by[g.Name()] != nil {
						uses = append(uses, use{by[g.Name()], cl.Common().Args[1] != ssa.Value(fn.Params[0])})
					}
				}
			}
			if sp := isCallTo(cl, "strings.Split"); sp != nil {
				splitSep, _ = constString(sp.Common().Args[1])
			}
			if sp := isCallTo(cl, "strings.SplitN"); sp != nil {
				splitSep, _ = constString(sp.Common().Args[1])
				if k, ok := sp.Common().Args[2].(*ssa.Const); ok && k.Int64() == 2 {
					splitOnce = true
				} else {
					splitSep = "" // other counts are not modelled
				}
			}
		}
	}
	pos := c.P.Pos(fn.Pos())
	if len(uses) != 3 || splitSep != "data-" {
		R.Unknown("C02.R6", "shape", "isDataAttribute", pos, fmt.Sprintf("expected three regexp tests and a Split/SplitN(…,2) on \"data-\", found %d tests and separator %q (shape changed: language not computed)", len(uses), splitSep))
		return
	}
	b := relang.NewBuilder()
	b.AddString("data-xmlAZ;az09")
	var whole, segNeg []*pats.Var
	for _, u := range uses {
		if !u.v.Const || len(u.v.Writes) > 0 {
			R.Unknown("C02.R6", "pattern:"+u.v.Name, "var "+u.v.Name, c.P.Pos(u.v.Pos), "pattern not constant or variable reassigned")
			return
		}
		b.AddPattern(u.v.Pattern)
		if u.onSeg {
			segNeg = append(segNeg, u.v)
		} else {
			whole = append(whole, u.v)
		}
	}
	b.AddPattern(`^data-[^A-Z;]+$`)
	a := b.Build()
	// accepted = whole-regexps(val) ∧ val = "data-"·seg·(ε | "data-"·Σ*) with seg free of "data-" ∧ no segNeg regexp matches seg
	acc := relang.All(a)
	for _, v := range whole {
		acc = relang.Inter(acc, relang.MustRegexp(v.Pattern, a))
	}
	seg := relang.MustRegexp(`data-`, a).Complement() // strings not containing "data-"
	for _, v := range segNeg {
		seg = relang.Inter(seg, relang.MustRegexp(v.Pattern, a).Complement())
	}
	dd := relang.Literal(a, "data-")
	shape := relang.Concat(dd, seg, relang.Opt(relang.Concat(dd, relang.All(a))))
	if splitOnce {
		// SplitN(val, "data-", 2): the checked segment is everything after the first "data-"
		seg = relang.All(a)
		for _, v := range segNeg {
			seg = relang.Inter(seg, relang.MustRegexp(v.Pattern, a).Complement())
		}
		shape = relang.Concat(dd, seg)
	}
	// values with no second "data-" at all have len(rest)==2 as well; values not starting with data- are excluded by `whole`
	acc = relang.Inter(acc, shape)
	doc := relang.Diff(relang.MustRegexp(`^data-[^A-Z;]+$`, a), relang.MustRegexp(`^data-xml.+`, a))
	ok, w := relang.Subset(acc, doc)
	o := R.Check(ok, "C02.R6", "language", "isDataAttribute: accepted key language", pos, "⊆ data-<non-empty, no upper case, no ';', not xml…>", "accepts a key outside the documented data-* form (only the text up to the next \"data-\" is checked)")
	if !ok {
		o.Witness = w
	}
	R.Analysed["isDataAttribute"] = map[string]any{"whole_value_tests": len(whole), "segment_tests": len(segNeg)}
}

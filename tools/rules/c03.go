package rules

import (
	"fmt"
	"go/token"
	"go/types"
	"os"
	"sort"
	"strings"

	"golang.org/x/tools/go/ssa"

	"verif/tools/load"
	"verif/tools/model"
	"verif/tools/pa"
)

func init() { register("C03", "other", runC03) }

type urlSpec struct {
	Positions map[string][]string `json:"positions"`
	Options   []string            `json:"options_implying_url_checks"`
}

func isCallTo(v ssa.Value, name string) *ssa.Call {
	c, ok := v.(*ssa.Call)
	if !ok || c.Common().StaticCallee() == nil {
		return nil
	}
	if pa.CalleeName(c.Common().StaticCallee()) == name {
		return c
	}
	return nil
}

func extractOf(v ssa.Value, idx int) ssa.Value {
	ex, ok := v.(*ssa.Extract)
	if !ok || ex.Index != idx {
		return nil
	}
	return ex.Tuple
}

// fieldLoadOf: v = *( &x.<field> ) ; returns x.
func fieldLoadOf(v ssa.Value, field string) ssa.Value {
	u, ok := v.(*ssa.UnOp)
	if !ok || u.Op != token.MUL {
		return nil
	}
	fa, ok := u.X.(*ssa.FieldAddr)
	if !ok || pa.FieldName(fa) != field {
		return nil
	}
	return fa.X
}

func runC03(c *Ctx) {
	R := c.R
	R.Rule("C03.R1", "position table: for every (element, attribute) URL position of the property statement, with requireParseableURLs on, sanitizeAttrs routes the surviving attributes through the URL loop (linkable(element) is true) and inside it an attribute with that key is appended only across validURL(value)#1 == true")
	R.Rule("C03.R2", "the value kept at a URL position is validURL's first result (or the src rewriter's result), never the original value")
	R.Rule("C03.R3", "validURL acceptance: with URL checking on, every `return _, true` happens under url.Parse err == nil and one of: scheme registered ∧ (no custom policies ∨ a custom policy returned true); scheme matched by a registered scheme regexp; empty scheme ∧ allowRelativeURLs ∧ u.String() != \"\" — and the string returned is u.String() of that parse")
	R.Rule("C03.R11", "validURL parses what it was given: the argument of url.Parse derives from the parameter only through TrimSpace, slicing/concatenation and CR/LF removal — no decoding or re-casing before the parse")
	parsesWhatItWasGiven(c, "C03.R11")
	R.Rule("C03.R10", "pattern builders stay in their lane: AllowURLSchemesMatching, AllowElementsMatching and the OnElementsMatching methods update (transitively) only the pattern tables, never an exact-name table")
	patternBuildersStayInLane(c, "C03.R10", "registering a scheme pattern rewrites the exact-scheme table: a custom URL check registered for that scheme (AllowURLSchemeWithCustomPolicy, AllowDataURIImages) is silently replaced by \"allow every URL of the scheme\"")
	R.Rule("C03.R9", "options survive lazy initialisation: an existing Policy is only ever updated field by field — no function stores a whole Policy value through a pointer it did not allocate (a `*p = Policy{…}` in init would reset every option set before)")
	optionsSurviveInit(c, "C03.R9", "RequireParseableURLs / AllowRelativeURLs / RewriteSrc set before the first rule are lost and URL attributes are no longer checked")
	R.Rule("C03.R4", "whitespace rejection: all three tests Contains(url, \" \"|\"\\t\"|\"\\n\") exist and acceptance implies none of them held unless the value has the data: prefix")
	R.Rule("C03.R5", "rewriter must-pass: at src positions, when a src rewriter is installed, the kept value is parsed.String() after the rewriter was called on parsed")
	R.Rule("C03.R6", "options that imply URL checking store true into requireParseableURLs (directly or through a callee that does) before every return")
	R.Rule("C03.R7", "the custom check stays decisive: the per-scheme policy lists hold only what AllowURLSchemeWithCustomPolicy was given — every other update of the scheme table stores the empty list — and a check the library itself registers (AllowDataURIImages) can return false; a library-registered check that returns true on every path would approve every URL of its scheme whatever check the user adds")
	R.Assume(TrustGo, "net/url.Parse/URL.String contract; that the scheme net/url extracts is the scheme a browser resolves (WHATWG URL) is NOT decided", "custom URL policies and rewriters are pure")
	var spec urlSpec
	if err := c.Spec("url_positions.json", &spec); err != nil {
		R.Unknown("C03.R1", "spec", "spec/url_positions.json", "", err.Error())
		return
	}
	F := model.FindFields(c.P)
	c03ValidURL(c, F, "")
	c03Positions(c, F, &spec)
	c03Options(c, F, &spec)
	c03CustomDecisive(c, F)
}

// alwaysTrue: fn has at least one return and every return yields the constant true.
func alwaysTrue(fn *ssa.Function) bool {
	n := 0
	for _, b := range fn.Blocks {
		r, ok := b.Instrs[len(b.Instrs)-1].(*ssa.Return)
		if !ok {
			continue
		}
		n++
		if len(r.Results) != 1 {
			return false
		}
		k, ok := r.Results[0].(*ssa.Const)
		if !ok || k.Value == nil || k.Value.String() != "true" {
			return false
		}
	}
	return n > 0
}

func c03CustomDecisive(c *Ctx, F *model.Fields) {
	R := c.R
	field := F.Get("allowURLSchemes")
	reg := c.P.Func(load.ModPath, "(*Policy).AllowURLSchemeWithCustomPolicy")
	if reg == nil {
		R.Unknown("C03.R7", "register", "(*Policy).AllowURLSchemeWithCustomPolicy", "", "not found")
		return
	}
	nUpd, nCalls := 0, 0
	for _, fn := range moduleFuncs(c.P) {
		cnt := 0
		for _, b := range fn.Blocks {
			for _, in := range b.Instrs {
				switch x := in.(type) {
				case *ssa.MapUpdate:
					if field == "" || model.LoadedPolicyField(x.Map) != field {
						continue
					}
					nUpd++
					cnt++
					key := fmt.Sprintf("update:%s#%d", shortFn(fn), cnt)
					cons := shortFn(fn) + ": update of the scheme table"
					pos := c.P.Pos(x.Pos())
					if k, ok := x.Value.(*ssa.Const); ok && k.IsNil() {
						R.OK("C03.R7", key, cons, pos, "stores the empty policy list")
						continue
					}
					okApp := false
					if ap, base := model.IsAppend(x.Value); ap != nil && fn == reg {
						if lk, ok := base.(*ssa.Lookup); ok && model.LoadedPolicyField(lk.X) == field && lk.Index == x.Key {
							v := model.AppendedValue(ap)
							if ct, isCT := v.(*ssa.ChangeType); isCT {
								v = ct.X
							}
							if v != nil && len(fn.Params) == 3 && v == ssa.Value(fn.Params[2]) {
								okApp = true
							}
						}
					}
					R.Check(okApp, "C03.R7", key, cons, pos, "appends the registered check to the scheme's own list", "the scheme table receives something other than the empty list or the check handed to AllowURLSchemeWithCustomPolicy")
				case *ssa.Call:
					if x.Common().StaticCallee() != reg || len(x.Common().Args) != 3 {
						continue
					}
					nCalls++
					cnt++
					key := fmt.Sprintf("library-check:%s#%d", shortFn(fn), cnt)
					cons := shortFn(fn) + ": registers a URL check of its own"
					pos := c.P.Pos(x.Pos())
					var target *ssa.Function
					switch a := x.Common().Args[2].(type) {
					case *ssa.Function:
						target = a
					case *ssa.MakeClosure:
						target, _ = a.Fn.(*ssa.Function)
					case *ssa.Parameter:
						// forwarded from the caller's own parameter (a user value)
						R.OK("C03.R7", key, cons, pos, "forwards its caller's check")
						continue
					}
					if target == nil {
						R.Unknown("C03.R7", key, cons, pos, "the registered check is not a function literal, a named function or a forwarded parameter")
						continue
					}
					R.Check(!alwaysTrue(target), "C03.R7", key, cons, pos, "the library's own check can reject", "the library registers a check that returns true on every path: every URL of that scheme is approved whatever check the user registers for it")
				}
			}
		}
	}
	R.Role("C03.R7", "updates of the scheme table", nUpd, 1)
	R.Role("C03.R7", "library-registered URL checks", nCalls, 1)
}

// c03ValidURL decides the acceptance rules of validURL (C03.R3/R4) or — when rejectRule names a rule of another
// property — the converse: that validURL rejects for tabled reasons only.
func c03ValidURL(c *Ctx, F *model.Fields, rejectRule string) {
	R := c.R
	fn := c.P.Func(load.ModPath, "(*Policy).validURL")
	if fn == nil {
		R.Unknown("C03.R3", "validURL", "(*Policy).validURL", "", "function not found")
		return
	}
	A := model.NewAnalysis(fn)
	translateAll(A)
	recv := fn.Params[0]
	fl := func(role string) *pa.F { return A.Lit(recv.Name() + "." + F.Get(role)) }
	RPU, AR := fl("requireParseableURLs"), fl("allowRelativeURLs")
	var errNil, schemeEmpty, mapokS, len0pol, msRe, dyn, strEmpty, ws, wsNeg, dataPfx []int
	wsSeen := map[string]bool{}
	var parse *ssa.Call
	// index-style searches: strings.IndexFunc/IndexAny/IndexRune/IndexByte/Index(url, …) compared with 0 or -1; the atom
	// is true when nothing was found
	indexSearch := func(v ssa.Value) bool {
		cl, ok := v.(*ssa.Call)
		if !ok || cl.Common().StaticCallee() == nil || len(cl.Common().Args) != 2 {
			return false
		}
		hit := false
		arg := cl.Common().Args[1]
		switch pa.CalleeName(cl.Common().StaticCallee()) {
		case "strings.IndexAny", "strings.Index":
			if k, ok := constString(arg); ok {
				for _, ch := range []string{" ", "\t", "\n"} {
					if (pa.CalleeName(cl.Common().StaticCallee()) == "strings.IndexAny" && strings.Contains(k, ch)) || k == ch {
						wsSeen[ch], hit = true, true
					}
				}
			}
		case "strings.IndexRune", "strings.IndexByte":
			if k, ok := arg.(*ssa.Const); ok && k.Value != nil {
				if ch := string(rune(k.Int64())); ch == " " || ch == "\t" || ch == "\n" {
					wsSeen[ch], hit = true, true
				}
			}
		case "strings.IndexFunc":
			// the predicate is folded on each of the three characters
			var pf *ssa.Function
			switch f := arg.(type) {
			case *ssa.Function:
				pf = f
			case *ssa.MakeClosure:
				if len(f.Bindings) == 0 {
					pf, _ = f.Fn.(*ssa.Function)
				}
			}
			if pf != nil {
				for _, ch := range []rune{' ', '\t', '\n'} {
					if res, ok := foldRunePredicate(pf, ch); ok && res {
						wsSeen[string(ch)], hit = true, true
					}
				}
			}
		}
		return hit
	}
	for i, at := range A.Atoms {
		switch at.Kind {
		case "lt":
			// IndexX(url, …) < 0  — true when nothing was found
			if k, ok := at.Y.(*ssa.Const); ok && k.Value != nil && k.Int64() == 0 && indexSearch(at.X) {
				wsNeg = append(wsNeg, i)
			}
		case "eq":
			if k, ok := at.Y.(*ssa.Const); ok && k.Value != nil && !k.IsNil() && k.Type().Underlying().String() == "int" && k.Int64() == -1 && indexSearch(at.X) {
				wsNeg = append(wsNeg, i)
			}
			if t := extractOf(at.X, 1); t != nil && isCallTo(t, "url.Parse") != nil {
				if k, ok := at.Y.(*ssa.Const); ok && k.IsNil() {
					errNil = append(errNil, i)
					parse = isCallTo(t, "url.Parse")
				}
			}
			if u := fieldLoadOf(at.X, "Scheme"); u != nil {
				if k, ok := constString(at.Y); ok && k == "" {
					schemeEmpty = append(schemeEmpty, i)
				}
			}
			if sc := isCallTo(at.X, "(*url.URL).String"); sc != nil {
				if k, ok := constString(at.Y); ok && k == "" {
					strEmpty = append(strEmpty, i)
				}
			}
		case "mapok":
			if model.LoadedPolicyField(at.X) == F.Get("allowURLSchemes") && fieldLoadOf(at.Y, "Scheme") != nil {
				mapokS = append(mapokS, i)
			}
		case "len0":
			if t := extractOf(at.X, 0); t != nil {
				if lk, ok := t.(*ssa.Lookup); ok && model.LoadedPolicyField(lk.X) == F.Get("allowURLSchemes") {
					len0pol = append(len0pol, i)
				}
			}
		case "val":
			if cl, ok := at.X.(*ssa.Call); ok {
				if isMatchString(cl.Common()) && fieldLoadOf(cl.Common().Args[1], "Scheme") != nil {
					if u, ok := cl.Common().Args[0].(*ssa.UnOp); ok {
						if ia, ok := u.X.(*ssa.IndexAddr); ok && model.LoadedPolicyField(ia.X) == F.Get("allowURLSchemeRegexps") {
							msRe = append(msRe, i)
						}
					}
				}
				if cl.Common().StaticCallee() == nil && !cl.Common().IsInvoke() {
					// call through a func value taken from the scheme's policy slice
					if u, ok := cl.Common().Value.(*ssa.UnOp); ok {
						if ia, ok := u.X.(*ssa.IndexAddr); ok {
							if t := extractOf(ia.X, 0); t != nil {
								if lk, ok := t.(*ssa.Lookup); ok && model.LoadedPolicyField(lk.X) == F.Get("allowURLSchemes") {
									dyn = append(dyn, i)
								}
							}
						}
					}
				}
				if cc := isCallTo(cl, "strings.Contains"); cc != nil {
					if k, ok := constString(cc.Common().Args[1]); ok && (k == " " || k == "\t" || k == "\n") {
						ws = append(ws, i)
						wsSeen[k] = true
					}
				}
				if cc := isCallTo(cl, "strings.ContainsAny"); cc != nil {
					// one test for several characters
					if k, ok := constString(cc.Common().Args[1]); ok {
						hit := false
						for _, ch := range []string{" ", "\t", "\n"} {
							if strings.Contains(k, ch) {
								wsSeen[ch] = true
								hit = true
							}
						}
						if hit {
							ws = append(ws, i)
						}
					}
				}
				if cc := isCallTo(cl, "strings.ContainsRune"); cc != nil {
					if k, ok := cc.Common().Args[1].(*ssa.Const); ok && k.Value != nil {
						ch := string(rune(k.Int64()))
						if ch == " " || ch == "\t" || ch == "\n" {
							ws = append(ws, i)
							wsSeen[ch] = true
						}
					}
				}
				if cc := isCallTo(cl, "strings.HasPrefix"); cc != nil {
					if k, ok := constString(cc.Common().Args[1]); ok && k == "data:" {
						dataPfx = append(dataPfx, i)
					}
				}
			}
		}
	}
	if rejectRule != "" {
		c03Rejects(c, A, fn, rejectRule, RPU, AR, errNil, schemeEmpty, mapokS, len0pol, strEmpty, wsFound(ws, wsNeg), dataPfx)
		return
	}
	for _, k := range []string{" ", "\t", "\n"} {
		R.Check(wsSeen[k], "C03.R4", fmt.Sprintf("ws-test:%q", k), fmt.Sprintf("(*Policy).validURL: strings.Contains(url, %q)", k), c.P.Pos(fn.Pos()), "test present", "the white-space test for this character is missing")
	}
	R.Role("C03.R3", "url.Parse error test in validURL", len(errNil), 1)
	R.Role("C03.R3", "scheme table lookup in validURL", len(mapokS), 1)
	nE := pa.Not(orAtoms(schemeEmpty))
	accept := pa.And(orAtoms(errNil), pa.Or(
		pa.And(nE, orAtoms(mapokS), orAtoms(len0pol)),
		pa.And(nE, orAtoms(mapokS), orAtoms(dyn)),
		pa.And(nE, pa.Not(orAtoms(mapokS)), orAtoms(msRe)),
		pa.And(orAtoms(schemeEmpty), AR, pa.Not(orAtoms(strEmpty))),
	))
	wsOK := pa.Or(pa.Not(wsFound(ws, wsNeg)), orAtoms(dataPfx))
	track := map[int]bool{}
	for _, f := range []*pa.F{RPU, accept, wsOK} {
		f.Atoms(track)
	}
	var tl []int
	for k := range track {
		tl = append(tl, k)
	}
	q, err := A.NewQuery(tl)
	if err != nil {
		R.Unknown("C03.R3", "validURL-query", "(*Policy).validURL", "", err.Error())
		return
	}
	q.Run(fn.Blocks[0], nil)
	n := 0
	for _, b := range fn.Blocks {
		ret, ok := b.Instrs[len(b.Instrs)-1].(*ssa.Return)
		if !ok || len(ret.Results) != 2 {
			continue
		}
		okv := A.Cond(ret.Results[1])
		if okv == pa.False {
			continue
		}
		n++
		key := fmt.Sprintf("accept#%d:%s", n, retKind(A, ret))
		pos := c.P.Pos(ret.Pos())
		st := q.StateAt(ret)
		if st == nil {
			continue
		}
		cons := "(*Policy).validURL: return " + A.Sym.Of(ret.Results[0]) + ", " + A.Str(okv)
		ok1, cex := q.Holds(st, pa.Implies(pa.And(okv, RPU), accept))
		R.Check(ok1, "C03.R3", key, cons, pos, "acceptance only across scheme-table / scheme-regexp / relative-URL edges", "a URL can be accepted with URL checking on although no acceptance condition holds: ["+cex+"]")
		ok2, cex2 := q.Holds(st, pa.Implies(pa.And(okv, RPU), wsOK))
		R.Check(ok2, "C03.R4", key, cons, pos, "no white space unless data: prefix", "a URL containing white space can be accepted: ["+cex2+"]")
		// returned string
		if okR, _ := q.Holds(st, pa.Not(RPU)); okR {
			continue // the no-URL-checking return
		}
		isStr := false
		if sc := isCallTo(ret.Results[0], "(*url.URL).String"); sc != nil && parse != nil {
			if t := extractOf(sc.Common().Args[0], 0); t == ssa.Value(parse) {
				isStr = true
			}
		}
		R.Check(isStr, "C03.R3", key+":value", cons, pos, "returns u.String() of the parsed URL", "with URL checking on the accepted value returned is not the re-serialised parse result (the original string would be emitted)")
	}
	R.Role("C03.R3", "accepting returns of validURL", n, 2)
}

func retKind(A *pa.Analysis, r *ssa.Return) string {
	s := A.Sym.Of(r.Results[0])
	if strings.Contains(s, "String") {
		return "u.String"
	}
	if i := strings.IndexAny(s, "@("); i > 0 {
		s = s[:i]
	}
	return s
}

func c03Positions(c *Ctx, F *model.Fields, spec *urlSpec) {
	R := c.R
	fn := c.P.Func(load.ModPath, "(*Policy).sanitizeAttrs")
	vu := c.P.Func(load.ModPath, "(*Policy).validURL")
	if fn == nil || vu == nil || len(fn.Params) != 4 {
		R.Unknown("C03.R1", "sanitizeAttrs", "(*Policy).sanitizeAttrs", "", "function (or validURL) not found / unexpected signature")
		return
	}
	// the URL loop: the slice range loop containing calls of validURL
	var urlLoop *model.RangeLoop
	for _, l := range model.SliceRangeLoops(fn) {
		for _, b := range sortedBlocks(l.Blocks) {
			for _, in := range b.Instrs {
				if cl, ok := in.(*ssa.Call); ok && cl.Common().StaticCallee() == vu {
					if urlLoop == nil || len(l.Blocks) < len(urlLoop.Blocks) {
						urlLoop = l
					}
				}
			}
		}
	}
	if urlLoop == nil {
		R.Unknown("C03.R1", "url-loop", "(*Policy).sanitizeAttrs: loop validating URL attributes", "", "no range loop calling validURL found (anchor lost)")
		return
	}
	// no validURL call outside that loop decides admission
	var keys []string
	for k := range spec.Positions {
		keys = append(keys, k)
	}
	sort.Strings(keys)
	nPos := 0
	for _, attrKey := range keys {
		for _, elem := range spec.Positions[attrKey] {
			nPos++
			c03Position(c, F, fn, vu, urlLoop.Header.Index, elem, attrKey)
		}
	}
	R.Analysed["url_positions_checked"] = nPos
}

// c03Position analyses sanitizeAttrs specialised to elementName == elem.
func c03Position(c *Ctx, F *model.Fields, fn, vu *ssa.Function, loopHdr int, elem, attrKey string) {
	R := c.R
	A := model.NewAnalysis(fn)
	A.BindConst(fn.Params[1], elem)
	translateAll(A)
	recv := fn.Params[0]
	RPU := A.Lit(recv.Name() + "." + F.Get("requireParseableURLs"))
	SR := A.Lit("(" + recv.Name() + "." + F.Get("srcRewriter") + " == nil)")
	var loop *model.RangeLoop
	for _, l := range model.SliceRangeLoops(fn) {
		if l.Header.Index == loopHdr {
			loop = l
		}
	}
	pos := c.P.Pos(lastPos(loop.Header))
	key := elem + "." + attrKey
	cons := fmt.Sprintf("(*Policy).sanitizeAttrs specialised to elementName=%q: attribute %q", elem, attrKey)
	// the range element of the URL loop
	elemSym := ""
	for _, in := range loop.Body.Instrs {
		if u, ok := in.(*ssa.UnOp); ok && u.Op == token.MUL {
			if ia, ok := u.X.(*ssa.IndexAddr); ok && ia.X == loop.Over {
				elemSym = A.Sym.Of(u)
			}
		}
	}
	if elemSym == "" {
		// the element load may sit in the header's successor chain
		for _, b := range sortedBlocks(loop.Blocks) {
			for _, in := range b.Instrs {
				if u, ok := in.(*ssa.UnOp); ok && u.Op == token.MUL {
					if ia, ok := u.X.(*ssa.IndexAddr); ok && ia.X == loop.Over && ia.Index == ssa.Value(loopIndexInc(loop)) {
						elemSym = A.Sym.Of(u)
					}
				}
			}
		}
	}
	if elemSym == "" {
		R.Unknown("C03.R1", key, cons, pos, "range element of the URL loop not recognised")
		return
	}
	keyEq := A.AtomIndex("(" + elemSym + ".Key == " + fmt.Sprintf("%q", attrKey) + ")")
	valid := A.AtomIndex(pa.CalleeName(vu) + "(" + recv.Name() + "," + elemSym + ".Val)#1")
	evLoop := A.EventVar("url-loop-completed")
	evRw := A.EventVar("rewriter-called")
	track := []int{RPU.Atom, SR.Atom, evLoop, evRw}
	if keyEq >= 0 {
		track = append(track, keyEq)
	}
	if valid >= 0 {
		track = append(track, valid)
	}
	// a verdict that reaches its test through a merged boolean (the ok result of an inlined helper): the conditions it is
	// merged from are tracked too, so that the test separates the paths again
	{
		have := map[int]bool{}
		for _, t := range track {
			have[t] = true
		}
		for _, b := range sortedBlocks(loop.Blocks) {
			iff, ok := b.Instrs[len(b.Instrs)-1].(*ssa.If)
			if !ok {
				continue
			}
			if _, isPhi := iff.Cond.(*ssa.Phi); !isPhi {
				continue
			}
			m := map[int]bool{}
			A.Cond(iff.Cond).Atoms(m)
			var extra []int
			for a := range m {
				if !have[a] {
					extra = append(extra, a)
				}
			}
			sort.Ints(extra)
			for _, a := range extra {
				if len(track) < 14 {
					track = append(track, a)
					have[a] = true
				}
			}
		}
	}
	q, err := A.NewQuery(track)
	if err != nil {
		R.Unknown("C03.R1", key, cons, pos, err.Error())
		return
	}
	q.EdgeHook = func(b *ssa.BasicBlock, k int) func(uint32) []uint32 {
		if b == loop.Header && b.Succs[k] == loop.Exit {
			return func(a uint32) []uint32 { return []uint32{q.With(a, evLoop, true)} }
		}
		return nil
	}
	// rewriter call: a call through the value loaded from p.srcRewriter
	for _, b := range sortedBlocks(loop.Blocks) {
		for _, in := range b.Instrs {
			if cl, ok := in.(*ssa.Call); ok && cl.Common().StaticCallee() == nil && !cl.Common().IsInvoke() {
				if model.LoadedPolicyField(cl.Common().Value) == F.Get("srcRewriter") {
					q.Hooks[in] = func(a uint32) []uint32 { return []uint32{q.With(a, evRw, true)} }
				}
			}
			// a new iteration forgets the rewriter event
		}
	}
	prevHook := q.EdgeHook
	q.EdgeHook = func(b *ssa.BasicBlock, k int) func(uint32) []uint32 {
		if h := prevHook(b, k); h != nil {
			return h
		}
		if b.Succs[k] == loop.Header && loop.Blocks[b] {
			return func(a uint32) []uint32 { return []uint32{q.With(a, evRw, false)} }
		}
		return nil
	}
	q.Run(fn.Blocks[0], q.InitWith(map[int]bool{evLoop: false, evRw: false}))

	// (1) routing: every return reachable after the filter (i.e. not the two early returns) has evLoop when RPU
	routed := true
	cexR := ""
	for _, b := range fn.Blocks {
		ret, ok := b.Instrs[len(b.Instrs)-1].(*ssa.Return)
		if !ok || !loopReachableBefore(loop, b) {
			continue
		}
		st := q.StateAt(ret)
		if st == nil {
			continue
		}
		if ok2, cex := q.Holds(st, pa.Implies(RPU, pa.AtomF(evLoop))); !ok2 {
			routed = false
			cexR = cex
		}
	}
	R.Check(routed, "C03.R1", key+":routed", cons, pos, "with URL checking on, the surviving attributes pass through the URL loop", "with URL checking on, the attributes of this element bypass the URL loop (element missing from linkable()): ["+cexR+"]")
	if !routed {
		return
	}
	// (2) inside the loop: appends of an element with Key == attrKey need validURL#1
	if keyEq < 0 {
		R.Fail("C03.R1", key+":validated", cons, pos, fmt.Sprintf("inside the URL loop the attribute key is never compared with %q for this element: its value is kept unchecked", attrKey))
		return
	}
	if valid < 0 {
		R.Fail("C03.R1", key+":validated", cons, pos, "validURL is never applied to the range element's value")
		return
	}
	nApp := 0
	for _, b := range sortedBlocks(loop.Blocks) {
		for _, in := range b.Instrs {
			cl, ok := in.(*ssa.Call)
			if !ok {
				continue
			}
			if ac, _ := model.IsAppend(cl); ac == nil {
				continue
			}
			st := q.StateAt(cl)
			if st == nil {
				continue
			}
			v := model.AppendedValue(cl)
			al := model.LoadOfAlloc(v)
			if al == nil {
				continue
			}
			nApp++
			ok1, cex := q.Holds(st, pa.Implies(pa.AtomF(keyEq), pa.AtomF(valid)))
			if !ok1 {
				R.Fail("C03.R1", key+":validated", cons, c.P.Pos(cl.Pos()), "a "+attrKey+" attribute of <"+elem+"> can be kept without validURL having accepted it: ["+cex+"]")
				return
			}
			// is this an append that can carry Key == attrKey ?
			if unreach, _ := q.Holds(st, pa.Not(pa.AtomF(keyEq))); unreach {
				continue
			}
			// R2: the stored Val
			st2 := model.LastFieldStoreBefore(al, "Val", cl)
			okVal := false
			why := "the value kept is the original attribute value, not validURL's result"
			if st2 != nil {
				vs := A.Sym.Of(st2.Val)
				want := pa.CalleeName(vu) + "(" + recv.Name() + "," + elemSym + ".Val)#0"
				rw := "(*url.URL).String(url.Parse(" + want + ")#0)"
				if vs == want || vs == rw {
					okVal = true
				} else if ph, ok := st2.Val.(*ssa.Phi); ok {
					okVal = true
					for i, e := range ph.Edges {
						es := A.Sym.Of(e)
						if es != want && es != rw {
							// the merged value may carry another operand on paths that cannot reach this append (the "" a
							// helper returns together with ok == false): the operand is taken only under a condition that
							// the state at the append excludes
							if f := A.PhiTakes(ph, i); f != nil {
								if infeasible, _ := q.Holds(st, pa.Not(f)); infeasible {
									continue
								}
							}
							if siblingFlagExcludes(ph, i, cl.Block()) {
								continue
							}
							okVal = false
							why = "kept value may be " + es
						}
					}
				} else {
					why = "kept value is " + vs
				}
				if attrKey == "src" {
					// R5: with a rewriter installed the value is the rewritten one and the rewriter ran
					ok5, cex5 := q.Holds(st, pa.Or(SR, pa.AtomF(evRw)))
					R.Check(ok5, "C03.R5", key+":rewriter", cons, c.P.Pos(cl.Pos()), "rewriter called whenever installed", "a src value can be kept without passing through the installed rewriter: ["+cex5+"]")
				}
			}
			R.Check(okVal, "C03.R2", key+":value", cons, c.P.Pos(cl.Pos()), "kept value is validURL's result (or the rewriter's)", why)
		}
	}
	if nApp == 0 {
		R.Unknown("C03.R1", key+":validated", cons, pos, "no append found in the URL loop")
		return
	}
	R.OK("C03.R1", key+":validated", cons, pos, fmt.Sprintf("%d append sites in the URL loop: key == %q implies validURL#1", nApp, attrKey))
}

func loopIndexInc(l *model.RangeLoop) ssa.Value {
	for _, r := range *l.Index.Referrers() {
		if bo, ok := r.(*ssa.BinOp); ok && bo.Op == token.ADD && bo.X == ssa.Value(l.Index) {
			return bo
		}
	}
	return nil
}

// loopReachableBefore: block b can be reached from the function entry via paths that could have
// entered the loop (b is reachable from the loop's pre-header's dominator), i.e. b is not one of the
// early returns that happen before the loop's position in the function.
func loopReachableBefore(l *model.RangeLoop, b *ssa.BasicBlock) bool {
	// early returns are those that cannot be reached from any predecessor region of the loop header's idom
	d := l.Header.Idom()
	for d != nil && len(d.Succs) < 2 {
		d = d.Idom()
	}
	if d == nil {
		return true
	}
	seen := map[*ssa.BasicBlock]bool{}
	stack := []*ssa.BasicBlock{d}
	for len(stack) > 0 {
		x := stack[len(stack)-1]
		stack = stack[:len(stack)-1]
		if seen[x] {
			continue
		}
		seen[x] = true
		stack = append(stack, x.Succs...)
	}
	return seen[b]
}

func c03Options(c *Ctx, F *model.Fields, spec *urlSpec) {
	R := c.R
	rpu := F.Get("requireParseableURLs")
	memo := map[*ssa.Function]int{} // 0 unknown, 1 yes, 2 no
	var ensures func(fn *ssa.Function) bool
	ensures = func(fn *ssa.Function) bool {
		if fn == nil || len(fn.Blocks) == 0 {
			return false
		}
		if m := memo[fn]; m != 0 {
			return m == 1
		}
		memo[fn] = 2
		var rets []*ssa.BasicBlock
		for _, b := range fn.Blocks {
			if _, ok := b.Instrs[len(b.Instrs)-1].(*ssa.Return); ok {
				rets = append(rets, b)
			}
		}
		for _, b := range fn.Blocks {
			for _, in := range b.Instrs {
				good := false
				switch x := in.(type) {
				case *ssa.Store:
					if model.PolicyField(x.Addr) == rpu && model.IsTrue(x.Val) {
						if fa, ok := x.Addr.(*ssa.FieldAddr); ok && fa.X == ssa.Value(fn.Params[0]) {
							good = true
						}
					}
				case *ssa.Call:
					cal := x.Common().StaticCallee()
					if cal != nil && len(x.Common().Args) > 0 && x.Common().Args[0] == ssa.Value(fn.Params[0]) && cal != fn {
						if cal == c.P.Func(load.ModPath, "(*Policy).RequireParseableURLs") {
							good = len(x.Common().Args) == 2 && model.IsTrue(x.Common().Args[1])
						} else if ensures(cal) {
							good = true
						}
					}
				}
				if !good {
					continue
				}
				all := true
				for _, rb := range rets {
					if !b.Dominates(rb) {
						all = false
					}
				}
				if all {
					memo[fn] = 1
					return true
				}
			}
		}
		return false
	}
	for _, name := range spec.Options {
		fn := c.P.Func(load.ModPath, "(*Policy)."+name)
		if fn == nil {
			R.Unknown("C03.R6", name, "(*Policy)."+name, "", "documented option not found")
			continue
		}
		R.Check(ensures(fn), "C03.R6", name, "(*Policy)."+name, c.P.Pos(fn.Pos()), "stores true into requireParseableURLs before every return", "this option is documented to require URL checking but does not switch requireParseableURLs on (URL attributes would then pass unchecked)")
	}
}

// c03Rejects: with URL checking on, validURL returns false only for a tabled reason — white space outside a data: URL,
// a parse error, a scheme (non-empty) that the scheme table / patterns / custom checks do not admit, or a scheme-less
// URL while relative URLs are off or the re-serialised URL is empty.  Any other rejecting path removes URLs that the
// policy allows (conforming documents no longer pass unchanged).
func c03Rejects(c *Ctx, A *pa.Analysis, fn *ssa.Function, rule string, RPU, AR *pa.F, errNil, schemeEmpty, mapokS, len0pol, strEmpty []int, ws *pa.F, dataPfx []int) {
	R := c.R
	if len(errNil) == 0 || len(schemeEmpty) == 0 {
		R.Unknown(rule, "validURL-reject:roles", "(*Policy).validURL", c.P.Pos(fn.Pos()), "anchor lost: the parse-error test or the empty-scheme test of validURL was not recognised")
		return
	}
	E := orAtoms(schemeEmpty)
	reasons := pa.Or(
		pa.And(ws, pa.Not(orAtoms(dataPfx))),
		pa.Not(orAtoms(errNil)),
		pa.And(pa.Not(E), pa.Not(orAtoms(mapokS))),
		pa.And(pa.Not(E), orAtoms(mapokS), pa.Not(orAtoms(len0pol))),
		pa.And(E, pa.Or(pa.Not(AR), orAtoms(strEmpty))),
	)
	track := map[int]bool{}
	for _, f := range []*pa.F{RPU, reasons} {
		f.Atoms(track)
	}
	var tl []int
	for k := range track {
		tl = append(tl, k)
	}
	q, err := A.NewQuery(tl)
	if err != nil {
		R.Unknown(rule, "validURL-reject:query", "(*Policy).validURL", "", err.Error())
		return
	}
	q.Run(fn.Blocks[0], nil)
	n := 0
	for _, b := range fn.Blocks {
		ret, ok := b.Instrs[len(b.Instrs)-1].(*ssa.Return)
		if !ok || len(ret.Results) != 2 {
			continue
		}
		okv := A.Cond(ret.Results[1])
		if okv == pa.True {
			continue
		}
		st := q.StateAt(ret)
		if st == nil {
			continue
		}
		n++
		key := fmt.Sprintf("validURL-reject#%d", n)
		cons := "(*Policy).validURL: return " + A.Sym.Of(ret.Results[0]) + ", " + A.Str(okv)
		ok1, cex := q.Holds(st, pa.Implies(pa.And(pa.Not(okv), RPU), reasons))
		R.Check(ok1, rule, key, cons, c.P.Pos(ret.Pos()), "rejects only for a tabled reason (white space, parse error, scheme not admitted, relative URLs off, empty URL)", "a URL the policy allows can be rejected: this return is reachable with no tabled reason for rejection: ["+cex+"]")
	}
	R.Role(rule, "rejecting returns of validURL", n, 1)
}

// wsFound: "the URL contains white space" — a positive containment test is true, or an index-style search did not
// come back empty-handed.
func wsFound(pos, neg []int) *pa.F {
	fs := []*pa.F{orAtoms(pos)}
	for _, a := range neg {
		fs = append(fs, pa.Not(pa.AtomF(a)))
	}
	return pa.Or(fs...)
}

// foldRunePredicate folds a func(rune) bool of the module on one constant argument: comparisons of the parameter with
// constants, boolean φs, branches, unicode.IsSpace.  ok is false when the body uses anything else.
func foldRunePredicate(fn *ssa.Function, r rune) (res, ok bool) {
	if len(fn.Params) != 1 || len(fn.Blocks) == 0 {
		return false, false
	}
	type val struct {
		i    int64
		b    bool
		isB  bool
		know bool
	}
	env := map[ssa.Value]val{fn.Params[0]: {i: int64(r), know: true}}
	get := func(v ssa.Value) val {
		if k, isC := v.(*ssa.Const); isC && k.Value != nil {
			if bt, isBasic := k.Type().Underlying().(*types.Basic); isBasic && bt.Info()&types.IsBoolean != 0 {
				return val{b: k.Value.String() == "true", isB: true, know: true}
			}
			if bt, isBasic := k.Type().Underlying().(*types.Basic); isBasic && bt.Info()&types.IsInteger != 0 {
				return val{i: k.Int64(), know: true}
			}
			return val{}
		}
		return env[v]
	}
	b := fn.Blocks[0]
	var prev *ssa.BasicBlock
	for steps := 0; steps < 400; steps++ {
		var next *ssa.BasicBlock
		for _, in := range b.Instrs {
			switch x := in.(type) {
			case *ssa.Phi:
				for i, p := range b.Preds {
					if p == prev {
						env[x] = get(x.Edges[i])
					}
				}
			case *ssa.BinOp:
				l, rr := get(x.X), get(x.Y)
				if !l.know || !rr.know {
					return false, false
				}
				var out val
				out.know = true
				if l.isB && rr.isB {
					out.isB = true
					switch x.Op {
					case token.EQL:
						out.b = l.b == rr.b
					case token.NEQ:
						out.b = l.b != rr.b
					default:
						return false, false
					}
				} else if !l.isB && !rr.isB {
					switch x.Op {
					case token.EQL:
						out.isB, out.b = true, l.i == rr.i
					case token.NEQ:
						out.isB, out.b = true, l.i != rr.i
					case token.LSS:
						out.isB, out.b = true, l.i < rr.i
					case token.LEQ:
						out.isB, out.b = true, l.i <= rr.i
					case token.GTR:
						out.isB, out.b = true, l.i > rr.i
					case token.GEQ:
						out.isB, out.b = true, l.i >= rr.i
					default:
						return false, false
					}
				} else {
					return false, false
				}
				env[x] = out
			case *ssa.UnOp:
				v := get(x.X)
				if x.Op != token.NOT || !v.know || !v.isB {
					return false, false
				}
				env[x] = val{b: !v.b, isB: true, know: true}
			case *ssa.Convert, *ssa.ChangeType:
				var src ssa.Value
				if cv, isCv := x.(*ssa.Convert); isCv {
					src = cv.X
				} else {
					src = x.(*ssa.ChangeType).X
				}
				v := get(src)
				if !v.know || v.isB {
					return false, false
				}
				env[x.(ssa.Value)] = v
			case *ssa.Call:
				cal := x.Common().StaticCallee()
				if cal == nil || pa.CalleeName(cal) != "unicode.IsSpace" || len(x.Common().Args) != 1 {
					return false, false
				}
				v := get(x.Common().Args[0])
				if !v.know || v.isB {
					return false, false
				}
				sp := false
				switch v.i {
				case ' ', '\t', '\n', '\v', '\f', '\r', 0x85, 0xA0:
					sp = true
				}
				env[x] = val{b: sp, isB: true, know: true}
			case *ssa.If:
				v := get(x.Cond)
				if !v.know || !v.isB {
					return false, false
				}
				if v.b {
					next = b.Succs[0]
				} else {
					next = b.Succs[1]
				}
			case *ssa.Jump:
				next = b.Succs[0]
			case *ssa.Return:
				v := get(x.Results[0])
				if !v.know || !v.isB {
					return false, false
				}
				return v.b, true
			case *ssa.DebugRef:
			default:
				return false, false
			}
		}
		if next == nil {
			return false, false
		}
		prev, b = b, next
	}
	return false, false
}

// siblingFlagExcludes: the φ operand i of ph cannot be the value in force at block `at`: a boolean φ g of the same block
// (the ok result that travels with the value) is false on that very edge, and `at` lies under the true edge of a test of g.
func siblingFlagExcludes(ph *ssa.Phi, i int, at *ssa.BasicBlock) bool {
	if os.Getenv("BMDEBUG") != "" {
		fmt.Fprintf(os.Stderr, "sibling: ph=%s block=%d edge=%d at=%d\n", ph.Name(), ph.Block().Index, i, at.Index)
		for _, in := range ph.Block().Instrs {
			fmt.Fprintf(os.Stderr, "   %s\n", in.String())
		}
		for d := at; d != nil; d = d.Idom() {
			fmt.Fprintf(os.Stderr, "   dom chain %d last=%s\n", d.Index, d.Instrs[len(d.Instrs)-1].String())
		}
	}
	for _, in := range ph.Block().Instrs {
		g, ok := in.(*ssa.Phi)
		if !ok {
			break
		}
		if g == ph || i >= len(g.Edges) || !model.IsFalse(g.Edges[i]) {
			continue
		}
		for d := at; d != nil; d = d.Idom() {
			if d == ph.Block() {
				// the test may sit at the end of the φ's own block
			}
			idom := d.Idom()
			if idom == nil {
				break
			}
			if iff, ok := idom.Instrs[len(idom.Instrs)-1].(*ssa.If); ok && iff.Cond == ssa.Value(g) && len(idom.Succs) == 2 && idom.Succs[0] == d && len(d.Preds) == 1 && ph.Block().Dominates(idom) {
				return true
			}
		}
	}
	return false
}

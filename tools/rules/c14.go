package rules

import (
	"bytes"
	"fmt"
	"go/ast"
	"go/token"
	"go/types"
	"os"
	"os/exec"
	"path/filepath"
	"regexp"
	"sort"
	"strconv"
	"strings"

	"golang.org/x/tools/go/ssa"

	"verif/tools/load"
	"verif/tools/model"
	"verif/tools/pa"
	"verif/tools/pats"
	"verif/tools/relang"
)

func init() { register("C14", "other", runC14) }

var bceLine = regexp.MustCompile(`^(?:\./)?([^:\s]+\.go):(\d+):(\d+): Found (IsInBounds|IsSliceInBounds)`)

type bceOb struct {
	file      string
	line, col int
	kind      string
}

// compilerBCE runs the Go compiler's bounds-check-elimination report on the two library packages.
// Every bounds check NOT listed has been proven safe by the compiler's prove pass (a sound static discharge).
func compilerBCE(c *Ctx) ([]bceOb, error) {
	cmd := exec.Command("go", "build", "-gcflags=-d=ssa/check_bce/debug=1", ".", "./css")
	cmd.Dir = c.P.Repo
	cmd.Env = append(os.Environ(), "GOFLAGS=-mod=mod", "GOPROXY=off", "GOSUMDB=off", "GOTOOLCHAIN=local", "GOWORK=off")
	var out bytes.Buffer
	cmd.Stdout = &out
	cmd.Stderr = &out
	err := cmd.Run()
	var obs []bceOb
	pkgDir := ""
	sawPkg := 0
	for _, ln := range strings.Split(out.String(), "\n") {
		if strings.HasPrefix(ln, "# ") {
			sawPkg++
			pkgDir = ""
			continue
		}
		m := bceLine.FindStringSubmatch(strings.TrimSpace(ln))
		if m == nil {
			if strings.TrimSpace(ln) != "" && err != nil {
				return nil, fmt.Errorf("compiler: %s", ln)
			}
			continue
		}
		l, _ := strconv.Atoi(m[2])
		cl, _ := strconv.Atoi(m[3])
		f := filepath.Join(pkgDir, m[1])
		obs = append(obs, bceOb{f, l, cl, m[4]})
	}
	if err != nil {
		return nil, fmt.Errorf("go build failed: %v", err)
	}
	if sawPkg < 2 {
		return nil, fmt.Errorf("bounds-check report covers %d packages (expected 2): %s", sawPkg, shorten(out.String()))
	}
	return obs, nil
}

func runC14(c *Ctx) {
	R := c.R
	R.Rule("C14.R1", "bounds: every index/slice expression written in the module that the compiler's prove pass could not discharge (its own -d=ssa/check_bce report; all other bounds checks are proven by the compiler) is discharged by a named guard: G1 x[len(x)-1] / x[:len(x)-1] under len(x)≥1 (or the C09 stack invariant); G2 constant index under a length test plus the Split contract; G3 s[i:]/s[:i]/s[i+1:] with i from strings.Index* under i≥0; G4 s[len(m):] with m a FindString match of the same s; G5 FindStringIndex bounds (loc!=nil, 0≤lo≤hi≤len, lo+1≤hi by minimum match length); G6 v[:i+1]/v[i+1:] under the counted loop i<len(v); G7 c[0]/c[1:] under len(c)>K")
	R.Rule("C14.R2", "other partial operations on sanitising paths: no explicit panic, no non-comma-ok type assertion, no integer division, no channel operation; calls through func-valued policy fields and method calls on *regexp.Regexp rule fields only under a non-nil test")
	R.Rule("C14.R3", "recursion is structural: the only cycles of the module call graph are self-recursive functions whose recursive argument is a strict suffix of their parameter")
	R.Rule("C14.R7", "per-call cost does not depend on earlier calls: no function on a sanitising path grows (appends to, inserts into) memory that outlives the call — policy tables, package state — so work done for one token is never added to what later tokens or calls must process (= C13.R1, cited for its complexity consequence)")
	c13SharedWrites(c, "C14.R7", "state that outlives the call grows with every token or call that takes this path, and so does the work of each later one (sanitising slows down without bound, or exhausts memory)", true)
	R.Rule("C14.R4", "no unbounded backtracking: a function that calls itself inside a loop over its own argument (no memo table) has worst-case exponential cost; every external call site must pass an argument whose length is bounded by a constant on all paths")
	R.Rule("C14.R6", "a value that comes with an error is used only where the error is nil: for every call on a sanitising path that returns (pointer or interface, error), each use of the value is unreachable from the err != nil edge of a test of that error (the edge must return, continue or break away first); a value whose error is never tested must not be used at all — otherwise a nil result is dereferenced (or handed to a callback) when the call fails")
	R.Rule("C14.R5", "loops terminate by shape: every loop on a sanitising path is a range loop, a counted loop, the token loop, a strictly-shrinking-string/slice loop, or a listed exception with a written argument (removeUnicode's rewrite loop)")
	R.Assume(TrustGo, "the Go compiler's prove pass is sound for the bounds checks it eliminates", "regexp contracts: FindString(s) is a substring of s; FindStringIndex(s) is nil or [lo,hi] with 0≤lo≤hi≤len(s); matching is linear (RE2)", "strings.Split/SplitN return at least one element; strings.Index* return -1 or a valid index",
		"url.Parse(u) succeeds for u = (*url.URL).String() of a parsed URL (the rewriter path dereferences the re-parsed URL without checking the error)",
		"arguments handed to builders by the caller (regexps, callbacks) are non-nil", "a numeric time bound and the complexity of x/net/html, douceur, net/url are NOT decided")
	S := sanitisingSet(c.P)
	for _, fn := range moduleFuncs(c.P) {
		if fn.Name() == "init" && fn.Signature.Recv() == nil && fn.Parent() == nil {
			delete(S, fn)
			continue
		}
		if fn.Pkg != nil && fn.Pkg.Pkg.Path() == load.ModPath+"/css" {
			S[fn] = true
		}
		if fn.Parent() != nil && fn.Parent().Pkg != nil && fn.Parent().Pkg.Pkg.Path() == load.ModPath {
			S[fn] = true
		}
	}
	c14Bounds(c, S)
	c14Partial(c, S)
	c14Recursion(c, S)
	c14Loops(c, S)
	c14ErrValues(c, S)
}

// ---------------------------------------------------------------------------------------------

func c14Bounds(c *Ctx, S map[*ssa.Function]bool) {
	R := c.R
	obs, err := compilerBCE(c)
	if err != nil {
		R.Unknown("C14.R1", "bce-report", "compiler bounds-check report", "", err.Error())
		return
	}
	R.Analysed["compiler_unproven_bounds_checks"] = len(obs)
	// AST nodes by position
	type node struct {
		expr ast.Expr
		pkg  string
	}
	nodes := map[string]node{}
	for _, pkg := range []string{load.ModPath, load.ModPath + "/css"} {
		for _, p := range c.P.Pkgs {
			if p.PkgPath != pkg {
				continue
			}
			for _, f := range p.Syntax {
				ast.Inspect(f, func(n ast.Node) bool {
					var lb token.Pos
					switch x := n.(type) {
					case *ast.IndexExpr:
						lb = x.Lbrack
					case *ast.SliceExpr:
						lb = x.Lbrack
					default:
						return true
					}
					pos := c.P.Fset.Position(lb)
					rel, _ := filepath.Rel(c.P.Repo, pos.Filename)
					nodes[fmt.Sprintf("%s:%d:%d", rel, pos.Line, pos.Column)] = node{n.(ast.Expr), pkg}
					return true
				})
			}
		}
	}
	// SSA instructions by position
	instrAt := map[token.Pos][]ssa.Instruction{}
	// by file:line as well: code inlined by the normaliser keeps the line of the helper it came from (through /*line*/
	// directives) but not the column, because the helper's locals were renamed
	instrOnLine := map[string][]ssa.Instruction{}
	for _, fn := range moduleFuncs(c.P) {
		for _, b := range fn.Blocks {
			for _, in := range b.Instrs {
				switch in.(type) {
				case *ssa.IndexAddr, *ssa.Index, *ssa.Slice, *ssa.Lookup:
					instrAt[in.Pos()] = append(instrAt[in.Pos()], in)
					if in.Pos().IsValid() {
						pos := c.P.Fset.Position(in.Pos())
						rel, _ := filepath.Rel(c.P.Repo, pos.Filename)
						k := fmt.Sprintf("%s:%d", rel, pos.Line)
						instrOnLine[k] = append(instrOnLine[k], in)
					}
				}
			}
		}
	}
	sort.Slice(obs, func(i, j int) bool {
		if obs[i].file != obs[j].file {
			return obs[i].file < obs[j].file
		}
		if obs[i].line != obs[j].line {
			return obs[i].line < obs[j].line
		}
		return obs[i].col < obs[j].col
	})
	nMod, nDropped := 0, 0
	cnt := map[string]int{}
	seenInstr := map[ssa.Instruction]bool{}
	for _, o := range obs {
		key := fmt.Sprintf("%s:%d:%d", o.file, o.line, o.col)
		nd, ok := nodes[key]
		if !ok {
			nDropped++ // a check inside an inlined standard-library function, attributed to the call position
			continue
		}
		var lb token.Pos
		switch x := nd.expr.(type) {
		case *ast.IndexExpr:
			lb = x.Lbrack
		case *ast.SliceExpr:
			lb = x.Lbrack
		}
		ins := instrAt[lb]
		if len(ins) == 0 {
			// the expression sits in a helper whose calls were inlined: take the inlined copies on the same line
			for _, in := range instrOnLine[fmt.Sprintf("%s:%d", o.file, o.line)] {
				_, isSliceExpr := nd.expr.(*ast.SliceExpr)
				_, isSliceIn := in.(*ssa.Slice)
				if isSliceExpr == isSliceIn {
					ins = append(ins, in)
				}
			}
		}
		if len(ins) == 0 {
			R.Unknown("C14.R1", "expr:"+exprKey(c, nd.expr), "unproven bounds check at "+key, key, "no SSA instruction found for this expression")
			continue
		}
		for _, in := range ins {
			if seenInstr[in] {
				continue
			}
			seenInstr[in] = true
			nMod++
			fn := in.Parent()
			ek := shortFn(fn) + ":" + exprKey(c, nd.expr)
			cnt[ek]++
			okey := fmt.Sprintf("%s#%d", ek, cnt[ek])
			cons := fmt.Sprintf("%s: %s (%s)", shortFn(fn), exprKey(c, nd.expr), o.kind)
			guard, why := dischargeBounds(c, fn, in)
			R.Check(guard != "", "C14.R1", okey, cons, key, "discharged by "+guard, "no guard rule applies: "+why+" — this index/slice operation may panic for some input")
		}
	}
	R.Analysed["module_bounds_obligations"] = nMod
	R.Analysed["checks_in_inlined_std_functions_dropped"] = nDropped
	R.Role("C14.R1", "unproven bounds checks written in the module", nMod, 8)
}

func exprKey(c *Ctx, e ast.Expr) string {
	var sb strings.Builder
	var w func(e ast.Expr)
	w = func(e ast.Expr) {
		switch x := e.(type) {
		case *ast.Ident:
			sb.WriteString(x.Name)
		case *ast.BasicLit:
			sb.WriteString(x.Value)
		case *ast.SelectorExpr:
			w(x.X)
			sb.WriteString("." + x.Sel.Name)
		case *ast.IndexExpr:
			w(x.X)
			sb.WriteString("[")
			w(x.Index)
			sb.WriteString("]")
		case *ast.SliceExpr:
			w(x.X)
			sb.WriteString("[")
			if x.Low != nil {
				w(x.Low)
			}
			sb.WriteString(":")
			if x.High != nil {
				w(x.High)
			}
			sb.WriteString("]")
		case *ast.BinaryExpr:
			w(x.X)
			sb.WriteString(x.Op.String())
			w(x.Y)
		case *ast.CallExpr:
			w(x.Fun)
			sb.WriteString("(")
			for i, a := range x.Args {
				if i > 0 {
					sb.WriteString(",")
				}
				w(a)
			}
			sb.WriteString(")")
		case *ast.ParenExpr:
			w(x.X)
		default:
			sb.WriteString(fmt.Sprintf("%T", e))
		}
	}
	w(e)
	return sb.String()
}

func lenOf(v ssa.Value) ssa.Value {
	if cl, ok := v.(*ssa.Call); ok {
		if b, ok := cl.Common().Value.(*ssa.Builtin); ok && b.Name() == "len" {
			return cl.Common().Args[0]
		}
	}
	return nil
}

// minusConst: v == x - k
func minusConst(v ssa.Value) (ssa.Value, int64, bool) {
	bo, ok := v.(*ssa.BinOp)
	if !ok {
		return nil, 0, false
	}
	k, ok := bo.Y.(*ssa.Const)
	if !ok {
		return nil, 0, false
	}
	switch bo.Op {
	case token.SUB:
		return bo.X, k.Int64(), true
	case token.ADD:
		return bo.X, -k.Int64(), true
	}
	return nil, 0, false
}

func dischargeBounds(c *Ctx, fn *ssa.Function, in ssa.Instruction) (string, string) {
	A := model.NewAnalysis(fn)
	translateAll(A)
	holds := func(f *pa.F) bool {
		m := map[int]bool{}
		f.Atoms(m)
		var tl []int
		for k := range m {
			tl = append(tl, k)
		}
		q, err := A.NewQuery(tl)
		if err != nil {
			return false
		}
		q.Run(fn.Blocks[0], nil)
		st := q.StateAt(in)
		if st == nil {
			return true
		}
		ok, _ := q.Holds(st, f)
		return ok
	}
	atom := func(key string) *pa.F {
		if i := A.AtomIndex(key); i >= 0 {
			return pa.AtomF(i)
		}
		return nil
	}
	sym := A.Sym.Of
	var base, idx, lo, hi ssa.Value
	switch x := in.(type) {
	case *ssa.IndexAddr:
		base, idx = x.X, x.Index
	case *ssa.Index:
		base, idx = x.X, x.Index
	case *ssa.Lookup:
		base, idx = x.X, x.Index
	case *ssa.Slice:
		base, lo, hi = x.X, x.Low, x.High
	}
	nonEmpty := func(x ssa.Value) bool {
		if a := atom("(len(" + sym(x) + ") == 0)"); a != nil && holds(pa.Not(a)) {
			return true
		}
		return false
	}
	// G13: x[i] where i is the index of a range loop over that same list value and the access lies inside the loop (the
	// compiler proves this itself unless the list is reached through a pointer in the source — `(*p)[i]` in
	// `for i := range *p` — which the normaliser has resolved to the variable)
	if idx != nil && lo == nil && hi == nil {
		if in2, ok := in.(ssa.Instruction); ok {
			for _, l := range model.SliceRangeLoops(fn) {
				if l.Over != base || !l.Blocks[in2.Block()] {
					continue
				}
				if idx == ssa.Value(l.Index) || idx == loopIndexInc(l) {
					return "G13 (index of the range loop over this very list, used inside the loop)", ""
				}
			}
		}
	}
	// G10: q[1:len(q)-1] where q is the result of strconv.Quote / QuoteToASCII (possibly lower-cased): a quoted string
	// is ASCII-only for QuoteToASCII and always has its two quote marks, so len(q) ≥ 2
	if hi != nil && lo != nil {
		if k, ok := lo.(*ssa.Const); ok && k.Int64() == 1 {
			if x, kk, ok := minusConst(hi); ok && kk == 1 && lenOf(x) == base {
				q := base
				if tl := isCallTo(q, "strings.ToLower"); tl != nil {
					q = tl.Common().Args[0]
				}
				if isCallTo(q, "strconv.QuoteToASCII") != nil || (q == base && isCallTo(q, "strconv.Quote") != nil) {
					return "G10 (a quoted string always carries its two quote marks: len ≥ 2)", ""
				}
			}
		}
	}
	// G1: x[len(x)-1] / x[:len(x)-1]
	for _, v := range []ssa.Value{idx, hi} {
		if v == nil {
			continue
		}
		if x, k, ok := minusConst(v); ok && k == 1 && lenOf(x) == base {
			if nonEmpty(base) {
				return "G1 (len ≥ 1 established by a dominating length test)", ""
			}
			// the pending-close stack: flag ⇒ non-empty (C09.R1)
			if s, err := model.FindSan(c.P); err == nil && fn == s.Fn {
				lv := s.FindLoopVars()
				if lv.Stack != nil && lv.Pending != nil && base == ssa.Value(lv.Stack) {
					A2 := s.A
					translateAll(A2)
					f := A2.Cond(lv.Pending)
					m := map[int]bool{}
					f.Atoms(m)
					var tl []int
					for k := range m {
						tl = append(tl, k)
					}
					if q, err := A2.NewQuery(tl); err == nil {
						q.Barrier[s.Header] = true
						q.Run(s.Header.Succs[0], nil)
						q.Run(s.Header.Succs[1], nil)
						if st := q.StateAt(in); st != nil {
							if ok, _ := q.Holds(st, f); ok && c09InvariantHolds(c) {
								return "G1 via the stack invariant (pending flag true here, and flag ⇔ stack non-empty is inductive: C09.R1)", ""
							}
						}
					}
				}
			}
			return "", "x[len(x)-1] without an established len(x) ≥ 1"
		}
	}
	// G8: x := make([]T, len(y)+1): x[len(y)], and x[i] / x[i+1] under i < len(y)
	if ms, ok := base.(*ssa.MakeSlice); ok && idx != nil {
		if y, k, ok := minusConst(ms.Len); ok && k == -1 && lenOf(y) != nil {
			src := lenOf(y)
			if lenOf(idx) == src {
				return "G8 (index len(y) into make([]T, len(y)+1))", ""
			}
			iv, off := idx, int64(0)
			if x, k2, ok := minusConst(idx); ok {
				iv, off = x, -k2
			}
			if off >= 0 && off <= 1 {
				if a := atom("(" + sym(iv) + " < len(" + sym(src) + "))"); a != nil && holds(a) {
					if ph, ok := iv.(*ssa.Phi); ok && lowerBoundedCounter(ph) {
						return "G8 (index i or i+1 into make([]T, len(y)+1) under i < len(y), i ≥ 0)", ""
					}
				}
			}
		}
	}
	// G2: constant index
	if k, ok := idx.(*ssa.Const); ok && idx != nil {
		n := k.Int64()
		isSplit := false
		if cl, ok := base.(*ssa.Call); ok && cl.Common().StaticCallee() != nil {
			nm := pa.CalleeName(cl.Common().StaticCallee())
			isSplit = nm == "strings.Split" || nm == "strings.SplitN" || nm == "(*regexp.Regexp).FindStringIndex"
		}
		if cl, ok := base.(*ssa.Call); ok && cl.Common().StaticCallee() != nil && pa.CalleeName(cl.Common().StaticCallee()) == "(*regexp.Regexp).FindStringIndex" || isFindIndexPhi(base) {
			if n <= 1 {
				if a := atom("(" + sym(base) + " == nil)"); a != nil && holds(pa.Not(a)) {
					return "G5 (FindStringIndex result is non-nil here, hence has two elements)", ""
				}
				return "", "index into a FindStringIndex result that may be nil"
			}
		}
		if n == 0 && (isSplit || nonEmpty(base)) {
			return "G2 (element 0 of a Split result / of a value tested non-empty)", ""
		}
		if n == 0 {
			// loop condition K < len(x)
			for _, at := range A.Atoms {
				if at.Kind == "lt" && lenOf(at.Y) == base {
					if kk, ok := at.X.(*ssa.Const); ok && kk.Int64() >= 0 && holds(pa.AtomF(A.AtomIndex(at.Key))) {
						return fmt.Sprintf("G7 (under %d < len)", kk.Int64()), ""
					}
				}
			}
		}
		if n == 1 && isSplit {
			if a := atom("(len(" + sym(base) + ") == 1)"); a != nil && holds(pa.Not(a)) {
				return "G2 (Split result has ≥ 1 element and len ≠ 1 here)", ""
			}
			// G9: the split string is known to contain the separator: a dominating R.MatchString(s) with L(R) ⊆ Σ*·sep·Σ*
			if cl, ok := base.(*ssa.Call); ok && len(cl.Common().Args) >= 2 {
				if sep, ok := constString(cl.Common().Args[1]); ok && sep != "" {
					subj := sym(cl.Common().Args[0])
					for i, at := range A.Atoms {
						if at.Kind != "val" {
							continue
						}
						ms, ok := at.X.(*ssa.Call)
						if !ok || !isMatchString(ms.Common()) || sym(ms.Common().Args[1]) != subj || !holds(pa.AtomF(i)) {
							continue
						}
						if u, ok := ms.Common().Args[0].(*ssa.UnOp); ok {
							if g, ok := u.X.(*ssa.Global); ok {
								for _, pv := range pats.RegexpVars(c.P.Main) {
									if pv.Name != g.Name() || !pv.Const {
										continue
									}
									b := relang.NewBuilder()
									b.AddPattern(pv.Pattern)
									b.AddString(sep)
									al := b.Build()
									d, err := relang.FromRegexp(pv.Pattern, al)
									if err != nil {
										continue
									}
									contains := relang.Concat(relang.All(al), relang.Literal(al, sep), relang.All(al))
									if sub, _ := relang.Subset(d, contains); sub {
										return "G9 (a dominating " + pv.Name + ".MatchString on the same string implies it contains the separator, so Split yields ≥ 2 parts)", ""
									}
								}
							}
						}
					}
				}
			}
		}
		// len(x) > n test
		for _, at := range A.Atoms {
			if at.Kind == "lt" && lenOf(at.Y) == base {
				if kk, ok := at.X.(*ssa.Const); ok && kk.Int64() >= n && holds(pa.AtomF(A.AtomIndex(at.Key))) {
					return fmt.Sprintf("G2 (under %d < len)", kk.Int64()), ""
				}
			}
		}
		return "", fmt.Sprintf("constant index %d without a length guard", n)
	}
	if sl, ok := in.(*ssa.Slice); ok {
		// G7: c[1:] under K < len(c), K ≥ 1
		if k, ok := lo.(*ssa.Const); ok && hi == nil {
			for _, at := range A.Atoms {
				if at.Kind == "lt" && lenOf(at.Y) == base {
					if kk, ok := at.X.(*ssa.Const); ok && kk.Int64() >= k.Int64() && holds(pa.AtomF(A.AtomIndex(at.Key))) {
						return fmt.Sprintf("G7 (under %d < len)", kk.Int64()), ""
					}
				}
			}
			if k.Int64() == 0 {
				return "trivial (x[0:])", ""
			}
		}
		// G11: s[k:] with a constant k (possibly len("literal")) where a dominating R.MatchString(s) holds and every string
		// R matches has at least k runes (hence bytes): `val[len("data-"):]` after `^data-.+` matched val
		if k, ok := lo.(*ssa.Const); ok && hi == nil && k.Int64() > 0 {
			subj := sym(base)
			for i, at := range A.Atoms {
				if at.Kind != "val" {
					continue
				}
				ms, ok := at.X.(*ssa.Call)
				if !ok || !isMatchString(ms.Common()) || sym(ms.Common().Args[1]) != subj || !holds(pa.AtomF(i)) {
					continue
				}
				if u, ok := ms.Common().Args[0].(*ssa.UnOp); ok {
					if g, ok := u.X.(*ssa.Global); ok {
						for _, pv := range pats.RegexpVars(c.P.Main) {
							if pv.Name != g.Name() || !pv.Const || len(pv.Writes) > 0 {
								continue
							}
							b := relang.NewBuilder()
							b.AddPattern(pv.Pattern)
							al := b.Build()
							if d, err := relang.FromRegexp(pv.Pattern, al); err == nil && int64(d.MinLen()) >= k.Int64() {
								return fmt.Sprintf("G11 (a dominating %s.MatchString on the same string: every string it accepts has ≥ %d runes)", pv.Name, k.Int64()), ""
							}
						}
					}
				}
			}
		}
		// G4: s[len(m):] with m = R.FindString(s)
		if hi == nil && lo != nil {
			if m := lenOf(lo); m != nil {
				if fs := isCallTo(m, "(*regexp.Regexp).FindString"); fs != nil && sym(fs.Common().Args[1]) == sym(base) {
					return "G4 (the offset is the length of a FindString match of the same string)", ""
				}
			}
		}
		// G3: index from strings.Index*
		isIdx := func(v ssa.Value) (*ssa.Call, int64) {
			off := int64(0)
			if x, k, ok := minusConst(v); ok {
				v, off = x, -k
			}
			if cl, ok := v.(*ssa.Call); ok && cl.Common().StaticCallee() != nil && strings.HasPrefix(pa.CalleeName(cl.Common().StaticCallee()), "strings.Index") {
				return cl, off
			}
			return nil, 0
		}
		for _, v := range []ssa.Value{lo, hi} {
			if v == nil {
				continue
			}
			if cl, off := isIdx(v); cl != nil && sym(cl.Common().Args[0]) == sym(base) && off >= 0 && off <= 1 {
				if a := atom("(" + sym(cl) + " < 0)"); a != nil && holds(pa.Not(a)) {
					return "G3 (index returned by strings.Index* on the same string, under i ≥ 0)", ""
				}
				// G12: the separator is known to occur: a dominating strings.Count(s, sep) == k (k ≥ 1) or
				// strings.Contains(s, sep) on the same string and separator
				sepOf := func(v ssa.Value) (string, bool) {
					if k, ok := constString(v); ok {
						return k, true
					}
					if k, ok := v.(*ssa.Const); ok && k.Value != nil {
						if bt, ok := k.Type().Underlying().(*types.Basic); ok && bt.Info()&types.IsInteger != 0 {
							return string(rune(k.Int64())), true
						}
					}
					return "", false
				}
				if want, ok := sepOf(cl.Common().Args[1]); ok && want != "" {
					for i, at := range A.Atoms {
						var cnt *ssa.Call
						switch at.Kind {
						case "eq":
							if k, isC := at.Y.(*ssa.Const); isC && k.Value != nil && !k.IsNil() {
								if bt, ok := k.Type().Underlying().(*types.Basic); ok && bt.Info()&types.IsInteger != 0 && k.Int64() >= 1 {
									cnt = isCallTo(at.X, "strings.Count")
								}
							}
						case "val":
							cnt = isCallTo(at.X, "strings.Contains")
						}
						if cnt == nil || sym(cnt.Common().Args[0]) != sym(base) {
							continue
						}
						if got, ok := sepOf(cnt.Common().Args[1]); ok && got == want && holds(pa.AtomF(i)) {
							return "G12 (index returned by strings.Index* on the same string, whose separator is known to occur: a dominating Count/Contains test)", ""
						}
					}
				}
				return "", "index from strings.Index* used without the i ≥ 0 test"
			}
		}
		// G6: counted loop
		for _, v := range []ssa.Value{lo, hi} {
			if v == nil {
				continue
			}
			if x, k, ok := minusConst(v); ok && k == -1 {
				if ph, ok := x.(*ssa.Phi); ok {
					if a := atom("(" + sym(ph) + " < len(" + sym(base) + "))"); a != nil && holds(a) {
						return "G6 (i+1 with i < len under the counted loop)", ""
					}
				}
			}
		}
		// G5: FindStringIndex
		if g := findIndexGuard(c, A, fn, sl, holds); g != "" {
			return g, ""
		}
		return "", "slice bounds not covered by a guard rule"
	}
	return "", "index not covered by a guard rule"
}

func isFindIndexPhi(v ssa.Value) bool {
	ph, ok := v.(*ssa.Phi)
	if !ok {
		return false
	}
	for _, e := range ph.Edges {
		if isCallTo(e, "(*regexp.Regexp).FindStringIndex") == nil {
			return false
		}
	}
	return len(ph.Edges) > 0
}

// findIndexGuard: s[lo+1:hi], s[:lo], s[hi:] where (lo,hi) = loc[0], loc[1], loc = R.FindStringIndex(s) for the same s, loc != nil.
func findIndexGuard(c *Ctx, A *pa.Analysis, fn *ssa.Function, sl *ssa.Slice, holds func(*pa.F) bool) string {
	locOf := func(v ssa.Value) (ssa.Value, int64, int64, bool) { // loc, which element, offset
		off := int64(0)
		if x, k, ok := minusConst(v); ok {
			v, off = x, -k
		}
		u, ok := v.(*ssa.UnOp)
		if !ok {
			return nil, 0, 0, false
		}
		ia, ok := u.X.(*ssa.IndexAddr)
		if !ok {
			return nil, 0, 0, false
		}
		k, ok := ia.Index.(*ssa.Const)
		if !ok {
			return nil, 0, 0, false
		}
		return ia.X, k.Int64(), off, true
	}
	var loc ssa.Value
	needMin := false
	for _, v := range []ssa.Value{sl.Low, sl.High} {
		if v == nil {
			continue
		}
		if k, isC := v.(*ssa.Const); isC && k.Int64() == 0 && v == sl.Low {
			continue
		}
		l, which, off, ok := locOf(v)
		if !ok {
			return ""
		}
		if loc != nil && l != loc {
			return ""
		}
		loc = l
		switch {
		case off == 0:
		case off == 1 && which == 0 && v == sl.Low:
			needMin = true // lo+1 ≤ hi needs a non-empty match
		default:
			return ""
		}
	}
	if loc == nil {
		return ""
	}
	// loc and the sliced string are updated together: every value loc receives is FindStringIndex(<value the string receives at the same time>)
	var re *ssa.Call
	pairOK := false
	switch l := loc.(type) {
	case *ssa.Call:
		re = isCallTo(l, "(*regexp.Regexp).FindStringIndex")
		pairOK = re != nil && A.Sym.Of(re.Common().Args[1]) == A.Sym.Of(sl.X)
	case *ssa.Phi:
		sp, ok := sl.X.(*ssa.Phi)
		if ok && sp.Block() == l.Block() {
			pairOK = true
			for i := range l.Edges {
				cl := isCallTo(l.Edges[i], "(*regexp.Regexp).FindStringIndex")
				if cl == nil || cl.Common().Args[1] != sp.Edges[i] {
					pairOK = false
				} else {
					re = cl
				}
			}
		}
	}
	if !pairOK || re == nil {
		return ""
	}
	if i := A.AtomIndex("(" + A.Sym.Of(loc) + " == nil)"); i < 0 || !holds(pa.Not(pa.AtomF(i))) {
		return ""
	}
	if needMin {
		// minimum match length of the regexp ≥ 1
		okMin := false
		if u, ok := re.Common().Args[0].(*ssa.UnOp); ok {
			if g, ok := u.X.(*ssa.Global); ok {
				for _, pv := range pats.RegexpVars(c.P.Main) {
					if pv.Name == g.Name() && pv.Const {
						b := relang.NewBuilder()
						b.AddPattern(pv.Pattern)
						a := b.Build()
						if d, err := relang.FromRegexp("^(?:"+pv.Pattern+")$", a); err == nil && d.MinLen() >= 1 {
							okMin = true
						}
					}
				}
			}
		}
		if !okMin {
			return ""
		}
		return "G5 (FindStringIndex of the same string, non-nil, minimum match length ≥ 1 so lo+1 ≤ hi)"
	}
	return "G5 (FindStringIndex of the same string, non-nil: 0 ≤ lo ≤ hi ≤ len)"
}

// c09InvariantHolds re-runs C09.R1 on a scratch report and tells whether it is fully discharged.
func c09InvariantHolds(c *Ctx) bool {
	sub := &Ctx{P: c.P, R: newScratchReport(), Tier: c.Tier, VerifDir: c.VerifDir}
	runC09(sub)
	for _, o := range sub.R.Obls {
		if o.Rule == "C09.R1" && o.Status != "discharged" {
			return false
		}
	}
	return true
}

// ---------------------------------------------------------------------------------------------

func c14Partial(c *Ctx, S map[*ssa.Function]bool) {
	R := c.R
	var fns []*ssa.Function
	for fn := range S {
		fns = append(fns, fn)
	}
	sortFuncs(fns)
	nNil := 0
	bad := 0
	for _, fn := range fns {
		var A *pa.Analysis
		getA := func() *pa.Analysis {
			if A == nil {
				A = model.NewAnalysis(fn)
				translateAll(A)
			}
			return A
		}
		nonNilAt := func(v ssa.Value, at ssa.Instruction) bool {
			A := getA()
			i := A.AtomIndex("(" + A.Sym.Of(v) + " == nil)")
			if i < 0 {
				return false
			}
			q, err := A.NewQuery([]int{i})
			if err != nil {
				return false
			}
			q.Run(fn.Blocks[0], nil)
			st := q.StateAt(at)
			if st == nil {
				return true
			}
			ok, _ := q.Holds(st, pa.Not(pa.AtomF(i)))
			return ok
		}
		cnt := map[string]int{}
		for _, b := range fn.Blocks {
			for _, in := range b.Instrs {
				pos := c.P.Pos(in.Pos())
				switch x := in.(type) {
				case *ssa.Panic:
					bad++
					R.Fail("C14.R2", "panic:"+shortFn(fn), shortFn(fn)+": explicit panic", pos, "a sanitising path can panic")
				case *ssa.TypeAssert:
					if !x.CommaOk {
						bad++
						R.Fail("C14.R2", "assert:"+shortFn(fn), shortFn(fn)+": type assertion without comma-ok", pos, "panics when the dynamic type differs")
					}
				case *ssa.BinOp:
					if (x.Op == token.QUO || x.Op == token.REM) && strings.Contains(x.Type().String(), "int") {
						if _, isC := x.Y.(*ssa.Const); !isC {
							bad++
							R.Fail("C14.R2", "div:"+shortFn(fn), shortFn(fn)+": integer division", pos, "division by a non-constant value")
						}
					}
				case *ssa.Send, *ssa.Select:
					bad++
					R.Fail("C14.R2", "chan:"+shortFn(fn), shortFn(fn)+": channel operation", pos, "may block")
				case *ssa.Call:
					cm := x.Common()
					if cm.StaticCallee() == nil && !cm.IsInvoke() {
						// call through a func value: from a struct field → needs a non-nil test
						if u, ok := cm.Value.(*ssa.UnOp); ok {
							if fa, ok := u.X.(*ssa.FieldAddr); ok {
								nNil++
								name := pa.FieldName(fa)
								cnt["dyn:"+name]++
								key := fmt.Sprintf("%s:call-through-field:%s#%d", shortFn(fn), name, cnt["dyn:"+name])
								R.Check(nonNilAt(cm.Value, x), "C14.R2", key, shortFn(fn)+": call through func field "+name, pos, "under a non-nil test", "a func-valued field that may be nil is called without a nil test")
							}
						}
					}
					// a method called on (or through) a pointer- or interface-typed field of the Policy itself: a policy that
					// was not built by NewPolicy() (a Policy{} literal, lazily set up by init()) has it nil unless init() sets it
					{
						var recvVal ssa.Value
						if cm.IsInvoke() {
							recvVal = cm.Value
						} else if cal := cm.StaticCallee(); cal != nil && cal.Signature.Recv() != nil && len(cm.Args) > 0 {
							if _, isPtr := cal.Signature.Recv().Type().Underlying().(*types.Pointer); isPtr {
								recvVal = cm.Args[0]
							}
						}
						if u, ok := recvVal.(*ssa.UnOp); ok && u.Op == token.MUL {
							if fa, ok := u.X.(*ssa.FieldAddr); ok && model.PolicyField(fa) != "" {
								switch u.Type().Underlying().(type) {
								case *types.Pointer, *types.Interface:
									name := pa.FieldName(fa)
									cnt["pf:"+name]++
									key := fmt.Sprintf("%s:method-on-policy-field:%s#%d", shortFn(fn), name, cnt["pf:"+name])
									setByInit := false
									if initFn := c.P.Func(load.ModPath, "(*Policy).init"); initFn != nil {
										for _, ib := range initFn.Blocks {
											for _, iin := range ib.Instrs {
												if st, ok := iin.(*ssa.Store); ok && model.PolicyField(st.Addr) == model.PolicyField(fa) {
													if k, isC := st.Val.(*ssa.Const); !isC || !k.IsNil() {
														setByInit = true
													}
												}
											}
										}
									}
									R.Check(setByInit || nonNilAt(recvVal, x), "C14.R2", key, shortFn(fn)+": method call on Policy."+name, pos, "under a non-nil test, or the field is given a value by init()", "a pointer-valued field of the policy is used without a nil test: on a policy that was not created by NewPolicy() (a Policy{} literal, which init() sets up lazily) it is nil and sanitising panics")
								}
							}
						}
					}
					if isMatchString(cm) || (cm.StaticCallee() != nil && strings.HasPrefix(pa.CalleeName(cm.StaticCallee()), "(*regexp.Regexp).")) {
						if u, ok := cm.Args[0].(*ssa.UnOp); ok {
							if fa, ok := u.X.(*ssa.FieldAddr); ok && pa.FieldName(fa) == "regexp" {
								nNil++
								cnt["re"]++
								key := fmt.Sprintf("%s:regexp-field-use#%d", shortFn(fn), cnt["re"])
								R.Check(nonNilAt(cm.Args[0], x), "C14.R2", key, shortFn(fn)+": method call on the optional regexp of a rule", pos, "under a non-nil test", "the optional regexp of a rule is used without a nil test")
							}
						}
					}
				}
			}
		}
	}
	R.Role("C14.R2", "uses of optional func/regexp rule fields", nNil, 3)
	if bad == 0 {
		R.OK("C14.R2", "no-partial-ops", fmt.Sprintf("%d functions on sanitising paths", len(fns)), "", "no explicit panic, unchecked type assertion, integer division by a variable, or channel operation")
	}
}

// selfLoopCalls: call sites inside fn that call fn itself.
func selfCalls(fn *ssa.Function) []*ssa.Call {
	var out []*ssa.Call
	for _, b := range fn.Blocks {
		for _, in := range b.Instrs {
			cl, ok := in.(*ssa.Call)
			if !ok {
				continue
			}
			if cl.Common().StaticCallee() == fn {
				out = append(out, cl)
				continue
			}
			for _, t := range closureCallees(cl) {
				if t == fn {
					out = append(out, cl)
				}
			}
		}
	}
	return out
}

// closureCallees resolves a call through a local function variable (`var f func(..); f = func(..){ .. f(..) .. }`):
// the variable is a local of the calling function, or a captured local of an enclosing one; its possible values are
// the function literals stored into it.
func closureCallees(ci ssa.CallInstruction) []*ssa.Function {
	// io.WriteString(w, s) calls w.WriteString(s) when w has that method: with a concrete w this is a static edge
	if cal := ci.Common().StaticCallee(); cal != nil && pa.CalleeName(cal) == "io.WriteString" && len(ci.Common().Args) == 2 {
		if mi, ok := ci.Common().Args[0].(*ssa.MakeInterface); ok {
			prog := cal.Prog
			ms := prog.MethodSets.MethodSet(mi.X.Type())
			for i := 0; i < ms.Len(); i++ {
				if ms.At(i).Obj().Name() == "WriteString" {
					if f := prog.MethodValue(ms.At(i)); f != nil {
						return []*ssa.Function{f}
					}
				}
			}
		}
		return nil
	}
	if ci.Common().IsInvoke() || ci.Common().StaticCallee() != nil {
		return nil
	}
	u, ok := ci.Common().Value.(*ssa.UnOp)
	if !ok || u.Op != token.MUL {
		return nil
	}
	var cell ssa.Value
	switch x := u.X.(type) {
	case *ssa.Alloc:
		cell = x
	case *ssa.FreeVar:
		fn := x.Parent()
		idx := -1
		for i, fv := range fn.FreeVars {
			if fv == x {
				idx = i
			}
		}
		par := fn.Parent()
		if par == nil || idx < 0 {
			return nil
		}
		for _, b := range par.Blocks {
			for _, in := range b.Instrs {
				if mc, ok := in.(*ssa.MakeClosure); ok && mc.Fn == ssa.Value(fn) && idx < len(mc.Bindings) {
					cell = mc.Bindings[idx]
				}
			}
		}
	}
	if cell == nil || cell.Referrers() == nil {
		return nil
	}
	var out []*ssa.Function
	for _, r := range *cell.Referrers() {
		if st, ok := r.(*ssa.Store); ok && st.Addr == cell {
			switch v := st.Val.(type) {
			case *ssa.MakeClosure:
				if f, ok := v.Fn.(*ssa.Function); ok {
					out = append(out, f)
				}
			case *ssa.Function:
				out = append(out, v)
			}
		}
	}
	return out
}

func c14Recursion(c *Ctx, S map[*ssa.Function]bool) {
	R := c.R
	// module call graph (static calls) and its cycles
	funcs := moduleFuncs(c.P)
	callees := map[*ssa.Function][]*ssa.Function{}
	inMod := map[*ssa.Function]bool{}
	for _, f := range funcs {
		inMod[f] = true
	}
	for _, f := range funcs {
		for _, b := range f.Blocks {
			for _, in := range b.Instrs {
				if ci, ok := in.(ssa.CallInstruction); ok {
					if cal := ci.Common().StaticCallee(); cal != nil && inMod[cal] {
						callees[f] = append(callees[f], cal)
					}
					for _, cal := range closureCallees(ci) {
						if inMod[cal] {
							callees[f] = append(callees[f], cal)
						}
					}
				}
			}
		}
	}
	// functions on a cycle: f reaches f
	nCyc := 0
	for _, f := range funcs {
		seen := map[*ssa.Function]bool{}
		stack := append([]*ssa.Function(nil), callees[f]...)
		onCycle, viaOther := false, false
		for len(stack) > 0 {
			x := stack[len(stack)-1]
			stack = stack[:len(stack)-1]
			if x == f {
				onCycle = true
				continue
			}
			if seen[x] {
				continue
			}
			seen[x] = true
			for _, y := range callees[x] {
				if y == f {
					viaOther = true
					onCycle = true
				}
				stack = append(stack, y)
			}
		}
		if !onCycle {
			continue
		}
		nCyc++
		key := "cycle:" + shortFn(f)
		pos := c.P.Pos(f.Pos())
		if viaOther {
			R.Fail("C14.R3", key, shortFn(f)+": mutual recursion", pos, "a call-graph cycle through several functions: no structural termination argument is modelled")
			continue
		}
		// self recursion: every recursive argument that is a slice/string must be a strict suffix p[i+k:] (k ≥ 1, i ≥ 0 loop variable or constant)
		okAll := true
		why := ""
		for _, cl := range selfCalls(f) {
			shrinks := false
			for i, a := range cl.Common().Args {
				sl, ok := a.(*ssa.Slice)
				if !ok || sl.X != ssa.Value(f.Params[i]) || sl.Low == nil || sl.High != nil {
					continue
				}
				if x, k, ok := minusConst(sl.Low); ok && k <= -1 {
					if ph, ok := x.(*ssa.Phi); ok && nonNegativeCounter(ph) {
						shrinks = true
					}
				}
				if k, ok := sl.Low.(*ssa.Const); ok && k.Int64() >= 1 {
					shrinks = true
				}
			}
			if !shrinks {
				okAll, why = false, "a recursive call at "+c.P.Pos(cl.Pos())+" does not pass a strict suffix of a parameter"
			}
		}
		R.Check(okAll, "C14.R3", key, shortFn(f)+": self recursion", pos, "every recursive call passes a strict suffix of its parameter (depth ≤ length)", why)
		// R4: backtracking
		c14Backtracking(c, f, S)
	}
	R.Analysed["call_graph_cycles"] = nCyc
	R.OK("C14.R3", "callgraph", fmt.Sprintf("static call graph of %d module functions, %d on a cycle", len(funcs), nCyc), "", "every cycle inspected")
}

func nonNegativeCounter(ph *ssa.Phi) bool {
	for _, e := range ph.Edges {
		if k, ok := e.(*ssa.Const); ok {
			if k.Int64() < 0 {
				return false
			}
			continue
		}
		if x, k, ok := minusConst(e); ok && x == ssa.Value(ph) && k < 0 {
			continue
		}
		return false
	}
	return true
}

func c14Backtracking(c *Ctx, f *ssa.Function, S map[*ssa.Function]bool) {
	R := c.R
	// does f call itself inside a loop?
	inLoop := false
	for _, cl := range selfCalls(f) {
		for _, b := range f.Blocks {
			isHd := false
			for _, p := range b.Preds {
				if b.Dominates(p) {
					isHd = true
				}
			}
			if isHd && model.NaturalLoop(b)[cl.Block()] {
				inLoop = true
			}
		}
	}
	if !inLoop {
		return
	}
	// memo table? (a map or slice parameter/local indexed by position that short-cuts the recursion) — none modelled
	n, nBad := 0, 0
	for _, g := range moduleFuncs(c.P) {
		if g == f {
			continue
		}
		var A *pa.Analysis
		for _, b := range g.Blocks {
			for _, in := range b.Instrs {
				cl, ok := in.(*ssa.Call)
				if !ok || cl.Common().StaticCallee() != f {
					continue
				}
				n++
				if A == nil {
					A = model.NewAnalysis(g)
					translateAll(A)
				}
				// bounded: some atom (K < len(arg0)) is false here
				arg := cl.Common().Args[0]
				bounded := int64(-1)
				for i, at := range A.Atoms {
					if at.Kind != "lt" || lenOf(at.Y) == nil || A.Sym.Of(lenOf(at.Y)) != A.Sym.Of(arg) {
						continue
					}
					k, ok := at.X.(*ssa.Const)
					if !ok {
						continue
					}
					q, err := A.NewQuery([]int{i})
					if err != nil {
						continue
					}
					q.Run(g.Blocks[0], nil)
					if st := q.StateAt(cl); st != nil {
						if ok, _ := q.Holds(st, pa.Not(pa.AtomF(i))); ok {
							bounded = k.Int64()
						}
					}
				}
				key := "backtracking:" + shortFn(g)
				cons := fmt.Sprintf("%s: call of %s", shortFn(g), shortFn(f))
				if bounded >= 0 {
					R.OK("C14.R4", key, cons, c.P.Pos(cl.Pos()), fmt.Sprintf("argument length ≤ %d on every path", bounded))
				} else {
					nBad++
					R.Fail("C14.R4", key, cons, c.P.Pos(cl.Pos()), shortFn(f)+" backtracks (it calls itself inside a loop over its argument without a memo table): with an argument of unbounded length the running time is exponential in the number of space-separated tokens of the CSS value")
				}
			}
		}
	}
	R.Analysed["backtracking_function"] = shortFn(f)
	R.Analysed["backtracking_call_sites"] = map[string]int{"total": n, "unbounded": nBad}
}

func c14Loops(c *Ctx, S map[*ssa.Function]bool) {
	R := c.R
	san, _ := model.FindSan(c.P)
	var fns []*ssa.Function
	for fn := range S {
		fns = append(fns, fn)
	}
	sortFuncs(fns)
	total := 0
	kinds := map[string]int{}
	for _, fn := range fns {
		rl := map[*ssa.BasicBlock]bool{}
		for _, l := range model.RangeLoopsAll(fn) {
			rl[l.Header] = true
		}
		cnt := 0
		for _, b := range fn.Blocks {
			isHd := false
			for _, p := range b.Preds {
				if b.Dominates(p) {
					isHd = true
				}
			}
			if !isHd {
				continue
			}
			total++
			if rl[b] {
				kinds["range"]++
				continue
			}
			cnt++
			key := fmt.Sprintf("%s:loop#%d", shortFn(fn), cnt)
			pos := c.P.Pos(lastPos(b))
			kind, why := classifyLoop(fn, b, san)
			kinds[kind]++
			R.Check(kind != "", "C14.R5", key, shortFn(fn)+": non-range loop", pos, kind, "loop of unrecognised shape: "+why)
		}
	}
	R.Analysed["loops_on_sanitising_paths"] = total
	R.Analysed["loop_kinds"] = kinds
	R.Role("C14.R5", "loops on sanitising paths", total, 20)
}

func classifyLoop(fn *ssa.Function, h *ssa.BasicBlock, san *model.San) (string, string) {
	if san != nil && h == san.Header {
		return "the token loop (ends with the tokenizer's ErrorToken; bounded by the input length)", ""
	}
	loop := model.NaturalLoop(h)
	// find the exit condition: an If in the loop with a successor outside
	for _, b := range sortedBlocks(loop) {
		ifi, ok := b.Instrs[len(b.Instrs)-1].(*ssa.If)
		if !ok {
			continue
		}
		exits := !loop[b.Succs[0]] || !loop[b.Succs[1]]
		if !exits {
			continue
		}
		bo, ok := ifi.Cond.(*ssa.BinOp)
		if !ok {
			continue
		}
		// counted: phi < len(x) / const with phi += positive const
		if ph, ok := bo.X.(*ssa.Phi); ok && ph.Block() == h && (bo.Op == token.LSS || bo.Op == token.LEQ) {
			for _, e := range ph.Edges {
				if x, k, ok := minusConst(e); ok && x == ssa.Value(ph) && k < 0 {
					return "counted loop (i < bound, i += const)", ""
				}
			}
		}
		// counted down: phi >= const / phi > const with phi -= positive const
		if ph, ok := bo.X.(*ssa.Phi); ok && ph.Block() == h && (bo.Op == token.GEQ || bo.Op == token.GTR) {
			if _, isC := bo.Y.(*ssa.Const); isC {
				for _, e := range ph.Edges {
					if x, k, ok := minusConst(e); ok && x == ssa.Value(ph) && k > 0 {
						return "counted loop (i >= bound, i -= const)", ""
					}
				}
			}
		}
		// shrinking: K < len(x) or x != "" / len(x) > 0 with x := x[k:] (k ≥ 1) or x[i+1:] with i ≥ 0
		var x ssa.Value
		switch {
		case lenOf(bo.Y) != nil:
			x = lenOf(bo.Y)
		case lenOf(bo.X) != nil:
			x = lenOf(bo.X)
		default:
			if _, isC := bo.Y.(*ssa.Const); isC {
				x = bo.X
			}
		}
		if ph, ok := x.(*ssa.Phi); ok && ph.Block() == h {
			okAll := true
			for i, e := range ph.Edges {
				if !loop[h.Preds[i]] {
					continue
				}
				if !strictlyShorter(e, ph, 0) {
					okAll = false
				}
			}
			if okAll {
				return "strictly shrinking string/slice loop", ""
			}
		}
	}
	if shortFn(fn) == "removeUnicode" {
		return "listed exception — removeUnicode's rewrite loop: every iteration replaces a match of \\\\[0-9a-f]{1,6} ? (≥ 2 bytes) by the UTF-8 encoding of one BMP rune given by ≤ 4 significant hex digits, which is strictly shorter than the match (1 digit→1 byte, 2→≤2, 3→≤3, 4→≤3), or returns; the string therefore shrinks on every iteration (argued in DESIGN.md, not machine-checked)", ""
	}
	return "", "exit condition is neither a counter against a bound nor a length that strictly decreases"
}

// strictlyShorter: v is derived from ph (or a value equal to it) by slicing off at least one element, or is a constant empty value.
func strictlyShorter(v ssa.Value, ph *ssa.Phi, depth int) bool {
	if depth > 6 {
		return false
	}
	switch x := v.(type) {
	case *ssa.Const:
		return true // "" / nil: the loop ends
	case *ssa.Slice:
		if x.High != nil || x.Low == nil {
			return false
		}
		src := x.X
		if src != ssa.Value(ph) {
			// an alias of the loop variable (key := query)
			if p2, ok := src.(*ssa.Phi); !ok || !aliasOf(p2, ph) {
				return false
			}
		}
		if k, ok := x.Low.(*ssa.Const); ok {
			return k.Int64() >= 1
		}
		if y, k, ok := minusConst(x.Low); ok && k <= -1 {
			// i+1 with i a strings.Index* result used under i >= 0 (G3) or a non-negative counter
			if cl, ok := y.(*ssa.Call); ok && cl.Common().StaticCallee() != nil && strings.HasPrefix(pa.CalleeName(cl.Common().StaticCallee()), "strings.Index") {
				return true
			}
			if p3, ok := y.(*ssa.Phi); ok && nonNegativeCounter(p3) {
				return true
			}
		}
		return false
	case *ssa.Phi:
		if x == ph {
			return false
		}
		for _, e := range x.Edges {
			if !strictlyShorter(e, ph, depth+1) {
				return false
			}
		}
		return true
	}
	return false
}

func aliasOf(p2, ph *ssa.Phi) bool {
	for _, e := range p2.Edges {
		if e != ssa.Value(ph) {
			return false
		}
	}
	return true
}

// lowerBoundedCounter: ph starts from a non-negative constant or from another lower-bounded counter and only grows.
func lowerBoundedCounter(ph *ssa.Phi) bool {
	for _, e := range ph.Edges {
		if k, ok := e.(*ssa.Const); ok {
			if k.Int64() < 0 {
				return false
			}
			continue
		}
		if x, k, ok := minusConst(e); ok && x == ssa.Value(ph) && k < 0 {
			continue
		}
		if p2, ok := e.(*ssa.Phi); ok && p2 != ph {
			// e.g. end := start where start is a counter tested >= 0 on loop entry
			if downCounterNonNegative(p2) {
				continue
			}
		}
		return false
	}
	return true
}

// downCounterNonNegative: p counts down and its loop runs only while p >= 0.
func downCounterNonNegative(p *ssa.Phi) bool {
	for _, r := range *p.Referrers() {
		if bo, ok := r.(*ssa.BinOp); ok && bo.X == ssa.Value(p) && (bo.Op == token.GEQ) {
			if k, ok := bo.Y.(*ssa.Const); ok && k.Int64() == 0 {
				// the comparison must control the loop: its block is the phi's block
				if bo.Block() == p.Block() {
					return true
				}
			}
		}
	}
	return false
}

// c14ErrValues (C14.R6): results that come with an error are used only where the error is known to be nil.
func c14ErrValues(c *Ctx, S map[*ssa.Function]bool) {
	R := c.R
	var fns []*ssa.Function
	for fn := range S {
		fns = append(fns, fn)
	}
	sortFuncs(fns)
	errT := types.Universe.Lookup("error").Type()
	n := 0
	for _, fn := range fns {
		cnt := 0
		for _, b := range fn.Blocks {
			for _, in := range b.Instrs {
				cl, ok := in.(*ssa.Call)
				if !ok {
					continue
				}
				tup, ok := cl.Type().(*types.Tuple)
				if !ok || tup.Len() != 2 || !types.Identical(tup.At(1).Type(), errT) {
					continue
				}
				switch tup.At(0).Type().Underlying().(type) {
				case *types.Pointer, *types.Interface:
				default:
					continue
				}
				var v0, v1 *ssa.Extract
				for _, r := range *cl.Referrers() {
					if ex, ok := r.(*ssa.Extract); ok {
						if ex.Index == 0 {
							v0 = ex
						} else {
							v1 = ex
						}
					}
				}
				if v0 == nil {
					continue
				}
				var uses []ssa.Instruction
				for _, r := range *v0.Referrers() {
					if _, isDbg := r.(*ssa.DebugRef); !isDbg {
						uses = append(uses, r)
					}
				}
				if len(uses) == 0 {
					continue
				}
				n++
				cnt++
				name := "call"
				if cl.Common().StaticCallee() != nil {
					name = pa.CalleeName(cl.Common().StaticCallee())
				}
				key := fmt.Sprintf("%s:%s#%d", shortFn(fn), name, cnt)
				cons := fmt.Sprintf("%s: result of %s", shortFn(fn), name)
				pos := c.P.Pos(cl.Pos())
				// tests of the error
				type test struct {
					ifi  *ssa.If
					fail int
				}
				var tests []test
				if v1 != nil {
					for _, r := range *v1.Referrers() {
						bo, ok := r.(*ssa.BinOp)
						if !ok || (bo.Op != token.NEQ && bo.Op != token.EQL) {
							continue
						}
						other := bo.Y
						if bo.Y == ssa.Value(v1) {
							other = bo.X
						}
						if k, ok := other.(*ssa.Const); !ok || !k.IsNil() {
							continue
						}
						for _, r2 := range *bo.Referrers() {
							if ifi, ok := r2.(*ssa.If); ok {
								f := 0
								if bo.Op == token.EQL {
									f = 1
								}
								tests = append(tests, test{ifi, f})
							}
						}
					}
				}
				if len(tests) == 0 {
					R.Fail("C14.R6", key, cons, pos, "the value is used although the error that comes with it is never tested: when the call fails the value is nil")
					continue
				}
				bad := ""
				useBlk := map[*ssa.BasicBlock]ssa.Instruction{}
				for _, u := range uses {
					useBlk[u.Block()] = u
				}
				for _, t := range tests {
					seen := map[*ssa.BasicBlock]bool{}
					stack := []*ssa.BasicBlock{t.ifi.Block().Succs[t.fail]}
					for len(stack) > 0 && bad == "" {
						x := stack[len(stack)-1]
						stack = stack[:len(stack)-1]
						if seen[x] || x == cl.Block() {
							continue // back at the call: the value is recomputed
						}
						seen[x] = true
						if u, ok := useBlk[x]; ok {
							bad = fmt.Sprintf("the use at %s is reachable from the err != nil edge at %s", c.P.Pos(u.Pos()), c.P.Pos(lastPos(t.ifi.Block())))
						}
						stack = append(stack, x.Succs...)
					}
				}
				R.Check(bad == "", "C14.R6", key, cons, pos, "every use lies beyond a return/continue of the err != nil edge", "the value can be used when the call has failed (nil dereference, or nil handed on): "+bad)
			}
		}
	}
	R.Role("C14.R6", "(value, error) calls whose value is used", n, 2)
}

package rules

import (
	"fmt"
	"strings"

	"golang.org/x/tools/go/ssa"

	"verif/tools/load"
	"verif/tools/model"
	"verif/tools/pa"
)

func init() { register("C15", "other", runC15) }

func runC15(c *Ctx) {
	R := c.R
	R.Rule("C15.R1", "funnel: Sanitize / SanitizeBytes return their parameter itself when strings.TrimSpace / bytes.TrimSpace leaves nothing, and otherwise only sanitizeWithBuff(NewReader(param)).String()/.Bytes(); SanitizeReader returns sanitizeWithBuff(r); SanitizeReaderToWriter returns sanitize(r, w); sanitizeWithBuff calls sanitize(r, &buff) on a fresh buffer — no other transformation of input or output")
	R.Rule("C15.R2", "the caller's input buffer is never written: no write effect in SanitizeBytes (or transitively) targets memory reachable from its []byte parameter, which is handed only to read-only functions (bytes.TrimSpace, bytes.NewReader)")
	R.Rule("C15.R3", "writer adaptation is transparent: sanitize uses the destination's own WriteString when a comma-ok assertion finds one and otherwise wraps the very same writer in asStringWriter, whose WriteString is Write([]byte(s)) with the results forwarded")
	R.Rule("C15.R4", "sanitize does not look at the concrete reader: the reader parameter is only handed to html.NewTokenizer")
	R.Rule("C15.R5", "the command-line tools build the documented policy and write exactly p.Sanitize(string(stdin)) to stdout")
	R.Assume(TrustGo, "independence from how the reader splits the data is the refill logic of html.Tokenizer (outside the repository) and is NOT decided")
	R.Rule("C15.R6", "the rules applied do not depend on iteration order (= C17.R5, cited): where the rules of several matching patterns are merged for one call each update is m[k] = append(m[k], rules...) — an overwrite would make the surviving rule depend on the map iteration order, so two calls (or two entry points) disagree")
	mergesAccumulate(c, "C15.R6")
	c15Funnel(c)
	c15Buffer(c)
	c15Adapter(c)
	c15Cmd(c)
}

func singleReturnValue(fn *ssa.Function) []ssa.Value {
	var out []ssa.Value
	for _, b := range fn.Blocks {
		if r, ok := b.Instrs[len(b.Instrs)-1].(*ssa.Return); ok && len(r.Results) == 1 {
			out = append(out, r.Results[0])
		}
	}
	return out
}

func c15FunnelRule(c *Ctx, rule string) {
	R := c.R
	swb := bufferFunnel(c)
	san := c.P.Func(load.ModPath, "(*Policy).sanitize")
	if swb == nil || san == nil {
		R.Unknown(rule, "funnel", "sanitizeWithBuff / sanitize", "", "not found")
		return
	}
	type ep struct{ name, trim, reader, conv string }
	for _, e := range []ep{{"Sanitize", "strings.TrimSpace", "strings.NewReader", "(*bytes.Buffer).String"}, {"SanitizeBytes", "bytes.TrimSpace", "bytes.NewReader", "(*bytes.Buffer).Bytes"}} {
		fn := c.P.Func(load.ModPath, "(*Policy)."+e.name)
		if fn == nil {
			R.Unknown(rule, e.name, "(*Policy)."+e.name, "", "not found")
			continue
		}
		A := model.NewAnalysis(fn)
		translateAll(A)
		param := fn.Params[1]
		// blank test atom
		blank := -1
		for i, at := range A.Atoms {
			k := at.Key
			if k == "("+e.trim+"("+param.Name()+") == \"\")" || k == "(len("+e.trim+"("+param.Name()+")) == 0)" {
				blank = i
			}
		}
		pos := c.P.Pos(fn.Pos())
		if blank < 0 {
			R.Fail(rule, e.name+":blank-test", "(*Policy)."+e.name+": blank-input test", pos, "no test of "+e.trim+"("+param.Name()+") against empty found: whitespace-only input is not returned unchanged")
			continue
		}
		q, err := A.NewQuery([]int{blank})
		if err != nil {
			continue
		}
		q.Run(fn.Blocks[0], nil)
		n := 0
		for _, b := range fn.Blocks {
			ret, ok := b.Instrs[len(b.Instrs)-1].(*ssa.Return)
			if !ok {
				continue
			}
			// a single exit that returns a merged value is judged per merged value, under the condition of its edge
			for _, lf := range returnLeaves(q, ret) {
				n++
				st := lf.st
				v := lf.v
				key := fmt.Sprintf("%s:return#%d", e.name, n)
				if v == ssa.Value(param) {
					ok1, cex := q.Holds(st, pa.AtomF(blank))
					R.Check(ok1, rule, key, "(*Policy)."+e.name+": return of the parameter itself", c.P.Pos(ret.Pos()), "only for blank input", "the input is returned unsanitised for non-blank input: ["+cex+"]")
					continue
				}
				// conv(sanitizeWithBuff(p, iface(reader(param))))
				okF := false
				why := "returns " + stripIDs(A.Sym.Of(v))
				if cv := isCallTo(v, e.conv); cv != nil {
					if sw, ok := cv.Common().Args[0].(*ssa.Call); ok && sw.Common().StaticCallee() == swb {
						arg := sw.Common().Args[1]
						if mi, ok := arg.(*ssa.MakeInterface); ok {
							arg = mi.X
						}
						if rd := isCallTo(arg, e.reader); rd != nil && rd.Common().Args[0] == ssa.Value(param) && sw.Common().Args[0] == ssa.Value(fn.Params[0]) {
							okF = true
						}
					}
				}
				ok2, cex := q.Holds(st, pa.Not(pa.AtomF(blank)))
				R.Check(okF && ok2, rule, key, "(*Policy)."+e.name+": sanitising return", c.P.Pos(ret.Pos()), e.conv+"(sanitizeWithBuff("+e.reader+"(param))) for non-blank input", "the entry point transforms its input or output beyond the shared funnel ("+why+"; "+cex+")")
			}
		}
		R.Role(rule, "returns of "+e.name, n, 2)
	}
	if fn := c.P.Func(load.ModPath, "(*Policy).SanitizeReader"); fn != nil {
		ok := false
		vals := singleReturnValue(fn)
		if len(vals) == 1 && len(fn.Blocks) == 1 {
			if cl, isC := vals[0].(*ssa.Call); isC && cl.Common().StaticCallee() == swb && cl.Common().Args[1] == ssa.Value(fn.Params[1]) {
				ok = true
			}
		}
		if fn == swb {
			ok = true // SanitizeReader is the funnel itself (judged below)
		}
		R.Check(ok, rule, "SanitizeReader", "(*Policy).SanitizeReader", c.P.Pos(fn.Pos()), "returns sanitizeWithBuff(r)", "does something other than returning sanitizeWithBuff(r)")
	}
	if fn := c.P.Func(load.ModPath, "(*Policy).SanitizeReaderToWriter"); fn != nil {
		ok := false
		vals := singleReturnValue(fn)
		if len(vals) == 1 && len(fn.Blocks) == 1 {
			if cl, isC := vals[0].(*ssa.Call); isC && cl.Common().StaticCallee() == san && cl.Common().Args[1] == ssa.Value(fn.Params[1]) && cl.Common().Args[2] == ssa.Value(fn.Params[2]) {
				ok = true
			}
		}
		R.Check(ok, rule, "SanitizeReaderToWriter", "(*Policy).SanitizeReaderToWriter", c.P.Pos(fn.Pos()), "returns sanitize(r, w)", "does something other than returning sanitize(r, w)")
	}
	// sanitizeWithBuff: sanitize(p, r, &buff) with buff a local bytes.Buffer, nothing else touches buff
	{
		ok, why := false, "call of sanitize(r, &buff) not found"
		for _, b := range swb.Blocks {
			for _, in := range b.Instrs {
				if cl, isC := in.(*ssa.Call); isC && cl.Common().StaticCallee() == san {
					if cl.Common().Args[1] != ssa.Value(swb.Params[1]) {
						why = "sanitize is called on another reader"
						continue
					}
					if mi, isM := cl.Common().Args[2].(*ssa.MakeInterface); isM {
						if al, isA := mi.X.(*ssa.Alloc); isA && strings.HasSuffix(al.Type().String(), "bytes.Buffer") {
							ok = true
							for _, ref := range *al.Referrers() {
								switch ref.(type) {
								case *ssa.MakeInterface, *ssa.Return, *ssa.DebugRef:
								case *ssa.Phi:
									// merged with the empty buffer of the error path on the way to a single return
									for _, r2 := range *ref.(*ssa.Phi).Referrers() {
										if _, isRet := r2.(*ssa.Return); !isRet {
											if _, isDbg := r2.(*ssa.DebugRef); !isDbg {
												ok, why = false, fmt.Sprintf("the buffer is also used by a %T", r2)
											}
										}
									}
								default:
									ok, why = false, fmt.Sprintf("the buffer is also used by a %T", ref)
								}
							}
						}
					}
				}
			}
		}
		R.Check(ok, rule, "sanitizeWithBuff", "(*Policy).sanitizeWithBuff", c.P.Pos(swb.Pos()), "sanitize(r, &buff) on a fresh buffer that nothing else touches", why)
	}
}

func c15Funnel(c *Ctx) {
	c15FunnelRule(c, "C15.R1")
	readerOpaque(c, "C15.R4", "the reader is inspected or consumed other than through the tokenizer")
}

// readerOpaque: the reader parameter of sanitize is only handed to html.NewTokenizer — no wrapper, no look-ahead: what the
// tokenizer sees, in chunks and in errors, is what the caller's reader delivers.
func readerOpaque(c *Ctx, rule, consequence string) {
	R := c.R
	s, err := model.FindSan(c.P)
	if err != nil {
		R.Unknown(rule, "reader-uses", "(*Policy).sanitize", "", err.Error())
		return
	}
	bad := ""
	n := 0
	for _, ref := range *s.Reader.Referrers() {
		if _, isDbg := ref.(*ssa.DebugRef); isDbg {
			continue
		}
		n++
		cl, isC := ref.(*ssa.Call)
		if !isC || !model.CalleeIs(cl.Common(), model.HTMLPkg, "", "NewTokenizer") {
			bad = fmt.Sprintf("%T at %s", ref, c.P.Pos(ref.Pos()))
		}
	}
	R.Check(bad == "" && n == 1, rule, "reader-uses", "(*Policy).sanitize: uses of the reader parameter", c.P.Pos(s.Fn.Pos()), "only html.NewTokenizer(r)", consequence+": "+bad)
}

func c15Buffer(c *Ctx) {
	R := c.R
	fn := c.P.Func(load.ModPath, "(*Policy).SanitizeBytes")
	if fn == nil {
		return
	}
	E, _ := newEffects(c)
	bit := uint32(1) << 1 // parameter index 1 = b
	n := 0
	for _, e := range E.FnEff[fn] {
		n++
		tgt := e.Target
		if e.Kind == "call" {
			tgt = e.ArgTarget
		}
		key := fmt.Sprintf("SanitizeBytes:%s:%s", e.Kind, effectKey(e))
		R.Check(tgt.Params&bit == 0, "C15.R2", key, "(*Policy).SanitizeBytes: "+e.What, c.P.Pos(e.Instr.Pos()), "does not write through the input buffer", "may write into the caller's []byte")
	}
	// all uses of b
	bad := ""
	uses := 0
	for _, ref := range *fn.Params[1].Referrers() {
		switch x := ref.(type) {
		case *ssa.DebugRef:
		case *ssa.Return:
			uses++
		case *ssa.Call:
			uses++
			cal := x.Common().StaticCallee()
			if ok, _ := readOnlyExt(cal); !ok {
				bad = "passed to " + calleeStr(x)
			}
		case *ssa.Phi:
			// merged with the sanitised result on the way to a single return
			uses++
			for _, r2 := range *x.Referrers() {
				switch r2.(type) {
				case *ssa.Return, *ssa.DebugRef:
				default:
					bad = fmt.Sprintf("merged into a value used by %T", r2)
				}
			}
		default:
			uses++
			bad = fmt.Sprintf("used by %T", ref)
		}
	}
	R.Check(bad == "", "C15.R2", "SanitizeBytes:uses", fmt.Sprintf("(*Policy).SanitizeBytes: %d uses of the input buffer", uses), c.P.Pos(fn.Pos()), "returned as is or handed to read-only functions", "the input buffer is "+bad)
	_ = n
}

func c15Adapter(c *Ctx) {
	R := c.R
	s, err := model.FindSan(c.P)
	if err != nil {
		return
	}
	// the value written to: phi[ assert-ok value , MakeInterface(alloc wrapper{w}) ]
	var recv ssa.Value
	for _, w := range s.Writes {
		if w.Call.Common().IsInvoke() {
			v := w.Call.Common().Value
			// a helper that takes the destination as another interface type (io.StringWriter) sees a conversion of it
			for {
				ci, isCI := v.(*ssa.ChangeInterface)
				if !isCI {
					break
				}
				v = ci.X
			}
			if _, isPhi := recv.(*ssa.Phi); !isPhi || recv == nil {
				recv = v
			}
		}
	}
	ph, ok := recv.(*ssa.Phi)
	okA, why := false, "destination value is not a choice between the asserted writer and the adapter"
	if ok && len(ph.Edges) == 2 {
		var sawAssert, sawWrap bool
		for _, e := range ph.Edges {
			if ex, isE := e.(*ssa.Extract); isE {
				if ta, isT := ex.Tuple.(*ssa.TypeAssert); isT && ta.CommaOk && ta.X == ssa.Value(s.Writer) && ex.Index == 0 {
					sawAssert = true
				}
			}
			if mi, isM := e.(*ssa.MakeInterface); isM {
				if al, isA := mi.X.(*ssa.Alloc); isA {
					// whichever field of the adapter holds the wrapped writer (embedded or named)
					for _, r := range *al.Referrers() {
						if fa, isFA := r.(*ssa.FieldAddr); isFA {
							for _, r2 := range *fa.Referrers() {
								if st, isSt := r2.(*ssa.Store); isSt && st.Addr == ssa.Value(fa) && st.Val == ssa.Value(s.Writer) {
									sawWrap = true
								}
							}
						}
					}
				}
			}
		}
		okA = sawAssert && sawWrap
		if !okA {
			why = fmt.Sprintf("asserted writer used: %v, same writer wrapped: %v", sawAssert, sawWrap)
		}
		// and the right way round: the adapter is chosen where the assertion failed, the asserted value where it held
		if okA {
			for i, e := range ph.Edges {
				pred := ph.Block().Preds[i]
				_, isWrap := e.(*ssa.MakeInterface)
				found := false
				for d := pred; d != nil && !found; d = d.Idom() {
					iff, isIf := d.Instrs[len(d.Instrs)-1].(*ssa.If)
					if !isIf || len(d.Succs) != 2 {
						continue
					}
					ex, isE := iff.Cond.(*ssa.Extract)
					if !isE || ex.Index != 1 {
						continue
					}
					if ta, isT := ex.Tuple.(*ssa.TypeAssert); !isT || ta.X != ssa.Value(s.Writer) {
						continue
					}
					found = true
					// which side of the test does this edge come from?
					side := -1
					for k, sb := range d.Succs {
						if sb == ph.Block() && d == pred {
							side = k
						} else if sb == pred || (sb.Dominates(pred) && len(sb.Preds) == 1) {
							side = k
						}
					}
					if isWrap && side != 1 || !isWrap && side != 0 {
						okA = false
						why = "the adapter is chosen where the destination HAS a WriteString method and nothing where it has none (the comma-ok test is the wrong way round): a plain io.Writer leaves the destination nil"
					}
				}
				if !found {
					okA = false
					why = "the choice between the asserted writer and the adapter does not depend on the comma-ok result of the assertion"
				}
			}
		}
	}
	R.Check(okA, "C15.R3", "writer-selection", "(*Policy).sanitize: destination selection", c.P.Pos(s.Fn.Pos()), "w.(stringWriterWriter) when available, else asStringWriter{w}", why)
	ad := adapterWriteString(c)
	if ad != nil {
		ok2, why2 := forwardsWrite(ad)
		R.Check(ok2, "C15.R3", "adapter", "(*asStringWriter).WriteString", c.P.Pos(ad.Pos()), "Write([]byte(s)) with results forwarded", why2)
	}
}

type retLeaf struct {
	v  ssa.Value
	st []uint64
}

// returnLeaves: the values a return can yield, each with the dataflow state under which it is the one returned — the
// operand itself, or, when it is a φ (a single exit returning a variable), each φ operand with the state on its edge.
func returnLeaves(q *pa.Query, ret *ssa.Return) []retLeaf {
	v := ret.Results[0]
	phi, ok := v.(*ssa.Phi)
	if !ok {
		return []retLeaf{{v, q.StateAt(ret)}}
	}
	var out []retLeaf
	for i, e := range phi.Edges {
		p := phi.Block().Preds[i]
		var st []uint64
		for k, s := range p.Succs {
			if s == phi.Block() {
				st = q.EdgeState(p, k)
			}
		}
		out = append(out, retLeaf{e, st})
	}
	return out
}

package rules

import (
	"fmt"
	"go/token"
	"go/types"
	"sort"
	"strings"

	"golang.org/x/tools/go/ssa"

	"verif/tools/model"
	"verif/tools/pa"
)

// sharedEntryRule: no two keys of a rule table share one mutable entry.  Every map that is stored as the entry of a
// Policy table (p.T[k] = m, T's element type a map) is created by a make / literal that (a) is stored by exactly
// that one update and (b) lies inside every loop that contains the update — so each key gets a map of its own.
// A map built once and stored under several keys (in a loop over element names, or by two updates) makes a later
// rule for one key apply to the others as well.  `want` selects the tables by the type of their entries.
func sharedEntryRule(c *Ctx, rule string, want func(tableType string) bool, what string) {
	R := c.R
	n := 0
	for _, fn := range moduleFuncs(c.P) {
		if fn.Pkg == nil || fn.Pkg.Pkg.Path() != "github.com/microcosm-cc/bluemonday" {
			continue
		}
		var loops []map[*ssa.BasicBlock]bool
		for _, b := range fn.Blocks {
			for _, p := range b.Preds {
				if b.Dominates(p) {
					loops = append(loops, model.NaturalLoop(b))
					break
				}
			}
		}
		perField := map[string]int{}
		for _, b := range fn.Blocks {
			for _, in := range b.Instrs {
				mu, ok := in.(*ssa.MapUpdate)
				if !ok {
					continue
				}
				field := model.LoadedPolicyField(mu.Map)
				if field == "" {
					continue
				}
				if _, isMap := mu.Value.Type().Underlying().(*types.Map); !isMap {
					continue
				}
				if !want(mu.Map.Type().String()) {
					continue
				}
				n++
				perField[field]++
				key := fmt.Sprintf("%s:%s#%d", pa.CalleeName(fn), field, perField[field])
				cons := fmt.Sprintf("%s: entry of %s stored", pa.CalleeName(fn), field)
				pos := c.P.Pos(mu.Pos())
				mk, isMake := mu.Value.(*ssa.MakeMap)
				if !isMake {
					R.Fail(rule, key, cons, pos, "the map stored as this table entry is not created here ("+stripIDs(fmt.Sprintf("%T", mu.Value))+"): it may be the entry of another key as well, so "+what)
					continue
				}
				stores := 0
				escapes := ""
				seenV := map[ssa.Value]bool{}
				var visit func(v ssa.Value)
				visit = func(v ssa.Value) {
					if seenV[v] || v.Referrers() == nil {
						return
					}
					seenV[v] = true
					for _, r := range *v.Referrers() {
						switch x := r.(type) {
						case *ssa.MapUpdate:
							if x.Value == v {
								stores++
							}
						case *ssa.Store:
							if x.Val == v {
								escapes = "stored to memory at " + c.P.Pos(x.Pos())
							}
						case *ssa.Phi:
							visit(x) // `m, ok := T[k]; if !ok { m = make(..); T[k] = m }`: the merge is only read
						}
					}
				}
				visit(mk)
				bad := ""
				switch {
				case stores != 1:
					bad = fmt.Sprintf("the same map is stored by %d updates", stores)
				case escapes != "":
					bad = "the map is also " + escapes
				default:
					for _, l := range loops {
						if l[mu.Block()] && !l[mk.Block()] {
							bad = "the map is created outside a loop that stores it on every iteration (one map for all keys)"
						}
					}
				}
				R.Check(bad == "", rule, key, cons, pos, "a map created for this key alone", bad+": "+what)
			}
		}
	}
	R.Role(rule, "table entries that are maps", n, 1)
}

func styleTables(t string) bool { return strings.Contains(t, "stylePolicy") }
func attrTables(t string) bool  { return strings.Contains(t, "attrPolicy") }
func anyTable(string) bool      { return true }

// freshRulePerIteration: in the style builders, a stylePolicy value that is modified inside a loop is created in that
// same loop — otherwise what the iteration for one property stores (the default handler of that property) stays in the
// value appended for the next property.
func freshRulePerIteration(c *Ctx, rule string) {
	R := c.R
	n := 0
	for _, name := range []string{"(*stylePolicyBuilder).OnElements", "(*stylePolicyBuilder).OnElementsMatching", "(*stylePolicyBuilder).Globally"} {
		fn := c.P.Func("github.com/microcosm-cc/bluemonday", name)
		if fn == nil {
			R.Unknown(rule, "fresh:"+name, name, "", "builder not found")
			continue
		}
		var loops []map[*ssa.BasicBlock]bool
		for _, b := range fn.Blocks {
			for _, p := range b.Preds {
				if b.Dominates(p) {
					loops = append(loops, model.NaturalLoop(b))
					break
				}
			}
		}
		for _, b := range fn.Blocks {
			for _, in := range b.Instrs {
				al, ok := in.(*ssa.Alloc)
				if !ok || !strings.HasSuffix(al.Type().String(), ".stylePolicy") || strings.Contains(al.Type().String(), "[") {
					continue
				}
				n++
				bad := ""
				for _, r := range *al.Referrers() {
					fa, ok := r.(*ssa.FieldAddr)
					if !ok {
						continue
					}
					for _, r2 := range *fa.Referrers() {
						st, ok := r2.(*ssa.Store)
						if !ok || st.Addr != ssa.Value(fa) {
							continue
						}
						for _, l := range loops {
							if l[st.Block()] && !l[al.Block()] {
								bad = "field " + pa.FieldName(fa) + " is stored at " + c.P.Pos(st.Pos()) + " inside a loop, but the rule value is created outside it"
							}
						}
					}
				}
				R.Check(bad == "", rule, "fresh:"+name, name+": the style rule value being built", c.P.Pos(al.Pos()), "created in the loop that fills it (or filled before the loop)", "a rule value that lives across iterations is modified inside the loop: "+bad+" — the matcher chosen for one property (its default handler) is kept for the following properties, whose conforming values are then judged by the wrong handler")
			}
		}
	}
	R.Role(rule, "style rule values built by the style builders", n, 1)
}

// tokenNameFixed: in (*Policy).sanitize the current token's Data (and Type) are never stored to after the token was
// read — the name the gates and the element tables judge is the name Token.String() writes.
func tokenNameFixed(c *Ctx, rule, consequence string) {
	R := c.R
	s, err := model.FindSan(c.P)
	if err != nil {
		R.Unknown(rule, "token-name", "(*Policy).sanitize", "", err.Error())
		return
	}
	n := 0
	for _, b := range s.Fn.Blocks {
		for _, in := range b.Instrs {
			st, ok := in.(*ssa.Store)
			if !ok {
				continue
			}
			root := st.Addr
			for {
				if fa, ok := root.(*ssa.FieldAddr); ok {
					root = fa.X
					continue
				}
				break
			}
			if root != ssa.Value(s.TokAlloc) {
				continue
			}
			n++
			fa, isField := st.Addr.(*ssa.FieldAddr)
			if !isField {
				continue // token := tokenizer.Token()
			}
			f := pa.FieldName(fa)
			R.Check(f != "Data" && f != "Type", rule, "token-name:"+f+":"+s.ArmOf(b), "(*Policy).sanitize arm "+s.ArmOf(b)+": store to token."+f, c.P.Pos(st.Pos()), "the token's name and type stay as read", "the token's "+f+" is rewritten after it was read: "+consequence)
		}
	}
	R.Role(rule, "stores to the current token", n, 1)
}

// optionsSurviveInit: a Policy that already exists is only ever updated field by field.  A store of a whole Policy value
// through a pointer that was not allocated in the storing function (`*p = Policy{…}` on the receiver — a "tidier" lazy
// init) resets every option the literal does not name: options set before the first rule (on a zero-value Policy{}) are
// silently lost.
func optionsSurviveInit(c *Ctx, rule, consequence string) {
	R := c.R
	n, nBad := 0, 0
	for _, fn := range moduleFuncs(c.P) {
		if fn.Pkg == nil || fn.Pkg.Pkg.Path() != "github.com/microcosm-cc/bluemonday" {
			continue
		}
		cnt := 0
		for _, b := range fn.Blocks {
			for _, in := range b.Instrs {
				st, ok := in.(*ssa.Store)
				if !ok || !isPolicyPtr(st.Addr.Type()) {
					continue
				}
				n++
				if _, fresh := st.Addr.(*ssa.Alloc); fresh {
					continue // a policy being created here
				}
				cnt++
				nBad++
				R.Fail(rule, fmt.Sprintf("whole-store:%s#%d", pa.CalleeName(fn), cnt), pa.CalleeName(fn)+": store of a whole Policy value through "+stripIDs(st.Addr.Name()), c.P.Pos(st.Pos()), "an existing policy is overwritten as a whole: every option and rule the stored value does not carry is reset — "+consequence)
			}
		}
	}
	if nBad == 0 {
		R.OK(rule, "whole-store:none", fmt.Sprintf("module functions: %d stores of whole Policy values, all into policies allocated by the storing function", n), "", "existing policies are only updated field by field")
	}
}

// noInternalPatternRegistration (C01.R9): the functions that store into the element-pattern tables are the exported
// pattern builders, and nothing in the module calls them — every element pattern of a policy was handed in by the
// caller.  A library-side registration (a convenience that maps "globally" onto a match-all element pattern) would admit
// elements the user never allowed.
func noInternalPatternRegistration(c *Ctx, rule string) {
	R := c.R
	F := model.FindFields(c.P)
	field := F.Get("elsMatchingAndAttrs")
	if field == "" {
		R.Unknown(rule, "field", "Policy element-pattern table", "", "role not resolvable")
		return
	}
	writers := map[*ssa.Function]bool{}
	for _, fn := range moduleFuncs(c.P) {
		for _, b := range fn.Blocks {
			for _, in := range b.Instrs {
				if mu, ok := in.(*ssa.MapUpdate); ok && model.LoadedPolicyField(mu.Map) == field {
					writers[fn] = true
				}
			}
		}
	}
	n := 0
	for _, fn := range moduleFuncs(c.P) {
		cnt := 0
		for _, b := range fn.Blocks {
			for _, in := range b.Instrs {
				ci, ok := in.(ssa.CallInstruction)
				if !ok {
					continue
				}
				cal := ci.Common().StaticCallee()
				if cal == nil || !writers[cal] {
					continue
				}
				cnt++
				n++
				R.Fail(rule, fmt.Sprintf("internal-call:%s->%s#%d", pa.CalleeName(fn), pa.CalleeName(cal), cnt), pa.CalleeName(fn)+": call of "+pa.CalleeName(cal), c.P.Pos(in.Pos()), "the library itself registers an element pattern: elements matching it are admitted although the user's policy never allowed them")
			}
		}
	}
	var ws []string
	for w := range writers {
		ws = append(ws, pa.CalleeName(w))
	}
	sort.Strings(ws)
	R.Role(rule, "functions storing into the element-pattern table", len(writers), 1)
	if n == 0 {
		R.OK(rule, "internal-call:none", "writers of the element-pattern table: "+strings.Join(ws, ", "), "", "none of them is called from within the module")
	}
}

// namesAsDelivered (C07.R9): in (*Policy).sanitize every lookup in a policy table keyed by element name, and every
// element-name argument handed to the module's own functions, is token.Data itself — the tokenizer's lower-cased name,
// which is what the builders store (strings.ToLower).  A transformed name (escaped, re-quoted, trimmed) no longer matches
// the rule registered for an element whose name the transformation changes.
func namesAsDelivered(c *Ctx, rule string) {
	R := c.R
	s, err := model.FindSan(c.P)
	if err != nil {
		R.Unknown(rule, "sanitize", "(*Policy).sanitize", "", err.Error())
		return
	}
	n := 0
	cnt := map[string]int{}
	for _, b := range s.Fn.Blocks {
		arm := s.ArmOf(b)
		if arm != "StartTag" && arm != "EndTag" && arm != "SelfClosingTag" {
			continue
		}
		for _, in := range b.Instrs {
			switch x := in.(type) {
			case *ssa.Lookup:
				f := model.LoadedPolicyField(x.X)
				if f == "" {
					continue
				}
				if bt, ok := x.Index.Type().Underlying().(*types.Basic); !ok || bt.Info()&types.IsString == 0 {
					continue
				}
				n++
				cnt[f+arm]++
				R.Check(s.TokenField(x.Index) == "Data", rule, fmt.Sprintf("lookup:%s:%s#%d", arm, f, cnt[f+arm]), "(*Policy).sanitize arm "+arm+": lookup in "+f, c.P.Pos(x.Pos()), "keyed by token.Data", "the table is consulted with "+stripIDs(s.A.Sym.Of(x.Index))+" instead of the name the tokenizer delivered: an element whose name that transformation changes no longer finds its own rule")
			case *ssa.Call:
				cal := x.Common().StaticCallee()
				if cal == nil || cal.Pkg == nil || cal.Pkg.Pkg.Path() != "github.com/microcosm-cc/bluemonday" || cal.Signature.Recv() == nil || !isPolicyPtr(cal.Signature.Recv().Type()) {
					continue
				}
				if len(x.Common().Args) < 2 {
					continue
				}
				a := x.Common().Args[1]
				if bt, ok := a.Type().Underlying().(*types.Basic); !ok || bt.Info()&types.IsString == 0 {
					continue
				}
				n++
				cnt[cal.Name()+arm]++
				R.Check(s.TokenField(a) == "Data", rule, fmt.Sprintf("call:%s:%s#%d", arm, cal.Name(), cnt[cal.Name()+arm]), "(*Policy).sanitize arm "+arm+": "+pa.CalleeName(cal)+"(name, …)", c.P.Pos(x.Pos()), "called with token.Data", "called with "+stripIDs(s.A.Sym.Of(a))+" instead of the name the tokenizer delivered")
			}
		}
	}
	R.Role(rule, "element-name lookups and calls in the tag arms", n, 6)
}

// matchedIsSticky: in matchRegex the boolean result, once true, stays true for the rest of the scan (it is only ever
// assigned the constant true inside the loop) — otherwise the verdict depends on which pattern the map iteration visits
// last, and the arms that use matchRegex disagree with the end-tag arm's own scan.
func matchedIsSticky(c *Ctx, rule string) {
	R := c.R
	fn := c.P.Func("github.com/microcosm-cc/bluemonday", "(*Policy).matchRegex")
	if fn == nil {
		R.Unknown(rule, "matchRegex", "(*Policy).matchRegex", "", "function not found")
		return
	}
	n := 0
	for _, l := range model.RangeLoopsAll(fn) {
		if !l.IsMap {
			continue
		}
		for _, in := range l.Header.Instrs {
			ph, ok := in.(*ssa.Phi)
			if !ok || ph.Type().String() != "bool" {
				continue
			}
			n++
			bad := ""
			for i, pred := range l.Header.Preds {
				if !l.Blocks[pred] {
					continue
				}
				var chk func(v ssa.Value, d int) bool
				chk = func(v ssa.Value, d int) bool {
					if v == ssa.Value(ph) || model.IsTrue(v) {
						return true
					}
					if p2, ok := v.(*ssa.Phi); ok && d < 4 && l.Blocks[p2.Block()] {
						for _, e := range p2.Edges {
							if !chk(e, d+1) {
								return false
							}
						}
						return true
					}
					return false
				}
				if !chk(ph.Edges[i], 0) {
					bad = "on the back edge from block " + pred.String() + " the flag receives " + stripIDs(ph.Edges[i].Name()) + " (a value of the current iteration)"
				}
			}
			R.Check(bad == "", rule, fmt.Sprintf("matchRegex:flag#%d", n), "(*Policy).matchRegex: boolean carried around the pattern scan", c.P.Pos(ph.Pos()), "only ever set to true inside the scan", "the match flag is not sticky: "+bad+" — an element admitted by one pattern is reported as not admitted when a non-matching pattern is visited later (map order), so its start tag and end tag can be judged differently")
		}
	}
	// the flag may also be "the merged map exists" (the result map is made on the first match and the function returns
	// merged != nil): sticky then means that the map variable, once made, is never set back to nil inside the scan
	for _, l := range model.RangeLoopsAll(fn) {
		if !l.IsMap {
			continue
		}
		for _, in := range l.Header.Instrs {
			ph, ok := in.(*ssa.Phi)
			if !ok {
				continue
			}
			if _, isMap := ph.Type().Underlying().(*types.Map); !isMap {
				continue
			}
			isFlag := false
			for _, b := range fn.Blocks {
				r, ok := b.Instrs[len(b.Instrs)-1].(*ssa.Return)
				if !ok {
					continue
				}
				for _, res := range r.Results {
					bo, ok := res.(*ssa.BinOp)
					if !ok || bo.Op != token.NEQ || !model.IsNil(bo.Y) {
						continue
					}
					if bo.X == ssa.Value(ph) {
						isFlag = true
					}
					if p2, ok := bo.X.(*ssa.Phi); ok {
						for _, e := range p2.Edges {
							if e == ssa.Value(ph) {
								isFlag = true
							}
						}
					}
				}
			}
			if !isFlag {
				continue
			}
			n++
			bad := ""
			for i, pred := range l.Header.Preds {
				if !l.Blocks[pred] {
					continue
				}
				var chk func(v ssa.Value, d int) bool
				chk = func(v ssa.Value, d int) bool {
					if v == ssa.Value(ph) {
						return true
					}
					if _, isMake := v.(*ssa.MakeMap); isMake {
						return true
					}
					if p2, ok := v.(*ssa.Phi); ok && d < 4 && l.Blocks[p2.Block()] {
						for _, e := range p2.Edges {
							if !chk(e, d+1) {
								return false
							}
						}
						return true
					}
					return false
				}
				if !chk(ph.Edges[i], 0) {
					bad = "on the back edge from block " + pred.String() + " the map whose existence is the verdict receives " + stripIDs(ph.Edges[i].Name())
				}
			}
			R.Check(bad == "", rule, fmt.Sprintf("matchRegex:flag#%d", n), "(*Policy).matchRegex: result map carried around the pattern scan, returned together with (map != nil)", c.P.Pos(ph.Pos()), "once made, never reset inside the scan", "the match verdict is not sticky: "+bad+" — an element admitted by one pattern is reported as not admitted when a non-matching pattern is visited later (map order)")
		}
	}
	R.Role(rule, "flags carried around matchRegex's pattern scan", n, 1)
}

// tableWritesOf: the map- or slice-typed Policy fields that fn updates (map updates through a loaded field, stores of
// a new map/slice value into the field), directly or through the module functions it calls (init excluded: it creates
// every table of a policy that has none yet).
func tableWritesOf(c *Ctx, fn *ssa.Function) map[string]string {
	out := map[string]string{}
	seen := map[*ssa.Function]bool{}
	var visit func(f *ssa.Function, via string, d int)
	visit = func(f *ssa.Function, via string, d int) {
		if f == nil || seen[f] || d > 4 || len(f.Blocks) == 0 {
			return
		}
		seen[f] = true
		for _, b := range f.Blocks {
			for _, in := range b.Instrs {
				switch x := in.(type) {
				case *ssa.MapUpdate:
					if fld := model.LoadedPolicyField(x.Map); fld != "" {
						out[fld] = via + c.P.Pos(x.Pos())
					}
				case *ssa.Store:
					if fld := model.PolicyField(x.Addr); fld != "" {
						switch x.Val.Type().Underlying().(type) {
						case *types.Map, *types.Slice:
							out[fld] = via + c.P.Pos(x.Pos())
						}
					}
				case ssa.CallInstruction:
					cal := x.Common().StaticCallee()
					if cal == nil || cal.Pkg == nil || cal.Pkg.Pkg.Path() != "github.com/microcosm-cc/bluemonday" {
						continue
					}
					if cal.Name() == "init" && cal.Signature.Recv() != nil {
						continue
					}
					visit(cal, via+pa.CalleeName(cal)+" → ", d+1)
				}
			}
		}
	}
	visit(fn, "", 0)
	return out
}

// patternBuildersStayInLane: a builder that registers a pattern (AllowURLSchemesMatching, AllowElementsMatching, the
// OnElementsMatching methods) updates the pattern tables only.  The sanitiser consults exact-name entries before
// patterns, and an exact-name entry carries more than a pattern can express (a custom URL check, per-element rules):
// a pattern builder that also edits an exact-name table changes — or wipes — what was registered under the name.
func patternBuildersStayInLane(c *Ctx, rule, consequence string) {
	R := c.R
	F := model.FindFields(c.P)
	lanes := []struct {
		fn    string
		roles []string
	}{
		{"(*Policy).AllowURLSchemesMatching", []string{"allowURLSchemeRegexps"}},
		{"(*Policy).AllowElementsMatching", []string{"elsMatchingAndAttrs"}},
		{"(*attrPolicyBuilder).OnElementsMatching", []string{"elsMatchingAndAttrs", "bareRegexps"}},
		{"(*stylePolicyBuilder).OnElementsMatching", []string{"elsMatchingAndStyles"}},
	}
	n := 0
	for _, l := range lanes {
		fn := c.P.Func("github.com/microcosm-cc/bluemonday", l.fn)
		if fn == nil {
			R.Unknown(rule, "lane:"+l.fn, l.fn, "", "builder not found")
			continue
		}
		allowed := map[string]bool{}
		for _, r := range l.roles {
			if f := F.Get(r); f != "" {
				allowed[f] = true
			}
		}
		var bad []string
		ws := tableWritesOf(c, fn)
		for f, where := range ws {
			if !allowed[f] {
				bad = append(bad, f+" (at "+where+")")
			}
		}
		sort.Strings(bad)
		n++
		R.Check(len(bad) == 0, rule, "lane:"+l.fn, l.fn+": tables updated", c.P.Pos(fn.Pos()), fmt.Sprintf("only its pattern table(s) among %d table updates", len(ws)), "a pattern builder also updates "+strings.Join(bad, ", ")+": "+consequence)
	}
	R.Role(rule, "pattern builders examined", n, 4)
}

// defaultHandlerLastResort: in the style builders the default handler of the property (css.GetDefaultHandler) is stored
// into a rule only when the user supplied no matcher at all — handler nil, enum empty and regexp nil.  sanitizeStyles
// consults a rule's handler first: a default handler stored next to the user's enum or regexp overrides it.
func defaultHandlerLastResort(c *Ctx, rule string) {
	R := c.R
	gdh := c.P.Func("github.com/microcosm-cc/bluemonday/css", "GetDefaultHandler")
	n := 0
	for _, name := range []string{"(*stylePolicyBuilder).OnElements", "(*stylePolicyBuilder).OnElementsMatching", "(*stylePolicyBuilder).Globally"} {
		fn := c.P.Func("github.com/microcosm-cc/bluemonday", name)
		if fn == nil || gdh == nil {
			R.Unknown(rule, "default-last:"+name, name, "", "builder or css.GetDefaultHandler not found")
			continue
		}
		A := model.NewAnalysis(fn)
		translateAll(A)
		recv := ssa.Value(fn.Params[0])
		fieldOfRecv := func(v ssa.Value) string {
			u, ok := v.(*ssa.UnOp)
			if !ok {
				return ""
			}
			fa, ok := u.X.(*ssa.FieldAddr)
			if !ok {
				return ""
			}
			// the builder's own field, or the same-named field of the rule value being filled (testing the rule for
			// "no matcher yet" is as good)
			if fa.X != recv && !strings.HasSuffix(fa.X.Type().String(), ".stylePolicy") {
				return ""
			}
			return pa.FieldName(fa)
		}
		var hNil, rNil, eEmpty []int
		for i, at := range A.Atoms {
			switch at.Kind {
			case "eq":
				if k, ok := at.Y.(*ssa.Const); ok && k.IsNil() {
					switch fieldOfRecv(at.X) {
					case "handler":
						hNil = append(hNil, i)
					case "regexp":
						rNil = append(rNil, i)
					}
				}
			case "len0":
				if fieldOfRecv(at.X) == "enum" {
					eEmpty = append(eEmpty, i)
				}
			}
		}
		var stores []*ssa.Store
		for _, b := range fn.Blocks {
			for _, in := range b.Instrs {
				st, ok := in.(*ssa.Store)
				if !ok {
					continue
				}
				fa, ok := st.Addr.(*ssa.FieldAddr)
				if !ok || pa.FieldName(fa) != "handler" || !strings.HasSuffix(fa.X.Type().String(), ".stylePolicy") {
					continue
				}
				if cl, ok := st.Val.(*ssa.Call); ok && cl.Common().StaticCallee() == gdh {
					stores = append(stores, st)
				}
			}
		}
		if len(stores) == 0 {
			continue
		}
		if len(hNil) == 0 || len(rNil) == 0 || len(eEmpty) == 0 {
			R.Fail(rule, "default-last:"+name, name+": store of the property's default handler", c.P.Pos(stores[0].Pos()), fmt.Sprintf("the default handler is stored without all three of the user's matchers having been tested (handler==nil tested: %v, enum empty tested: %v, regexp==nil tested: %v): it can end up next to a matcher the user supplied and override it", len(hNil) > 0, len(eEmpty) > 0, len(rNil) > 0))
			n++
			continue
		}
		track := append(append(append([]int{}, hNil...), rNil...), eEmpty...)
		q, err := A.NewQuery(track)
		if err != nil {
			R.Unknown(rule, "default-last:"+name, name, "", err.Error())
			continue
		}
		q.Run(fn.Blocks[0], nil)
		for i, st := range stores {
			n++
			s := q.StateAt(st)
			if s == nil {
				continue
			}
			ok, cex := q.Holds(s, pa.And(orAtoms(hNil), orAtoms(rNil), orAtoms(eEmpty)))
			R.Check(ok, rule, fmt.Sprintf("default-last:%s#%d", name, i+1), name+": store of the property's default handler", c.P.Pos(st.Pos()), "only when handler, enum and regexp were all left unset", "the default handler can be stored although the user supplied a matcher (an enum or a regexp): sanitizeStyles consults the handler first, so the user's matcher is ignored — values it rejects are kept and values it accepts can be dropped: ["+cex+"]")
		}
	}
	R.Role(rule, "stores of the default handler in the style builders", n, 1)
}

// allowIFramesRequiresSandbox (C12.R7): the helper bundle AllowIFrames(vals...) installs the sandbox requirement on
// every path: each return is dominated by a call of RequireSandboxOnIFrame that is handed the helper's own vals.
func allowIFramesRequiresSandbox(c *Ctx, rule string) {
	R := c.R
	fn := c.P.Func("github.com/microcosm-cc/bluemonday", "(*Policy).AllowIFrames")
	req := c.P.Func("github.com/microcosm-cc/bluemonday", "(*Policy).RequireSandboxOnIFrame")
	if fn == nil || req == nil {
		R.Unknown(rule, "AllowIFrames", "(*Policy).AllowIFrames", "", "AllowIFrames or RequireSandboxOnIFrame not found")
		return
	}
	var calls []*ssa.Call
	for _, b := range fn.Blocks {
		for _, in := range b.Instrs {
			if cl, ok := in.(*ssa.Call); ok && cl.Common().StaticCallee() == req {
				args := cl.Common().Args
				if len(args) == 2 && chainedFrom(args[0], fn.Params[0], 0) && args[1] == ssa.Value(fn.Params[1]) {
					calls = append(calls, cl)
				}
			}
		}
	}
	n := 0
	for _, b := range fn.Blocks {
		ret, ok := b.Instrs[len(b.Instrs)-1].(*ssa.Return)
		if !ok {
			continue
		}
		n++
		okR := false
		for _, cl := range calls {
			if cl.Block().Dominates(b) {
				okR = true
			}
		}
		R.Check(okR, rule, fmt.Sprintf("AllowIFrames:return#%d", n), "(*Policy).AllowIFrames: return", c.P.Pos(ret.Pos()), "after RequireSandboxOnIFrame(vals...)", "AllowIFrames can return without having installed the sandbox requirement with its own values: iframes then keep whatever sandbox tokens the input carries (or none)")
	}
	R.Role(rule, "returns of AllowIFrames", n, 1)
}

// buildersReadOnlyTheirOwnTables (C17.R9): an exported builder consults no rule table other than the ones it updates
// itself.  What a builder call adds must not depend on what other tables hold at that moment (a "this rule would be
// redundant" shortcut that looks at the global rules, a guard keyed on another table): otherwise the policy depends on
// the order of the calls and not on the set of rules.
func buildersReadOnlyTheirOwnTables(c *Ctx, rule string, only ...string) {
	R := c.R
	onlySet := map[string]bool{}
	for _, o := range only {
		onlySet[o] = true
	}
	isTable := func(fa *ssa.FieldAddr) bool {
		pt, ok := fa.Type().Underlying().(*types.Pointer)
		if !ok {
			return false
		}
		switch pt.Elem().Underlying().(type) {
		case *types.Map, *types.Slice:
			return true
		}
		return false
	}
	n := 0
	for _, fn := range moduleFuncs(c.P) {
		if fn.Pkg == nil || fn.Pkg.Pkg.Path() != "github.com/microcosm-cc/bluemonday" || fn.Signature.Recv() == nil || fn.Object() == nil || !fn.Object().Exported() {
			continue
		}
		rt := fn.Signature.Recv().Type().String()
		if !strings.HasSuffix(rt, ".Policy") && !strings.HasSuffix(rt, "PolicyBuilder") {
			continue
		}
		if strings.HasPrefix(fn.Name(), "Sanitize") {
			continue
		}
		if len(onlySet) > 0 && !onlySet[pa.CalleeName(fn)] {
			continue
		}
		writes := map[string]bool{}
		reads := map[string]string{}
		for _, b := range fn.Blocks {
			for _, in := range b.Instrs {
				switch x := in.(type) {
				case *ssa.MapUpdate:
					if f := model.LoadedPolicyField(x.Map); f != "" {
						writes[f] = true
					}
				case *ssa.Store:
					if f := model.PolicyField(x.Addr); f != "" {
						if fa, ok := x.Addr.(*ssa.FieldAddr); ok && isTable(fa) {
							writes[f] = true
						}
					}
				case *ssa.Call:
					if bi, ok := x.Common().Value.(*ssa.Builtin); ok && bi.Name() == "delete" && len(x.Common().Args) == 2 {
						if f := model.LoadedPolicyField(x.Common().Args[0]); f != "" {
							writes[f] = true
						}
					}
				}
			}
		}
		for _, b := range fn.Blocks {
			for _, in := range b.Instrs {
				u, ok := in.(*ssa.UnOp)
				if !ok {
					continue
				}
				fa, ok := u.X.(*ssa.FieldAddr)
				if !ok || model.PolicyField(fa) == "" || !isTable(fa) || u.Referrers() == nil {
					continue
				}
				f := model.PolicyField(fa)
				for _, r := range *u.Referrers() {
					switch y := r.(type) {
					case *ssa.Lookup, *ssa.Range:
						reads[f] = c.P.Pos(r.Pos())
					case *ssa.Call:
						if bi, ok := y.Common().Value.(*ssa.Builtin); ok && bi.Name() == "len" {
							reads[f] = c.P.Pos(r.Pos())
						}
					case *ssa.IndexAddr:
						reads[f] = c.P.Pos(r.Pos())
					}
				}
			}
		}
		if len(reads) == 0 && len(writes) == 0 {
			continue
		}
		// a method that changes nothing in the policy (directly or through the module functions it calls) registers
		// nothing: a pure accessor may read whatever it reports on
		if len(writes) == 0 && len(tableWritesOf(c, fn)) == 0 && !storesPolicyField(fn) {
			R.OK(rule, "reader:"+pa.CalleeName(fn), pa.CalleeName(fn)+": reads rule tables, updates nothing", c.P.Pos(fn.Pos()), "not a builder: no store into a Policy field, no table update, directly or through callees")
			continue
		}
		n++
		var bad []string
		for f, where := range reads {
			if !writes[f] {
				bad = append(bad, f+" (read at "+where+")")
			}
		}
		sort.Strings(bad)
		R.Check(len(bad) == 0, rule, "builder:"+pa.CalleeName(fn), pa.CalleeName(fn)+": rule tables consulted", c.P.Pos(fn.Pos()), "only the tables it updates", "the builder consults "+strings.Join(bad, ", ")+", a table it does not update: what this call registers depends on what other calls registered before it — the same set of rules can give different policies depending on call order")
	}
	minN := 8
	if len(onlySet) > 0 {
		minN = len(onlySet)
	}
	R.Role(rule, "exported builders that touch rule tables", n, minN)
}

// noPolicyCopies: a Policy is never copied by value.  `q := *p` gives q every map and slice of p by reference: rules
// added to the one appear in the other (a "clone" that forgets to copy a table, a cached prototype handed out by value).
func noPolicyCopies(c *Ctx, rule, consequence string) {
	R := c.R
	n := 0
	for _, fn := range moduleFuncs(c.P) {
		if fn.Pkg == nil || fn.Pkg.Pkg.Path() != "github.com/microcosm-cc/bluemonday" {
			continue
		}
		cnt := 0
		for _, b := range fn.Blocks {
			for _, in := range b.Instrs {
				u, ok := in.(*ssa.UnOp)
				if !ok || u.Op != token.MUL {
					continue
				}
				nt, ok := u.Type().(*types.Named)
				if !ok || nt.Obj().Name() != "Policy" || nt.Obj().Pkg() == nil || nt.Obj().Pkg().Path() != "github.com/microcosm-cc/bluemonday" {
					continue
				}
				cnt++
				n++
				R.Fail(rule, fmt.Sprintf("policy-copy:%s#%d", pa.CalleeName(fn), cnt), pa.CalleeName(fn)+": a Policy value is loaded as a whole", c.P.Pos(u.Pos()), "a Policy is copied by value: the copy shares every rule table with the original — "+consequence)
			}
		}
	}
	if n == 0 {
		R.OK(rule, "policy-copy:none", "module functions: no load of a whole Policy value", "", "policies are only handled through pointers")
	}
}

// parsesWhatItWasGiven: in validURL the string handed to url.Parse derives from the parameter only through
// strings.TrimSpace, slicing / concatenation and the removal of CR / LF (strings.Replace*, a Replacer) guided by a
// FindString prefix — nothing that decodes or re-cases the value.  Decoding before the parse (html.UnescapeString,
// url.QueryUnescape, ToLower …) makes the emitted URL the image of another string than the attribute value, and each
// further pass applies the transformation again.
func parsesWhatItWasGiven(c *Ctx, rule string) {
	R := c.R
	fn := c.P.Func("github.com/microcosm-cc/bluemonday", "(*Policy).validURL")
	if fn == nil || len(fn.Params) < 2 {
		R.Unknown(rule, "validURL", "(*Policy).validURL", "", "function not found")
		return
	}
	param := ssa.Value(fn.Params[1])
	allowed := map[string]bool{"strings.TrimSpace": true, "strings.Replace": true, "strings.ReplaceAll": true, "(*strings.Replacer).Replace": true,
		"(*regexp.Regexp).FindString": true, "strings.TrimRight": true, "strings.TrimLeft": true, "strings.Trim": true, "strings.NewReplacer": true}
	n := 0
	for _, b := range fn.Blocks {
		for _, in := range b.Instrs {
			cl, ok := in.(*ssa.Call)
			if !ok || cl.Common().StaticCallee() == nil || pa.CalleeName(cl.Common().StaticCallee()) != "url.Parse" {
				continue
			}
			n++
			bad := ""
			seen := map[ssa.Value]bool{}
			var walk func(v ssa.Value)
			walk = func(v ssa.Value) {
				if seen[v] || bad != "" || v == param {
					return
				}
				seen[v] = true
				switch x := v.(type) {
				case *ssa.Const, *ssa.Global:
				case *ssa.Phi:
					for _, e := range x.Edges {
						walk(e)
					}
				case *ssa.BinOp:
					walk(x.X)
					walk(x.Y)
				case *ssa.Slice:
					walk(x.X)
				case *ssa.UnOp:
					walk(x.X)
				case *ssa.Call:
					cal := x.Common().StaticCallee()
					if cal == nil {
						if bi, ok := x.Common().Value.(*ssa.Builtin); ok && bi.Name() == "len" {
							return
						}
						bad = "a dynamic call at " + c.P.Pos(x.Pos())
						return
					}
					if !allowed[pa.CalleeName(cal)] {
						bad = pa.CalleeName(cal) + " at " + c.P.Pos(x.Pos())
						return
					}
					for _, a := range x.Common().Args {
						if bt, ok := a.Type().Underlying().(*types.Basic); ok && bt.Info()&types.IsString != 0 {
							walk(a)
						}
					}
				default:
					bad = fmt.Sprintf("%T at %s", v, c.P.Pos(v.Pos()))
				}
			}
			walk(cl.Common().Args[0])
			R.Check(bad == "", rule, fmt.Sprintf("validURL:parse#%d", n), "(*Policy).validURL: argument of url.Parse", c.P.Pos(cl.Pos()), "the attribute value, trimmed (CR/LF removed inside data URIs)", "the value is transformed by "+bad+" before it is parsed: the URL that is emitted is the re-serialisation of another string than the attribute's value, and sanitising the output again applies the transformation once more")
		}
	}
	R.Role(rule, "calls of url.Parse in validURL", n, 1)
}

// barePermissionOnRequest (C02.R11): "allowed without attributes" is a permission the caller asks for.  Outside init()
// every update of the bare-element set or the bare-element pattern list sits under the true edge of a boolean field of the
// builder it is a method of; that field is only ever given the constant true, by functions (the AllowNoAttrs entries)
// that nothing in the library itself calls.  A builder that delegates to AllowNoAttrs() for convenience, or a flag
// computed from something else, makes elements pass bare although the user only allowed them with attributes.
func barePermissionOnRequest(c *Ctx, rule string) {
	R := c.R
	F := model.FindFields(c.P)
	set, pats := F.Get("bareSet"), F.Get("bareRegexps")
	if set == "" || pats == "" {
		R.Unknown(rule, "fields", "bare-element set and pattern list of Policy", "", "role not resolvable")
		return
	}
	type flagKey struct {
		t   string
		idx int
	}
	flags := map[flagKey]string{}
	nw, ndef := 0, 0
	for _, fn := range moduleFuncs(c.P) {
		if fn.Pkg == nil || fn.Pkg.Pkg.Path() != "github.com/microcosm-cc/bluemonday" {
			continue
		}
		var A *pa.Analysis
		cnt := 0
		for _, b := range fn.Blocks {
			for _, in := range b.Instrs {
				what := ""
				switch x := in.(type) {
				case *ssa.MapUpdate:
					if model.LoadedPolicyField(x.Map) == set {
						what = set
						if !derivesFromParam(x.Key, func(g *ssa.Global) bool { _, ok := model.ConstSlices(c.P)[g]; return ok }) {
							// a fixed name (a constant, or an element of a list of constants built in this function): the
							// default vocabulary, whose content C04.R1 compares with the documented list
							what = ""
							ndef++
						}
					}
				case *ssa.Store:
					if model.PolicyField(x.Addr) == pats {
						what = pats
					}
					if model.PolicyField(x.Addr) == set {
						// installing a whole table: init()'s default table (a fresh literal) — decided by C02.R10/C17.R4
						continue
					}
				}
				if what == "" || fn.Name() == "init" && fn.Signature.Recv() != nil {
					continue
				}
				if A == nil {
					A = model.NewAnalysis(fn)
					translateAll(A)
				}
				cnt++
				nw++
				found := ""
				for d := b.Idom(); d != nil && found == ""; d = d.Idom() {
					for k, sblk := range d.Succs {
						if len(d.Succs) != 2 || d.Succs[0] == d.Succs[1] || !(sblk == b || sblk.Dominates(b)) || len(sblk.Preds) != 1 {
							continue
						}
						for a, pol := range impliedLiterals(A.EdgeCond(d, k)) {
							at := A.Atoms[a]
							if !pol || at.Kind != "val" {
								continue
							}
							u, ok := at.Resolve(at.X).(*ssa.UnOp)
							if !ok {
								continue
							}
							fa, ok := u.X.(*ssa.FieldAddr)
							if !ok || len(fn.Params) == 0 || fa.X != ssa.Value(fn.Params[0]) {
								continue
							}
							if bt, ok := u.Type().Underlying().(*types.Basic); ok && bt.Kind() == types.Bool {
								found = pa.FieldName(fa)
								flags[flagKey{fa.X.Type().String(), fa.Field}] = found
							}
						}
					}
				}
				R.Check(found != "", rule, fmt.Sprintf("guard:%s:%s#%d", pa.CalleeName(fn), what, cnt), pa.CalleeName(fn)+": update of "+what, c.P.Pos(in.Pos()),
					"only under the builder's own boolean request flag ("+found+")", "the bare-element table is updated although the caller did not ask for it: an element allowed only with attributes is emitted without any")
			}
		}
	}
	R.Role(rule, "updates of the bare-element tables outside init", nw, 2)
	R.OK(rule, "defaults", fmt.Sprintf("%d updates of the bare-element set under a constant name", ndef), "", "the default vocabulary (content decided by the UGC vocabulary rules), not a permission derived from the caller's arguments")
	// who sets the flag
	requesters := map[*ssa.Function]bool{}
	ns := 0
	for _, fn := range moduleFuncs(c.P) {
		if fn.Pkg == nil || fn.Pkg.Pkg.Path() != "github.com/microcosm-cc/bluemonday" {
			continue
		}
		cnt := 0
		for _, b := range fn.Blocks {
			for _, in := range b.Instrs {
				st, ok := in.(*ssa.Store)
				if !ok {
					continue
				}
				fa, ok := st.Addr.(*ssa.FieldAddr)
				if !ok {
					continue
				}
				name, ok := flags[flagKey{fa.X.Type().String(), fa.Field}]
				if !ok {
					continue
				}
				cnt++
				ns++
				k, isConst := st.Val.(*ssa.Const)
				if isConst && k.Value != nil && k.Value.String() == "true" {
					requesters[fn] = true
				}
				R.Check(isConst, rule, fmt.Sprintf("flag-store:%s#%d", pa.CalleeName(fn), cnt), pa.CalleeName(fn)+": store to "+name, c.P.Pos(st.Pos()), "a constant", "the request flag is computed: bare permission no longer means the caller asked for it")
			}
		}
	}
	R.Role(rule, "stores to the request flag", ns, 2)
	n := 0
	for _, fn := range moduleFuncs(c.P) {
		if fn.Pkg == nil || fn.Pkg.Pkg.Path() != "github.com/microcosm-cc/bluemonday" {
			continue
		}
		cnt := 0
		for _, b := range fn.Blocks {
			for _, in := range b.Instrs {
				ci, ok := in.(ssa.CallInstruction)
				if !ok {
					continue
				}
				cal := ci.Common().StaticCallee()
				if cal == nil || !requesters[cal] {
					continue
				}
				cnt++
				n++
				R.Fail(rule, fmt.Sprintf("internal-request:%s->%s#%d", pa.CalleeName(fn), pa.CalleeName(cal), cnt), pa.CalleeName(fn)+": call of "+pa.CalleeName(cal), c.P.Pos(in.Pos()),
					"the library itself asks for bare permission: the elements this builder registers pass without attributes although the user only allowed them with some")
			}
		}
	}
	var rs []string
	for f := range requesters {
		rs = append(rs, pa.CalleeName(f))
	}
	sort.Strings(rs)
	if n == 0 {
		R.OK(rule, "internal-request:none", "functions setting the request flag: "+strings.Join(rs, ", "), "", "none of them is called from within the library")
	}
}

// derivesFromParam: following operands (bounded), v can depend on a parameter of its function, on a free variable, on
// a package-level variable or on the result of a call — i.e. on anything that is not fixed by the function's own text.
func derivesFromParam(v ssa.Value, constGlobal func(*ssa.Global) bool) bool {
	seen := map[ssa.Value]bool{}
	var walk func(v ssa.Value, d int) bool
	walk = func(v ssa.Value, d int) bool {
		if v == nil || seen[v] {
			return false
		}
		seen[v] = true
		if d > 12 {
			return true
		}
		switch x := v.(type) {
		case *ssa.Const:
			return false
		case *ssa.Global:
			// a package-level list of constants that is only ever read is as fixed as a literal
			return constGlobal == nil || !constGlobal(x)
		case *ssa.Parameter, *ssa.FreeVar, *ssa.Call, *ssa.Lookup, *ssa.Next, *ssa.TypeAssert, *ssa.MakeClosure:
			return true
		case *ssa.Alloc:
			// a local: what was stored into it (or into its elements)
			for _, r := range *x.Referrers() {
				switch y := r.(type) {
				case *ssa.Store:
					if y.Addr == ssa.Value(x) && walk(y.Val, d+1) {
						return true
					}
				case *ssa.IndexAddr:
					for _, r2 := range *y.Referrers() {
						if st, ok := r2.(*ssa.Store); ok && st.Addr == ssa.Value(y) && walk(st.Val, d+1) {
							return true
						}
					}
				case *ssa.FieldAddr:
					for _, r2 := range *y.Referrers() {
						if st, ok := r2.(*ssa.Store); ok && st.Addr == ssa.Value(y) && walk(st.Val, d+1) {
							return true
						}
					}
				}
			}
			return false
		}
		in, ok := v.(ssa.Instruction)
		if !ok {
			return true
		}
		for _, op := range in.Operands(nil) {
			if op != nil && *op != nil && walk(*op, d+1) {
				return true
			}
		}
		return false
	}
	return walk(v, 0)
}

// singleSerialiser: every destination write of sanitize has payload Token.String() (or a space, or raw data — whose
// allowUnsafe guard is C06.R1).  Anything else (the parts of a token written separately, another escaper) is outside the
// escaping that keeps text and comments from becoming markup.
func singleSerialiser(c *Ctx, rule, consequence string) {
	R := c.R
	s3, err := model.FindSan(c.P)
	if err != nil {
		R.Unknown(rule, "sanitize", "(*Policy).sanitize", "", err.Error())
		return
	}
	n3 := 0
	for i, w := range s3.Writes {
		n3++
		okW := w.Payload == "TokenString" || w.Payload == "Space" || w.Payload == "RawData" || w.Payload == "Mixed"
		R.Check(okW, rule, writeKey(s3, i), writeDescr(w), c.P.Pos(w.Call.Pos()), "written through Token.String (or a space, or raw data)", "a token is serialised by something other than Token.String ("+w.Detail+"): "+consequence)
	}
	R.Role(rule, "destination writes in sanitize", n3, 6)
}

// buildersAreFresh (C17.R11): every call that starts a rule (a method of *Policy returning a pointer to one of the
// module's builder types) returns a builder allocated by that very call.  A builder kept inside the Policy (or in a pool,
// or a package variable) and handed out again makes two pending rules share names, pattern and flags: what a builder call
// registers then depends on which other builder calls were made in between.
func buildersAreFresh(c *Ctx, rule string) {
	R := c.R
	n := 0
	for _, fn := range moduleFuncs(c.P) {
		if fn.Pkg == nil || fn.Pkg.Pkg.Path() != "github.com/microcosm-cc/bluemonday" || fn.Signature.Recv() == nil || !isPolicyPtr(fn.Signature.Recv().Type()) {
			continue
		}
		res := fn.Signature.Results()
		if res.Len() != 1 {
			continue
		}
		pt, ok := res.At(0).Type().(*types.Pointer)
		if !ok {
			continue
		}
		nt, ok := pt.Elem().(*types.Named)
		if !ok || nt.Obj().Pkg() == nil || nt.Obj().Pkg().Path() != "github.com/microcosm-cc/bluemonday" || nt.Obj().Name() == "Policy" {
			continue
		}
		if _, isStruct := nt.Underlying().(*types.Struct); !isStruct {
			continue
		}
		cnt := 0
		for _, b := range fn.Blocks {
			r, ok := b.Instrs[len(b.Instrs)-1].(*ssa.Return)
			if !ok {
				continue
			}
			n++
			cnt++
			var fresh func(v ssa.Value, d int) bool
			fresh = func(v ssa.Value, d int) bool {
				switch x := v.(type) {
				case *ssa.Alloc:
					return x.Heap
				case *ssa.Phi:
					if d > 4 {
						return false
					}
					for _, e := range x.Edges {
						if !fresh(e, d+1) {
							return false
						}
					}
					return true
				}
				return false
			}
			R.Check(fresh(r.Results[0], 0), rule, fmt.Sprintf("builder:%s#%d", pa.CalleeName(fn), cnt), pa.CalleeName(fn)+": returned builder", c.P.Pos(r.Pos()), "allocated by this call",
				"the builder handed out is not this call's own ("+stripIDs(r.Results[0].Name())+"): a builder obtained earlier and still in use is re-used — its names, pattern and flags are overwritten, so the rules a policy ends up with depend on the order of builder calls")
		}
	}
	R.Role(rule, "returns of builder-starting methods", n, 3)
}

// patternsAsRegistered (C02.R12): the value pattern of an attribute rule is the regexp object the caller registered.
// Outside package initialisers every store into a *regexp.Regexp field of a builder or rule type of the module stores a
// parameter, nil, or a load of such a field — never the result of a call (a pattern re-compiled, merged with another
// one, wrapped or simplified accepts a different set of values than the one the user wrote).
func patternsAsRegistered(c *Ctx, rule string) {
	R := c.R
	n := 0
	isRe := func(t types.Type) bool { return t.String() == "*regexp.Regexp" }
	// the struct types in question: the rule types (element types of the lists held in the Policy's tables) and the
	// builder types (receivers of the module's methods that update those tables) — not a table of rows a constructor
	// happens to loop over
	relevant := map[string]bool{}
	var addRuleTypes func(t types.Type, d int)
	addRuleTypes = func(t types.Type, d int) {
		if d > 4 {
			return
		}
		switch x := t.(type) {
		case *types.Map:
			addRuleTypes(x.Elem(), d+1)
		case *types.Slice:
			addRuleTypes(x.Elem(), d+1)
		case *types.Named:
			if _, isStruct := x.Underlying().(*types.Struct); isStruct && x.Obj().Pkg() != nil && x.Obj().Pkg().Path() == "github.com/microcosm-cc/bluemonday" {
				relevant[x.String()] = true
			}
		}
	}
	for _, fn := range moduleFuncs(c.P) {
		if fn.Pkg == nil || fn.Pkg.Pkg.Path() != "github.com/microcosm-cc/bluemonday" || fn.Signature.Recv() == nil {
			continue
		}
		rt := fn.Signature.Recv().Type()
		if pt, ok := rt.(*types.Pointer); ok {
			rt = pt.Elem()
		}
		nt, ok := rt.(*types.Named)
		if !ok {
			continue
		}
		if nt.Obj().Name() == "Policy" {
			if st, ok := nt.Underlying().(*types.Struct); ok {
				for i := 0; i < st.NumFields(); i++ {
					addRuleTypes(st.Field(i).Type(), 0)
				}
			}
			continue
		}
		if len(tableWritesOf(c, fn)) > 0 {
			relevant[nt.String()] = true
		}
	}
	for _, fn := range moduleFuncs(c.P) {
		if fn.Pkg == nil || fn.Pkg.Pkg.Path() != "github.com/microcosm-cc/bluemonday" || fn.Name() == "init" && fn.Signature.Recv() == nil {
			continue
		}
		cnt := 0
		for _, b := range fn.Blocks {
			for _, in := range b.Instrs {
				st, ok := in.(*ssa.Store)
				if !ok || !isRe(st.Val.Type()) {
					continue
				}
				fa, ok := st.Addr.(*ssa.FieldAddr)
				if !ok {
					continue
				}
				owner := fa.X.Type()
				if pt, isPtr := owner.Underlying().(*types.Pointer); isPtr {
					owner = pt.Elem()
				}
				if !relevant[owner.String()] {
					continue
				}
				n++
				cnt++
				var okV func(v ssa.Value, d int) bool
				okV = func(v ssa.Value, d int) bool {
					switch x := v.(type) {
					case *ssa.Parameter:
						return true
					case *ssa.Const:
						return x.IsNil()
					case *ssa.UnOp:
						if x.Op != token.MUL {
							return false
						}
						switch a := x.X.(type) {
						case *ssa.FieldAddr:
							return true
						case *ssa.IndexAddr:
							_ = a
							return true // an element of a rule list
						case *ssa.Alloc:
							// a local holding one of the above
							for _, r := range *a.Referrers() {
								if s2, ok := r.(*ssa.Store); ok && s2.Addr == ssa.Value(a) && (d > 4 || !okV(s2.Val, d+1)) {
									return false
								}
							}
							return true
						}
						return false
					case *ssa.Phi:
						if d > 4 {
							return false
						}
						for _, e := range x.Edges {
							if !okV(e, d+1) {
								return false
							}
						}
						return true
					case *ssa.Extract:
						// element of a range over a rule list / map lookup of a rule table
						switch x.Tuple.(type) {
						case *ssa.Next, *ssa.Lookup:
							return true
						}
					case *ssa.Field:
						return true
					}
					return false
				}
				R.Check(okV(st.Val, 0), rule, fmt.Sprintf("pattern-store:%s#%d", pa.CalleeName(fn), cnt), pa.CalleeName(fn)+": store to "+pa.FieldName(fa), c.P.Pos(st.Pos()), "the caller's regexp (a parameter, nil, or a copy of a registered one)",
					"the pattern stored is computed ("+stripIDs(st.Val.Name())+"): the rule judges values by another pattern than the one the caller registered")
			}
		}
	}
	R.Role(rule, "stores into regexp fields of builders and rules", n, 3)
}

// storesPolicyField: fn (or a module function it calls, init excluded, depth-bounded) stores into a field of a Policy.
func storesPolicyField(fn *ssa.Function) bool {
	seen := map[*ssa.Function]bool{}
	var visit func(f *ssa.Function, d int) bool
	visit = func(f *ssa.Function, d int) bool {
		if f == nil || seen[f] || d > 4 || len(f.Blocks) == 0 {
			return false
		}
		seen[f] = true
		for _, b := range f.Blocks {
			for _, in := range b.Instrs {
				switch x := in.(type) {
				case *ssa.Store:
					if model.PolicyField(x.Addr) != "" {
						return true
					}
				case ssa.CallInstruction:
					cal := x.Common().StaticCallee()
					if cal == nil || cal.Pkg == nil || cal.Pkg.Pkg.Path() != "github.com/microcosm-cc/bluemonday" {
						continue
					}
					if cal.Name() == "init" && cal.Signature.Recv() != nil {
						continue
					}
					if visit(cal, d+1) {
						return true
					}
				}
			}
		}
		return false
	}
	return visit(fn, 0)
}

// newPolicyAllowsNothing (C01.R11): what every policy starts from allows no element.  Neither NewPolicy nor init() —
// nor anything they call — adds an entry to the element table, the element-pattern table or the global attribute table
// (they only create the tables, and fill the two default sets: elements that may appear without attributes once they are
// allowed, and elements whose content is skipped).  A default registered through the ordinary builders
// (AllowNoAttrs().OnElements(...)) would put the elements on every policy's allowlist.
func newPolicyAllowsNothing(c *Ctx, rule string) {
	R := c.R
	F := model.FindFields(c.P)
	guarded := map[string]string{}
	for _, r := range []string{"elsAndAttrs", "elsMatchingAndAttrs", "globalAttrs"} {
		if f := F.Get(r); f != "" {
			guarded[f] = r
		}
	}
	n := 0
	for _, name := range []string{"NewPolicy", "(*Policy).init"} {
		fn := c.P.Func("github.com/microcosm-cc/bluemonday", name)
		if fn == nil {
			R.Unknown(rule, "fresh:"+name, name, "", "function not found")
			continue
		}
		n++
		var bad []string
		seen := map[*ssa.Function]bool{}
		var visit func(f *ssa.Function, via string, d int)
		visit = func(f *ssa.Function, via string, d int) {
			if f == nil || seen[f] || d > 5 || len(f.Blocks) == 0 {
				return
			}
			seen[f] = true
			for _, b := range f.Blocks {
				for _, in := range b.Instrs {
					switch x := in.(type) {
					case *ssa.MapUpdate:
						if fld := model.LoadedPolicyField(x.Map); guarded[fld] != "" {
							bad = append(bad, fld+" (entry added at "+via+c.P.Pos(x.Pos())+")")
						}
					case ssa.CallInstruction:
						cal := x.Common().StaticCallee()
						if cal == nil || cal.Pkg == nil || cal.Pkg.Pkg.Path() != "github.com/microcosm-cc/bluemonday" {
							continue
						}
						visit(cal, via+pa.CalleeName(cal)+" → ", d+1)
					}
				}
			}
		}
		visit(fn, "", 0)
		sort.Strings(bad)
		R.Check(len(bad) == 0, rule, "fresh:"+name, name+": entries added to the element / pattern / global attribute tables", c.P.Pos(fn.Pos()), fmt.Sprintf("none (in %d functions reached)", len(seen)), "every new policy already allows something: "+strings.Join(bad, ", "))
	}
	R.Role(rule, "policy-creating functions examined", n, 2)
}

// pairedSettersAgree (C17.R12): where one exported method of *Policy adds keys to a table and another removes them
// (SkipElementsContent / AllowElementsContent), each is the other's undo: both update exactly the same tables.  A second
// table that only one of the two knows about (an override set consulted first) makes the earlier call win over the later
// one — the option no longer reflects its most recent setting.
func pairedSettersAgree(c *Ctx, rule string) {
	R := c.R
	type acc struct{ adds, dels map[string]bool }
	per := map[*ssa.Function]*acc{}
	var fns []*ssa.Function
	for _, fn := range moduleFuncs(c.P) {
		if fn.Pkg == nil || fn.Pkg.Pkg.Path() != "github.com/microcosm-cc/bluemonday" || fn.Signature.Recv() == nil || !isPolicyPtr(fn.Signature.Recv().Type()) || fn.Object() == nil || !fn.Object().Exported() {
			continue
		}
		a := &acc{adds: map[string]bool{}, dels: map[string]bool{}}
		for _, b := range fn.Blocks {
			for _, in := range b.Instrs {
				switch x := in.(type) {
				case *ssa.MapUpdate:
					if f := model.LoadedPolicyField(x.Map); f != "" {
						a.adds[f] = true
					}
				case *ssa.Call:
					if bi, ok := x.Common().Value.(*ssa.Builtin); ok && bi.Name() == "delete" && len(x.Common().Args) == 2 {
						if f := model.LoadedPolicyField(x.Common().Args[0]); f != "" {
							a.dels[f] = true
						}
					}
				}
			}
		}
		if len(a.adds)+len(a.dels) > 0 {
			per[fn] = a
			fns = append(fns, fn)
		}
	}
	sortFuncs(fns)
	n := 0
	for _, d := range fns {
		if len(per[d].dels) == 0 {
			continue
		}
		for _, s := range fns {
			if s == d {
				continue
			}
			shared := false
			for t := range per[d].dels {
				if per[s].adds[t] && len(per[s].dels) == 0 {
					shared = true
				}
			}
			if !shared {
				continue
			}
			n++
			touched := func(a *acc) []string {
				m := map[string]bool{}
				for t := range a.adds {
					m[t] = true
				}
				for t := range a.dels {
					m[t] = true
				}
				return sortedKeys(m)
			}
			ts, td := touched(per[s]), touched(per[d])
			R.Check(strings.Join(ts, ",") == strings.Join(td, ","), rule, "pair:"+pa.CalleeName(s)+"/"+pa.CalleeName(d), pa.CalleeName(s)+" adds what "+pa.CalleeName(d)+" removes", c.P.Pos(d.Pos()), "both update exactly the tables "+strings.Join(ts, ", "),
				fmt.Sprintf("the two are not each other's undo: %s updates {%s}, %s updates {%s} — a call of the one does not take back everything the other recorded, so the earlier call can win over the later one", pa.CalleeName(s), strings.Join(ts, ", "), pa.CalleeName(d), strings.Join(td, ", ")))
		}
	}
	R.Role(rule, "pairs of an adding and a removing setter on one table", n, 1)
}

// chainedFrom: v is the policy `root` itself or the *Policy handed back at the end of a fluent chain that started from
// it — p.AllowAttrs(…).OnElements(…): each link is a static call of a module method on a receiver that is itself chained
// from root, and every return of that method yields its receiver or the *Policy-typed field of its (builder) receiver.
func chainedFrom(v ssa.Value, root *ssa.Parameter, d int) bool {
	if v == ssa.Value(root) {
		return true
	}
	cl, ok := v.(*ssa.Call)
	if !ok || d > 6 {
		return false
	}
	cal := cl.Common().StaticCallee()
	if cal == nil || cal.Pkg == nil || cal.Pkg.Pkg.Path() != "github.com/microcosm-cc/bluemonday" || cal.Signature.Recv() == nil || len(cl.Common().Args) == 0 || len(cal.Params) == 0 {
		return false
	}
	if !chainedFrom(cl.Common().Args[0], root, d+1) {
		return false
	}
	// the link hands back its receiver, the policy held by its receiver (a builder's p field) or a new builder
	// around it; a *Policy result must be one of the first two
	if !isPolicyPtr(cal.Signature.Results().At(0).Type()) {
		// a builder-returning link (AllowAttrs, Matching, …): the builder stays tied to the same policy as long as the
		// final, *Policy-returning link reads it from the builder — judged there
		return cal.Signature.Results().Len() == 1
	}
	for _, b := range cal.Blocks {
		r, ok := b.Instrs[len(b.Instrs)-1].(*ssa.Return)
		if !ok {
			continue
		}
		res := r.Results[0]
		if res == ssa.Value(cal.Params[0]) {
			continue
		}
		if u, ok := res.(*ssa.UnOp); ok {
			if fa, ok := u.X.(*ssa.FieldAddr); ok && fa.X == ssa.Value(cal.Params[0]) && isPolicyPtr(u.Type()) {
				continue
			}
		}
		return false
	}
	return true
}

// attributePassesKnown (C12.R8, cited as C11.R7 and C02.R13): the rules of these properties judge the attribute list
// pass by pass — the allow-list filter, the URL pass, the href scan, the rel passes, the crossorigin and sandbox passes.
// Each is recognised by what it looks at: a comparison of an attribute's Key with one of the constants the sanitiser
// handles, a lookup of the Key in a rule table, or a call of validURL.  A loop of sanitizeAttrs that builds or edits an attribute list without
// doing either (a de-duplication, a re-ordering, a cap on the number of attributes) is a pass the rules know nothing about:
// it can drop or move what they established.  Likewise the list is never re-sliced (cut) once it exists.
func attributePassesKnown(c *Ctx, rule, consequence string) {
	R := c.R
	fn := c.P.Func("github.com/microcosm-cc/bluemonday", "(*Policy).sanitizeAttrs")
	if fn == nil {
		R.Unknown(rule, "sanitizeAttrs", "(*Policy).sanitizeAttrs", "", "not found")
		return
	}
	isAttrList := func(t types.Type) bool {
		sl, ok := t.Underlying().(*types.Slice)
		return ok && strings.HasSuffix(sl.Elem().String(), "html.Attribute")
	}
	known := map[string]bool{"href": true, "src": true, "cite": true, "rel": true, "target": true, "crossorigin": true, "sandbox": true, "style": true}
	vu := c.P.Func("github.com/microcosm-cc/bluemonday", "(*Policy).validURL")
	isKeyLoad := func(v ssa.Value) bool {
		u, ok := v.(*ssa.UnOp)
		if !ok {
			if f, isF := v.(*ssa.Field); isF {
				return strings.HasSuffix(f.X.Type().String(), "html.Attribute") && f.Field == 1
			}
			return false
		}
		fa, ok := u.X.(*ssa.FieldAddr)
		return ok && pa.FieldName(fa) == "Key"
	}
	// natural loops by header
	type loop struct {
		hdr    *ssa.BasicBlock
		blocks map[*ssa.BasicBlock]bool
	}
	var loops []*loop
	for _, h := range fn.Blocks {
		for _, p := range h.Preds {
			if h.Dominates(p) {
				loops = append(loops, &loop{h, model.NaturalLoop(h)})
				break
			}
		}
	}
	edits := func(l *loop) (bool, string) {
		for _, b := range sortedBlocks(l.blocks) {
			for _, in := range b.Instrs {
				switch x := in.(type) {
				case *ssa.Call:
					if bi, ok := x.Common().Value.(*ssa.Builtin); ok && bi.Name() == "append" && isAttrList(x.Type()) {
						return true, c.P.Pos(x.Pos())
					}
				case *ssa.Store:
					if fa, ok := x.Addr.(*ssa.FieldAddr); ok {
						if ia, ok := fa.X.(*ssa.IndexAddr); ok && isAttrList(ia.X.Type()) {
							return true, c.P.Pos(x.Pos())
						}
					}
				}
			}
		}
		return false, ""
	}
	recognised := func(l *loop) bool {
		for b := range l.blocks {
			for _, in := range b.Instrs {
				switch x := in.(type) {
				case *ssa.BinOp:
					if x.Op != token.EQL && x.Op != token.NEQ {
						continue
					}
					for _, pr := range [][2]ssa.Value{{x.X, x.Y}, {x.Y, x.X}} {
						if k, ok := constString(pr[1]); ok && known[k] && isKeyLoad(pr[0]) {
							return true
						}
					}
				case *ssa.Lookup:
					if mt, ok := x.X.Type().Underlying().(*types.Map); ok && isKeyLoad(x.Index) {
						if sl, ok := mt.Elem().Underlying().(*types.Slice); ok && strings.HasSuffix(sl.Elem().String(), "attrPolicy") {
							return true
						}
					}
				case *ssa.Call:
					// the URL pass: whatever way it picks the attribute (a switch, a table of element → attribute), it
					// is the loop that hands values to validURL
					if vu != nil && x.Common().StaticCallee() == vu {
						return true
					}
				}
			}
		}
		return false
	}
	n := 0
	for _, l := range loops {
		// outermost loops only
		outer := true
		for _, l2 := range loops {
			if l2 != l && l2.blocks[l.hdr] {
				outer = false
			}
		}
		if !outer {
			continue
		}
		ed, where := edits(l)
		if !ed {
			continue
		}
		n++
		R.Check(recognised(l), rule, fmt.Sprintf("pass#%d", n), "(*Policy).sanitizeAttrs: loop that builds or edits an attribute list", c.P.Pos(lastPos(l.hdr)), "looks at the attribute keys the sanitiser handles (or looks the key up in a rule table)", "a pass over the attributes that tests none of the keys the sanitiser handles and consults no rule table edits the list (at "+where+"): "+consequence)
	}
	R.Role(rule, "passes over the attribute list in sanitizeAttrs", n, 5)
	// no re-slicing
	ns := 0
	for _, b := range fn.Blocks {
		for _, in := range b.Instrs {
			sl, ok := in.(*ssa.Slice)
			if !ok || !isAttrList(sl.Type()) {
				continue
			}
			if _, fresh := sl.X.(*ssa.Alloc); fresh {
				continue // a literal list
			}
			ns++
			R.Fail(rule, fmt.Sprintf("reslice#%d", ns), "(*Policy).sanitizeAttrs: the attribute list is re-sliced", c.P.Pos(sl.Pos()), "attributes are cut off an existing list: "+consequence)
		}
	}
	if ns == 0 {
		R.OK(rule, "reslice:none", "(*Policy).sanitizeAttrs: slice expressions on attribute lists", "", "none (apart from list literals)")
	}
}

// rawOnlyUnderUnsafe: every write of raw (unescaped) token data in any arm happens under allowUnsafe.
func rawOnlyUnderUnsafe(sc *SC, rule, consequence string) {
	R := sc.c.R
	U := sc.U()
	qs := map[string]*pa.Query{}
	n := 0
	for i, w := range sc.S.Writes {
		if w.Payload != "RawData" && w.Payload != "Mixed" {
			continue
		}
		n++
		key := writeKey(sc.S, i)
		track := []*pa.F{U}
		if w.Payload == "Mixed" && w.RawWhen != nil {
			track = append(track, w.RawWhen)
		}
		qk := w.Arm + "/" + w.Payload
		q, ok := qs[qk]
		if !ok {
			q, _ = sc.armQuery(w.Arm, track...)
			qs[qk] = q
		}
		okW, cex := false, "arm not analysable"
		if q != nil {
			if st := q.StateAt(w.Call); st != nil {
				goal := U
				if w.Payload == "Mixed" && w.RawWhen != nil {
					goal = pa.Implies(w.RawWhen, U)
				}
				okW, cex = q.Holds(st, goal)
			} else {
				okW = true
			}
		}
		R.Check(okW, rule, key, writeDescr(w), sc.pos(w.Call), "raw data only under allowUnsafe", consequence+": ["+cex+"]")
	}
	if n == 0 {
		R.OK(rule, "raw:none", "(*Policy).sanitize: writes of raw token data", "", "none")
	}
}

// projectionJoin: v = strings.Join(list, sep) where list starts empty and grows only by appends of unmodified elements of
// strings.Fields(x) / strings.Split(x, …) — the value is a selection of the old value's own tokens (the sandbox token
// filter).  A list of re-written parts (each URL of a srcset passed through validURL, say) is not a projection.
func projectionJoin(v ssa.Value) bool {
	j := isCallTo(v, "strings.Join")
	if j == nil {
		return false
	}
	seen := map[ssa.Value]bool{}
	var walk func(x ssa.Value, d int) bool
	walk = func(x ssa.Value, d int) bool {
		if seen[x] {
			return true
		}
		seen[x] = true
		if d > 12 {
			return false
		}
		switch t := x.(type) {
		case *ssa.Const:
			return t.IsNil()
		case *ssa.MakeSlice:
			k, ok := t.Len.(*ssa.Const)
			return ok && k.Int64() == 0
		case *ssa.Slice:
			_, fresh := t.X.(*ssa.Alloc)
			return fresh
		case *ssa.Phi:
			for _, e := range t.Edges {
				if !walk(e, d+1) {
					return false
				}
			}
			return true
		case *ssa.Call:
			ac, base := model.IsAppend(t)
			if ac == nil {
				return false
			}
			el := model.AppendedValue(ac)
			u, ok := el.(*ssa.UnOp)
			if !ok {
				return false
			}
			ia, ok := u.X.(*ssa.IndexAddr)
			if !ok {
				return false
			}
			src, ok := ia.X.(*ssa.Call)
			if !ok || src.Common().StaticCallee() == nil {
				return false
			}
			switch pa.CalleeName(src.Common().StaticCallee()) {
			case "strings.Fields", "strings.Split", "strings.FieldsFunc":
			default:
				return false
			}
			return walk(base, d+1)
		}
		return false
	}
	return walk(j.Common().Args[0], 0)
}

// declarationKeptOnce (C10.R12, cited as C17.R13): in sanitizeStyles a declaration is appended to the kept list at most
// once per iteration of the declaration loop — after a rule accepted it the search ends (a `continue` that lost its
// label goes on with the next rule of the same property, and every further rule that accepts the value appends the
// declaration again: the output then depends on how many rules were registered, not on what they allow).
func declarationKeptOnce(c *Ctx, rule, consequence string) {
	R := c.R
	fn := c.P.Func("github.com/microcosm-cc/bluemonday", "(*Policy).sanitizeStyles")
	if fn == nil {
		R.Unknown(rule, "once", "(*Policy).sanitizeStyles", "", "function not found")
		return
	}
	// the kept list: a []string that is appended to inside a loop and later joined
	type site struct {
		cl   *ssa.Call
		loop map[*ssa.BasicBlock]bool
		hdr  *ssa.BasicBlock
	}
	var sites []site
	// outermost loops
	var hdrs []*ssa.BasicBlock
	for _, h := range fn.Blocks {
		for _, p := range h.Preds {
			if h.Dominates(p) {
				hdrs = append(hdrs, h)
				break
			}
		}
	}
	for _, b := range fn.Blocks {
		for _, in := range b.Instrs {
			cl, ok := in.(*ssa.Call)
			if !ok {
				continue
			}
			if ac, _ := model.IsAppend(cl); ac == nil || cl.Type().String() != "[]string" {
				continue
			}
			// the outermost loop containing the append
			var best map[*ssa.BasicBlock]bool
			var bh *ssa.BasicBlock
			for _, h := range hdrs {
				nl := model.NaturalLoop(h)
				if nl[b] && (best == nil || len(nl) > len(best)) {
					best, bh = nl, h
				}
			}
			if best != nil {
				sites = append(sites, site{cl, best, bh})
			}
		}
	}
	A := model.NewAnalysis(fn)
	translateAll(A)
	n := 0
	byHdr := map[*ssa.BasicBlock][]site{}
	for _, s := range sites {
		byHdr[s.hdr] = append(byHdr[s.hdr], s)
	}
	for _, h := range hdrs {
		ss := byHdr[h]
		if len(ss) == 0 {
			continue
		}
		// (a single append site is judged the same way: inside an inner loop it can still run twice)
		ev := A.EventVar("declaration-kept-in-this-iteration")
		A.PhiFilter = func(*ssa.Phi) bool { return false }
		q, err := A.NewQuery([]int{ev})
		if err != nil {
			R.Unknown(rule, "once", "(*Policy).sanitizeStyles", "", err.Error())
			return
		}
		for _, s := range ss {
			q.Hooks[s.cl] = func(a uint32) []uint32 { return []uint32{q.With(a, ev, true)} }
		}
		q.Barrier[h] = true
		if len(h.Succs) > 0 {
			q.Run(h.Succs[0], q.InitWith(map[int]bool{ev: false}))
		}
		for _, s := range ss {
			st := q.StateAt(s.cl)
			if st == nil || pa.Empty(st) {
				continue
			}
			n++
			ok, _ := q.Holds(st, pa.Not(pa.AtomF(ev)))
			R.Check(ok, rule, fmt.Sprintf("once:append#%d", n), "(*Policy).sanitizeStyles declaration loop: append of a declaration", c.P.Pos(s.cl.Pos()), "no earlier append in the same iteration", "a declaration that was already kept in this iteration can be kept again (the rule scan goes on after a match): "+consequence)
		}
	}
	R.Role(rule, "appends of declarations in the declaration loop", n, 1)
}

package rules

import (
	"fmt"
	"go/types"
	"strings"

	"golang.org/x/tools/go/ssa"

	"verif/tools/model"
	"verif/tools/pa"
)

// sharedEntryRule: no two keys of a rule table share one mutable entry.  Every map that is stored as the entry of a
// Policy table (p.T[k] = m, T's element type a map) is created by a make / literal that (a) is stored by exactly
// that one update and (b) lies inside every loop that contains the update — so each key gets a map of its own.
// A map built once and stored under several keys (in a loop over element names, or by two updates) makes a later
// rule for one key apply to the others as well.  `want` selects the tables by the type of their entries.
func sharedEntryRule(c *Ctx, rule string, want func(tableType string) bool, what string) {
	R := c.R
	n := 0
	for _, fn := range moduleFuncs(c.P) {
		if fn.Pkg == nil || fn.Pkg.Pkg.Path() != "github.com/microcosm-cc/bluemonday" {
			continue
		}
		var loops []map[*ssa.BasicBlock]bool
		for _, b := range fn.Blocks {
			for _, p := range b.Preds {
				if b.Dominates(p) {
					loops = append(loops, model.NaturalLoop(b))
					break
				}
			}
		}
		perField := map[string]int{}
		for _, b := range fn.Blocks {
			for _, in := range b.Instrs {
				mu, ok := in.(*ssa.MapUpdate)
				if !ok {
					continue
				}
				field := model.LoadedPolicyField(mu.Map)
				if field == "" {
					continue
				}
				if _, isMap := mu.Value.Type().Underlying().(*types.Map); !isMap {
					continue
				}
				if !want(mu.Map.Type().String()) {
					continue
				}
				n++
				perField[field]++
				key := fmt.Sprintf("%s:%s#%d", pa.CalleeName(fn), field, perField[field])
				cons := fmt.Sprintf("%s: entry of %s stored", pa.CalleeName(fn), field)
				pos := c.P.Pos(mu.Pos())
				mk, isMake := mu.Value.(*ssa.MakeMap)
				if !isMake {
					R.Fail(rule, key, cons, pos, "the map stored as this table entry is not created here ("+stripIDs(fmt.Sprintf("%T", mu.Value))+"): it may be the entry of another key as well, so "+what)
					continue
				}
				stores := 0
				escapes := ""
				seenV := map[ssa.Value]bool{}
				var visit func(v ssa.Value)
				visit = func(v ssa.Value) {
					if seenV[v] || v.Referrers() == nil {
						return
					}
					seenV[v] = true
					for _, r := range *v.Referrers() {
						switch x := r.(type) {
						case *ssa.MapUpdate:
							if x.Value == v {
								stores++
							}
						case *ssa.Store:
							if x.Val == v {
								escapes = "stored to memory at " + c.P.Pos(x.Pos())
							}
						case *ssa.Phi:
							visit(x) // `m, ok := T[k]; if !ok { m = make(..); T[k] = m }`: the merge is only read
						}
					}
				}
				visit(mk)
				bad := ""
				switch {
				case stores != 1:
					bad = fmt.Sprintf("the same map is stored by %d updates", stores)
				case escapes != "":
					bad = "the map is also " + escapes
				default:
					for _, l := range loops {
						if l[mu.Block()] && !l[mk.Block()] {
							bad = "the map is created outside a loop that stores it on every iteration (one map for all keys)"
						}
					}
				}
				R.Check(bad == "", rule, key, cons, pos, "a map created for this key alone", bad+": "+what)
			}
		}
	}
	R.Role(rule, "table entries that are maps", n, 1)
}

func styleTables(t string) bool { return strings.Contains(t, "stylePolicy") }
func attrTables(t string) bool  { return strings.Contains(t, "attrPolicy") }
func anyTable(string) bool      { return true }

// freshRulePerIteration: in the style builders, a stylePolicy value that is modified inside a loop is created in that
// same loop — otherwise what the iteration for one property stores (the default handler of that property) stays in the
// value appended for the next property.
func freshRulePerIteration(c *Ctx, rule string) {
	R := c.R
	n := 0
	for _, name := range []string{"(*stylePolicyBuilder).OnElements", "(*stylePolicyBuilder).OnElementsMatching", "(*stylePolicyBuilder).Globally"} {
		fn := c.P.Func("github.com/microcosm-cc/bluemonday", name)
		if fn == nil {
			R.Unknown(rule, "fresh:"+name, name, "", "builder not found")
			continue
		}
		var loops []map[*ssa.BasicBlock]bool
		for _, b := range fn.Blocks {
			for _, p := range b.Preds {
				if b.Dominates(p) {
					loops = append(loops, model.NaturalLoop(b))
					break
				}
			}
		}
		for _, b := range fn.Blocks {
			for _, in := range b.Instrs {
				al, ok := in.(*ssa.Alloc)
				if !ok || !strings.HasSuffix(al.Type().String(), ".stylePolicy") || strings.Contains(al.Type().String(), "[") {
					continue
				}
				n++
				bad := ""
				for _, r := range *al.Referrers() {
					fa, ok := r.(*ssa.FieldAddr)
					if !ok {
						continue
					}
					for _, r2 := range *fa.Referrers() {
						st, ok := r2.(*ssa.Store)
						if !ok || st.Addr != ssa.Value(fa) {
							continue
						}
						for _, l := range loops {
							if l[st.Block()] && !l[al.Block()] {
								bad = "field " + pa.FieldName(fa) + " is stored at " + c.P.Pos(st.Pos()) + " inside a loop, but the rule value is created outside it"
							}
						}
					}
				}
				R.Check(bad == "", rule, "fresh:"+name, name+": the style rule value being built", c.P.Pos(al.Pos()), "created in the loop that fills it (or filled before the loop)", "a rule value that lives across iterations is modified inside the loop: "+bad+" — the matcher chosen for one property (its default handler) is kept for the following properties, whose conforming values are then judged by the wrong handler")
			}
		}
	}
	R.Role(rule, "style rule values built by the style builders", n, 1)
}

// tokenNameFixed: in (*Policy).sanitize the current token's Data (and Type) are never stored to after the token was
// read — the name the gates and the element tables judge is the name Token.String() writes.
func tokenNameFixed(c *Ctx, rule, consequence string) {
	R := c.R
	s, err := model.FindSan(c.P)
	if err != nil {
		R.Unknown(rule, "token-name", "(*Policy).sanitize", "", err.Error())
		return
	}
	n := 0
	for _, b := range s.Fn.Blocks {
		for _, in := range b.Instrs {
			st, ok := in.(*ssa.Store)
			if !ok {
				continue
			}
			root := st.Addr
			for {
				if fa, ok := root.(*ssa.FieldAddr); ok {
					root = fa.X
					continue
				}
				break
			}
			if root != ssa.Value(s.TokAlloc) {
				continue
			}
			n++
			fa, isField := st.Addr.(*ssa.FieldAddr)
			if !isField {
				continue // token := tokenizer.Token()
			}
			f := pa.FieldName(fa)
			R.Check(f != "Data" && f != "Type", rule, "token-name:"+f+":"+s.ArmOf(b), "(*Policy).sanitize arm "+s.ArmOf(b)+": store to token."+f, c.P.Pos(st.Pos()), "the token's name and type stay as read", "the token's "+f+" is rewritten after it was read: "+consequence)
		}
	}
	R.Role(rule, "stores to the current token", n, 1)
}

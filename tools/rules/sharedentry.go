package rules

import (
	"fmt"
	"go/types"
	"sort"
	"strings"

	"golang.org/x/tools/go/ssa"

	"verif/tools/model"
	"verif/tools/pa"
)

// sharedEntryRule: no two keys of a rule table share one mutable entry.  Every map that is stored as the entry of a
// Policy table (p.T[k] = m, T's element type a map) is created by a make / literal that (a) is stored by exactly
// that one update and (b) lies inside every loop that contains the update — so each key gets a map of its own.
// A map built once and stored under several keys (in a loop over element names, or by two updates) makes a later
// rule for one key apply to the others as well.  `want` selects the tables by the type of their entries.
func sharedEntryRule(c *Ctx, rule string, want func(tableType string) bool, what string) {
	R := c.R
	n := 0
	for _, fn := range moduleFuncs(c.P) {
		if fn.Pkg == nil || fn.Pkg.Pkg.Path() != "github.com/microcosm-cc/bluemonday" {
			continue
		}
		var loops []map[*ssa.BasicBlock]bool
		for _, b := range fn.Blocks {
			for _, p := range b.Preds {
				if b.Dominates(p) {
					loops = append(loops, model.NaturalLoop(b))
					break
				}
			}
		}
		perField := map[string]int{}
		for _, b := range fn.Blocks {
			for _, in := range b.Instrs {
				mu, ok := in.(*ssa.MapUpdate)
				if !ok {
					continue
				}
				field := model.LoadedPolicyField(mu.Map)
				if field == "" {
					continue
				}
				if _, isMap := mu.Value.Type().Underlying().(*types.Map); !isMap {
					continue
				}
				if !want(mu.Map.Type().String()) {
					continue
				}
				n++
				perField[field]++
				key := fmt.Sprintf("%s:%s#%d", pa.CalleeName(fn), field, perField[field])
				cons := fmt.Sprintf("%s: entry of %s stored", pa.CalleeName(fn), field)
				pos := c.P.Pos(mu.Pos())
				mk, isMake := mu.Value.(*ssa.MakeMap)
				if !isMake {
					R.Fail(rule, key, cons, pos, "the map stored as this table entry is not created here ("+stripIDs(fmt.Sprintf("%T", mu.Value))+"): it may be the entry of another key as well, so "+what)
					continue
				}
				stores := 0
				escapes := ""
				seenV := map[ssa.Value]bool{}
				var visit func(v ssa.Value)
				visit = func(v ssa.Value) {
					if seenV[v] || v.Referrers() == nil {
						return
					}
					seenV[v] = true
					for _, r := range *v.Referrers() {
						switch x := r.(type) {
						case *ssa.MapUpdate:
							if x.Value == v {
								stores++
							}
						case *ssa.Store:
							if x.Val == v {
								escapes = "stored to memory at " + c.P.Pos(x.Pos())
							}
						case *ssa.Phi:
							visit(x) // `m, ok := T[k]; if !ok { m = make(..); T[k] = m }`: the merge is only read
						}
					}
				}
				visit(mk)
				bad := ""
				switch {
				case stores != 1:
					bad = fmt.Sprintf("the same map is stored by %d updates", stores)
				case escapes != "":
					bad = "the map is also " + escapes
				default:
					for _, l := range loops {
						if l[mu.Block()] && !l[mk.Block()] {
							bad = "the map is created outside a loop that stores it on every iteration (one map for all keys)"
						}
					}
				}
				R.Check(bad == "", rule, key, cons, pos, "a map created for this key alone", bad+": "+what)
			}
		}
	}
	R.Role(rule, "table entries that are maps", n, 1)
}

func styleTables(t string) bool { return strings.Contains(t, "stylePolicy") }
func attrTables(t string) bool  { return strings.Contains(t, "attrPolicy") }
func anyTable(string) bool      { return true }

// freshRulePerIteration: in the style builders, a stylePolicy value that is modified inside a loop is created in that
// same loop — otherwise what the iteration for one property stores (the default handler of that property) stays in the
// value appended for the next property.
func freshRulePerIteration(c *Ctx, rule string) {
	R := c.R
	n := 0
	for _, name := range []string{"(*stylePolicyBuilder).OnElements", "(*stylePolicyBuilder).OnElementsMatching", "(*stylePolicyBuilder).Globally"} {
		fn := c.P.Func("github.com/microcosm-cc/bluemonday", name)
		if fn == nil {
			R.Unknown(rule, "fresh:"+name, name, "", "builder not found")
			continue
		}
		var loops []map[*ssa.BasicBlock]bool
		for _, b := range fn.Blocks {
			for _, p := range b.Preds {
				if b.Dominates(p) {
					loops = append(loops, model.NaturalLoop(b))
					break
				}
			}
		}
		for _, b := range fn.Blocks {
			for _, in := range b.Instrs {
				al, ok := in.(*ssa.Alloc)
				if !ok || !strings.HasSuffix(al.Type().String(), ".stylePolicy") || strings.Contains(al.Type().String(), "[") {
					continue
				}
				n++
				bad := ""
				for _, r := range *al.Referrers() {
					fa, ok := r.(*ssa.FieldAddr)
					if !ok {
						continue
					}
					for _, r2 := range *fa.Referrers() {
						st, ok := r2.(*ssa.Store)
						if !ok || st.Addr != ssa.Value(fa) {
							continue
						}
						for _, l := range loops {
							if l[st.Block()] && !l[al.Block()] {
								bad = "field " + pa.FieldName(fa) + " is stored at " + c.P.Pos(st.Pos()) + " inside a loop, but the rule value is created outside it"
							}
						}
					}
				}
				R.Check(bad == "", rule, "fresh:"+name, name+": the style rule value being built", c.P.Pos(al.Pos()), "created in the loop that fills it (or filled before the loop)", "a rule value that lives across iterations is modified inside the loop: "+bad+" — the matcher chosen for one property (its default handler) is kept for the following properties, whose conforming values are then judged by the wrong handler")
			}
		}
	}
	R.Role(rule, "style rule values built by the style builders", n, 1)
}

// tokenNameFixed: in (*Policy).sanitize the current token's Data (and Type) are never stored to after the token was
// read — the name the gates and the element tables judge is the name Token.String() writes.
func tokenNameFixed(c *Ctx, rule, consequence string) {
	R := c.R
	s, err := model.FindSan(c.P)
	if err != nil {
		R.Unknown(rule, "token-name", "(*Policy).sanitize", "", err.Error())
		return
	}
	n := 0
	for _, b := range s.Fn.Blocks {
		for _, in := range b.Instrs {
			st, ok := in.(*ssa.Store)
			if !ok {
				continue
			}
			root := st.Addr
			for {
				if fa, ok := root.(*ssa.FieldAddr); ok {
					root = fa.X
					continue
				}
				break
			}
			if root != ssa.Value(s.TokAlloc) {
				continue
			}
			n++
			fa, isField := st.Addr.(*ssa.FieldAddr)
			if !isField {
				continue // token := tokenizer.Token()
			}
			f := pa.FieldName(fa)
			R.Check(f != "Data" && f != "Type", rule, "token-name:"+f+":"+s.ArmOf(b), "(*Policy).sanitize arm "+s.ArmOf(b)+": store to token."+f, c.P.Pos(st.Pos()), "the token's name and type stay as read", "the token's "+f+" is rewritten after it was read: "+consequence)
		}
	}
	R.Role(rule, "stores to the current token", n, 1)
}

// optionsSurviveInit: a Policy that already exists is only ever updated field by field.  A store of a whole Policy value
// through a pointer that was not allocated in the storing function (`*p = Policy{…}` on the receiver — a "tidier" lazy
// init) resets every option the literal does not name: options set before the first rule (on a zero-value Policy{}) are
// silently lost.
func optionsSurviveInit(c *Ctx, rule, consequence string) {
	R := c.R
	n, nBad := 0, 0
	for _, fn := range moduleFuncs(c.P) {
		if fn.Pkg == nil || fn.Pkg.Pkg.Path() != "github.com/microcosm-cc/bluemonday" {
			continue
		}
		cnt := 0
		for _, b := range fn.Blocks {
			for _, in := range b.Instrs {
				st, ok := in.(*ssa.Store)
				if !ok || !isPolicyPtr(st.Addr.Type()) {
					continue
				}
				n++
				if _, fresh := st.Addr.(*ssa.Alloc); fresh {
					continue // a policy being created here
				}
				cnt++
				nBad++
				R.Fail(rule, fmt.Sprintf("whole-store:%s#%d", pa.CalleeName(fn), cnt), pa.CalleeName(fn)+": store of a whole Policy value through "+stripIDs(st.Addr.Name()), c.P.Pos(st.Pos()), "an existing policy is overwritten as a whole: every option and rule the stored value does not carry is reset — "+consequence)
			}
		}
	}
	if nBad == 0 {
		R.OK(rule, "whole-store:none", fmt.Sprintf("module functions: %d stores of whole Policy values, all into policies allocated by the storing function", n), "", "existing policies are only updated field by field")
	}
}

// noInternalPatternRegistration (C01.R9): the functions that store into the element-pattern tables are the exported
// pattern builders, and nothing in the module calls them — every element pattern of a policy was handed in by the
// caller.  A library-side registration (a convenience that maps "globally" onto a match-all element pattern) would admit
// elements the user never allowed.
func noInternalPatternRegistration(c *Ctx, rule string) {
	R := c.R
	F := model.FindFields(c.P)
	field := F.Get("elsMatchingAndAttrs")
	if field == "" {
		R.Unknown(rule, "field", "Policy element-pattern table", "", "role not resolvable")
		return
	}
	writers := map[*ssa.Function]bool{}
	for _, fn := range moduleFuncs(c.P) {
		for _, b := range fn.Blocks {
			for _, in := range b.Instrs {
				if mu, ok := in.(*ssa.MapUpdate); ok && model.LoadedPolicyField(mu.Map) == field {
					writers[fn] = true
				}
			}
		}
	}
	n := 0
	for _, fn := range moduleFuncs(c.P) {
		cnt := 0
		for _, b := range fn.Blocks {
			for _, in := range b.Instrs {
				ci, ok := in.(ssa.CallInstruction)
				if !ok {
					continue
				}
				cal := ci.Common().StaticCallee()
				if cal == nil || !writers[cal] {
					continue
				}
				cnt++
				n++
				R.Fail(rule, fmt.Sprintf("internal-call:%s->%s#%d", pa.CalleeName(fn), pa.CalleeName(cal), cnt), pa.CalleeName(fn)+": call of "+pa.CalleeName(cal), c.P.Pos(in.Pos()), "the library itself registers an element pattern: elements matching it are admitted although the user's policy never allowed them")
			}
		}
	}
	var ws []string
	for w := range writers {
		ws = append(ws, pa.CalleeName(w))
	}
	sort.Strings(ws)
	R.Role(rule, "functions storing into the element-pattern table", len(writers), 1)
	if n == 0 {
		R.OK(rule, "internal-call:none", "writers of the element-pattern table: "+strings.Join(ws, ", "), "", "none of them is called from within the module")
	}
}

// namesAsDelivered (C07.R9): in (*Policy).sanitize every lookup in a policy table keyed by element name, and every
// element-name argument handed to the module's own functions, is token.Data itself — the tokenizer's lower-cased name,
// which is what the builders store (strings.ToLower).  A transformed name (escaped, re-quoted, trimmed) no longer matches
// the rule registered for an element whose name the transformation changes.
func namesAsDelivered(c *Ctx, rule string) {
	R := c.R
	s, err := model.FindSan(c.P)
	if err != nil {
		R.Unknown(rule, "sanitize", "(*Policy).sanitize", "", err.Error())
		return
	}
	n := 0
	cnt := map[string]int{}
	for _, b := range s.Fn.Blocks {
		arm := s.ArmOf(b)
		if arm != "StartTag" && arm != "EndTag" && arm != "SelfClosingTag" {
			continue
		}
		for _, in := range b.Instrs {
			switch x := in.(type) {
			case *ssa.Lookup:
				f := model.LoadedPolicyField(x.X)
				if f == "" {
					continue
				}
				if bt, ok := x.Index.Type().Underlying().(*types.Basic); !ok || bt.Info()&types.IsString == 0 {
					continue
				}
				n++
				cnt[f+arm]++
				R.Check(s.TokenField(x.Index) == "Data", rule, fmt.Sprintf("lookup:%s:%s#%d", arm, f, cnt[f+arm]), "(*Policy).sanitize arm "+arm+": lookup in "+f, c.P.Pos(x.Pos()), "keyed by token.Data", "the table is consulted with "+stripIDs(s.A.Sym.Of(x.Index))+" instead of the name the tokenizer delivered: an element whose name that transformation changes no longer finds its own rule")
			case *ssa.Call:
				cal := x.Common().StaticCallee()
				if cal == nil || cal.Pkg == nil || cal.Pkg.Pkg.Path() != "github.com/microcosm-cc/bluemonday" || cal.Signature.Recv() == nil || !isPolicyPtr(cal.Signature.Recv().Type()) {
					continue
				}
				if len(x.Common().Args) < 2 {
					continue
				}
				a := x.Common().Args[1]
				if bt, ok := a.Type().Underlying().(*types.Basic); !ok || bt.Info()&types.IsString == 0 {
					continue
				}
				n++
				cnt[cal.Name()+arm]++
				R.Check(s.TokenField(a) == "Data", rule, fmt.Sprintf("call:%s:%s#%d", arm, cal.Name(), cnt[cal.Name()+arm]), "(*Policy).sanitize arm "+arm+": "+pa.CalleeName(cal)+"(name, …)", c.P.Pos(x.Pos()), "called with token.Data", "called with "+stripIDs(s.A.Sym.Of(a))+" instead of the name the tokenizer delivered")
			}
		}
	}
	R.Role(rule, "element-name lookups and calls in the tag arms", n, 6)
}

// matchedIsSticky: in matchRegex the boolean result, once true, stays true for the rest of the scan (it is only ever
// assigned the constant true inside the loop) — otherwise the verdict depends on which pattern the map iteration visits
// last, and the arms that use matchRegex disagree with the end-tag arm's own scan.
func matchedIsSticky(c *Ctx, rule string) {
	R := c.R
	fn := c.P.Func("github.com/microcosm-cc/bluemonday", "(*Policy).matchRegex")
	if fn == nil {
		R.Unknown(rule, "matchRegex", "(*Policy).matchRegex", "", "function not found")
		return
	}
	n := 0
	for _, l := range model.RangeLoopsAll(fn) {
		if !l.IsMap {
			continue
		}
		for _, in := range l.Header.Instrs {
			ph, ok := in.(*ssa.Phi)
			if !ok || ph.Type().String() != "bool" {
				continue
			}
			n++
			bad := ""
			for i, pred := range l.Header.Preds {
				if !l.Blocks[pred] {
					continue
				}
				var chk func(v ssa.Value, d int) bool
				chk = func(v ssa.Value, d int) bool {
					if v == ssa.Value(ph) || model.IsTrue(v) {
						return true
					}
					if p2, ok := v.(*ssa.Phi); ok && d < 4 && l.Blocks[p2.Block()] {
						for _, e := range p2.Edges {
							if !chk(e, d+1) {
								return false
							}
						}
						return true
					}
					return false
				}
				if !chk(ph.Edges[i], 0) {
					bad = "on the back edge from block " + pred.String() + " the flag receives " + stripIDs(ph.Edges[i].Name()) + " (a value of the current iteration)"
				}
			}
			R.Check(bad == "", rule, fmt.Sprintf("matchRegex:flag#%d", n), "(*Policy).matchRegex: boolean carried around the pattern scan", c.P.Pos(ph.Pos()), "only ever set to true inside the scan", "the match flag is not sticky: "+bad+" — an element admitted by one pattern is reported as not admitted when a non-matching pattern is visited later (map order), so its start tag and end tag can be judged differently")
		}
	}
	R.Role(rule, "flags carried around matchRegex's pattern scan", n, 1)
}

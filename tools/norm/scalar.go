package norm

import (
	"fmt"
	"go/ast"
	"go/token"
	"go/types"
	"strings"

	"golang.org/x/tools/go/packages"
)

// Scalarise computes one round of two local, semantics-preserving rewrites that undo "state moved into a struct":
//
//	S1  a local pointer that is bound once to the address of a local struct (or slice) variable (`p := &x`, the form the
//	    inliner gives a `*T` parameter) and never re-bound is replaced by the variable itself at every use
//	    (`p.f` → `x.f`, `*p` → `x`, any other use → `(&x)`);
//	S2  a local struct variable that is declared with its zero value and only ever used through selections of its
//	    direct fields is split into one local variable per field (`x.f` → `x_f_sclK`).
//
// After both, what was loop state held in a struct is again a set of scalar locals, which go/ssa lifts to registers
// and φs — the shape every rule is written against.  Each group of edits is validated by the type checker by the
// caller; original positions are preserved with /*line*/ directives.
func Scalarise(pkgs []*packages.Package, src map[string][]byte, counter *int) ([]Edit, []string) {
	var all []Edit
	var log []string
	for _, p := range pkgs {
		pl := &planner{pkg: p, fset: p.Fset, info: p.TypesInfo, src: src, counter: counter}
		for _, f := range p.Syntax {
			for _, d := range f.Decls {
				if fd, ok := d.(*ast.FuncDecl); ok && fd.Body != nil {
					pl.scalarFunc(fd, f)
				}
			}
		}
		all = append(all, pl.edits...)
		log = append(log, pl.log...)
	}
	return all, log
}

func (pl *planner) scalarFunc(fd *ast.FuncDecl, file *ast.File) {
	fname := pl.fset.PositionFor(fd.Pos(), false).Filename
	if pl.src[fname] == nil {
		return
	}
	parent := map[ast.Node]ast.Node{}
	var stack []ast.Node
	ast.Inspect(fd.Body, func(n ast.Node) bool {
		if n == nil {
			stack = stack[:len(stack)-1]
			return true
		}
		if len(stack) > 0 {
			parent[n] = stack[len(stack)-1]
		}
		stack = append(stack, n)
		return true
	})
	local := func(o types.Object) *types.Var {
		v, ok := o.(*types.Var)
		if !ok || v.IsField() || v.Pos() < fd.Pos() || v.Pos() >= fd.End() {
			return nil
		}
		return v
	}
	uses := map[*types.Var][]*ast.Ident{}
	ast.Inspect(fd.Body, func(n ast.Node) bool {
		if id, ok := n.(*ast.Ident); ok {
			if v := local(pl.info.Uses[id]); v != nil {
				uses[v] = append(uses[v], id)
			}
		}
		return true
	})
	// up skips parentheses
	up := func(n ast.Node) (ast.Node, ast.Node) {
		c := n
		p := parent[c]
		for {
			if pe, ok := p.(*ast.ParenExpr); ok {
				c, p = pe, parent[pe]
				continue
			}
			return c, p
		}
	}
	written := func(id *ast.Ident) bool {
		c, p := up(id)
		switch x := p.(type) {
		case *ast.AssignStmt:
			for _, l := range x.Lhs {
				if l == c {
					return true
				}
			}
		case *ast.IncDecStmt:
			return true
		case *ast.UnaryExpr:
			return x.Op == token.AND
		case *ast.RangeStmt:
			return x.Key == c || x.Value == c
		}
		return false
	}
	structOf := func(t types.Type) *types.Struct {
		s, _ := t.Underlying().(*types.Struct)
		return s
	}

	// writtenDeep: the variable, or (for a struct / array value) a part of it, is assigned, incremented, has its
	// address taken, or is the addressable operand of a pointer-receiver method call.
	writtenDeep := func(id *ast.Ident) bool {
		var c ast.Node = id
		for {
			cc, p := up(c)
			switch x := p.(type) {
			case *ast.SelectorExpr:
				if x.X == cc {
					if sel := pl.info.Selections[x]; sel != nil {
						switch sel.Kind() {
						case types.FieldVal:
							if _, isPtr := pl.info.TypeOf(x.X).Underlying().(*types.Pointer); !isPtr {
								c = x
								continue
							}
							return false
						case types.MethodVal:
							if sig, ok := sel.Obj().Type().(*types.Signature); ok && sig.Recv() != nil {
								_, recvPtr := sig.Recv().Type().(*types.Pointer)
								_, xPtr := pl.info.TypeOf(x.X).Underlying().(*types.Pointer)
								return recvPtr && !xPtr
							}
						}
					}
				}
				return false
			case *ast.IndexExpr:
				if x.X == cc {
					if _, isArr := pl.info.TypeOf(x.X).Underlying().(*types.Array); isArr {
						c = x
						continue
					}
				}
				return false
			case *ast.AssignStmt:
				for _, l := range x.Lhs {
					if l == cc {
						return true
					}
				}
				return false
			case *ast.IncDecStmt:
				return true
			case *ast.UnaryExpr:
				return x.Op == token.AND
			case *ast.RangeStmt:
				return x.Key == cc || x.Value == cc
			case *ast.SliceExpr:
				if x.X == cc {
					_, isArr := pl.info.TypeOf(x.X).Underlying().(*types.Array)
					return isArr // slicing an array takes its address
				}
				return false
			}
			return false
		}
	}
	inFuncLit := func(n ast.Node) bool {
		for p := parent[n]; p != nil; p = parent[p] {
			if _, ok := p.(*ast.FuncLit); ok {
				return true
			}
		}
		return false
	}

	// ---- S0: a local bound once to another local (`var n T = x`, the form the inliner gives a parameter) that is
	// never written, while x is not written as long as n is in scope, is replaced by x
	type copyOf struct {
		n, x *types.Var
		val  ast.Expr
	}
	var copies []copyOf
	ast.Inspect(fd.Body, func(nd ast.Node) bool {
		vs, ok := nd.(*ast.ValueSpec)
		if !ok || len(vs.Names) != 1 || len(vs.Values) != 1 || vs.Names[0].Name == "_" {
			return true
		}
		id, ok := ast.Unparen(vs.Values[0]).(*ast.Ident)
		if !ok {
			return true
		}
		x := local(pl.info.Uses[id])
		n, _ := pl.info.Defs[vs.Names[0]].(*types.Var)
		if x == nil || n == nil || !types.Identical(x.Type(), n.Type()) {
			return true
		}
		copies = append(copies, copyOf{n, x, vs.Values[0]})
		return true
	})
	doneS0 := false
	for _, c := range copies {
		ok := len(uses[c.n]) > 0
		for _, id := range uses[c.n] {
			if writtenDeep(id) {
				ok = false
			}
			sc := pl.pkg.Types.Scope().Innermost(id.Pos())
			if sc == nil {
				ok = false
				continue
			}
			if _, found := sc.LookupParent(c.x.Name(), id.Pos()); found != types.Object(c.x) {
				ok = false
			}
		}
		nsc := c.n.Parent()
		if nsc == nil {
			ok = false
		}
		for _, id := range uses[c.x] {
			if !ok {
				break
			}
			w := writtenDeep(id)
			if w && (inFuncLit(id) || (id.Pos() >= nsc.Pos() && id.Pos() < nsc.End())) {
				ok = false
			}
			// the address of x (or of a part of it) taken anywhere: x may change behind the copy
			_, p := up(id)
			if u, isU := p.(*ast.UnaryExpr); isU && u.Op == token.AND {
				ok = false
			}
		}
		if !ok {
			continue
		}
		real := 0
		for _, id := range uses[c.n] {
			_, p := up(id)
			if as, isA := p.(*ast.AssignStmt); !(isA && len(as.Lhs) == 1 && isBlank(as.Lhs[0])) {
				real++
			}
		}
		if real == 0 {
			continue
		}
		ts, okT := pl.typeString(c.n.Type(), file)
		if !okT {
			continue
		}
		*pl.counter++
		k := *pl.counter
		site := fmt.Sprintf("%s: copy %s of %s replaced by the variable", fd.Name.Name, c.n.Name(), c.x.Name())
		add := func(from, to token.Pos, text string) {
			pl.edits = append(pl.edits, Edit{File: fname, Start: pl.offset(from), End: pl.offset(to), Text: text + pl.lineDirective(to), Site: site, group: k})
		}
		add(c.val.Pos(), c.val.End(), "*new("+ts+")")
		for _, id := range uses[c.n] {
			_, p := up(id)
			if as, isA := p.(*ast.AssignStmt); isA && len(as.Lhs) == 1 && isBlank(as.Lhs[0]) {
				continue
			}
			add(id.Pos(), id.End(), c.x.Name())
		}
		pl.log = append(pl.log, "scalarised: "+site)
		doneS0 = true
	}
	if doneS0 {
		return
	}

	// ---- S1
	type alias struct {
		p, x   *types.Var
		val    ast.Expr // the `&x` expression in the definition
		keepTo ast.Node
	}
	var aliases []alias
	addrOfLocal := func(e ast.Expr) *types.Var {
		u, ok := ast.Unparen(e).(*ast.UnaryExpr)
		if !ok || u.Op != token.AND {
			return nil
		}
		id, ok := ast.Unparen(u.X).(*ast.Ident)
		if !ok {
			return nil
		}
		v := local(pl.info.Uses[id])
		if v == nil {
			return nil
		}
		// a struct (state gathered into a struct and handed to helpers by pointer) or a slice (a list handed to a
		// helper that appends to it through the pointer)
		if structOf(v.Type()) == nil {
			if _, isSlice := v.Type().Underlying().(*types.Slice); !isSlice {
				return nil
			}
		}
		return v
	}
	ast.Inspect(fd.Body, func(n ast.Node) bool {
		switch s := n.(type) {
		case *ast.ValueSpec:
			if len(s.Names) == 1 && len(s.Values) == 1 && s.Names[0].Name != "_" {
				if x := addrOfLocal(s.Values[0]); x != nil {
					if p, ok := pl.info.Defs[s.Names[0]].(*types.Var); ok {
						aliases = append(aliases, alias{p: p, x: x, val: s.Values[0]})
					}
				}
			}
		case *ast.AssignStmt:
			if s.Tok == token.DEFINE && len(s.Lhs) == 1 && len(s.Rhs) == 1 {
				if id, ok := s.Lhs[0].(*ast.Ident); ok && id.Name != "_" {
					if x := addrOfLocal(s.Rhs[0]); x != nil {
						if p, ok := pl.info.Defs[id].(*types.Var); ok {
							aliases = append(aliases, alias{p: p, x: x, val: s.Rhs[0]})
						}
					}
				}
			}
		}
		return true
	})
	doneS1 := false
	for _, a := range aliases {
		ok := true
		for _, id := range uses[a.p] {
			if written(id) {
				ok = false
			}
			// x must mean the same variable where p is used
			sc := pl.pkg.Types.Scope().Innermost(id.Pos())
			if sc == nil {
				ok = false
				continue
			}
			if _, found := sc.LookupParent(a.x.Name(), id.Pos()); found != types.Object(a.x) {
				ok = false
			}
		}
		if !ok || len(uses[a.p]) == 0 {
			continue
		}
		onlyKeep := true
		for _, id := range uses[a.p] {
			_, p := up(id)
			if as, isA := p.(*ast.AssignStmt); !(isA && len(as.Lhs) == 1 && isBlank(as.Lhs[0])) {
				onlyKeep = false
			}
		}
		if onlyKeep {
			continue // already rewritten
		}
		ts, okT := pl.typeString(a.p.Type(), file)
		if !okT {
			continue
		}
		*pl.counter++
		k := *pl.counter
		site := fmt.Sprintf("%s: pointer %s bound once to &%s replaced by the variable", fd.Name.Name, a.p.Name(), a.x.Name())
		add := func(from, to token.Pos, text string) {
			pl.edits = append(pl.edits, Edit{File: fname, Start: pl.offset(from), End: pl.offset(to), Text: text + pl.lineDirective(to), Site: site, group: k})
		}
		add(a.val.Pos(), a.val.End(), "("+ts+")(nil)")
		for _, id := range uses[a.p] {
			c, p := up(id)
			switch x := p.(type) {
			case *ast.AssignStmt:
				if len(x.Lhs) == 1 && isBlank(x.Lhs[0]) {
					continue // the keep-alive `_ = p`
				}
				add(id.Pos(), id.End(), "(&"+a.x.Name()+")")
			case *ast.SelectorExpr:
				if x.X == c {
					add(c.Pos(), c.End(), a.x.Name())
				} else {
					add(id.Pos(), id.End(), "(&"+a.x.Name()+")")
				}
			case *ast.StarExpr:
				add(x.Pos(), x.End(), "("+a.x.Name()+")")
			default:
				add(id.Pos(), id.End(), "(&"+a.x.Name()+")")
			}
		}
		pl.log = append(pl.log, "scalarised: "+site)
		doneS1 = true
	}
	if doneS1 {
		return // S2 on the next round, once the aliases are gone
	}

	// ---- S2
	type decl struct {
		x    *types.Var
		node ast.Node // the statement to replace
	}
	var decls []decl
	emptyLit := func(e ast.Expr) bool {
		cl, ok := ast.Unparen(e).(*ast.CompositeLit)
		return ok && len(cl.Elts) == 0
	}
	ast.Inspect(fd.Body, func(n ast.Node) bool {
		switch s := n.(type) {
		case *ast.DeclStmt:
			gd, ok := s.Decl.(*ast.GenDecl)
			if !ok || gd.Tok != token.VAR || len(gd.Specs) != 1 {
				return true
			}
			vs := gd.Specs[0].(*ast.ValueSpec)
			if len(vs.Names) != 1 || vs.Names[0].Name == "_" {
				return true
			}
			if len(vs.Values) == 1 && !emptyLit(vs.Values[0]) || len(vs.Values) > 1 {
				return true
			}
			if x, ok := pl.info.Defs[vs.Names[0]].(*types.Var); ok && structOf(x.Type()) != nil {
				decls = append(decls, decl{x, s})
			}
		case *ast.AssignStmt:
			if s.Tok == token.DEFINE && len(s.Lhs) == 1 && len(s.Rhs) == 1 && emptyLit(s.Rhs[0]) {
				if _, inFor := parent[s].(*ast.ForStmt); inFor {
					return true
				}
				if _, inIf := parent[s].(*ast.IfStmt); inIf {
					return true
				}
				if _, inSw := parent[s].(*ast.SwitchStmt); inSw {
					return true
				}
				if id, ok := s.Lhs[0].(*ast.Ident); ok && id.Name != "_" {
					if x, ok := pl.info.Defs[id].(*types.Var); ok && structOf(x.Type()) != nil {
						decls = append(decls, decl{x, s})
					}
				}
			}
		}
		return true
	})
	for _, d := range decls {
		st := structOf(d.x.Type())
		if st.NumFields() == 0 || len(uses[d.x]) == 0 {
			continue
		}
		ok := true
		var sels []*ast.SelectorExpr
		for _, id := range uses[d.x] {
			c, p := up(id)
			se, isSel := p.(*ast.SelectorExpr)
			if !isSel || se.X != c {
				ok = false
				break
			}
			sel := pl.info.Selections[se]
			if sel == nil || sel.Kind() != types.FieldVal || len(sel.Index()) != 1 {
				ok = false
				break
			}
			sels = append(sels, se)
		}
		if !ok {
			continue
		}
		*pl.counter++
		k := *pl.counter
		sfx := fmt.Sprintf("_scl%d", k)
		var specs, names, blanks []string
		for i := 0; i < st.NumFields(); i++ {
			f := st.Field(i)
			if f.Name() == "_" {
				continue
			}
			ts, okT := pl.typeString(f.Type(), file)
			if !okT {
				ok = false
				break
			}
			n := d.x.Name() + "_" + f.Name() + sfx
			specs = append(specs, n+" "+ts)
			names = append(names, n)
			blanks = append(blanks, "_")
		}
		if !ok || len(names) == 0 {
			continue
		}
		site := fmt.Sprintf("%s: local struct %s (%s) split into its %d fields", fd.Name.Name, d.x.Name(), types.TypeString(d.x.Type(), func(*types.Package) string { return "" }), len(names))
		add := func(from, to token.Pos, text string) {
			pl.edits = append(pl.edits, Edit{File: fname, Start: pl.offset(from), End: pl.offset(to), Text: text + pl.lineDirective(to), Site: site, group: k})
		}
		add(d.node.Pos(), d.node.End(), "var ( "+strings.Join(specs, "; ")+" ); "+strings.Join(blanks, ", ")+" = "+strings.Join(names, ", "))
		for _, se := range sels {
			add(se.Pos(), se.End(), d.x.Name()+"_"+se.Sel.Name+sfx)
		}
		pl.log = append(pl.log, "scalarised: "+site)
	}
}

func isBlank(e ast.Expr) bool {
	id, ok := e.(*ast.Ident)
	return ok && id.Name == "_"
}

// Package norm normalises the analysed program before any rule looks at it: calls of unexported module
// functions that are not anchors of a rule (helpers a refactoring introduced) are inlined back into their
// callers, textually, on an in-memory overlay of /repo's files.  The rules then see one shape whether or not a block
// was extracted into a helper.  /*line*/ directives keep every original token at its original position, and give
// inlined statements the position they have in the helper's declaration.
//
// The transformation preserves behaviour: arguments are bound to fresh variables in call order, every local of the
// callee gets a unique name, `return e` becomes an assignment to fresh result variables followed by a break out of a
// one-iteration labelled loop, and a call is only moved in front of its statement when everything the statement
// evaluates before the call is free of side effects.  Sites that do not meet the conditions are left alone.
package norm

import (
	"fmt"
	"go/ast"
	"go/token"
	"go/types"
	"path/filepath"
	"sort"
	"strings"

	"golang.org/x/tools/go/packages"
)

// Edit replaces bytes [Start,End) of File by Text.
type Edit struct {
	File       string
	Start, End int
	Text       string
	Site       string // human-readable: caller -> callee at position
	group      int
}

type planner struct {
	pkg     *packages.Package
	fset    *token.FileSet
	info    *types.Info
	src     map[string][]byte
	decls   map[*types.Func]*ast.FuncDecl
	fileOf  map[*ast.FuncDecl]*ast.File
	cand    map[*types.Func]bool
	counter *int
	edits   []Edit
	log     []string
	// closures: local variables bound once to a function literal and only ever called
	closures map[*types.Var]*ast.FuncLit
	closDef  map[*types.Var]ast.Stmt // the defining statement
	closKeep map[*types.Var]bool     // a `_ = name` keep-alive already follows the definition
	closCall map[*types.Var]int      // number of remaining call sites
}

// Plan computes one round of inlining edits for the given packages.  isAnchor says which functions must stay.
// src holds the current contents of every file (overlay or disk).
func Plan(pkgs []*packages.Package, src map[string][]byte, isAnchor func(*types.Func) bool, counter *int) ([]Edit, []string) {
	var all []Edit
	var log []string
	for _, p := range pkgs {
		pl := &planner{pkg: p, fset: p.Fset, info: p.TypesInfo, src: src, decls: map[*types.Func]*ast.FuncDecl{}, fileOf: map[*ast.FuncDecl]*ast.File{}, cand: map[*types.Func]bool{}, counter: counter, closures: map[*types.Var]*ast.FuncLit{}, closDef: map[*types.Var]ast.Stmt{}, closKeep: map[*types.Var]bool{}, closCall: map[*types.Var]int{}}
		for _, f := range p.Syntax {
			for _, d := range f.Decls {
				if fd, ok := d.(*ast.FuncDecl); ok {
					if obj, ok := p.TypesInfo.Defs[fd.Name].(*types.Func); ok {
						pl.decls[obj] = fd
						pl.fileOf[fd] = f
					}
				}
			}
		}
		pl.findCandidates(isAnchor)
		pl.findClosures()
		for _, f := range p.Syntax {
			for _, d := range f.Decls {
				if fd, ok := d.(*ast.FuncDecl); ok && fd.Body != nil {
					pl.walkList(fd, f, fd.Body.List)
				}
			}
		}
		all = append(all, pl.edits...)
		log = append(log, pl.log...)
	}
	return all, log
}

func (pl *planner) findCandidates(isAnchor func(*types.Func) bool) {
	calls := map[*types.Func][]*types.Func{}
	for obj, fd := range pl.decls {
		if fd.Body == nil {
			continue
		}
		ast.Inspect(fd.Body, func(n ast.Node) bool {
			if c, ok := n.(*ast.CallExpr); ok {
				if callee := pl.staticCallee(c); callee != nil {
					calls[obj] = append(calls[obj], callee)
				}
			}
			return true
		})
	}
	reaches := func(from, to *types.Func) bool {
		seen := map[*types.Func]bool{}
		var dfs func(f *types.Func) bool
		dfs = func(f *types.Func) bool {
			for _, g := range calls[f] {
				if g == to {
					return true
				}
				if !seen[g] {
					seen[g] = true
					if dfs(g) {
						return true
					}
				}
			}
			return false
		}
		return dfs(from)
	}
	for obj, fd := range pl.decls {
		if fd.Body == nil || ast.IsExported(fd.Name.Name) || fd.Name.Name == "init" || fd.Name.Name == "main" || isAnchor(obj) {
			continue
		}
		if fd.Type.TypeParams != nil && len(fd.Type.TypeParams.List) > 0 {
			continue
		}
		if fd.Recv != nil && len(fd.Recv.List) == 1 {
			// methods of generic types are not handled
			if _, isIdx := ast.Unparen(recvBase(fd.Recv.List[0].Type)).(*ast.IndexExpr); isIdx {
				continue
			}
		}
		bad := false
		ast.Inspect(fd.Body, func(n ast.Node) bool {
			switch x := n.(type) {
			case *ast.DeferStmt, *ast.GoStmt:
				bad = true
			case *ast.BranchStmt:
				if x.Tok == token.GOTO {
					bad = true
				}
			case *ast.CallExpr:
				if id, ok := x.Fun.(*ast.Ident); ok && id.Name == "recover" {
					bad = true
				}
			}
			return !bad
		})
		if bad || reaches(obj, obj) {
			continue
		}
		pl.cand[obj] = true
	}
}

// findClosures: `name := func(…) … { … }` where name is never reassigned, never passed on and only ever called
// (apart from a `_ = name` keep-alive), and the literal has no defer/go/recover and does not call itself.
func (pl *planner) findClosures() {
	for _, f := range pl.pkg.Syntax {
		ast.Inspect(f, func(n ast.Node) bool {
			as, ok := n.(*ast.AssignStmt)
			if !ok || as.Tok != token.DEFINE || len(as.Lhs) != 1 || len(as.Rhs) != 1 {
				return true
			}
			id, ok := as.Lhs[0].(*ast.Ident)
			fl, ok2 := as.Rhs[0].(*ast.FuncLit)
			if !ok || !ok2 {
				return true
			}
			v, ok := pl.info.Defs[id].(*types.Var)
			if !ok {
				return true
			}
			pl.closures[v] = fl
			pl.closDef[v] = as
			return true
		})
	}
	if len(pl.closures) == 0 {
		return
	}
	// every use must be the function of a call, or the right-hand side of `_ = name`
	for _, f := range pl.pkg.Syntax {
		var stack []ast.Node
		ast.Inspect(f, func(n ast.Node) bool {
			if n == nil {
				stack = stack[:len(stack)-1]
				return true
			}
			stack = append(stack, n)
			id, ok := n.(*ast.Ident)
			if !ok {
				return true
			}
			v, ok := pl.info.Uses[id].(*types.Var)
			if !ok || pl.closures[v] == nil {
				return true
			}
			parent := stack[len(stack)-2]
			switch p := parent.(type) {
			case *ast.CallExpr:
				if ast.Unparen(p.Fun) == ast.Expr(id) {
					pl.closCall[v]++
					// a call inside the literal itself is recursion
					fl := pl.closures[v]
					if id.Pos() >= fl.Pos() && id.Pos() < fl.End() {
						delete(pl.closures, v)
					}
					return true
				}
			case *ast.AssignStmt:
				if len(p.Lhs) == 1 && len(p.Rhs) == 1 && p.Rhs[0] == ast.Expr(id) {
					if l, ok := p.Lhs[0].(*ast.Ident); ok && l.Name == "_" {
						pl.closKeep[v] = true
						return true
					}
				}
			}
			delete(pl.closures, v)
			return true
		})
	}
	// a closure whose every call has been inlined keeps only a stub body, so that it no longer captures anything
	for v, fl := range pl.closures {
		if pl.closCall[v] != 0 || !pl.closKeep[v] || len(fl.Body.List) == 0 {
			continue
		}
		sig, ok := v.Type().(*types.Signature)
		if !ok {
			continue
		}
		var file *ast.File
		for _, f := range pl.pkg.Syntax {
			if f.Pos() <= fl.Pos() && fl.Pos() < f.End() {
				file = f
			}
		}
		if file == nil {
			continue
		}
		stub := "{"
		var zs []string
		okT := true
		for i := 0; i < sig.Results().Len(); i++ {
			ts, ok := pl.typeString(sig.Results().At(i).Type(), file)
			if !ok {
				okT = false
			}
			stub += fmt.Sprintf(" var z%d_stub %s;", i, ts)
			zs = append(zs, fmt.Sprintf("z%d_stub", i))
		}
		if !okT {
			continue
		}
		// already a stub?
		if len(fl.Body.List) > 0 {
			if ds, ok := fl.Body.List[0].(*ast.DeclStmt); ok {
				if gd, ok := ds.Decl.(*ast.GenDecl); ok && len(gd.Specs) == 1 {
					if vs, ok := gd.Specs[0].(*ast.ValueSpec); ok && len(vs.Names) == 1 && strings.HasSuffix(vs.Names[0].Name, "_stub") {
						continue
					}
				}
			}
		}
		if len(zs) > 0 {
			stub += " return " + strings.Join(zs, ", ")
		}
		stub += " }"
		// parameters must stay used-agnostic: unused parameters are legal in Go
		*pl.counter++
		fn := pl.fset.PositionFor(fl.Body.Pos(), false).Filename
		pl.edits = append(pl.edits, Edit{File: fn, Start: pl.offset(fl.Body.Pos()), End: pl.offset(fl.Body.End()), Text: stub + pl.lineDirective(fl.Body.End()), Site: "closure " + v.Name() + " reduced to a stub (all calls inlined)", group: *pl.counter})
		delete(pl.closures, v)
	}
	for v, fl := range pl.closures {
		bad := false
		ast.Inspect(fl.Body, func(n ast.Node) bool {
			switch x := n.(type) {
			case *ast.DeferStmt, *ast.GoStmt:
				bad = true
			case *ast.BranchStmt:
				if x.Tok == token.GOTO {
					bad = true
				}
			case *ast.CallExpr:
				if id, ok := x.Fun.(*ast.Ident); ok && id.Name == "recover" {
					bad = true
				}
			}
			return !bad
		})
		if bad {
			delete(pl.closures, v)
		}
	}
}

// closureCallee resolves a call of a local closure variable (nil otherwise).
func (pl *planner) closureCallee(c *ast.CallExpr) *types.Var {
	if id, ok := ast.Unparen(c.Fun).(*ast.Ident); ok {
		if v, ok := pl.info.Uses[id].(*types.Var); ok && pl.closures[v] != nil {
			return v
		}
	}
	return nil
}

func recvBase(e ast.Expr) ast.Expr {
	if s, ok := e.(*ast.StarExpr); ok {
		return s.X
	}
	return e
}

// staticCallee resolves a call to a function or method declared in this package (nil otherwise).
func (pl *planner) staticCallee(c *ast.CallExpr) *types.Func {
	switch f := ast.Unparen(c.Fun).(type) {
	case *ast.Ident:
		if obj, ok := pl.info.Uses[f].(*types.Func); ok && pl.decls[obj] != nil {
			return obj
		}
	case *ast.SelectorExpr:
		if sel := pl.info.Selections[f]; sel != nil {
			if sel.Kind() != types.MethodVal || len(sel.Index()) != 1 {
				return nil
			}
			if obj, ok := sel.Obj().(*types.Func); ok && pl.decls[obj] != nil {
				if _, isIface := sel.Recv().Underlying().(*types.Interface); isIface {
					return nil
				}
				return obj
			}
		}
	}
	return nil
}

// walkList visits a statement list and the lists nested in it.
func (pl *planner) walkList(fd *ast.FuncDecl, file *ast.File, list []ast.Stmt) {
	for _, s := range list {
		pl.visitStmt(fd, file, s, s.Pos())
	}
}

func (pl *planner) visitStmt(fd *ast.FuncDecl, file *ast.File, s ast.Stmt, insertAt token.Pos) {
	// 1. try to hoist one call out of this statement
	pl.tryStmt(fd, file, s, insertAt)
	// 2. nested lists
	switch x := s.(type) {
	case *ast.BlockStmt:
		pl.walkList(fd, file, x.List)
	case *ast.IfStmt:
		pl.walkList(fd, file, x.Body.List)
		switch e := x.Else.(type) {
		case *ast.BlockStmt:
			pl.walkList(fd, file, e.List)
		case *ast.IfStmt:
			// `else if`: statements inside its blocks can be handled, the if itself cannot (no list position)
			pl.nestedOnly(fd, file, e)
		}
	case *ast.ForStmt:
		pl.walkList(fd, file, x.Body.List)
	case *ast.RangeStmt:
		pl.walkList(fd, file, x.Body.List)
	case *ast.SwitchStmt:
		for _, c := range x.Body.List {
			pl.walkList(fd, file, c.(*ast.CaseClause).Body)
		}
	case *ast.TypeSwitchStmt:
		for _, c := range x.Body.List {
			pl.walkList(fd, file, c.(*ast.CaseClause).Body)
		}
	case *ast.SelectStmt:
		for _, c := range x.Body.List {
			pl.walkList(fd, file, c.(*ast.CommClause).Body)
		}
	case *ast.LabeledStmt:
		pl.visitStmtLabeled(fd, file, x)
	}
	// function literals inside the statement: their bodies are statement lists too
	ast.Inspect(s, func(n ast.Node) bool {
		if fl, ok := n.(*ast.FuncLit); ok {
			pl.walkList(fd, file, fl.Body.List)
			return false
		}
		return true
	})
}

func (pl *planner) nestedOnly(fd *ast.FuncDecl, file *ast.File, x *ast.IfStmt) {
	pl.walkList(fd, file, x.Body.List)
	switch e := x.Else.(type) {
	case *ast.BlockStmt:
		pl.walkList(fd, file, e.List)
	case *ast.IfStmt:
		pl.nestedOnly(fd, file, e)
	}
}

func (pl *planner) visitStmtLabeled(fd *ast.FuncDecl, file *ast.File, l *ast.LabeledStmt) {
	// the labelled statement itself was offered to tryStmt by visitStmt (as a LabeledStmt: not hoistable);
	// offer the inner statement with the insertion point in front of the label
	pl.tryStmt(fd, file, l.Stmt, l.Pos())
	switch x := l.Stmt.(type) {
	case *ast.ForStmt:
		pl.walkList(fd, file, x.Body.List)
	case *ast.RangeStmt:
		pl.walkList(fd, file, x.Body.List)
	case *ast.SwitchStmt:
		for _, c := range x.Body.List {
			pl.walkList(fd, file, c.(*ast.CaseClause).Body)
		}
	case *ast.BlockStmt:
		pl.walkList(fd, file, x.List)
	}
}

// pure: evaluating e has no side effect (it may still panic).
func (pl *planner) pure(e ast.Expr) bool {
	ok := true
	ast.Inspect(e, func(n ast.Node) bool {
		switch x := n.(type) {
		case *ast.CallExpr:
			if tv, has := pl.info.Types[x.Fun]; has && tv.IsType() {
				return true // conversion
			}
			if id, isId := ast.Unparen(x.Fun).(*ast.Ident); isId {
				if _, isB := pl.info.Uses[id].(*types.Builtin); isB && (id.Name == "len" || id.Name == "cap") {
					return true
				}
			}
			ok = false
		case *ast.UnaryExpr:
			if x.Op == token.ARROW {
				ok = false
			}
		case *ast.FuncLit:
			return false
		}
		return ok
	})
	return ok
}

// firstCall finds the candidate call that is evaluated first and unconditionally within e, provided everything
// evaluated before it is pure.  blocked reports that something impure precedes any later candidate.
func (pl *planner) firstCall(e ast.Expr) (call *ast.CallExpr, blocked bool) {
	if e == nil {
		return nil, false
	}
	seq := func(es ...ast.Expr) (*ast.CallExpr, bool) {
		for _, x := range es {
			if x == nil {
				continue
			}
			if c, b := pl.firstCall(x); c != nil || b {
				return c, b
			}
			if !pl.pure(x) {
				return nil, true
			}
		}
		return nil, false
	}
	switch x := e.(type) {
	case *ast.ParenExpr:
		return pl.firstCall(x.X)
	case *ast.UnaryExpr:
		if x.Op == token.ARROW {
			return nil, true
		}
		return pl.firstCall(x.X)
	case *ast.StarExpr:
		return pl.firstCall(x.X)
	case *ast.BinaryExpr:
		if x.Op == token.LAND || x.Op == token.LOR {
			c, b := pl.firstCall(x.X)
			if c != nil || b {
				return c, b
			}
			return nil, true // the right operand is evaluated conditionally
		}
		return seq(x.X, x.Y)
	case *ast.SelectorExpr:
		return pl.firstCall(x.X)
	case *ast.IndexExpr:
		return seq(x.X, x.Index)
	case *ast.SliceExpr:
		return seq(x.X, x.Low, x.High, x.Max)
	case *ast.TypeAssertExpr:
		return pl.firstCall(x.X)
	case *ast.KeyValueExpr:
		return seq(x.Key, x.Value)
	case *ast.CompositeLit:
		return seq(x.Elts...)
	case *ast.CallExpr:
		if callee := pl.staticCallee(x); (callee != nil && pl.cand[callee]) || pl.closureCallee(x) != nil {
			// arguments are moved with the call; they must not hide an earlier candidate call (next round)
			var pre []ast.Expr
			if sel, ok := ast.Unparen(x.Fun).(*ast.SelectorExpr); ok {
				pre = append(pre, sel.X)
			}
			pre = append(pre, x.Args...)
			for _, a := range pre {
				// the arguments travel with the call (they are evaluated, in order, where the call was); only a
				// candidate call nested in them has to be inlined first
				if c, _ := pl.firstCall(a); c != nil {
					return c, false
				}
				if pl.hasCandidate(a) {
					return nil, true // a nested candidate in a position that cannot be hoisted yet
				}
			}
			return x, false
		}
		var parts []ast.Expr
		if tv, has := pl.info.Types[x.Fun]; !(has && tv.IsType()) {
			parts = append(parts, x.Fun)
		}
		parts = append(parts, x.Args...)
		c, b := seq(parts...)
		if c != nil || b {
			return c, b
		}
		return nil, !pl.pure(x)
	case *ast.FuncLit:
		return nil, false
	}
	return nil, false
}

func (pl *planner) hasCandidate(e ast.Expr) bool {
	found := false
	ast.Inspect(e, func(n ast.Node) bool {
		if c, ok := n.(*ast.CallExpr); ok {
			if callee := pl.staticCallee(c); (callee != nil && pl.cand[callee]) || pl.closureCallee(c) != nil {
				found = true
			}
		}
		if _, ok := n.(*ast.FuncLit); ok {
			return false
		}
		return !found
	})
	return found
}

// tryStmt plans the inlining of the first hoistable candidate call of statement s.
func (pl *planner) tryStmt(fd *ast.FuncDecl, file *ast.File, s ast.Stmt, insertAt token.Pos) {
	var call *ast.CallExpr
	wholeStmt := false
	first := func(es ...ast.Expr) *ast.CallExpr {
		for _, e := range es {
			if e == nil {
				continue
			}
			c, b := pl.firstCall(e)
			if c != nil {
				return c
			}
			if b || !pl.pure(e) {
				return nil
			}
		}
		return nil
	}
	var simple func(st ast.Stmt) *ast.CallExpr
	simple = func(st ast.Stmt) *ast.CallExpr {
		switch x := st.(type) {
		case *ast.ExprStmt:
			return first(x.X)
		case *ast.AssignStmt:
			if len(x.Rhs) != 1 {
				return nil
			}
			var es []ast.Expr
			if x.Tok != token.DEFINE {
				for _, l := range x.Lhs {
					if _, isId := l.(*ast.Ident); !isId {
						es = append(es, l)
					}
				}
			}
			es = append(es, x.Rhs[0])
			return first(es...)
		case *ast.DeclStmt:
			gd, ok := x.Decl.(*ast.GenDecl)
			if !ok || gd.Tok != token.VAR || len(gd.Specs) != 1 {
				return nil
			}
			vs := gd.Specs[0].(*ast.ValueSpec)
			if len(vs.Values) != 1 {
				return nil
			}
			return first(vs.Values[0])
		}
		return nil
	}
	switch x := s.(type) {
	case *ast.ExprStmt:
		call = simple(x)
		if call != nil && ast.Unparen(x.X) == ast.Expr(call) {
			wholeStmt = true
		}
	case *ast.AssignStmt, *ast.DeclStmt:
		call = simple(x)
	case *ast.ReturnStmt:
		call = first(x.Results...)
	case *ast.IfStmt:
		if x.Init != nil {
			call = simple(x.Init)
			if call == nil {
				// the condition is evaluated after the init statement: when it holds a candidate call, the init
				// statement is first moved out (`if I; C {…}` → `{ I; if C {…} }`, same scopes, same order); the call is
				// then hoisted in the next round
				if pl.hasCandidate(x.Cond) && insertAt == s.Pos() {
					fname := pl.fset.PositionFor(s.Pos(), false).Filename
					if src := pl.src[fname]; src != nil {
						*pl.counter++
						k := *pl.counter
						site := fmt.Sprintf("%s: init statement of the if at %s moved out", fd.Name.Name, pl.fset.Position(x.Pos()))
						initText := string(src[pl.offset(x.Init.Pos()):pl.offset(x.Init.End())])
						pl.edits = append(pl.edits, Edit{File: fname, Start: pl.offset(x.If), End: pl.offset(x.Cond.Pos()), Text: "{ " + pl.lineDirective(x.Init.Pos()) + initText + "; if " + pl.lineDirective(x.Cond.Pos()), Site: site, group: k})
						pl.edits = append(pl.edits, Edit{File: fname, Start: pl.offset(x.End()), End: pl.offset(x.End()), Text: " }" + pl.lineDirective(x.End()), Site: site, group: k})
						pl.log = append(pl.log, "inlined: "+site)
					}
				}
				return
			}
		} else {
			call = first(x.Cond)
		}
	case *ast.SwitchStmt:
		if x.Init != nil {
			call = simple(x.Init)
		} else if x.Tag != nil {
			call = first(x.Tag)
		}
	case *ast.RangeStmt:
		call = first(x.X)
	case *ast.ForStmt:
		if x.Init != nil {
			call = simple(x.Init)
		}
	}
	var condRoot *ast.BinaryExpr
	if call == nil {
		// a candidate call in the right operand of a top-level && / ||: evaluated conditionally, hoisted under a test
		var root ast.Expr
		switch x := s.(type) {
		case *ast.IfStmt:
			if x.Init == nil {
				root = x.Cond
			}
		case *ast.AssignStmt:
			if len(x.Rhs) == 1 && len(x.Lhs) == 1 {
				if _, isId := x.Lhs[0].(*ast.Ident); isId {
					root = x.Rhs[0]
				}
			}
		case *ast.ReturnStmt:
			if len(x.Results) == 1 {
				root = x.Results[0]
			}
		}
		if be, ok := root.(*ast.BinaryExpr); ok && (be.Op == token.LAND || be.Op == token.LOR) {
			if c, b := pl.firstCall(be.X); c == nil && !b {
				if c2, b2 := pl.firstCall(be.Y); c2 != nil && !b2 {
					call, condRoot = c2, be
				}
			}
		}
		if call == nil {
			return
		}
	}
	pl.inline(fd, file, s, insertAt, call, wholeStmt, condRoot)
}

func (pl *planner) offset(p token.Pos) int { return pl.fset.PositionFor(p, false).Offset }

func (pl *planner) lineDirective(p token.Pos) string {
	pos := pl.fset.PositionFor(p, true) // the original position, through directives of earlier rounds
	return fmt.Sprintf("/*line %s:%d:%d*/", filepath.Base(pos.Filename), pos.Line, pos.Column)
}

// qualifier renders package names as the caller's file imports them; ok=false if a package is not imported there.
func (pl *planner) typeString(t types.Type, file *ast.File) (string, bool) {
	ok := true
	s := types.TypeString(t, func(p *types.Package) string {
		if p == pl.pkg.Types {
			return ""
		}
		for _, imp := range file.Imports {
			path := strings.Trim(imp.Path.Value, "\"")
			if path != p.Path() {
				continue
			}
			if imp.Name != nil {
				if imp.Name.Name == "." || imp.Name.Name == "_" {
					ok = false
				}
				return imp.Name.Name
			}
			return p.Name()
		}
		ok = false
		return p.Name()
	})
	return s, ok
}

func (pl *planner) inline(fd *ast.FuncDecl, file *ast.File, s ast.Stmt, insertAt token.Pos, call *ast.CallExpr, wholeStmt bool, cond *ast.BinaryExpr) {
	// the callee: a declared function / method, or a local closure
	type target struct {
		name       string
		typ        *ast.FuncType
		body       *ast.BlockStmt
		recv       *ast.FieldList
		sig        *types.Signature
		start, end token.Pos
		self       types.Object
	}
	var cd target
	if callee := pl.staticCallee(call); callee != nil && pl.cand[callee] {
		d := pl.decls[callee]
		cd = target{callee.Name(), d.Type, d.Body, d.Recv, callee.Type().(*types.Signature), d.Pos(), d.End(), callee}
	} else if v := pl.closureCallee(call); v != nil {
		fl := pl.closures[v]
		sg, ok := v.Type().(*types.Signature)
		if !ok {
			return
		}
		if !pl.closKeep[v] {
			// once every call is inlined the variable would be unused: keep it alive
			pl.closKeep[v] = true
			*pl.counter++
			def := pl.closDef[v]
			fn := pl.fset.PositionFor(def.Pos(), false).Filename
			pl.edits = append(pl.edits, Edit{File: fn, Start: pl.offset(def.End()), End: pl.offset(def.End()), Text: "; _ = " + v.Name() + pl.lineDirective(def.End()), Site: "keep " + v.Name(), group: *pl.counter})
		}
		cd = target{v.Name(), fl.Type, fl.Body, nil, sg, fl.Pos(), fl.End(), v}
	} else {
		return
	}
	sig := cd.sig
	fname := pl.fset.PositionFor(s.Pos(), false).Filename
	csrc := pl.src[pl.fset.PositionFor(cd.start, false).Filename]
	if csrc == nil || pl.src[fname] == nil {
		return
	}
	site := fmt.Sprintf("%s: call of %s at %s", fd.Name.Name, cd.name, pl.fset.Position(call.Pos()))
	fail := func(why string) { pl.log = append(pl.log, "not inlined: "+site+": "+why) }
	if call.Ellipsis.IsValid() && !sig.Variadic() {
		fail("ellipsis on a non-variadic call")
		return
	}
	*pl.counter++
	k := *pl.counter
	suffix := fmt.Sprintf("_inl%d", k)
	label := "L" + suffix
	callScope := pl.pkg.Types.Scope().Innermost(call.Pos())
	if callScope == nil {
		fail("no scope at call")
		return
	}

	// --- callee body with renames and return rewriting
	inCallee := func(o types.Object) bool {
		return o != nil && o.Pos() >= cd.start && o.Pos() < cd.end && o != cd.self
	}
	type ed struct {
		start, end int
		text       string
	}
	var eds []ed
	bodyStart, bodyEnd := pl.offset(cd.body.Lbrace)+1, pl.offset(cd.body.Rbrace)
	okFree := true
	whyFree := ""
	// result variables
	var resNames []string
	var resDecl []string
	if sig.Results() != nil {
		i := 0
		for _, f := range resultFields(cd.typ) {
			names := f.names
			if len(names) == 0 {
				names = []*ast.Ident{nil}
			}
			for _, n := range names {
				v := sig.Results().At(i)
				ts, ok := pl.typeString(v.Type(), file)
				if !ok {
					fail("result type " + v.Type().String() + " not nameable in the caller's file")
					return
				}
				name := fmt.Sprintf("ret%d%s", i, suffix)
				if n != nil && n.Name != "_" {
					name = n.Name + suffix
				}
				resNames = append(resNames, name)
				resDecl = append(resDecl, fmt.Sprintf("var %s %s; _ = %s; ", name, ts, name))
				i++
			}
		}
	}
	var walk func(n ast.Node, inLit bool)
	walk = func(n ast.Node, inLit bool) {
		ast.Inspect(n, func(m ast.Node) bool {
			switch x := m.(type) {
			case *ast.FuncLit:
				if m != n {
					walk(x.Body, true)
					// parameters of the literal
					ast.Inspect(x.Type, func(t ast.Node) bool {
						if id, ok := t.(*ast.Ident); ok {
							if o := pl.info.Defs[id]; inCallee(o) {
								eds = append(eds, ed{pl.offset(id.Pos()), pl.offset(id.End()), id.Name + suffix})
							}
						}
						return true
					})
					return false
				}
			case *ast.SelectorExpr:
				// only the operand can be a free identifier; the selected name is resolved through it
				walk(x.X, inLit)
				return false
			case *ast.Ident:
				var o types.Object
				if d := pl.info.Defs[x]; d != nil {
					o = d
				} else {
					o = pl.info.Uses[x]
				}
				if o == nil {
					return true
				}
				if inCallee(o) {
					if x.Name != "_" {
						eds = append(eds, ed{pl.offset(x.Pos()), pl.offset(x.End()), x.Name + suffix})
					}
					return true
				}
				// free identifier: must mean the same thing at the call site
				if v, isVar := o.(*types.Var); isVar && v.IsField() {
					return true
				}
				if _, isFn := o.(*types.Func); isFn && o.Parent() == nil {
					return true // method name in a selector
				}
				if o.Parent() == nil {
					return true
				}
				_, found := callScope.LookupParent(x.Name, call.Pos())
				same := found == o
				if pn, isPkg := o.(*types.PkgName); isPkg {
					if fpn, ok := found.(*types.PkgName); ok && fpn.Imported() == pn.Imported() {
						same = true
					}
				}
				if !same {
					okFree = false
					whyFree = x.Name
				}
			case *ast.ReturnStmt:
				if inLit {
					return true
				}
				rs, re := pl.offset(x.Pos()), pl.offset(x.Pos())+len("return")
				switch {
				case len(x.Results) == 0:
					eds = append(eds, ed{rs, re, "break " + label})
				default:
					if len(resNames) == 0 {
						okFree = false
						whyFree = "return with values in a function without results"
						return true
					}
					eds = append(eds, ed{rs, re, "{ " + strings.Join(resNames, ", ") + " = "})
					eds = append(eds, ed{pl.offset(x.End()), pl.offset(x.End()), "; break " + label + " }"})
				}
			}
			return true
		})
	}
	walk(cd.body, false)
	if !okFree {
		fail("identifier " + whyFree + " means something else at the call site")
		return
	}
	sort.Slice(eds, func(i, j int) bool {
		if eds[i].start != eds[j].start {
			return eds[i].start < eds[j].start
		}
		return eds[i].end < eds[j].end
	})
	var body strings.Builder
	cur := bodyStart
	for _, e := range eds {
		if e.start < cur || e.start < bodyStart || e.end > bodyEnd {
			if e.start < cur {
				fail("overlapping edits in the callee body")
				return
			}
			continue
		}
		body.Write(csrc[cur:e.start])
		body.WriteString(e.text)
		cur = e.end
	}
	body.Write(csrc[cur:bodyEnd])

	// --- bindings
	var pre strings.Builder
	src := pl.src[fname]
	text := func(e ast.Expr) string { return string(src[pl.offset(e.Pos()):pl.offset(e.End())]) }
	if cd.recv != nil && len(cd.recv.List) == 1 {
		sel, ok := ast.Unparen(call.Fun).(*ast.SelectorExpr)
		if !ok {
			fail("method called without a selector")
			return
		}
		xt := pl.info.TypeOf(sel.X)
		rt := sig.Recv().Type()
		expr := "(" + text(sel.X) + ")"
		_, rIsPtr := rt.(*types.Pointer)
		_, xIsPtr := xt.(*types.Pointer)
		switch {
		case rIsPtr && !xIsPtr:
			expr = "&" + expr
		case !rIsPtr && xIsPtr:
			expr = "*" + expr
		}
		rn := ""
		if len(cd.recv.List[0].Names) == 1 {
			rn = cd.recv.List[0].Names[0].Name
		}
		if rn == "" || rn == "_" {
			fmt.Fprintf(&pre, "_ = %s; ", expr)
		} else {
			fmt.Fprintf(&pre, "var %s%s = %s; _ = %s%s; ", rn, suffix, expr, rn, suffix)
		}
	}
	np := sig.Params().Len()
	pi := 0
	for _, f := range cd.typ.Params.List {
		names := f.Names
		if len(names) == 0 {
			names = []*ast.Ident{nil}
		}
		for _, n := range names {
			v := sig.Params().At(pi)
			isLast := pi == np-1
			var val string
			ts, ok := pl.typeString(v.Type(), file)
			if !ok {
				fail("parameter type " + v.Type().String() + " not nameable in the caller's file")
				return
			}
			if sig.Variadic() && isLast {
				switch {
				case call.Ellipsis.IsValid():
					val = text(call.Args[pi])
				case len(call.Args) <= pi:
					val = ""
				default:
					var parts []string
					for _, a := range call.Args[pi:] {
						parts = append(parts, text(a))
					}
					val = ts + "{" + strings.Join(parts, ", ") + "}"
				}
			} else {
				if pi >= len(call.Args) {
					fail("argument count mismatch (call with a tuple argument)")
					return
				}
				val = text(call.Args[pi])
			}
			switch {
			case n == nil || n.Name == "_":
				if val != "" {
					fmt.Fprintf(&pre, "var _ %s = %s; ", ts, val)
				}
			case val == "":
				fmt.Fprintf(&pre, "var %s%s %s; _ = %s%s; ", n.Name, suffix, ts, n.Name, suffix)
			default:
				fmt.Fprintf(&pre, "var %s%s %s = %s; _ = %s%s; ", n.Name, suffix, ts, val, n.Name, suffix)
			}
			pi++
		}
	}
	if !sig.Variadic() && len(call.Args) != np {
		fail("argument count mismatch")
		return
	}
	for _, d := range resDecl {
		pre.WriteString(d)
	}
	fmt.Fprintf(&pre, "%s: for { %s%s\n; break %s }; ", label, pl.lineDirective(cd.body.Lbrace+1), body.String(), label)

	// --- the edits
	if cond != nil {
		// X op Y with the call inside Y:  c := X; if [!]c { <inlined call>; c = Y' }   and the expression becomes c
		if len(resNames) != 1 {
			fail("call in a short-circuit operand does not have exactly one result")
			return
		}
		cv := "cond" + suffix
		neg := ""
		if cond.Op == token.LOR {
			neg = "!"
		}
		yText := string(src[pl.offset(cond.Y.Pos()):pl.offset(call.Pos())]) + resNames[0] + string(src[pl.offset(call.End()):pl.offset(cond.Y.End())])
		full := fmt.Sprintf("%s := (%s); if %s%s { %s%s = (%s) }; %s", cv, text(cond.X), neg, cv, pre.String(), cv, yText, pl.lineDirective(insertAt))
		pl.edits = append(pl.edits, Edit{File: fname, Start: pl.offset(insertAt), End: pl.offset(insertAt), Text: full, Site: site, group: k})
		pl.edits = append(pl.edits, Edit{File: fname, Start: pl.offset(cond.Pos()), End: pl.offset(cond.End()), Text: cv + pl.lineDirective(cond.End()), Site: site, group: k})
		pl.log = append(pl.log, "inlined: "+site)
		return
	}
	pre.WriteString(pl.lineDirective(insertAt))
	pl.edits = append(pl.edits, Edit{File: fname, Start: pl.offset(insertAt), End: pl.offset(insertAt), Text: pre.String(), Site: site, group: k})
	var repl string
	switch {
	case wholeStmt:
		repl = "{}"
		if len(resNames) > 0 {
			repl = "_ = " + resNames[0]
		}
		pl.edits = append(pl.edits, Edit{File: fname, Start: pl.offset(s.Pos()), End: pl.offset(s.End()), Text: repl + pl.lineDirective(s.End()), Site: site, group: k})
	default:
		if len(resNames) == 0 {
			fail("call without results used as a value")
			pl.edits = pl.edits[:len(pl.edits)-1]
			return
		}
		repl = strings.Join(resNames, ", ")
		pl.edits = append(pl.edits, Edit{File: fname, Start: pl.offset(call.Pos()), End: pl.offset(call.End()), Text: repl + pl.lineDirective(call.End()), Site: site, group: k})
	}
	pl.log = append(pl.log, "inlined: "+site)
}

type resField struct {
	names []*ast.Ident
}

func resultFields(t *ast.FuncType) []resField {
	var out []resField
	if t.Results == nil {
		return nil
	}
	for _, f := range t.Results.List {
		out = append(out, resField{f.Names})
	}
	return out
}

// Apply applies the edit groups that do not overlap an already accepted group; the others are postponed to the
// next round (reported in the log).  skip lists groups to leave out (used when a group failed to type-check).
func Apply(src map[string][]byte, edits []Edit, skip map[int]bool) (map[string][]byte, []int, []string) {
	groups := map[int][]Edit{}
	var order []int
	for _, e := range edits {
		if _, ok := groups[e.group]; !ok {
			order = append(order, e.group)
		}
		groups[e.group] = append(groups[e.group], e)
	}
	sort.Ints(order)
	conflict := func(a, b Edit) bool {
		if a.File != b.File {
			return false
		}
		aIns, bIns := a.Start == a.End, b.Start == b.End
		switch {
		case aIns && bIns:
			return false
		case aIns:
			return b.Start < a.Start && a.Start < b.End
		case bIns:
			return a.Start < b.Start && b.Start < a.End
		}
		return a.Start < b.End && b.Start < a.End
	}
	var accepted []Edit
	var used []int
	var log []string
	for _, g := range order {
		if skip[g] {
			continue
		}
		ok := true
		for _, e := range groups[g] {
			for _, a := range accepted {
				if conflict(e, a) {
					ok = false
				}
			}
		}
		if !ok {
			log = append(log, "postponed to the next round (overlap): "+groups[g][0].Site)
			continue
		}
		accepted = append(accepted, groups[g]...)
		used = append(used, g)
	}
	byFile := map[string][]Edit{}
	for _, e := range accepted {
		byFile[e.File] = append(byFile[e.File], e)
	}
	out := map[string][]byte{}
	for f, b := range src {
		out[f] = b
	}
	for f, es := range byFile {
		sort.SliceStable(es, func(i, j int) bool {
			if es[i].Start != es[j].Start {
				return es[i].Start < es[j].Start
			}
			if es[i].End != es[j].End {
				return es[i].End < es[j].End
			}
			return es[i].group < es[j].group
		})
		var sb strings.Builder
		cur := 0
		b := src[f]
		for _, e := range es {
			sb.Write(b[cur:e.Start])
			sb.WriteString(e.Text)
			cur = e.End
		}
		sb.Write(b[cur:])
		out[f] = []byte(sb.String())
	}
	return out, used, log
}

// Group returns the group number of an edit.
func (e Edit) Group() int { return e.group }

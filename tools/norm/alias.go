package norm

import (
	"fmt"
	"go/ast"
	"go/token"
	"go/types"
	"sort"
	"strings"

	"golang.org/x/tools/go/packages"
)

// AnchorSpec describes a function the rules know by role.  When no function of that name exists (it was renamed),
// the unexported function with the same receiver and signature — and, where several share a signature, containing the
// marker — is renamed back to the canonical name in the overlay, so that every rule finds it.
type AnchorSpec struct {
	Pkg    string // package path
	Name   string
	Recv   string // "" or the receiver's type name (pointer receivers and value receivers are not distinguished)
	Sig    string // parameter and result types, e.g. "(string, []string) bool"
	Marker string // a string literal or selector name that occurs in the body (disambiguation), optional
}

func sigString(sig *types.Signature) string {
	q := func(p *types.Package) string { return p.Name() }
	var ps []string
	for i := 0; i < sig.Params().Len(); i++ {
		t := types.TypeString(sig.Params().At(i).Type(), q)
		if sig.Variadic() && i == sig.Params().Len()-1 {
			t = "..." + strings.TrimPrefix(t, "[]")
		}
		ps = append(ps, t)
	}
	var rs []string
	for i := 0; i < sig.Results().Len(); i++ {
		rs = append(rs, types.TypeString(sig.Results().At(i).Type(), q))
	}
	out := "(" + strings.Join(ps, ", ") + ")"
	switch len(rs) {
	case 0:
	case 1:
		out += " " + rs[0]
	default:
		out += " (" + strings.Join(rs, ", ") + ")"
	}
	return out
}

func recvName(sig *types.Signature) string {
	if sig.Recv() == nil {
		return ""
	}
	t := sig.Recv().Type()
	if p, ok := t.(*types.Pointer); ok {
		t = p.Elem()
	}
	if n, ok := t.(*types.Named); ok {
		return n.Obj().Name()
	}
	return t.String()
}

func hasMarker(fd *ast.FuncDecl, marker string) bool {
	if marker == "" {
		return true
	}
	found := false
	ast.Inspect(fd, func(n ast.Node) bool {
		switch x := n.(type) {
		case *ast.BasicLit:
			if x.Kind == token.STRING && strings.Trim(x.Value, "\"`") == marker {
				found = true
			}
		case *ast.SelectorExpr:
			if x.Sel.Name == marker {
				found = true
			}
		case *ast.Ident:
			if x.Name == marker {
				found = true
			}
		}
		return !found
	})
	return found
}

// ResolveAliases returns the rename edits that restore canonical anchor names, and a log.
func ResolveAliases(pkgs []*packages.Package, specs []AnchorSpec, counter *int) ([]Edit, []string) {
	var edits []Edit
	var log []string
	for _, p := range pkgs {
		type fn struct {
			obj *types.Func
			fd  *ast.FuncDecl
		}
		var funcs []fn
		for _, f := range p.Syntax {
			for _, d := range f.Decls {
				if fd, ok := d.(*ast.FuncDecl); ok {
					if obj, ok := p.TypesInfo.Defs[fd.Name].(*types.Func); ok {
						funcs = append(funcs, fn{obj, fd})
					}
				}
			}
		}
		isAnchorName := map[string]bool{}
		for _, s := range specs {
			if s.Pkg == p.PkgPath {
				isAnchorName[s.Recv+"."+s.Name] = true
			}
		}
		taken := map[*types.Func]bool{}
		for _, s := range specs {
			if s.Pkg != p.PkgPath {
				continue
			}
			present := false
			for _, f := range funcs {
				if f.obj.Name() == s.Name && recvName(f.obj.Type().(*types.Signature)) == s.Recv {
					present = true
				}
			}
			if present {
				continue
			}
			var cands []fn
			for _, f := range funcs {
				sig := f.obj.Type().(*types.Signature)
				if taken[f.obj] || ast.IsExported(f.obj.Name()) || isAnchorName[recvName(sig)+"."+f.obj.Name()] || f.fd.Body == nil {
					continue
				}
				if recvName(sig) != s.Recv || sigString(sig) != s.Sig || !hasMarker(f.fd, s.Marker) {
					continue
				}
				cands = append(cands, f)
			}
			if len(cands) != 1 {
				log = append(log, fmt.Sprintf("anchor %s.%s not found (%d candidates with signature %s)", s.Recv, s.Name, len(cands), s.Sig))
				continue
			}
			c := cands[0]
			// the canonical name must be free in the package scope / method set
			if s.Recv == "" && p.Types.Scope().Lookup(s.Name) != nil {
				log = append(log, fmt.Sprintf("anchor %s: candidate %s found but the canonical name is taken", s.Name, c.obj.Name()))
				continue
			}
			taken[c.obj] = true
			*counter++
			g := *counter
			n := 0
			rename := func(id *ast.Ident) {
				pos := p.Fset.PositionFor(id.Pos(), false)
				edits = append(edits, Edit{File: pos.Filename, Start: pos.Offset, End: pos.Offset + len(id.Name), Text: s.Name, Site: "rename " + c.obj.Name() + " -> " + s.Name, group: g})
				n++
			}
			var ids []*ast.Ident
			for id, o := range p.TypesInfo.Defs {
				if o == types.Object(c.obj) {
					ids = append(ids, id)
				}
			}
			for id, o := range p.TypesInfo.Uses {
				if o == types.Object(c.obj) {
					ids = append(ids, id)
				}
			}
			sort.Slice(ids, func(i, j int) bool { return ids[i].Pos() < ids[j].Pos() })
			for _, id := range ids {
				rename(id)
			}
			log = append(log, fmt.Sprintf("anchor %s.%s: function %s has the role (same receiver and signature%s); renamed back in the analysed copy (%d occurrences)", s.Recv, s.Name, c.obj.Name(), map[bool]string{true: ", marker " + s.Marker, false: ""}[s.Marker != ""], n))
		}
	}
	return edits, log
}

package main

import (
	"encoding/json"
	"fmt"
	"os"
	"os/exec"
	"path/filepath"
	"strings"

	"verif/tools/core"
	"verif/tools/rules"
)

// canaries (thorough tier): the checker is tested against the tree it has just judged.  For every stored violating
// change listed for the property in canaries.json, a scratch copy of the analysed tree is made outside /repo and /verif,
// the change is applied to it, and the same check (quick tier, a fresh process) is run on the copy: it must report a
// violation.  A rule whose expected number of findings is zero ("nothing in the library calls X", "no shared writes")
// cannot otherwise be told from a rule that has gone blind.  Nothing is executed but the analyser itself; a change that
// no longer applies exactly (no fuzz) to the current tree, or no longer type-checks there, is counted as skipped.
func canaries(p *rules.Prop, R *core.Report, repo, verif string) {
	summary := map[string]any{}
	defer func() { R.Analysed["canaries"] = summary }()
	raw, err := os.ReadFile(filepath.Join(verif, "canaries.json"))
	if err != nil {
		summary["error"] = "canaries.json not readable: " + err.Error()
		return
	}
	var all map[string][]string
	if err := json.Unmarshal(raw, &all); err != nil {
		R.Unknown("framework", "canaries", "canaries.json", "", "not parseable: "+err.Error())
		return
	}
	self, err := os.Executable()
	if err != nil {
		summary["error"] = err.Error()
		return
	}
	fired, skipped := []string{}, []string{}
	for _, rel := range all[p.ID] {
		patch := filepath.Join(verif, rel)
		name := strings.TrimSuffix(strings.TrimSuffix(rel, "/patch.diff"), ".patch")
		tmp, err := os.MkdirTemp("", "bm-canary.")
		if err != nil {
			summary["error"] = err.Error()
			return
		}
		func() {
			defer os.RemoveAll(tmp)
			if out, err := exec.Command("rsync", "-a", "--exclude", ".git", strings.TrimSuffix(repo, "/")+"/", tmp+"/repo/").CombinedOutput(); err != nil {
				skipped = append(skipped, name+" (copy failed: "+strings.TrimSpace(string(out))+")")
				return
			}
			// exactly means: no fuzz and no offset — a hunk that only fits somewhere else may land on a look-alike
			// construct where the change is harmless
			if out, err := exec.Command("patch", "-p1", "-f", "--fuzz=0", "--no-backup-if-mismatch", "-d", tmp+"/repo", "-i", patch).CombinedOutput(); err != nil || strings.Contains(string(out), "offset") || strings.Contains(string(out), "fuzz") {
				skipped = append(skipped, name+" (does not apply exactly, at its own place, to the current tree)")
				return
			}
			os.MkdirAll(tmp+"/verif/evidence", 0o755)
			os.Symlink(filepath.Join(verif, "spec"), tmp+"/verif/spec")
			os.Symlink(filepath.Join(verif, "known_findings.json"), tmp+"/verif/known_findings.json")
			cmd := exec.Command(self, "-prop", p.ID, "-tier", "quick", "-repo", tmp+"/repo", "-verif", tmp+"/verif")
			cmd.Env = os.Environ()
			out, _ := cmd.CombinedOutput()
			rc := cmd.ProcessState.ExitCode()
			if strings.Contains(string(out), "does not load/type-check") {
				skipped = append(skipped, name+" (applied, but the result does not type-check on the current tree)")
				return
			}
			if rc == 1 && strings.Contains(string(out), "VIOLATION property="+p.ID) {
				fired = append(fired, name)
				R.OK("framework", "canary:"+name, "stored violating change "+rel+" applied to a scratch copy of the analysed tree", "", "the check reports it")
				return
			}
			R.Unknown("framework", "canary:"+name, "stored violating change "+rel+" applied to a scratch copy of the analysed tree", "", fmt.Sprintf("the check does not report this change any more (exit %d): a rule has gone blind on the current tree, its silence on the tree itself proves nothing", rc))
		}()
	}
	summary["listed"] = len(all[p.ID])
	summary["fired"] = fired
	summary["skipped"] = skipped
}

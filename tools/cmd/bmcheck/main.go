// bmcheck decides the bluemonday properties C01..C20 by static analysis of /repo's current
// working tree.  Nothing under /repo is executed.
package main

import (
	"flag"
	"fmt"
	"os"
	"strconv"

	"verif/tools/core"
	"verif/tools/load"
	"verif/tools/model"
	"verif/tools/rules"
)

func main() {
	prop := flag.String("prop", "", "property id (C01..C20)")
	tier := flag.String("tier", "quick", "quick|thorough")
	repo := flag.String("repo", "/repo", "repository root to analyse")
	verif := flag.String("verif", "/verif", "verif dir (spec, known findings, evidence)")
	flag.Parse()
	if t := os.Getenv("VERIF_TIER"); t != "" && *tier == "" {
		*tier = t
	}
	p := rules.Registry[*prop]
	if p == nil {
		fmt.Println("unknown property", *prop)
		os.Exit(2)
	}
	seed, _ := strconv.ParseInt(os.Getenv("VERIF_SEED"), 10, 64)
	R := core.NewReport(p.ID, *tier, p.Level)
	P, err := load.Load(load.Config{Repo: *repo})
	if err != nil {
		R.Unknown("framework", "load", "load "+*repo, "", "the tree does not load/type-check, nothing can be decided: "+err.Error())
		os.Exit(R.Finish(*verif, seed))
	}
	nf := 0
	for _, sp := range P.SSA {
		for _, m := range sp.Members {
			_ = m
			nf++
		}
	}
	model.InitConstMaps(P)
	R.Analysed["packages"] = len(P.Pkgs)
	R.Analysed["packages_with_deps"] = len(P.All)
	R.Analysed["repo"] = *repo
	if len(P.NormLog) > 0 {
		R.Analysed["normaliser"] = P.NormLog
	}
	func() {
		defer func() {
			if e := recover(); e != nil {
				R.Unknown("framework", "panic", "checker panic", "", fmt.Sprint(e))
			}
		}()
		ctx := &rules.Ctx{P: P, R: R, Tier: *tier, VerifDir: *verif}
		p.Run(ctx)
		rules.FinishFields(ctx)
	}()
	os.Exit(R.Finish(*verif, seed))
}

// bmcheck decides the bluemonday properties C01..C20 by static analysis of /repo's current
// working tree.  Nothing under /repo is executed.
package main

import (
	"flag"
	"fmt"
	"os"
	"strconv"

	"verif/tools/core"
	"verif/tools/load"
	"verif/tools/model"
	"verif/tools/rules"
)

func main() {
	prop := flag.String("prop", "", "property id (C01..C20)")
	tier := flag.String("tier", "quick", "quick|thorough")
	repo := flag.String("repo", "/repo", "repository root to analyse")
	verif := flag.String("verif", "/verif", "verif dir (spec, known findings, evidence)")
	flag.Parse()
	if t := os.Getenv("VERIF_TIER"); t != "" && *tier == "" {
		*tier = t
	}
	p := rules.Registry[*prop]
	if p == nil {
		fmt.Println("unknown property", *prop)
		os.Exit(2)
	}
	seed, _ := strconv.ParseInt(os.Getenv("VERIF_SEED"), 10, 64)
	R := core.NewReport(p.ID, *tier, p.Level)
	P, err := load.Load(load.Config{Repo: *repo})
	if err != nil {
		R.Unknown("framework", "load", "load "+*repo, "", "the tree does not load/type-check, nothing can be decided: "+err.Error())
		os.Exit(R.Finish(*verif, seed))
	}
	nf := 0
	for _, sp := range P.SSA {
		for _, m := range sp.Members {
			_ = m
			nf++
		}
	}
	model.InitConstMaps(P)
	R.Analysed["packages"] = len(P.Pkgs)
	R.Analysed["packages_with_deps"] = len(P.All)
	R.Analysed["repo"] = *repo
	if len(P.NormLog) > 0 {
		R.Analysed["normaliser"] = P.NormLog
	}
	func() {
		defer func() {
			if e := recover(); e != nil {
				R.Unknown("framework", "panic", "checker panic", "", fmt.Sprint(e))
			}
		}()
		ctx := &rules.Ctx{P: P, R: R, Tier: *tier, VerifDir: *verif}
		p.Run(ctx)
		rules.FinishFields(ctx)
	}()
	if *tier == "thorough" {
		secondConfiguration(p, R, *repo, *verif)
		canaries(p, R, *repo, *verif)
	}
	os.Exit(R.Finish(*verif, seed))
}

// secondConfiguration (thorough tier): the same rules are decided once more on the program as the build sees it for a
// 32-bit target (GOARCH=386: other type sizes, other build-constrained files, another bounds-check report).  Every
// obligation of that run that is violated or undecided and is not a listed known finding is carried into the report
// (key prefixed with the configuration); the discharged ones are counted.
func secondConfiguration(p *rules.Prop, R *core.Report, repo, verif string) {
	R2 := core.NewReport(p.ID, "thorough", p.Level)
	summary := map[string]any{"GOARCH": "386"}
	defer func() { R.Analysed["second_configuration"] = summary }()
	P2, err := load.Load(load.Config{Repo: repo, GOARCH: "386"})
	if err != nil {
		R.Unknown("framework", "load@GOARCH=386", "load "+repo+" for GOARCH=386", "", "the tree does not load/type-check for the second configuration: "+err.Error())
		return
	}
	model.InitConstMaps(P2)
	func() {
		defer func() {
			if e := recover(); e != nil {
				R2.Unknown("framework", "panic", "checker panic", "", fmt.Sprint(e))
			}
		}()
		ctx := &rules.Ctx{P: P2, R: R2, Tier: "thorough", VerifDir: verif}
		p.Run(ctx)
		rules.FinishFields(ctx)
	}()
	known := map[string]bool{}
	if fs, err := core.LoadFindings(verif + "/known_findings.json"); err == nil {
		for _, f := range fs {
			if f.Property == p.ID && f.Status == "known" {
				known[f.Key] = true
			}
		}
	}
	nd, nb, nk := 0, 0, 0
	for _, o := range R2.Obls {
		switch o.Status {
		case core.Discharged:
			nd++
		default:
			if o.Status == core.Violated && known[o.Key] {
				nk++
				continue
			}
			nb++
			o2 := *o
			o2.Key = o.Key + "@GOARCH=386"
			o2.Construct = "[GOARCH=386] " + o.Construct
			R.Obls = append(R.Obls, &o2)
		}
	}
	summary["obligations"] = len(R2.Obls)
	summary["discharged"] = nd
	summary["known"] = nk
	summary["violated_or_undecided"] = nb
	summary["packages"] = len(P2.Pkgs)
}

// normdump prints what the normaliser does to a repository copy: the log and, with -src, the normalised files.
package main

import (
	"flag"
	"fmt"
	"os"
	"sort"

	"verif/tools/load"
)

func main() {
	repo := flag.String("repo", "/repo", "repository")
	src := flag.Bool("src", false, "print normalised sources")
	flag.Parse()
	P, err := load.Load(load.Config{Repo: *repo, NoSSA: true})
	if err != nil {
		fmt.Println("LOAD ERROR:", err)
		os.Exit(1)
	}
	for _, l := range P.NormLog {
		fmt.Println(l)
	}
	if *src {
		var fs []string
		for f := range P.Overlay {
			fs = append(fs, f)
		}
		sort.Strings(fs)
		for _, f := range fs {
			if b, _ := os.ReadFile(f); string(b) != string(P.Overlay[f]) {
				fmt.Printf("==== %s\n%s\n", f, P.Overlay[f])
			}
		}
	}
}

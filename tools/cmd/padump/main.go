// padump prints the condition formulas of a function's branches (debugging aid for rule writing).
package main

import (
	"fmt"
	"os"

	"golang.org/x/tools/go/ssa"

	"verif/tools/load"
	"verif/tools/model"
)

func main() {
	repo := "/repo"
	if v := os.Getenv("VERIF_REPO"); v != "" {
		repo = v
	}
	P, err := load.Load(load.Config{Repo: repo})
	if err != nil {
		fmt.Println(err)
		os.Exit(2)
	}
	model.InitConstMaps(P)
	if os.Args[1] == "fields" {
		dumpFields(P)
		return
	}
	pkg := load.ModPath
	name := os.Args[1]
	if len(os.Args) > 2 {
		pkg = load.ModPath + "/" + os.Args[2]
	}
	fn := P.Func(pkg, name)
	if fn == nil {
		fmt.Println("not found")
		os.Exit(2)
	}
	A := model.NewAnalysis(fn)
	for _, b := range fn.Blocks {
		if ifi, ok := b.Instrs[len(b.Instrs)-1].(*ssa.If); ok {
			fmt.Printf("b%d -> b%d / b%d : %s\n", b.Index, b.Succs[0].Index, b.Succs[1].Index, A.Str(A.Cond(ifi.Cond)))
		}
	}
}

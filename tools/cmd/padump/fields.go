package main

import (
	"fmt"
	"sort"

	"verif/tools/load"
	"verif/tools/model"
)

func dumpFields(P *load.Program) {
	F := model.FindFields(P)
	var rs []string
	for r := range F.ByRole {
		rs = append(rs, r)
	}
	sort.Strings(rs)
	for _, r := range rs {
		fmt.Printf("%-28s %s\n", r, F.ByRole[r])
	}
	for _, m := range F.Miss {
		fmt.Println("MISS", m)
	}
}

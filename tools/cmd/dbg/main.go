package main

import (
	"fmt"

	"golang.org/x/tools/go/ssa"

	"verif/tools/load"
	"verif/tools/model"
)

func main() {
	P, _ := load.Load(load.Config{Repo: "/repo"})
	fn := P.Func(load.ModPath, "(*Policy).sanitizeAttrs")
	A := model.NewAnalysis(fn)
	//A.BindConst(fn.Params[1], "a")
	for _, b := range fn.Blocks {
		if ifi, ok := b.Instrs[len(b.Instrs)-1].(*ssa.If); ok {
			A.Cond(ifi.Cond)
		}
	}
	for _, b := range fn.Blocks {
		for _, in := range b.Instrs {
			if ph, ok := in.(*ssa.Phi); ok && ph.Type().String() == "bool" {
				fmt.Printf("%s (%s) b%d:\n", ph.Name(), ph.Comment, b.Index)
				for i, e := range ph.Edges {
					s := A.Str(A.Cond(e))
					if len(s) > 300 {
						s = s[:300]
					}
					fmt.Printf("   from b%d: %s\n", b.Preds[i].Index, s)
				}
			}
		}
	}
}

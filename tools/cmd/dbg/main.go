package main

import (
	"fmt"

	"golang.org/x/tools/go/ssa"

	"verif/tools/load"
	"verif/tools/model"
	"verif/tools/pa"
)

func main() {
	P, _ := load.Load(load.Config{Repo: "/repo"})
	fn := P.Func(load.ModPath+"/css", "AllHandler")
	A := model.NewAnalysis(fn)
	for _, b := range fn.Blocks {
		if ifi, ok := b.Instrs[len(b.Instrs)-1].(*ssa.If); ok {
			A.Cond(ifi.Cond)
		}
		if r, ok := b.Instrs[len(b.Instrs)-1].(*ssa.Return); ok {
			fmt.Println("ret:", A.Str(A.Cond(r.Results[0])))
		}
	}
	for i, at := range A.Atoms {
		fmt.Println(i, at.Kind, at.Key)
		if cl, ok := at.X.(*ssa.Call); ok {
			fmt.Println("   callee", pa.CalleeName(cl.Common().StaticCallee()))
		}
	}
}

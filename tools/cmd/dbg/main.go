package main

import (
	"fmt"
	"os"

	"golang.org/x/tools/go/ssa"

	"verif/tools/load"
	"verif/tools/model"
)

// dbg <repo> <func> <paramIndex> <value>: branch conditions of a function with one parameter bound to a constant.
func main() {
	P, err := load.Load(load.Config{Repo: os.Args[1]})
	if err != nil {
		fmt.Println(err)
		return
	}
	model.InitConstMaps(P)
	if os.Args[2] == "initdump" {
		P.SSA[load.ModPath].Func("init").WriteTo(os.Stdout)
		return
	}
	if os.Args[2] == "constslices" {
		for g, l := range model.ConstSlices(P) {
			fmt.Println(g.Name(), len(l))
		}
		return
	}
	fn := P.Func(load.ModPath, os.Args[2])
	A := model.NewAnalysis(fn)
	if len(os.Args) > 4 {
		var i int
		fmt.Sscanf(os.Args[3], "%d", &i)
		A.BindConst(fn.Params[i], os.Args[4])
	}
	for _, b := range fn.Blocks {
		if ifi, ok := b.Instrs[len(b.Instrs)-1].(*ssa.If); ok {
			fmt.Printf("b%d -> b%d / b%d : %s\n", b.Index, b.Succs[0].Index, b.Succs[1].Index, A.Str(A.Cond(ifi.Cond)))
		}
	}
}

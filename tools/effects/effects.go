// Package effects is Engine C: a flow-insensitive freshness/effect analysis over go/ssa.
// Every reference-like value is classified as Fresh (allocated during this call), derived from
// parameter i, or Shared (policy / package state / unknown); every instruction that may write
// memory is listed with the class of what it writes to.
package effects

import (
	"fmt"
	"go/token"
	"go/types"
	"sort"
	"strings"

	"golang.org/x/tools/go/ssa"
)

// Class is an element of the lattice: the zero value is Fresh.
type Class struct {
	Params uint32 // bit i: may alias (memory reachable from) parameter i
	Shared bool   // may alias package-level or otherwise unknown memory
}

func (c Class) Fresh() bool { return c.Params == 0 && !c.Shared }
func (c Class) Join(d Class) Class {
	return Class{c.Params | d.Params, c.Shared || d.Shared}
}
func (c Class) String() string {
	if c.Fresh() {
		return "fresh"
	}
	var ps []string
	for i := 0; i < 32; i++ {
		if c.Params>>uint(i)&1 == 1 {
			ps = append(ps, fmt.Sprintf("param%d", i))
		}
	}
	if c.Shared {
		ps = append(ps, "shared")
	}
	return strings.Join(ps, "|")
}

var shared = Class{Shared: true}

// Effect is one potential write.
type Effect struct {
	Instr   ssa.Instruction
	Kind    string // store | mapupdate | delete | append | call | send
	Target  Class
	What    string
	Guarded string // non-empty: excluded from the function's summary for this reason
	// for calls of analysed functions: the class written through the actual arguments alone, and the
	// callee whose own (argument-independent) shared writes are included in Target
	ArgTarget    Class
	SharedCallee *ssa.Function
}

// Summary describes a function for its callers.
type Summary struct {
	Writes  Class   // union of classes written (in terms of the callee's own parameters / shared)
	Results []Class // class of each result
}

// Analysis holds summaries for a set of functions.
type Analysis struct {
	Funcs map[*ssa.Function]bool
	Sum   map[*ssa.Function]*Summary
	FnEff map[*ssa.Function][]Effect
	// ReadOnly lists external functions that do not write through their arguments and whose
	// results are fresh (or alias only what is listed in Alias).
	ReadOnly func(fn *ssa.Function) (ok bool, resultAliasesArg int)
	// SharedParam marks parameters that stand for shared state (e.g. the *Policy receiver).
	SharedParam func(p *ssa.Parameter) bool
	// Guard may declare an effect harmless (returns a reason); such effects stay listed but do not
	// enter the function's summary.
	Guard   func(fn *ssa.Function, in ssa.Instruction) string
	values  map[*ssa.Function]map[ssa.Value]Class
	content map[*ssa.Function]map[ssa.Value]Class // content class of allocs/maps/slices created here
}

func refLike(t types.Type) bool {
	switch u := t.Underlying().(type) {
	case *types.Pointer, *types.Map, *types.Slice, *types.Chan, *types.Signature, *types.Interface:
		return true
	case *types.Struct:
		for i := 0; i < u.NumFields(); i++ {
			if refLike(u.Field(i).Type()) {
				return true
			}
		}
	case *types.Array:
		return refLike(u.Elem())
	case *types.Tuple:
		for i := 0; i < u.Len(); i++ {
			if refLike(u.At(i).Type()) {
				return true
			}
		}
	}
	return false
}

// New analyses the given functions to a fixpoint of their summaries.
func New(funcs []*ssa.Function, readOnly func(fn *ssa.Function) (bool, int), sharedParam func(*ssa.Parameter) bool, guard func(*ssa.Function, ssa.Instruction) string) *Analysis {
	A := &Analysis{SharedParam: sharedParam, Guard: guard, Funcs: map[*ssa.Function]bool{}, Sum: map[*ssa.Function]*Summary{}, FnEff: map[*ssa.Function][]Effect{}, ReadOnly: readOnly,
		values: map[*ssa.Function]map[ssa.Value]Class{}, content: map[*ssa.Function]map[ssa.Value]Class{}}
	for _, f := range funcs {
		A.Funcs[f] = true
		A.Sum[f] = &Summary{Results: make([]Class, f.Signature.Results().Len())}
	}
	sort.Slice(funcs, func(i, j int) bool { return funcs[i].String() < funcs[j].String() })
	for iter := 0; iter < 20; iter++ {
		changed := false
		for _, f := range funcs {
			if A.analyse(f) {
				changed = true
			}
		}
		if !changed {
			break
		}
	}
	return A
}

func (A *Analysis) analyse(fn *ssa.Function) bool {
	vals := map[ssa.Value]Class{}
	cont := map[ssa.Value]Class{}
	paramIdx := map[*ssa.Parameter]int{}
	for i, p := range fn.Params {
		paramIdx[p] = i
	}
	var class func(v ssa.Value) Class
	seen := map[ssa.Value]bool{}
	class = func(v ssa.Value) Class {
		if v == nil {
			return Class{}
		}
		if c, ok := vals[v]; ok {
			return c
		}
		if !refLike(v.Type()) {
			return Class{}
		}
		if seen[v] {
			return Class{} // cycle through phis: bottom, resolved by the outer fixpoint
		}
		seen[v] = true
		defer func() { seen[v] = false }()
		var c Class
		switch x := v.(type) {
		case *ssa.Const:
		case *ssa.Parameter:
			if A.SharedParam != nil && A.SharedParam(x) {
				c = shared
			} else {
				c = Class{Params: 1 << uint(paramIdx[x])}
			}
		case *ssa.FreeVar:
			c = shared
		case *ssa.Global:
			c = shared
		case *ssa.Function, *ssa.Builtin:
		case *ssa.Alloc, *ssa.MakeMap, *ssa.MakeSlice, *ssa.MakeChan:
		case *ssa.MakeClosure:
			for _, b := range x.Bindings {
				c = c.Join(class(b))
			}
		case *ssa.MakeInterface:
			c = class(x.X)
		case *ssa.ChangeType:
			c = class(x.X)
		case *ssa.ChangeInterface:
			c = class(x.X)
		case *ssa.Convert:
			// []byte(string) / string([]byte) allocate
		case *ssa.TypeAssert:
			c = class(x.X)
		case *ssa.FieldAddr:
			c = class(x.X)
		case *ssa.IndexAddr:
			c = class(x.X)
		case *ssa.Field:
			c = class(x.X)
		case *ssa.Index:
			c = class(x.X)
		case *ssa.Slice:
			c = class(x.X)
		case *ssa.Phi:
			for _, e := range x.Edges {
				c = c.Join(class(e))
			}
		case *ssa.Extract:
			if cl, ok := x.Tuple.(*ssa.Call); ok {
				rs := A.callResults(fn, cl, class)
				if x.Index < len(rs) {
					c = rs[x.Index]
				} else {
					c = shared
				}
			} else {
				c = class(x.Tuple)
			}
		case *ssa.Lookup:
			c = A.contentOf(x.X, class, cont)
		case *ssa.Next:
			if rg, ok := x.Iter.(*ssa.Range); ok {
				c = A.contentOf(rg.X, class, cont)
				// map keys that are pointers (e.g. *regexp.Regexp) alias the map's owner too
			}
		case *ssa.Range:
			c = class(x.X)
		case *ssa.UnOp:
			switch x.Op {
			case token.MUL:
				c = A.contentOf(x.X, class, cont)
			case token.ARROW:
				c = shared
			default:
				c = class(x.X)
			}
		case *ssa.Call:
			rs := A.callResults(fn, x, class)
			if len(rs) == 1 {
				c = rs[0]
			} else if len(rs) == 0 {
				c = Class{}
			} else {
				for _, r := range rs {
					c = c.Join(r)
				}
			}
		case *ssa.BinOp:
		default:
			c = shared
		}
		vals[v] = c
		return c
	}
	// content classes: join of everything stored into a locally created container, iterated to a fixpoint
	for iter := 0; iter < 10; iter++ {
		changed := false
		for k := range vals {
			delete(vals, k)
		}
		for _, b := range fn.Blocks {
			for _, in := range b.Instrs {
				switch x := in.(type) {
				case *ssa.Store:
					root := rootOf(x.Addr)
					if refLike(x.Val.Type()) {
						nc := cont[root].Join(class(x.Val))
						if nc != cont[root] {
							cont[root] = nc
							changed = true
						}
					}
				case *ssa.MapUpdate:
					root := rootOf(x.Map)
					nc := cont[root]
					if refLike(x.Value.Type()) {
						nc = nc.Join(class(x.Value))
					}
					if refLike(x.Key.Type()) {
						nc = nc.Join(class(x.Key))
					}
					if nc != cont[root] {
						cont[root] = nc
						changed = true
					}
				case *ssa.Call:
					// append(a, b...): the result holds a's and b's contents
					if bi, ok := x.Common().Value.(*ssa.Builtin); ok && bi.Name() == "append" {
						nc := cont[x].Join(A.contentOf(x.Common().Args[0], class, cont)).Join(A.contentOf(x.Common().Args[1], class, cont))
						if nc != cont[x] {
							cont[x] = nc
							changed = true
						}
					}
				}
			}
		}
		if !changed {
			break
		}
	}
	for k := range vals {
		delete(vals, k)
	}
	// effects
	var effs []Effect
	add := func(in ssa.Instruction, kind string, tgt Class, what string) {
		g := ""
		if A.Guard != nil {
			g = A.Guard(fn, in)
		}
		effs = append(effs, Effect{Instr: in, Kind: kind, Target: tgt, What: what, Guarded: g})
	}
	for _, b := range fn.Blocks {
		for _, in := range b.Instrs {
			switch x := in.(type) {
			case *ssa.Store:
				add(in, "store", class(x.Addr), "store")
			case *ssa.MapUpdate:
				add(in, "mapupdate", class(x.Map), "map update")
			case *ssa.Send:
				add(in, "send", shared, "channel send")
			case *ssa.Go:
				add(in, "call", shared, "go statement")
			case ssa.CallInstruction:
				c := x.Common()
				if bi, ok := c.Value.(*ssa.Builtin); ok {
					switch bi.Name() {
					case "delete":
						add(in, "delete", class(c.Args[0]), "delete from map")
					case "append":
						// append writes into the backing array of its first argument when capacity allows
						add(in, "append", class(c.Args[0]), "append (may write into the first argument's backing array)")
					case "copy":
						add(in, "store", class(c.Args[0]), "copy")
					case "clear":
						add(in, "store", class(c.Args[0]), "clear")
					}
					continue
				}
				if c.IsInvoke() {
					add(in, "call", class(c.Value), "interface method "+c.Method.Name()+" on the value")
					continue
				}
				cal := c.StaticCallee()
				if cal == nil {
					// call through a function value: arguments may be written
					var t Class
					for _, a := range c.Args {
						t = t.Join(class(a))
					}
					add(in, "dyncall", t, "call through a function value (arguments may be written)")
					continue
				}
				if A.Funcs[cal] {
					s := A.Sum[cal]
					t := Class{Shared: s.Writes.Shared}
					for i, a := range c.Args {
						if s.Writes.Params>>uint(i)&1 == 1 {
							t = t.Join(class(a))
						}
					}
					for i, bnd := range closureBindings(c.Value) {
						_ = i
						t = t.Join(class(bnd))
					}
					if !t.Fresh() || s.Writes.Params != 0 {
						add(in, "call", t, "call of "+cal.String()+" which writes through its arguments or to shared state")
						e := &effs[len(effs)-1]
						at := Class{}
						for i, a := range c.Args {
							if s.Writes.Params>>uint(i)&1 == 1 {
								at = at.Join(class(a))
							}
						}
						e.ArgTarget = at
						if s.Writes.Shared {
							e.SharedCallee = cal
						}
					}
					continue
				}
				if A.ReadOnly != nil {
					if ok, _ := A.ReadOnly(cal); ok {
						continue
					}
				}
				var t Class
				for _, a := range c.Args {
					t = t.Join(class(a))
				}
				if !t.Fresh() {
					add(in, "extcall", t, "call of "+cal.String()+" (not known to be read-only) with non-fresh arguments")
				}
			}
		}
	}
	// summary
	sum := &Summary{Results: make([]Class, fn.Signature.Results().Len())}
	for _, e := range effs {
		if e.Guarded == "" {
			sum.Writes = sum.Writes.Join(e.Target)
		}
	}
	for _, b := range fn.Blocks {
		if r, ok := b.Instrs[len(b.Instrs)-1].(*ssa.Return); ok {
			for i, res := range r.Results {
				sum.Results[i] = sum.Results[i].Join(class(res))
				if refLike(res.Type()) {
					sum.Results[i] = sum.Results[i].Join(A.contentOf(res, class, cont))
				}
			}
		}
	}
	old := A.Sum[fn]
	A.FnEff[fn] = effs
	A.values[fn] = vals
	A.content[fn] = cont
	changed := old == nil || old.Writes != sum.Writes || len(old.Results) != len(sum.Results)
	if !changed {
		for i := range sum.Results {
			if old.Results[i] != sum.Results[i] {
				changed = true
			}
		}
	}
	A.Sum[fn] = sum
	return changed
}

func closureBindings(v ssa.Value) []ssa.Value {
	if mc, ok := v.(*ssa.MakeClosure); ok {
		return mc.Bindings
	}
	return nil
}

func rootOf(v ssa.Value) ssa.Value {
	for {
		switch x := v.(type) {
		case *ssa.FieldAddr:
			v = x.X
		case *ssa.IndexAddr:
			v = x.X
		case *ssa.Slice:
			v = x.X
		default:
			return v
		}
	}
}

// contentOf: class of the references held inside the container/cell v points to.
func (A *Analysis) contentOf(v ssa.Value, class func(ssa.Value) Class, cont map[ssa.Value]Class) Class {
	root := rootOf(v)
	switch x := root.(type) {
	case *ssa.Alloc, *ssa.MakeMap, *ssa.MakeSlice:
		return cont[root]
	case *ssa.Call:
		if bi, ok := x.Common().Value.(*ssa.Builtin); ok && bi.Name() == "append" {
			return cont[root]
		}
	case *ssa.Phi:
		var c Class
		for _, e := range x.Edges {
			if e == ssa.Value(x) {
				continue
			}
			if p2, ok := rootOf(e).(*ssa.Phi); ok && p2 == x {
				continue
			}
			c = c.Join(A.contentOfOnce(e, class, cont, map[ssa.Value]bool{root: true}))
		}
		return c.Join(class(root))
	}
	// memory reachable from a parameter / shared / call result: same class as the container
	return class(root)
}

func (A *Analysis) contentOfOnce(v ssa.Value, class func(ssa.Value) Class, cont map[ssa.Value]Class, seen map[ssa.Value]bool) Class {
	root := rootOf(v)
	if seen[root] {
		return Class{}
	}
	seen[root] = true
	switch x := root.(type) {
	case *ssa.Alloc, *ssa.MakeMap, *ssa.MakeSlice:
		return cont[root]
	case *ssa.Call:
		if bi, ok := x.Common().Value.(*ssa.Builtin); ok && bi.Name() == "append" {
			return cont[root]
		}
	case *ssa.Phi:
		var c Class
		for _, e := range x.Edges {
			c = c.Join(A.contentOfOnce(e, class, cont, seen))
		}
		return c.Join(class(root))
	}
	return class(root)
}

func (A *Analysis) callResults(fn *ssa.Function, call *ssa.Call, class func(ssa.Value) Class) []Class {
	c := call.Common()
	n := 1
	if t, ok := call.Type().(*types.Tuple); ok {
		n = t.Len()
	}
	out := make([]Class, n)
	if bi, ok := c.Value.(*ssa.Builtin); ok {
		switch bi.Name() {
		case "append":
			out[0] = class(c.Args[0])
		}
		return out
	}
	if c.IsInvoke() {
		for i := range out {
			out[i] = class(c.Value)
		}
		return out
	}
	cal := c.StaticCallee()
	if cal == nil {
		for i := range out {
			out[i] = shared
		}
		return out
	}
	if A.Funcs[cal] {
		s := A.Sum[cal]
		for i := range out {
			if i < len(s.Results) {
				r := s.Results[i]
				oc := Class{Shared: r.Shared}
				for j, a := range c.Args {
					if r.Params>>uint(j)&1 == 1 {
						oc = oc.Join(class(a))
					}
				}
				out[i] = oc
			}
		}
		return out
	}
	if A.ReadOnly != nil {
		if ok, alias := A.ReadOnly(cal); ok {
			if alias >= 0 && alias < len(c.Args) {
				for i := range out {
					out[i] = class(c.Args[alias])
				}
			}
			return out
		}
	}
	for i := range out {
		out[i] = shared
	}
	return out
}

// ClassOf returns the class computed for v inside fn (after New).
func (A *Analysis) ClassOf(fn *ssa.Function, v ssa.Value) Class {
	// recompute lazily through a fresh analyse pass is expensive; values were cached during the last pass
	if m := A.values[fn]; m != nil {
		if c, ok := m[v]; ok {
			return c
		}
	}
	return shared
}

package csslang

import (
	"fmt"
	"go/ast"
	"go/constant"
	"go/token"
	"go/types"
	"sort"
	"strconv"
	"strings"

	"golang.org/x/tools/go/packages"

	"verif/tools/pats"
	"verif/tools/relang"
)

// Result is the language computed for one handler.
type Result struct {
	Name      string
	L         *relang.DFA // ⊇ accepted values
	Exact     bool
	Undecided string // non-empty: why the body could not be interpreted
	Schemas   []string
}

// Interp interprets the handlers of package css.
type Interp struct {
	E     *Env
	Pkg   *packages.Package
	Vars  map[string]*pats.Var
	funcs map[string]*ast.FuncDecl
	memo  map[string]*Result
	stack map[string]bool
	// Members: verified membership helpers f(x, list) / f(list, x) -> index of the string parameter
	Members     map[string]int
	immut       map[*types.Var]bool
	helperDepth int
}

func NewInterp(e *Env, pkg *packages.Package, vars map[string]*pats.Var) *Interp {
	in := &Interp{E: e, Pkg: pkg, Vars: vars, funcs: map[string]*ast.FuncDecl{}, memo: map[string]*Result{}, stack: map[string]bool{}, Members: map[string]int{}, immut: map[*types.Var]bool{}}
	for _, f := range pkg.Syntax {
		for _, d := range f.Decls {
			if fd, ok := d.(*ast.FuncDecl); ok && fd.Recv == nil && fd.Body != nil {
				in.funcs[fd.Name.Name] = fd
			}
		}
	}
	return in
}

// HandlerNames returns every top-level func(string) bool of the package.
func (in *Interp) HandlerNames() []string {
	var out []string
	for n, fd := range in.funcs {
		t := fd.Type
		if t.Params == nil || len(t.Params.List) != 1 || len(t.Params.List[0].Names) != 1 || t.Results == nil || len(t.Results.List) != 1 {
			continue
		}
		if id, ok := t.Params.List[0].Type.(*ast.Ident); !ok || id.Name != "string" {
			continue
		}
		if id, ok := t.Results.List[0].Type.(*ast.Ident); !ok || id.Name != "bool" {
			continue
		}
		out = append(out, n)
	}
	sort.Strings(out)
	return out
}

type undecided struct{ why string }

func (in *Interp) fail(format string, args ...any) { panic(undecided{fmt.Sprintf(format, args...)}) }

// ---------------------------------------------------------------------------------------------
// abstract values

// strT is a string expressed as a transformation of the current subject (the handler's parameter or a loop element).
// pre maps a language over the string's value to the language over the subject.
type strT struct {
	konst   string // the value, when isConst
	isConst bool
	pre     func(L *relang.DFA) *relang.DFA
	exact   bool
	desc    string
}

// listT is a []string derived from the subject.
type listT struct {
	kind string // split | splitvalues | singleton | sub | flatten | filter | multisplit
	sep  string
	src  *strT
	from int    // for sub: xs[from:to]
	to   int    // for sub: exclusive end, -1 = to the end
	base *listT // for sub/flatten/filter
	drop string // filter: elements equal to drop are removed
	desc string
}

type kwT struct{ words []string }
type funcsT struct{ names []string }

// cond is a pair of over-approximations: pos ⊇ {subject | condition true}, neg ⊇ {subject | condition false}.
type cond struct {
	pos, neg *relang.DFA
	exact    bool
}

type env struct {
	vars    map[string]any
	subject string
	exact   *bool
	schemas *[]string
	loop    *loopCtx
}

// loopCtx collects the outcomes of one range-loop body (languages over the element).
type loopCtx struct {
	cont, brk *relang.DFA
	entry     map[string]any
	brkFlags  map[string][]*cond
}

func (e *env) clone() *env {
	n := &env{vars: map[string]any{}, subject: e.subject, exact: e.exact, schemas: e.schemas, loop: e.loop}
	for k, v := range e.vars {
		n.vars[k] = v
	}
	return n
}

func (e *env) note(s string) {
	for _, x := range *e.schemas {
		if x == s {
			return
		}
	}
	*e.schemas = append(*e.schemas, s)
}

func (in *Interp) identity() *strT {
	return &strT{pre: func(L *relang.DFA) *relang.DFA { return L }, exact: true, desc: "v"}
}

// Lang returns the language of handler name.
func (in *Interp) Lang(name string) (res *Result) {
	if r, ok := in.memo[name]; ok {
		return r
	}
	if in.stack[name] {
		return &Result{Name: name, L: in.E.All(), Undecided: "recursive handler"}
	}
	in.stack[name] = true
	defer func() { in.stack[name] = false }()
	fd := in.funcs[name]
	if fd == nil {
		return &Result{Name: name, L: in.E.All(), Undecided: "function not found"}
	}
	res = &Result{Name: name, Exact: true}
	defer func() {
		if r := recover(); r != nil {
			if u, ok := r.(undecided); ok {
				res = &Result{Name: name, L: in.E.All(), Undecided: u.why}
			} else {
				res = &Result{Name: name, L: in.E.All(), Undecided: fmt.Sprint("interpreter panic: ", r)}
			}
		}
		in.memo[name] = res
	}()
	ev := &env{vars: map[string]any{}, subject: fd.Type.Params.List[0].Names[0].Name, exact: &res.Exact, schemas: &res.Schemas}
	ev.vars[ev.subject] = in.identity()
	t, _, n := in.block(fd.Body.List, ev, in.E.All())
	_ = n
	res.L = t
	return res
}

// block interprets statements under assumption A (language of subjects reaching this point).
// Returns (T, F, N): over-approximations of subjects for which the block returns true, returns false, or falls through.
func (in *Interp) block(stmts []ast.Stmt, ev *env, A *relang.DFA) (T, F, N *relang.DFA) {
	T, F = in.E.Empty(), in.E.Empty()
	cur := A
	for i := 0; i < len(stmts); i++ {
		if cur.IsEmpty() {
			break
		}
		switch s := stmts[i].(type) {
		case *ast.ReturnStmt:
			if len(s.Results) != 1 {
				in.fail("return with %d results", len(s.Results))
			}
			c := in.cond(s.Results[0], ev)
			if !c.exact {
				*ev.exact = false
			}
			T = relang.Union(T, relang.Inter(cur, c.pos))
			F = relang.Union(F, relang.Inter(cur, c.neg))
			return T, F, in.E.Empty()
		case *ast.IfStmt:
			if s.Init != nil {
				// if x := e; cond { … }: x is scoped to the statement; unique names make a plain binding equivalent
				switch st := s.Init.(type) {
				case *ast.AssignStmt:
					in.assign(st, ev)
				default:
					in.fail("if with an init statement that is not an assignment")
				}
			}
			c := in.cond(s.Cond, ev)
			if !c.exact {
				*ev.exact = false
			}
			ev1 := ev.clone()
			t1, f1, n1 := in.block(s.Body.List, ev1, relang.Inter(cur, c.pos))
			t2, f2, n2 := in.E.Empty(), in.E.Empty(), relang.Inter(cur, c.neg)
			ev2 := ev.clone()
			switch e := s.Else.(type) {
			case nil:
			case *ast.BlockStmt:
				t2, f2, n2 = in.block(e.List, ev2, relang.Inter(cur, c.neg))
			case *ast.IfStmt:
				t2, f2, n2 = in.block([]ast.Stmt{e}, ev2, relang.Inter(cur, c.neg))
			default:
				in.fail("unsupported else form")
			}
			T = relang.Union(T, relang.Union(t1, t2))
			F = relang.Union(F, relang.Union(f1, f2))
			// variables assigned inside branches: join (only boolean flags are joined; others must agree)
			switch {
			case n1.IsEmpty():
				ev.vars = ev2.vars
			case n2.IsEmpty():
				ev.vars = ev1.vars
			default:
				in.joinEnv(ev, ev1, ev2, relang.Inter(cur, c.pos), relang.Inter(cur, c.neg))
			}
			cur = relang.Union(n1, n2)
		case *ast.SwitchStmt:
			t, f, n := in.switchStmt(s, ev, cur)
			T = relang.Union(T, t)
			F = relang.Union(F, f)
			cur = n
		case *ast.AssignStmt:
			in.assign(s, ev)
		case *ast.DeclStmt:
			in.decl(s, ev)
		case *ast.RangeStmt:
			t, f, n := in.rangeLoop(s, ev, cur)
			T = relang.Union(T, t)
			F = relang.Union(F, f)
			cur = n
		case *ast.BranchStmt:
			if ev.loop == nil || s.Label != nil {
				in.fail("branch statement outside a modelled loop")
			}
			switch s.Tok {
			case token.CONTINUE:
				ev.loop.cont = relang.Union(ev.loop.cont, cur)
			case token.BREAK:
				ev.loop.brk = relang.Union(ev.loop.brk, cur)
				for k, v := range ev.vars {
					c, ok := v.(*cond)
					if ok && ev.loop.entry[k] != v {
						ev.loop.brkFlags[k] = append(ev.loop.brkFlags[k], c)
					}
				}
			default:
				in.fail("unsupported branch statement")
			}
			return T, F, in.E.Empty()
		case *ast.ExprStmt:
			in.fail("expression statement")
		default:
			in.fail("unsupported statement %T", s)
		}
	}
	return T, F, cur
}

func (in *Interp) joinEnv(into, a, b *env, la, lb *relang.DFA) {
	for k, va := range a.vars {
		vb, ok := b.vars[k]
		if !ok {
			continue // declared inside the branch
		}
		if va == vb {
			into.vars[k] = va
			continue
		}
		ca, isA := va.(*cond)
		cb, isB := vb.(*cond)
		if isA && isB {
			// flag assigned differently in the two branches: its value depends on which branch ran
			into.vars[k] = &cond{
				pos: relang.Union(relang.Inter(la, ca.pos), relang.Inter(lb, cb.pos)),
				neg: relang.Union(relang.Inter(la, ca.neg), relang.Inter(lb, cb.neg)),
			}
			continue
		}
		sa, isSA := va.(*strT)
		sb, isSB := vb.(*strT)
		if isSA && isSB && !sa.isConst && !sb.isConst {
			// a string derived from the subject in two ways, depending on the branch taken: for the inputs that took
			// branch a it is what a computed, for the others what b computed
			la2, lb2 := la, lb
			into.vars[k] = &strT{
				pre: func(L *relang.DFA) *relang.DFA {
					return relang.Union(relang.Inter(la2, sa.pre(L)), relang.Inter(lb2, sb.pre(L)))
				},
				exact: sa.exact && sb.exact,
				desc:  "either(" + sa.desc + " | " + sb.desc + ")",
			}
			continue
		}
		in.fail("variable %s is assigned in only one branch of an if", k)
	}
}

func (in *Interp) constString(e ast.Expr) (string, bool) {
	return pats.ConstString(in.Pkg.TypesInfo, e)
}

func (in *Interp) decl(s *ast.DeclStmt, ev *env) {
	gd, ok := s.Decl.(*ast.GenDecl)
	if !ok || gd.Tok != token.VAR {
		in.fail("unsupported declaration")
	}
	for _, sp := range gd.Specs {
		vs := sp.(*ast.ValueSpec)
		for i, n := range vs.Names {
			if i < len(vs.Values) {
				ev.vars[n.Name] = in.value(vs.Values[i], ev)
			} else {
				ev.vars[n.Name] = nil
			}
		}
	}
}

func (in *Interp) assign(s *ast.AssignStmt, ev *env) {
	if len(s.Lhs) != len(s.Rhs) || len(s.Lhs) == 0 {
		in.fail("assignment of a multi-valued expression")
	}
	// a, b := x, y: all right-hand sides are evaluated before any assignment
	vals := make([]any, len(s.Rhs))
	for i, r := range s.Rhs {
		vals[i] = in.value(r, ev)
	}
	for i, l := range s.Lhs {
		id, ok := l.(*ast.Ident)
		if !ok {
			in.fail("assignment to non-identifier")
		}
		if id.Name == "_" {
			continue
		}
		ev.vars[id.Name] = vals[i]
	}
}

func (in *Interp) callName(c *ast.CallExpr) string {
	switch f := c.Fun.(type) {
	case *ast.Ident:
		return f.Name
	case *ast.SelectorExpr:
		if x, ok := f.X.(*ast.Ident); ok {
			return x.Name + "." + f.Sel.Name
		}
	}
	return ""
}

// reT is a package-level regexp held in a local variable or parameter.
type reT struct{ name string }

// regexpOf resolves the receiver of a regexp method: a package-level regexp named directly, or a local
// variable / parameter bound to one.
func (in *Interp) regexpOf(x ast.Expr, ev *env) (*pats.Var, string) {
	id, ok := ast.Unparen(x).(*ast.Ident)
	if !ok {
		return nil, ""
	}
	if v, ok := ev.vars[id.Name]; ok {
		if r, ok := v.(reT); ok {
			return in.Vars[r.name], r.name
		}
		return nil, ""
	}
	if obj, ok := in.Pkg.TypesInfo.Uses[id].(*types.Var); ok && obj.Parent() == in.Pkg.Types.Scope() && in.Vars[id.Name] != nil {
		return in.Vars[id.Name], id.Name
	}
	return nil, ""
}

// value evaluates an expression to an abstract value.
func (in *Interp) value(e ast.Expr, ev *env) any {
	e = ast.Unparen(e)
	if tv, ok := in.Pkg.TypesInfo.Types[e]; ok && tv.Value != nil {
		switch tv.Value.Kind() {
		case constant.Bool:
			if constant.BoolVal(tv.Value) {
				return &cond{pos: in.E.All(), neg: in.E.Empty(), exact: true}
			}
			return &cond{pos: in.E.Empty(), neg: in.E.All(), exact: true}
		case constant.String:
			s := constant.StringVal(tv.Value)
			return &strT{pre: func(L *relang.DFA) *relang.DFA {
				if L.Accepts(s) {
					return in.E.All()
				}
				return in.E.Empty()
			}, exact: true, desc: fmt.Sprintf("%q", s), konst: s, isConst: true}
		case constant.Int:
			v, _ := constant.Int64Val(tv.Value)
			return int(v)
		}
	}
	switch x := e.(type) {
	case *ast.Ident:
		if v, ok := ev.vars[x.Name]; ok {
			return v
		}
		// package-level keyword list
		if obj, ok := in.Pkg.TypesInfo.Uses[x].(*types.Var); ok && obj.Parent() == in.Pkg.Types.Scope() {
			if in.Vars[x.Name] != nil {
				// a package-level regexp passed around as a value (its pattern table entry already requires a
				// single compile-time definition)
				return reT{name: x.Name}
			}
			if !in.pkgVarImmutable(obj) {
				in.fail("package-level variable %s is assigned somewhere in the package", x.Name)
			}
			if kw := in.globalKeywords(x.Name); kw != nil {
				return kw
			}
			if fs := in.globalFuncs(x.Name); fs != nil {
				return fs
			}
		}
		in.fail("unknown identifier %s", x.Name)
	case *ast.CompositeLit:
		tv := in.Pkg.TypesInfo.Types[x]
		switch tv.Type.String() {
		case "[]string":
			var words []string
			allConst := true
			for _, el := range x.Elts {
				if s, ok := in.constString(el); ok {
					words = append(words, s)
				} else {
					allConst = false
				}
			}
			if len(x.Elts) == 0 {
				return &listT{kind: "emptylist", desc: "[]string{}"}
			}
			if allConst {
				return &kwT{words}
			}
			if len(x.Elts) == 1 {
				sv, ok := in.value(x.Elts[0], ev).(*strT)
				if !ok {
					in.fail("singleton list of a non-string")
				}
				return &listT{kind: "singleton", src: sv, desc: "[]string{" + sv.desc + "}"}
			}
			in.fail("mixed string list literal")
		case "[]func(string) bool":
			var names []string
			for _, el := range x.Elts {
				id, ok := el.(*ast.Ident)
				if !ok {
					in.fail("handler list element is not a function name")
				}
				names = append(names, id.Name)
			}
			return &funcsT{names}
		}
		in.fail("unsupported composite literal %s", tv.Type)
	case *ast.CallExpr:
		return in.call(x, ev)
	case *ast.IndexExpr:
		lv, ok := in.value(x.X, ev).(*listT)
		if !ok {
			in.fail("index into a non-list")
		}
		idx, ok := in.value(x.Index, ev).(int)
		if !ok {
			in.fail("non-constant index")
		}
		return in.elem(lv, idx, ev)
	case *ast.SliceExpr:
		lv, ok := in.value(x.X, ev).(*listT)
		if !ok || x.Max != nil {
			in.fail("unsupported slice expression")
		}
		lo, hi := 0, -1
		if x.Low != nil {
			v, ok := in.value(x.Low, ev).(int)
			if !ok {
				in.fail("non-constant slice bound")
			}
			lo = v
		}
		if x.High != nil {
			v, ok := in.value(x.High, ev).(int)
			if !ok {
				in.fail("non-constant slice bound")
			}
			hi = v
		}
		return &listT{kind: "sub", base: lv, from: lo, to: hi, desc: fmt.Sprintf("%s[%d:%d]", lv.desc, lo, hi)}
	case *ast.BinaryExpr, *ast.UnaryExpr:
		return in.cond(e, ev)
	}
	in.fail("unsupported expression %T", e)
	return nil
}

func (in *Interp) globalKeywords(name string) *kwT {
	for _, f := range in.Pkg.Syntax {
		for _, d := range f.Decls {
			gd, ok := d.(*ast.GenDecl)
			if !ok {
				continue
			}
			for _, sp := range gd.Specs {
				vs, ok := sp.(*ast.ValueSpec)
				if !ok {
					continue
				}
				for i, n := range vs.Names {
					if n.Name != name || i >= len(vs.Values) {
						continue
					}
					cl, ok := vs.Values[i].(*ast.CompositeLit)
					if !ok {
						return nil
					}
					var words []string
					for _, el := range cl.Elts {
						s, ok := in.constString(el)
						if !ok {
							return nil
						}
						words = append(words, s)
					}
					return &kwT{words}
				}
			}
		}
	}
	return nil
}

// elem: the idx-th element of a list, as a string transformation.
func (in *Interp) elem(lv *listT, idx int, ev *env) *strT {
	switch lv.kind {
	case "split":
		src, sep := lv.src, lv.sep
		ok := true
		return &strT{pre: func(L *relang.DFA) *relang.DFA {
			c, ex := in.E.Comp(L, sep, idx)
			if !ex {
				ok = false
			}
			_ = ok
			return src.pre(c)
		}, exact: src.exact && len([]rune(sep)) == 1, desc: fmt.Sprintf("%s[%d]", lv.desc, idx)}
	case "sub":
		return in.elem(lv.base, idx+lv.from, ev)
	case "singleton":
		if idx == 0 {
			return lv.src
		}
	}
	in.fail("element %d of a %s list", idx, lv.kind)
	return nil
}

func (in *Interp) call(c *ast.CallExpr, ev *env) any {
	name := in.callName(c)
	arg := func(i int) any { return in.value(c.Args[i], ev) }
	str := func(i int) *strT {
		v, ok := arg(i).(*strT)
		if !ok {
			in.fail("%s: argument %d is not a string derived from the value", name, i)
		}
		return v
	}
	cs := func(i int) string {
		s, ok := in.cstr(c.Args[i], ev)
		if !ok {
			in.fail("%s: argument %d is not a constant", name, i)
		}
		return s
	}
	switch name {
	case "strings.Split":
		s := str(0)
		return &listT{kind: "split", sep: cs(1), src: s, desc: fmt.Sprintf("Split(%s,%q)", s.desc, cs(1))}
	case "splitValues":
		s := str(0)
		return &listT{kind: "splitvalues", sep: ",", src: s, desc: "splitValues(" + s.desc + ")"}
	case "multiSplit":
		s := str(0)
		var seps []string
		for i := 1; i < len(c.Args); i++ {
			seps = append(seps, cs(i))
		}
		// later separators that contain an earlier separator can never occur in the parts: drop them
		var eff []string
		for i, sp := range seps {
			dead := false
			for _, prev := range seps[:i] {
				if strings.Contains(sp, prev) {
					dead = true
				}
			}
			if !dead {
				eff = append(eff, sp)
			}
		}
		return &listT{kind: "multisplit", sep: strings.Join(eff, "\x00"), src: s, desc: fmt.Sprintf("multiSplit(%s,%q)", s.desc, seps)}
	case "strings.TrimSpace":
		s := str(0)
		return &strT{pre: func(L *relang.DFA) *relang.DFA { return s.pre(in.E.PreTrimSpace(L)) }, exact: s.exact, desc: "TrimSpace(" + s.desc + ")"}
	case "strings.ToLower":
		s := str(0)
		return &strT{pre: func(L *relang.DFA) *relang.DFA { return s.pre(in.E.PreToLower(L)) }, exact: s.exact && in.E.lowExact, desc: "ToLower(" + s.desc + ")"}
	case "strings.TrimSuffix":
		s, suf := str(0), cs(1)
		return &strT{pre: func(L *relang.DFA) *relang.DFA { p, _ := in.E.PreTrimSuffix(L, suf); return s.pre(p) }, exact: s.exact, desc: fmt.Sprintf("TrimSuffix(%s,%q)", s.desc, suf)}
	case "strings.TrimPrefix":
		s, pre := str(0), cs(1)
		return &strT{pre: func(L *relang.DFA) *relang.DFA { p, _ := in.E.PreTrimPrefix(L, pre); return s.pre(p) }, exact: s.exact, desc: fmt.Sprintf("TrimPrefix(%s,%q)", s.desc, pre)}
	case "string":
		// string(R.ReplaceAll([]byte(x), []byte{}))
		if inner, ok := ast.Unparen(c.Args[0]).(*ast.CallExpr); ok {
			if sel, ok := inner.Fun.(*ast.SelectorExpr); ok && sel.Sel.Name == "ReplaceAll" {
				rvar, rname := in.regexpOf(sel.X, ev)
				if rvar == nil || !rvar.Const {
					in.fail("ReplaceAll on an unknown regexp")
				}
				rv := &ast.Ident{Name: rname}
				conv, ok := ast.Unparen(inner.Args[0]).(*ast.CallExpr)
				if !ok || len(conv.Args) != 1 {
					in.fail("ReplaceAll subject is not []byte(x)")
				}
				repl, ok := ast.Unparen(inner.Args[1]).(*ast.CompositeLit)
				if !ok || len(repl.Elts) != 0 {
					in.fail("ReplaceAll with a non-empty replacement")
				}
				s, ok := in.value(conv.Args[0], ev).(*strT)
				if !ok {
					in.fail("ReplaceAll subject not derived from the value")
				}
				M, err := relang.FromRegexp("^(?:"+rvar.Pattern+")$", in.E.A)
				if err != nil {
					in.fail("regexp %s: %v", rv.Name, err)
				}
				ev.note("ReplaceAll-delete (over-approximated as insertion of matches)")
				return &strT{pre: func(L *relang.DFA) *relang.DFA { return s.pre(in.E.InsertWords(L, M)) }, exact: false, desc: "del(" + rv.Name + "," + s.desc + ")"}
			}
		}
		in.fail("unsupported string(...) conversion")
	case "make":
		if len(c.Args) >= 2 {
			if tv, ok := in.Pkg.TypesInfo.Types[c.Args[0]]; ok && tv.IsType() && tv.Type.String() == "[]string" {
				if n, ok := in.value(c.Args[1], ev).(int); ok && n == 0 {
					return &listT{kind: "emptylist", desc: "make([]string, 0)"}
				}
			}
		}
		in.fail("unsupported make")
	case "len":
		return lenOf{arg(0)}
	case "strings.Count":
		// Count(x, sep) == k  ⇔  len(Split(x, sep)) == k+1 for a non-empty separator
		s := str(0)
		sep := cs(1)
		if sep == "" {
			in.fail("strings.Count with an empty separator")
		}
		return countOf{&listT{kind: "split", sep: sep, src: s, desc: fmt.Sprintf("Split(%s,%q)", s.desc, sep)}}
	case "in":
		return in.inCond(arg(0), arg(1), ev)
	}
	if si, ok := in.Members[name]; ok && len(c.Args) == 2 {
		sv, okS := arg(si).(*strT)
		if !okS {
			in.fail("%s: the tested string is not derived from the value", name)
		}
		ev.note("membership helper " + name)
		return in.inCond(&listT{kind: "singleton", src: sv, desc: "[]string{" + sv.desc + "}"}, arg(1-si), ev)
	}
	switch name {
	case "recursiveCheck":
		return in.recursive(arg(0), arg(1), ev)
	}
	// regexp method on a package-level regexp
	if sel, ok := c.Fun.(*ast.SelectorExpr); ok {
		if v, rname := in.regexpOf(sel.X, ev); v != nil {
			rv := &ast.Ident{Name: rname}
			if !v.Const {
				in.fail("regexp %s has no constant pattern", rv.Name)
			}
			switch sel.Sel.Name {
			case "MatchString":
				s := str(0)
				L, err := relang.FromRegexp(v.Pattern, in.E.A)
				if err != nil {
					in.fail("regexp %s: %v", rv.Name, err)
				}
				return &cond{pos: s.pre(L), neg: s.pre(L.Complement()), exact: s.exact}
			case "FindString":
				s := str(0)
				return findT{re: v.Pattern, of: s, name: rv.Name}
			case "ReplaceAllString":
				// R.ReplaceAllString(x, ""): same deletion as string(R.ReplaceAll([]byte(x), []byte{}))
				s := str(0)
				if k, ok := in.constString(c.Args[1]); !ok || k != "" {
					in.fail("ReplaceAllString with a non-empty replacement")
				}
				M, err := relang.FromRegexp("^(?:"+v.Pattern+")$", in.E.A)
				if err != nil {
					in.fail("regexp %s: %v", rv.Name, err)
				}
				ev.note("ReplaceAllString-delete (over-approximated as insertion of matches)")
				return &strT{pre: func(L *relang.DFA) *relang.DFA { return s.pre(in.E.InsertWords(L, M)) }, exact: false, desc: "del(" + rv.Name + "," + s.desc + ")"}
			}
			in.fail("unsupported regexp method %s", sel.Sel.Name)
		}
	}
	// another handler applied to a derived string
	if fdh, ok := in.funcs[name]; ok && len(c.Args) == 1 && in.isStringPred(fdh) {
		s := str(0)
		r := in.Lang(name)
		if r.Undecided != "" {
			in.fail("calls %s, which is undecided: %s", name, r.Undecided)
		}
		if !r.Exact {
			*ev.exact = false
		}
		return &cond{pos: s.pre(r.L), neg: s.pre(in.complementIfExact(r)), exact: s.exact && r.Exact}
	}
	// a helper of the package (not a handler): interpreted with its parameters bound to the arguments
	if fd, ok := in.funcs[name]; ok && fd.Recv == nil {
		return in.callHelper(fd, c, ev)
	}
	in.fail("unsupported call %s", name)
	return nil
}

func (in *Interp) complementIfExact(r *Result) *relang.DFA {
	if r.Exact {
		return r.L.Complement()
	}
	return in.E.All()
}

type lenOf struct{ of any }
type countOf struct{ list *listT }
type findT struct {
	re, name string
	of       *strT
}

// listAll: { subject | every element of the list ∈ L }.
func (in *Interp) listAll(lv *listT, L *relang.DFA, ev *env) (*relang.DFA, bool) {
	switch lv.kind {
	case "singleton":
		return lv.src.pre(L), lv.src.exact
	case "split":
		a, ex := in.E.AllComps(L, lv.sep)
		return lv.src.pre(a), ex && lv.src.exact
	case "splitvalues":
		P := in.E.PreTrimSpace(in.E.PreToLower(L))
		a, ex := in.E.AllComps(P, ",")
		ev.note("splitValues: comma parts, TrimSpace, ToLower")
		return lv.src.pre(a), ex && lv.src.exact && in.E.lowExact
	case "sub":
		if lv.to >= 0 {
			// a bounded window: every index individually
			acc := in.E.All()
			exact := true
			for i := lv.from; i < lv.to; i++ {
				el := in.elem(lv.base, i, ev)
				acc = relang.Inter(acc, el.pre(L))
				exact = exact && el.exact
			}
			return acc, exact
		}
		// elements from index `from` on: the first `from` components are unconstrained
		if lv.base.kind != "split" || len([]rune(lv.base.sep)) != 1 {
			break
		}
		sep := lv.base.sep
		C := in.E.NoRunes([]rune(sep)[0])
		s := relang.Literal(in.E.A, sep)
		parts := []*relang.DFA{}
		for i := 0; i < lv.from; i++ {
			parts = append(parts, C, s)
		}
		a, _ := in.E.AllComps(L, sep)
		parts = append(parts, a)
		return lv.base.src.pre(relang.Concat(parts...)), lv.base.src.exact
	}
	in.fail("all-elements over a %s list", lv.kind)
	return nil, false
}

func (in *Interp) inCond(a, b any, ev *env) *cond {
	lv, ok := a.(*listT)
	kw, ok2 := b.(*kwT)
	if !ok || !ok2 {
		in.fail("in(): arguments are not (list derived from the value, keyword list)")
	}
	for _, w := range kw.words {
		for _, r := range w {
			if !in.E.A.Singleton(r) {
				in.fail("keyword %q uses a rune that is not a singleton class", w)
			}
		}
	}
	K := relang.Words(in.E.A, kw.words)
	pos, ex := in.listAll(lv, K, ev)
	ev.note("in(" + lv.kind + ", keywords)")
	if ex {
		return &cond{pos: pos, neg: pos.Complement(), exact: true}
	}
	return &cond{pos: pos, neg: in.E.All(), exact: false}
}

func (in *Interp) recursive(a, b any, ev *env) *cond {
	lv, ok := a.(*listT)
	fs, ok2 := b.(*funcsT)
	if !ok || !ok2 {
		in.fail("recursiveCheck: arguments are not (list, handler list)")
	}
	U := in.E.Empty()
	exact := true
	for _, n := range fs.names {
		r := in.Lang(n)
		if r.Undecided != "" {
			in.fail("recursiveCheck over %s, which is undecided: %s", n, r.Undecided)
		}
		if !r.Exact {
			exact = false
		}
		U = relang.Union(U, r.L)
	}
	G := in.E.Groups(U, " ")
	var pos *relang.DFA
	switch lv.kind {
	case "split":
		switch {
		case lv.sep == " ":
			pos = lv.src.pre(G)
			exact = exact && lv.src.exact
			ev.note("recursiveCheck(Split(v,\" \"), F) = U(\" \"U)*")
		default:
			// parts are re-joined with " " although they were split on sep: sep reads as " "
			pos = lv.src.pre(in.E.ExpandJoin(G, " ", lv.sep))
			exact = false
			ev.note("recursiveCheck over Split on " + fmt.Sprintf("%q", lv.sep) + " (joined with \" \"): over-approximated")
		}
	case "multisplit":
		seps := strings.Split(lv.sep, "\x00")
		cur := G
		for _, sp := range seps {
			if sp == " " {
				continue
			}
			rs := []rune(sp)
			if len(rs) != 1 {
				in.fail("multiSplit on multi-rune separator %q", sp)
			}
			cur = in.E.ReadAs(cur, rs[0], ' ', false)
		}
		pos = lv.src.pre(cur)
		exact = exact && lv.src.exact
		ev.note("recursiveCheck(multiSplit(v, …)): separators read as \" \"")
	case "sub":
		if lv.base.kind != "split" || lv.base.sep != " " || lv.to >= 0 {
			in.fail("recursiveCheck over a sub-list of a %s list", lv.base.kind)
		}
		C := in.E.NoRunes(' ')
		s := relang.Literal(in.E.A, " ")
		parts := []*relang.DFA{}
		for i := 0; i < lv.from; i++ {
			parts = append(parts, C, s)
		}
		parts = append(parts, G)
		pos = lv.base.src.pre(relang.Concat(parts...))
		exact = exact && lv.base.src.exact
		ev.note("recursiveCheck(parts[k:], F)")
	case "flatten":
		// parts containing exactly one "/" were split on it: every "/" may be read as " " (over-approximation)
		pos = lv.base.src.pre(in.E.ReadAs(G, '/', ' ', true))
		exact = false
		ev.note("flatten loop (a part with one \"/\" is split): \"/\" optionally read as \" \" (over-approximation)")
	case "filter":
		// parts equal to drop are removed: insert optional "<drop> " groups (over-approximation)
		M := relang.Concat(relang.Literal(in.E.A, lv.drop), relang.Literal(in.E.A, " "))
		M2 := relang.Concat(relang.Literal(in.E.A, " "), relang.Literal(in.E.A, lv.drop))
		pos = lv.base.src.pre(in.E.InsertWords(G, relang.Union(M, M2)))
		exact = false
		ev.note("filter loop (parts equal to " + fmt.Sprintf("%q", lv.drop) + " dropped): over-approximated by insertion")
	default:
		in.fail("recursiveCheck over a %s list", lv.kind)
	}
	if exact {
		return &cond{pos: pos, neg: pos.Complement(), exact: true}
	}
	*ev.exact = false
	return &cond{pos: pos, neg: in.E.All(), exact: false}
}

// cond evaluates a boolean expression.
func (in *Interp) cond(e ast.Expr, ev *env) *cond {
	e = ast.Unparen(e)
	switch x := e.(type) {
	case *ast.UnaryExpr:
		if x.Op == token.NOT {
			c := in.cond(x.X, ev)
			return &cond{pos: c.neg, neg: c.pos, exact: c.exact}
		}
	case *ast.BinaryExpr:
		switch x.Op {
		case token.LAND:
			a, b := in.cond(x.X, ev), in.cond(x.Y, ev)
			return &cond{pos: relang.Inter(a.pos, b.pos), neg: relang.Union(a.neg, b.neg), exact: a.exact && b.exact}
		case token.LOR:
			a, b := in.cond(x.X, ev), in.cond(x.Y, ev)
			return &cond{pos: relang.Union(a.pos, b.pos), neg: relang.Inter(a.neg, b.neg), exact: a.exact && b.exact}
		case token.GTR, token.LSS, token.GEQ, token.LEQ, token.EQL, token.NEQ:
			return in.compare(x, ev)
		}
	case *ast.Ident, *ast.CallExpr:
		v := in.value(e, ev)
		if c, ok := v.(*cond); ok {
			if !c.exact {
				*ev.exact = false
			}
			return c
		}
		in.fail("expression is not a condition")
	}
	in.fail("unsupported condition %T", e)
	return nil
}

func (in *Interp) compare(x *ast.BinaryExpr, ev *env) *cond {
	if isIdent(x.Y, "nil") {
		// list != nil: strings.Split never returns nil for a non-empty separator
		if _, ok := in.value(x.X, ev).(*listT); ok {
			ev.note("list != nil (always true for a strings.Split result)")
			if x.Op == token.NEQ {
				return &cond{pos: in.E.All(), neg: in.E.Empty(), exact: true}
			}
			if x.Op == token.EQL {
				return &cond{pos: in.E.Empty(), neg: in.E.All(), exact: true}
			}
		}
		in.fail("comparison with nil")
	}
	l, r := in.value(x.X, ev), in.value(x.Y, ev)
	// strings.Count(x, sep) op const
	if co, ok := l.(countOf); ok {
		if k, ok := r.(int); ok {
			return in.lenCond(co.list, x.Op, k+1, ev)
		}
	}
	// len(list) op const
	if lo, ok := l.(lenOf); ok {
		k, ok := r.(int)
		lv, ok2 := lo.of.(*listT)
		if ok && ok2 {
			return in.lenCond(lv, x.Op, k, ev)
		}
		// len(Split(part, "/")) == 2 etc. on strings is handled by the loop schemas
	}
	// FindString(x) != x
	if f, ok := l.(findT); ok {
		if s, ok := r.(*strT); ok && s == f.of || ok && s.desc == f.of.desc {
			L, err := relang.FromRegexp("^(?:"+f.re+")$", in.E.A)
			if err != nil {
				in.fail("regexp %s: %v", f.name, err)
			}
			ev.note("FindString(x) == x (whole-match by comparison)")
			// FindString returns the leftmost match; equality with x holds iff the leftmost(-first) match is the whole string.
			// L_whole(r) ⊇ that set (Go's leftmost-first semantics may return a shorter match): over-approximation
			c := &cond{pos: s.pre(L), neg: in.E.All(), exact: false}
			if x.Op == token.NEQ {
				return &cond{pos: c.neg, neg: c.pos, exact: false}
			}
			return c
		}
	}
	// string == "const" on the subject or an element
	if s, ok := l.(*strT); ok {
		if k, ok := in.constString(x.Y); ok {
			L := relang.Literal(in.E.A, k)
			c := &cond{pos: s.pre(L), neg: s.pre(L.Complement()), exact: s.exact}
			if x.Op == token.NEQ {
				return &cond{pos: c.neg, neg: c.pos, exact: c.exact}
			}
			if x.Op == token.EQL {
				return c
			}
		}
	}
	// two strings derived from the subject compared with each other (`trimmed == value`): not decided — both outcomes
	// are taken to be possible for every input (an over-approximation of each branch)
	if sl, ok := l.(*strT); ok && (x.Op == token.EQL || x.Op == token.NEQ) {
		if sr, ok := r.(*strT); ok && !sl.isConst && !sr.isConst {
			ev.note("comparison of two derived strings: both branches taken")
			*ev.exact = false
			return &cond{pos: in.E.All(), neg: in.E.All(), exact: false}
		}
	}
	// list != nil
	if _, ok := l.(*listT); ok {
		if id, ok := x.Y.(*ast.Ident); ok && id.Name == "nil" {
			if x.Op == token.NEQ {
				return &cond{pos: in.E.All(), neg: in.E.Empty(), exact: true}
			}
			return &cond{pos: in.E.Empty(), neg: in.E.All(), exact: true}
		}
	}
	in.fail("unsupported comparison")
	return nil
}

func (in *Interp) lenCond(lv *listT, op token.Token, k int, ev *env) *cond {
	pred := func(n int) bool {
		switch op {
		case token.GTR:
			return n > k
		case token.LSS:
			return n < k
		case token.GEQ:
			return n >= k
		case token.LEQ:
			return n <= k
		case token.EQL:
			return n == k
		case token.NEQ:
			return n != k
		}
		return false
	}
	var src *strT
	sep := ""
	switch lv.kind {
	case "split":
		src, sep = lv.src, lv.sep
	case "splitvalues":
		src, sep = lv.src, ","
	default:
		in.fail("len() of a %s list", lv.kind)
	}
	pos, ex := in.E.CountComps(sep, pred, k+1)
	neg, _ := in.E.CountComps(sep, func(n int) bool { return !pred(n) }, k+1)
	return &cond{pos: src.pre(pos), neg: src.pre(neg), exact: ex && src.exact}
}

func isConstCond(e *Env, v any, want bool) bool {
	c, ok := v.(*cond)
	if !ok {
		return false
	}
	if want {
		return c.neg.IsEmpty() && c.pos.Complement().IsEmpty()
	}
	return c.pos.IsEmpty() && c.neg.Complement().IsEmpty()
}

// appendOf recognises `dst = append(dst, X)` / `dst = append(dst, X...)`.
func appendOf(s ast.Stmt) (dst string, arg ast.Expr, spread bool, ok bool) {
	as, isA := s.(*ast.AssignStmt)
	if !isA || len(as.Lhs) != 1 || len(as.Rhs) != 1 {
		return
	}
	id, isId := as.Lhs[0].(*ast.Ident)
	call, isC := as.Rhs[0].(*ast.CallExpr)
	if !isId || !isC || len(call.Args) != 2 {
		return
	}
	if f, isF := call.Fun.(*ast.Ident); !isF || f.Name != "append" {
		return
	}
	if a0, isI := call.Args[0].(*ast.Ident); !isI || a0.Name != id.Name {
		return
	}
	return id.Name, call.Args[1], call.Ellipsis.IsValid(), true
}

func isIdent(e ast.Expr, name string) bool {
	id, ok := ast.Unparen(e).(*ast.Ident)
	return ok && id.Name == name
}

// rangeLoop interprets `for _, x := range list { body }`.
func (in *Interp) rangeLoop(s *ast.RangeStmt, ev *env, cur *relang.DFA) (T, F, N *relang.DFA) {
	if s.Value == nil || (s.Key != nil && !isIdent(s.Key, "_")) {
		in.fail("range loop uses the index")
	}
	xv, ok := s.Value.(*ast.Ident)
	if !ok {
		in.fail("range value is not an identifier")
	}
	lv, ok := in.value(s.X, ev).(*listT)
	if !ok {
		in.fail("range over something that is not a list derived from the value")
	}
	x := xv.Name
	body := s.Body.List

	// schema: list builders (an empty []string filled by append in the body)
	// (a leading `p := strings.Split(x, sep)` statement is the same as the if's init statement)
	var preInit ast.Stmt
	if len(body) == 2 {
		if as, ok := body[0].(*ast.AssignStmt); ok && as.Tok == token.DEFINE && len(as.Lhs) == 1 && len(as.Rhs) == 1 {
			if ifs, ok := body[1].(*ast.IfStmt); ok && ifs.Init == nil {
				if sp, ok := ast.Unparen(as.Rhs[0]).(*ast.CallExpr); ok && in.callName(sp) == "strings.Split" {
					preInit = as
					body = body[1:]
				}
			}
		}
	}
	// flat-map: every part is replaced by its own parts on a second separator —
	//   for _, x := range strings.Split(v, s1) { dst = append(dst, strings.Split(x, s2)...) }   ≡ multiSplit(v, s1, s2)
	if len(body) == 1 {
		if dst, arg, spread, isApp := appendOf(body[0]); isApp && spread && lv.kind == "split" && lv.src != nil {
			if l, ok := ev.vars[dst].(*listT); ok && l.kind == "emptylist" {
				if sp, ok := ast.Unparen(arg).(*ast.CallExpr); ok && in.callName(sp) == "strings.Split" && len(sp.Args) == 2 && isIdent(sp.Args[0], x) {
					if k, ok := in.cstr(sp.Args[1], ev); ok && k != "" && !strings.Contains(k, lv.sep) {
						ev.vars[dst] = &listT{kind: "multisplit", sep: lv.sep + "\x00" + k, src: lv.src, desc: fmt.Sprintf("multiSplit(%s,[%q %q])", lv.src.desc, lv.sep, k)}
						ev.note("flat-map loop read as multiSplit")
						return in.E.Empty(), in.E.Empty(), cur
					}
				}
			}
		}
	}
	// the two halves of a part with exactly one separator, cut by index instead of Split:
	//   if strings.Count(x, sep) == 1 { i := strings.IndexByte(x, sep) ; dst = append(dst, x[:i], x[i+1:]) } else { dst = append(dst, x) }
	if len(body) == 1 {
		if ifs, ok := body[0].(*ast.IfStmt); ok && ifs.Init == nil && len(ifs.Body.List) == 2 {
			if sep, dst, ok := in.cutByIndex(ifs, x, ev); ok {
				if eb, ok := ifs.Else.(*ast.BlockStmt); ok && len(eb.List) == 1 {
					d2, a2, sp2, ok2 := appendOf(eb.List[0])
					if l, isL := ev.vars[dst].(*listT); ok2 && d2 == dst && !sp2 && isIdent(a2, x) && isL && l.kind == "emptylist" && len([]rune(sep)) == 1 && lv.kind == "split" && lv.sep == " " {
						ev.vars[dst] = &listT{kind: "flatten", base: lv, sep: sep, desc: fmt.Sprintf("flatten(%s,%q)", lv.desc, sep)}
						ev.note("halves cut by index read as flatten")
						return in.E.Empty(), in.E.Empty(), cur
					}
				}
			}
		}
	}
	if len(body) == 1 {
		if ifs, ok := body[0].(*ast.IfStmt); ok && len(ifs.Body.List) == 1 {
			dst, arg, spread, isApp := appendOf(ifs.Body.List[0])
			if isApp {
				if l, ok := ev.vars[dst].(*listT); !ok || l.kind != "emptylist" {
					in.fail("append to %s, which is not a fresh empty list", dst)
				}
				// filter: if x != "k" { dst = append(dst, x) }
				if be, ok := ast.Unparen(ifs.Cond).(*ast.BinaryExpr); ok && be.Op == token.NEQ && isIdent(be.X, x) && ifs.Else == nil && !spread && isIdent(arg, x) {
					if k, ok := in.cstr(be.Y, ev); ok {
						ev.vars[dst] = &listT{kind: "filter", base: lv, drop: k, desc: fmt.Sprintf("filter(%s,!=%q)", lv.desc, k)}
						return in.E.Empty(), in.E.Empty(), cur
					}
				}
				// flatten: a part that splits into exactly two on sep is replaced by the two, any other part is kept:
				//   if len(strings.Split(x, sep)) == 2 { dst = append(dst, strings.Split(x, sep)...) } else { dst = append(dst, x) }
				// with the variants  strings.Count(x, sep) == 1  and  if p := strings.Split(x, sep); len(p) == 2 { … p... }
				if be, ok := ast.Unparen(ifs.Cond).(*ast.BinaryExpr); ok && be.Op == token.EQL && spread {
					if eb, ok := ifs.Else.(*ast.BlockStmt); ok && len(eb.List) == 1 {
						d2, a2, sp2, ok2 := appendOf(eb.List[0])
						// the split expression bound by the if's init statement, if any
						initName, initSep := "", ""
						initStmt := ifs.Init
						if initStmt == nil {
							initStmt = preInit
						}
						if as, ok := initStmt.(*ast.AssignStmt); ok && len(as.Lhs) == 1 && len(as.Rhs) == 1 {
							if id, ok := as.Lhs[0].(*ast.Ident); ok {
								if sp, ok := ast.Unparen(as.Rhs[0]).(*ast.CallExpr); ok && in.callName(sp) == "strings.Split" && len(sp.Args) == 2 && isIdent(sp.Args[0], x) {
									if k, ok := in.cstr(sp.Args[1], ev); ok {
										initName, initSep = id.Name, k
									}
								}
							}
						}
						splitOf := func(e ast.Expr) (string, bool) { // e denotes strings.Split(x, sep)
							e = ast.Unparen(e)
							if initName != "" && isIdent(e, initName) {
								return initSep, true
							}
							if sp, ok := e.(*ast.CallExpr); ok && in.callName(sp) == "strings.Split" && len(sp.Args) == 2 && isIdent(sp.Args[0], x) {
								if k, ok := in.cstr(sp.Args[1], ev); ok {
									return k, true
								}
							}
							return "", false
						}
						condSep, condOK := "", false
						if lc, isCall := ast.Unparen(be.X).(*ast.CallExpr); isCall {
							n, isN := in.value(be.Y, ev).(int)
							switch {
							case in.callName(lc) == "len" && len(lc.Args) == 1 && isN && n == 2:
								condSep, condOK = splitOf(lc.Args[0])
							case in.callName(lc) == "strings.Count" && len(lc.Args) == 2 && isIdent(lc.Args[0], x) && isN && n == 1:
								condSep, condOK = in.cstr(lc.Args[1], ev)
							}
						}
						thenSep, thenOK := splitOf(arg)
						if ok2 && d2 == dst && !sp2 && isIdent(a2, x) && condOK && thenOK && condSep == thenSep && len([]rune(condSep)) == 1 && lv.kind == "split" && lv.sep == " " {
							ev.vars[dst] = &listT{kind: "flatten", base: lv, sep: condSep, desc: fmt.Sprintf("flatten(%s,%q)", lv.desc, condSep)}
							return in.E.Empty(), in.E.Empty(), cur
						}
					}
				}
				in.fail("list-building loop of an unmodelled shape")
			}
		}
	}

	// generic: interpret the body with the element as the subject
	evE := &env{vars: map[string]any{}, subject: x, exact: ev.exact, schemas: ev.schemas}
	lc := &loopCtx{cont: in.E.Empty(), brk: in.E.Empty(), entry: map[string]any{}, brkFlags: map[string][]*cond{}}
	evE.loop = lc
	for k, v := range ev.vars {
		switch v := v.(type) {
		case *kwT, *funcsT, int:
			evE.vars[k] = v
		case *cond:
			if isConstCond(in.E, v, true) || isConstCond(in.E, v, false) {
				evE.vars[k] = v
				lc.entry[k] = v
			}
		}
	}
	evE.vars[x] = in.identity()
	te, fe, ne := in.block(s.Body.List, evE, in.E.All())
	if !te.IsEmpty() {
		in.fail("loop body returns true")
	}
	Ne := relang.Union(ne, lc.cont)
	complete, ex := in.listAll(lv, Ne, ev)
	ev.note("all-elements loop over " + lv.kind)
	notComplete := in.E.All()
	if ex && *ev.exact {
		notComplete = complete.Complement()
	}
	T = in.E.Empty()
	F = in.E.Empty()
	if !fe.IsEmpty() {
		F = relang.Inter(cur, notComplete)
	}
	N = relang.Inter(cur, complete)
	if !lc.brk.IsEmpty() {
		N = cur // a break leaves the loop early: continue with everything
		for k, cs := range lc.brkFlags {
			entry := lc.entry[k]
			for _, c := range cs {
				switch {
				case isConstCond(in.E, entry, true) && isConstCond(in.E, c, false):
					ev.vars[k] = &cond{pos: complete, neg: notComplete, exact: ex && *ev.exact}
				case isConstCond(in.E, entry, false) && isConstCond(in.E, c, true):
					ev.vars[k] = &cond{pos: notComplete, neg: complete, exact: ex && *ev.exact}
				default:
					in.fail("flag %s set in a loop in an unmodelled way", k)
				}
			}
		}
		if len(lc.brkFlags) == 0 {
			in.fail("break without a flag")
		}
	}
	// flags assigned in the body without break are not modelled
	for k, v := range evE.vars {
		if old, ok := lc.entry[k]; ok && old != v {
			in.fail("flag %s assigned in a loop body on a path that continues", k)
		}
	}
	return T, F, N
}

// switchStmt interprets `switch tag { case a, b: … default: … }` and `switch { case cond: … }` as the equivalent
// if / else-if chain (no fallthrough).
func (in *Interp) switchStmt(s *ast.SwitchStmt, ev *env, cur *relang.DFA) (T, F, N *relang.DFA) {
	T, F, N = in.E.Empty(), in.E.Empty(), in.E.Empty()
	if s.Init != nil {
		if as, ok := s.Init.(*ast.AssignStmt); ok {
			in.assign(as, ev)
		} else {
			in.fail("switch with an init statement that is not an assignment")
		}
	}
	var def *ast.CaseClause
	rest := cur
	for _, cc := range s.Body.List {
		cl := cc.(*ast.CaseClause)
		for _, st := range cl.Body {
			if br, ok := st.(*ast.BranchStmt); ok && br.Tok == token.FALLTHROUGH {
				in.fail("fallthrough in a switch")
			}
		}
		if cl.List == nil {
			def = cl
			continue
		}
		var c *cond
		for _, e := range cl.List {
			var ce *cond
			if s.Tag != nil {
				ce = in.compare(&ast.BinaryExpr{X: s.Tag, Op: token.EQL, Y: e}, ev)
			} else {
				ce = in.cond(e, ev)
			}
			if c == nil {
				c = ce
			} else {
				c = &cond{pos: relang.Union(c.pos, ce.pos), neg: relang.Inter(c.neg, ce.neg), exact: c.exact && ce.exact}
			}
		}
		if !c.exact {
			*ev.exact = false
		}
		evc := ev.clone()
		t, f, n := in.block(cl.Body, evc, relang.Inter(rest, c.pos))
		T, F, N = relang.Union(T, t), relang.Union(F, f), relang.Union(N, n)
		rest = relang.Inter(rest, c.neg)
	}
	if def != nil {
		evc := ev.clone()
		t, f, n := in.block(def.Body, evc, rest)
		T, F, N = relang.Union(T, t), relang.Union(F, f), relang.Union(N, n)
	} else {
		N = relang.Union(N, rest)
	}
	return T, F, N
}

// pkgVarImmutable: no assignment, increment or address-of anywhere in the package has the variable at its root.
func (in *Interp) pkgVarImmutable(v *types.Var) bool {
	if r, ok := in.immut[v]; ok {
		return r
	}
	root := func(e ast.Expr) types.Object {
		for {
			switch x := ast.Unparen(e).(type) {
			case *ast.IndexExpr:
				e = x.X
			case *ast.SliceExpr:
				e = x.X
			case *ast.StarExpr:
				e = x.X
			case *ast.SelectorExpr:
				e = x.X
			case *ast.Ident:
				return in.Pkg.TypesInfo.Uses[x]
			default:
				return nil
			}
		}
	}
	ok := true
	for _, f := range in.Pkg.Syntax {
		ast.Inspect(f, func(n ast.Node) bool {
			switch x := n.(type) {
			case *ast.AssignStmt:
				for _, l := range x.Lhs {
					if root(l) == types.Object(v) {
						ok = false
					}
				}
			case *ast.IncDecStmt:
				if root(x.X) == types.Object(v) {
					ok = false
				}
			case *ast.UnaryExpr:
				if x.Op == token.AND && root(x.X) == types.Object(v) {
					ok = false
				}
			case *ast.RangeStmt:
				if x.Tok == token.ASSIGN {
					for _, l := range []ast.Expr{x.Key, x.Value} {
						if l != nil && root(l) == types.Object(v) {
							ok = false
						}
					}
				}
			}
			return ok
		})
	}
	in.immut[v] = ok
	return ok
}

// globalFuncs: a package-level []func(string) bool literal of handler names.
func (in *Interp) globalFuncs(name string) *funcsT {
	for _, f := range in.Pkg.Syntax {
		for _, d := range f.Decls {
			gd, ok := d.(*ast.GenDecl)
			if !ok {
				continue
			}
			for _, sp := range gd.Specs {
				vs, ok := sp.(*ast.ValueSpec)
				if !ok {
					continue
				}
				for i, n := range vs.Names {
					if n.Name != name || i >= len(vs.Values) {
						continue
					}
					cl, ok := vs.Values[i].(*ast.CompositeLit)
					if !ok {
						return nil
					}
					if tv, ok := in.Pkg.TypesInfo.Types[cl]; !ok || tv.Type.String() != "[]func(string) bool" {
						return nil
					}
					var names []string
					for _, el := range cl.Elts {
						id, ok := el.(*ast.Ident)
						if !ok || in.funcs[id.Name] == nil {
							return nil
						}
						names = append(names, id.Name)
					}
					return &funcsT{names}
				}
			}
		}
	}
	return nil
}

// callHelper interprets a call of a non-handler function of the package: its parameters are bound to the abstract
// values of the arguments (all still expressed over the current subject).  A bool result is the condition under which
// the body returns true; any other result is the abstract value of the single top-level return expression.
func (in *Interp) callHelper(fd *ast.FuncDecl, c *ast.CallExpr, ev *env) any {
	name := fd.Name.Name
	if in.helperDepth > 6 {
		in.fail("helper calls nested too deeply at %s", name)
	}
	if in.stack["helper:"+name] {
		in.fail("recursive helper %s", name)
	}
	if fd.Type.Results == nil || len(fd.Type.Results.List) != 1 || len(fd.Type.Results.List[0].Names) > 1 {
		in.fail("helper %s does not have exactly one result", name)
	}
	hv := &env{vars: map[string]any{}, subject: ev.subject, exact: ev.exact, schemas: ev.schemas}
	i := 0
	for _, f := range fd.Type.Params.List {
		if _, variadic := f.Type.(*ast.Ellipsis); variadic {
			in.fail("variadic helper %s", name)
		}
		names := f.Names
		if len(names) == 0 {
			i++
			continue
		}
		for _, n := range names {
			if i >= len(c.Args) {
				in.fail("helper %s: argument count", name)
			}
			hv.vars[n.Name] = in.value(c.Args[i], ev)
			i++
		}
	}
	if i != len(c.Args) {
		in.fail("helper %s: argument count", name)
	}
	in.stack["helper:"+name] = true
	in.helperDepth++
	defer func() { in.stack["helper:"+name] = false; in.helperDepth-- }()
	ev.note("helper " + name + " interpreted at its call site")
	rt := in.Pkg.TypesInfo.TypeOf(fd.Type.Results.List[0].Type)
	if b, ok := rt.Underlying().(*types.Basic); ok && b.Kind() == types.Bool {
		t, f, n := in.block(fd.Body.List, hv, in.E.All())
		if !n.IsEmpty() {
			in.fail("helper %s can fall off its end", name)
		}
		return &cond{pos: t, neg: f, exact: *ev.exact}
	}
	// value-returning helper: straight-line statements and list-building loops, then `return expr`
	for k, st := range fd.Body.List {
		switch x := st.(type) {
		case *ast.AssignStmt:
			in.assign(x, hv)
		case *ast.DeclStmt:
			in.decl(x, hv)
		case *ast.RangeStmt:
			t, f, _ := in.rangeLoop(x, hv, in.E.All())
			if !t.IsEmpty() || !f.IsEmpty() {
				in.fail("helper %s: a loop returns", name)
			}
		case *ast.ReturnStmt:
			if k != len(fd.Body.List)-1 || len(x.Results) != 1 {
				in.fail("helper %s: unsupported return", name)
			}
			return in.value(x.Results[0], hv)
		default:
			in.fail("helper %s: unsupported statement %T", name, st)
		}
	}
	in.fail("helper %s has no final return", name)
	return nil
}

func (in *Interp) isStringPred(fd *ast.FuncDecl) bool {
	t := fd.Type
	if fd.Recv != nil || t.Params == nil || len(t.Params.List) != 1 || len(t.Params.List[0].Names) != 1 || t.Results == nil || len(t.Results.List) != 1 {
		return false
	}
	p, ok := t.Params.List[0].Type.(*ast.Ident)
	r, ok2 := t.Results.List[0].Type.(*ast.Ident)
	return ok && ok2 && p.Name == "string" && r.Name == "bool"
}

// cstr: a constant string — a constant expression, or an identifier the environment binds to one (a helper's
// parameter that was handed a constant).
func (in *Interp) cstr(e ast.Expr, ev *env) (string, bool) {
	if s, ok := in.constString(e); ok {
		return s, true
	}
	if id, ok := ast.Unparen(e).(*ast.Ident); ok && ev != nil {
		if sv, ok := ev.vars[id.Name].(*strT); ok && sv.isConst {
			return sv.konst, true
		}
	}
	return "", false
}

// cutByIndex recognises, for the range element x,
//
//	if strings.Count(x, sep) == 1 { i := strings.IndexByte(x, 'c') | strings.Index(x, "c"); dst = append(dst, x[:i], x[i+1:]) }
//
// and returns the separator and the destination list.
func (in *Interp) cutByIndex(ifs *ast.IfStmt, x string, ev *env) (sep, dst string, ok bool) {
	be, isB := ast.Unparen(ifs.Cond).(*ast.BinaryExpr)
	if !isB || be.Op != token.EQL {
		return
	}
	lc, isCall := ast.Unparen(be.X).(*ast.CallExpr)
	n, isN := in.value(be.Y, ev).(int)
	if !isCall || !isN || n != 1 || in.callName(lc) != "strings.Count" || len(lc.Args) != 2 || !isIdent(lc.Args[0], x) {
		return
	}
	condSep, okSep := in.cstr(lc.Args[1], ev)
	if !okSep || len(condSep) != 1 {
		return
	}
	as, isA := ifs.Body.List[0].(*ast.AssignStmt)
	if !isA || as.Tok != token.DEFINE || len(as.Lhs) != 1 || len(as.Rhs) != 1 {
		return
	}
	idx, isId := as.Lhs[0].(*ast.Ident)
	ic, isC := ast.Unparen(as.Rhs[0]).(*ast.CallExpr)
	if !isId || !isC || len(ic.Args) != 2 || !isIdent(ic.Args[0], x) {
		return
	}
	switch in.callName(ic) {
	case "strings.Index":
		if k, okK := in.cstr(ic.Args[1], ev); !okK || k != condSep {
			return
		}
	case "strings.IndexByte", "strings.IndexRune":
		bl, isL := ast.Unparen(ic.Args[1]).(*ast.BasicLit)
		if !isL || bl.Kind != token.CHAR {
			return
		}
		r, _, _, err := strconv.UnquoteChar(strings.Trim(bl.Value, "'"), '\'')
		if err != nil || string(r) != condSep {
			return
		}
	default:
		return
	}
	// dst = append(dst, x[:i], x[i+1:])
	as2, isA2 := ifs.Body.List[1].(*ast.AssignStmt)
	if !isA2 || len(as2.Lhs) != 1 || len(as2.Rhs) != 1 {
		return
	}
	d, isD := as2.Lhs[0].(*ast.Ident)
	call, isCall2 := as2.Rhs[0].(*ast.CallExpr)
	if !isD || !isCall2 || len(call.Args) != 3 || call.Ellipsis.IsValid() {
		return
	}
	if f, isF := call.Fun.(*ast.Ident); !isF || f.Name != "append" || !isIdent(call.Args[0], d.Name) {
		return
	}
	lo, isLo := ast.Unparen(call.Args[1]).(*ast.SliceExpr)
	hi, isHi := ast.Unparen(call.Args[2]).(*ast.SliceExpr)
	if !isLo || !isHi || !isIdent(lo.X, x) || !isIdent(hi.X, x) || lo.Slice3 || hi.Slice3 {
		return
	}
	if lo.Low != nil || lo.High == nil || !isIdent(lo.High, idx.Name) || hi.High != nil || hi.Low == nil {
		return
	}
	plus, isP := ast.Unparen(hi.Low).(*ast.BinaryExpr)
	if !isP || plus.Op != token.ADD || !isIdent(plus.X, idx.Name) {
		return
	}
	if one, isOne := ast.Unparen(plus.Y).(*ast.BasicLit); !isOne || one.Value != "1" {
		return
	}
	return condSep, d.Name, true
}

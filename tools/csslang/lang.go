// Package csslang computes, by abstract interpretation of the handler bodies in css/handlers.go,
// a regular language L⁺(F) ⊇ { v | F(v) == true } for every handler F, together with an exactness
// bit.  All idioms occurring in the file are modelled (see DESIGN.md §2 C18); a body that uses an
// idiom outside this set makes the handler UNDECIDED — never silently accepted.
package csslang

import (
	"fmt"
	"unicode"

	"verif/tools/relang"
)

// Env carries the alphabet and language helpers.
type Env struct {
	A        *relang.Alphabet
	all      *relang.DFA
	ws       []rune
	low      map[int][]int // class -> classes of its ToLower pre-image (nil: identity)
	lowExact bool
}

func NewEnv(a *relang.Alphabet) *Env {
	e := &Env{A: a, all: relang.All(a), ws: relang.WhiteSpace(), lowExact: true}
	// ToLower at class level, computed over every rune: low[c] = { class(ToLower(r)) | r ∈ c }.
	// A class whose runes lower into several classes is read as any of them (sound over-approximation, inexact).
	e.low = map[int][]int{}
	seen := map[[2]int]bool{}
	for r := rune(0); r <= unicode.MaxRune; r++ {
		c, lc := a.Class(r), a.Class(unicode.ToLower(r))
		if !seen[[2]int{c, lc}] {
			seen[[2]int{c, lc}] = true
			e.low[c] = append(e.low[c], lc)
		}
	}
	for _, im := range e.low {
		if len(im) > 1 {
			e.lowExact = false
		}
	}
	return e
}

func (e *Env) All() *relang.DFA   { return e.all }
func (e *Env) Empty() *relang.DFA { return relang.Empty(e.A) }

// NoChar: strings not containing any rune of set.
func (e *Env) NoRunes(rs ...rune) *relang.DFA {
	return relang.Star(relang.ClassSet(e.A, complementClasses(e.A, e.A.ClassesOf(rs))))
}

func complementClasses(a *relang.Alphabet, cs []int) []int {
	in := map[int]bool{}
	for _, c := range cs {
		in[c] = true
	}
	var out []int
	for c := 0; c < a.N(); c++ {
		if !in[c] {
			out = append(out, c)
		}
	}
	return out
}

// WS*: any amount of white space.
func (e *Env) wsStar() *relang.DFA { return relang.Star(relang.Runes(e.A, e.ws...)) }

// PreTrimSpace: { v | strings.TrimSpace(v) ∈ L }.
func (e *Env) PreTrimSpace(L *relang.DFA) *relang.DFA {
	w := relang.Runes(e.A, e.ws...)
	nonWS := relang.ClassSet(e.A, complementClasses(e.A, e.A.ClassesOf(e.ws)))
	// trimmed strings: empty, or starting and ending with a non-space rune
	core := relang.Union(relang.Epsilon(e.A), relang.Union(nonWS, relang.Concat(nonWS, e.all, nonWS)))
	return relang.Concat(relang.Star(w), relang.Inter(L, core), relang.Star(w))
}

// PreToLower: { v | strings.ToLower(v) ∈ L } (exact when class images do not straddle classes).
func (e *Env) PreToLower(L *relang.DFA) *relang.DFA {
	return relang.MapClasses(L, func(c int) []int {
		// reading input class c corresponds to L reading (one of) the classes its runes lower into
		return e.low[c]
	})
}

// PreTrimSuffix: { v | strings.TrimSuffix(v, suf) ∈ L } (exact for any non-empty suffix: the suffix is removed once).
func (e *Env) PreTrimSuffix(L *relang.DFA, suf string) (*relang.DFA, bool) {
	if suf == "" {
		return L, true
	}
	s := relang.Literal(e.A, suf)
	endsWith := relang.Concat(e.all, s)
	return relang.Union(relang.Concat(L, s), relang.Diff(L, endsWith)), true
}

// PreTrimPrefix: { v | strings.TrimPrefix(v, pre) ∈ L }.
func (e *Env) PreTrimPrefix(L *relang.DFA, pre string) (*relang.DFA, bool) {
	if pre == "" {
		return L, true
	}
	s := relang.Literal(e.A, pre)
	startsWith := relang.Concat(s, e.all)
	return relang.Union(relang.Concat(s, L), relang.Diff(L, startsWith)), true
}

// Comp: { v | strings.Split(v, sep) has more than idx elements and element idx ∈ L } (single-rune sep: exact).
func (e *Env) Comp(L *relang.DFA, sep string, idx int) (*relang.DFA, bool) {
	rs := []rune(sep)
	if len(rs) != 1 {
		return e.all, false
	}
	C := e.NoRunes(rs[0])
	s := relang.Literal(e.A, sep)
	parts := []*relang.DFA{}
	for i := 0; i < idx; i++ {
		parts = append(parts, C, s)
	}
	parts = append(parts, relang.Inter(L, C), relang.Star(relang.Concat(s, C)))
	return relang.Concat(parts...), true
}

// AllComps: { v | every element of strings.Split(v, sep) ∈ L }.
func (e *Env) AllComps(L *relang.DFA, sep string) (*relang.DFA, bool) {
	rs := []rune(sep)
	s := relang.Literal(e.A, sep)
	if len(rs) == 1 {
		P := relang.Inter(L, e.NoRunes(rs[0]))
		return relang.Concat(P, relang.Star(relang.Concat(s, P))), true
	}
	// multi-rune separator: elements contain no occurrence of sep; the composition is an over-approximation
	noSep := relang.Concat(e.all, s, e.all).Complement()
	P := relang.Inter(L, noSep)
	return relang.Concat(P, relang.Star(relang.Concat(s, P))), false
}

// CountComps: { v | number of elements of strings.Split(v, sep) satisfies pred } for single-rune sep.
func (e *Env) CountComps(sep string, pred func(n int) bool, max int) (*relang.DFA, bool) {
	rs := []rune(sep)
	s := relang.Literal(e.A, sep)
	var C *relang.DFA
	exact := true
	if len(rs) == 1 {
		C = e.NoRunes(rs[0])
	} else {
		C = relang.Concat(e.all, s, e.all).Complement()
		exact = false
	}
	out := e.Empty()
	// n elements = n-1 separators; counts above max are lumped: pred(max+1) stands for "more than max"
	for n := 1; n <= max; n++ {
		if !pred(n) {
			continue
		}
		parts := []*relang.DFA{C}
		for i := 1; i < n; i++ {
			parts = append(parts, s, C)
		}
		out = relang.Union(out, relang.Concat(parts...))
	}
	if pred(max + 1) {
		parts := []*relang.DFA{C}
		for i := 1; i <= max; i++ {
			parts = append(parts, s, C)
		}
		parts = append(parts, relang.Star(relang.Concat(s, C)))
		out = relang.Union(out, relang.Concat(parts...))
	}
	return out, exact
}

// Groups: U (" " U)* — values whose space-separated parts can be grouped into consecutive groups each in U.
func (e *Env) Groups(U *relang.DFA, join string) *relang.DFA {
	j := relang.Literal(e.A, join)
	return relang.Concat(U, relang.Star(relang.Concat(j, U)))
}

// SubstRune: inverse image of L under "every rune `from` is read as `to`" (letter-to-letter map on the input).
func (e *Env) ReadAs(L *relang.DFA, from rune, to rune, optional bool) *relang.DFA {
	fc, tc := e.A.Class(from), e.A.Class(to)
	return relang.MapClasses(L, func(c int) []int {
		if c == fc {
			if optional {
				return []int{fc, tc}
			}
			return []int{tc}
		}
		return nil
	})
}

// InsertWords: { v | deleting some occurrences of words of M from v yields a member of L } ⊇ the pre-image of L
// under "delete all matches of M".
func (e *Env) InsertWords(L, M *relang.DFA) *relang.DFA {
	n := relang.NewNFA(e.A)
	offL := n.Embed(L)
	n.Start = []int32{offL + int32(L.Start)}
	for s, a := range L.Acc {
		if a {
			n.Acc[offL+int32(s)] = true
		}
	}
	// at every L state, a detour through a private copy of M
	for s := range L.T {
		offM := n.Embed(M)
		n.AddEps(offL+int32(s), offM+int32(M.Start))
		for ms, a := range M.Acc {
			if a {
				n.AddEps(offM+int32(ms), offL+int32(s))
			}
		}
	}
	return n.Determinize()
}

// ExpandSep: forward image of L under the substitution " " ↦ {" ", sep} (sep a string containing spaces, e.g. " / ").
func (e *Env) ExpandJoin(L *relang.DFA, join string, sep string) *relang.DFA {
	n := relang.NewNFA(e.A)
	off := n.Embed(L)
	n.Start = []int32{off + int32(L.Start)}
	for s, a := range L.Acc {
		if a {
			n.Acc[off+int32(s)] = true
		}
	}
	jr := []rune(join)
	if len(jr) != 1 {
		return e.all
	}
	jc := e.A.Class(jr[0])
	for s := range L.T {
		t := L.T[s][jc]
		// path reading sep from s to t
		cur := off + int32(s)
		rs := []rune(sep)
		for i, r := range rs {
			var nx int32
			if i == len(rs)-1 {
				nx = off + t
			} else {
				nx = n.AddState(false)
			}
			n.AddTr(cur, e.A.Class(r), nx)
			cur = nx
		}
	}
	return n.Determinize()
}

func (e *Env) String() string { return fmt.Sprintf("csslang.Env(%d classes)", e.A.N()) }

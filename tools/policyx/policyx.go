// Package policyx is Engine D: abstract evaluation of straight-line policy-construction code.
// Builder calls are applied with their DOCUMENTED meaning to an abstract PolicyTable; that the
// builder bodies implement that meaning is C17's obligation, and that the sanitiser honours the
// tables is C01/C02/C03 — neither is re-derived here.  Anything that is not straight-line
// constant code makes the extraction fail (UNDECIDED), so a table is exact whenever it is produced.
package policyx

import (
	"fmt"
	"go/constant"
	"go/token"
	"go/types"
	"sort"
	"strings"

	"golang.org/x/tools/go/ssa"

	"verif/tools/load"
	"verif/tools/model"
	"verif/tools/pa"
	"verif/tools/pats"
)

// AttrRule is one (attribute, pattern) rule; Pattern "" means "any value".
type AttrRule struct {
	Attr    string
	Pattern string
	HasPat  bool
}

// Table is the abstract policy.
type Table struct {
	Elements      map[string]bool       // explicitly named elements
	ElemAttrs     map[string][]AttrRule // element -> rules
	GlobalAttrs   []AttrRule
	ElemPatterns  []string          // element regexps (AllowElementsMatching / OnElementsMatching)
	Schemes       map[string]string // scheme -> "" | "custom"
	SchemeRegexps []string
	Flags         map[string]bool // option name -> value (last setting)
	Called        map[string]int  // builder method -> number of calls
	Skip          map[string]bool
	Bare          map[string]bool
	BarePatterns  []string
	StyleRules    int
	Sandbox       []string
	Notes         []string
}

func newTable() *Table {
	return &Table{Elements: map[string]bool{}, ElemAttrs: map[string][]AttrRule{}, Schemes: map[string]string{}, Flags: map[string]bool{}, Called: map[string]int{}, Skip: map[string]bool{}, Bare: map[string]bool{}}
}

// value kinds tracked by the evaluator
type polVal struct{ t *Table }
type attrBuilder struct {
	t          *Table
	attrs      []string
	pattern    string
	hasPat     bool
	allowEmpty bool
}
type styleBuilder struct{ t *Table }

// Evaluator interprets functions.
type Evaluator struct {
	P     *load.Program
	pvars map[string]*pats.Var // package-level regexps by "pkgpath.Name"
	depth int
}

func New(P *load.Program) *Evaluator {
	e := &Evaluator{P: P, pvars: map[string]*pats.Var{}}
	for _, pkg := range P.Pkgs {
		vs := pats.RegexpVars(pkg)
		pats.FindWrites(vs, P.Pkgs)
		for _, v := range vs {
			e.pvars[pkg.PkgPath+"."+v.Name] = v
		}
	}
	return e
}

type frame struct {
	vals map[ssa.Value]any
}

// EvalConstructor evaluates a niladic function returning *Policy (UGCPolicy, StrictPolicy, NewPolicy).
func (e *Evaluator) EvalConstructor(fn *ssa.Function) (*Table, error) {
	fr := &frame{vals: map[ssa.Value]any{}}
	ret, err := e.run(fn, fr)
	if err != nil {
		return nil, err
	}
	pv, ok := ret.(polVal)
	if !ok {
		return nil, fmt.Errorf("%s does not return a policy built in this call", fn.Name())
	}
	return pv.t, nil
}

// EvalMainPolicy evaluates a main function and returns the policy on which Sanitize is called.
func (e *Evaluator) EvalMainPolicy(fn *ssa.Function) (*Table, *ssa.Call, error) {
	fr := &frame{vals: map[ssa.Value]any{}}
	var sanCall *ssa.Call
	var tbl *Table
	hook := func(cl *ssa.Call, recv any) bool {
		if cal := cl.Common().StaticCallee(); cal != nil && cal.Name() == "Sanitize" {
			if pv, ok := recv.(polVal); ok {
				tbl, sanCall = pv.t, cl
				return true
			}
		}
		return false
	}
	_, err := e.runHook(fn, fr, hook, true)
	if err != nil {
		return nil, nil, err
	}
	if tbl == nil {
		return nil, nil, fmt.Errorf("no call of Sanitize on a policy built in main")
	}
	return tbl, sanCall, nil
}

func (e *Evaluator) run(fn *ssa.Function, fr *frame) (any, error) {
	return e.runHook(fn, fr, nil, false)
}

// bound holds the element of a constant list while its range loop is being unrolled.
var bound = map[ssa.Value]string{}

// rowBind holds, while a range loop over a literal table of structs is being unrolled, the field values of the current
// row: element load (the struct value of this iteration) -> field index -> the value the literal stores there.
var rowBind = map[ssa.Value]map[int]ssa.Value{}

// resolve maps a field of the current row of an unrolled struct table to the value the table literal holds.
func resolve(v ssa.Value) ssa.Value {
	if f, ok := v.(*ssa.Field); ok {
		if row, ok := rowBind[f.X]; ok {
			if x, ok := row[f.Field]; ok {
				return x
			}
			return zeroOf(f.Type()) // a field the literal leaves out holds its zero value
		}
	}
	// the range variable kept in a local: row := table[i]; … row.f …
	if u, ok := v.(*ssa.UnOp); ok && u.Op == token.MUL {
		if fa, ok := u.X.(*ssa.FieldAddr); ok {
			if al, ok := fa.X.(*ssa.Alloc); ok {
				var src ssa.Value
				n := 0
				for _, r := range *al.Referrers() {
					if st, ok := r.(*ssa.Store); ok && st.Addr == ssa.Value(al) {
						src = st.Val
						n++
					}
				}
				if n == 1 {
					if row, ok := rowBind[src]; ok {
						if x, ok := row[fa.Field]; ok {
							return x
						}
						return zeroOf(u.Type())
					}
				}
			}
		}
	}
	return v
}

func zeroOf(t types.Type) ssa.Value { return ssa.NewConst(nil, t) }

// structTable resolves a slice literal of structs whose rows are stored field by field with constant indices.
func structTable(v ssa.Value) ([]map[int]ssa.Value, bool) {
	sl, ok := v.(*ssa.Slice)
	if !ok {
		return nil, false
	}
	al, ok := sl.X.(*ssa.Alloc)
	if !ok {
		return nil, false
	}
	at, ok := al.Type().Underlying().(*types.Pointer).Elem().Underlying().(*types.Array)
	if !ok {
		return nil, false
	}
	if _, isStruct := at.Elem().Underlying().(*types.Struct); !isStruct {
		return nil, false
	}
	rows := make([]map[int]ssa.Value, at.Len())
	for i := range rows {
		rows[i] = map[int]ssa.Value{}
	}
	for _, r := range *al.Referrers() {
		switch x := r.(type) {
		case *ssa.IndexAddr:
			idx, ok := x.Index.(*ssa.Const)
			if !ok || idx.Int64() < 0 || idx.Int64() >= at.Len() {
				return nil, false
			}
			fields := func(base ssa.Value, into map[int]ssa.Value) bool {
				for _, r2 := range *base.Referrers() {
					switch y := r2.(type) {
					case *ssa.FieldAddr:
						for _, r3 := range *y.Referrers() {
							st, ok := r3.(*ssa.Store)
							if !ok || st.Addr != ssa.Value(y) {
								return false
							}
							into[y.Field] = st.Val
						}
					case *ssa.UnOp, *ssa.DebugRef, *ssa.Store:
					default:
						return false
					}
				}
				return true
			}
			for _, r2 := range *x.Referrers() {
				switch y := r2.(type) {
				case *ssa.FieldAddr:
					// handled by fields(x, …) below
				case *ssa.Store:
					// t[j] = *complit: the row is a composite literal built in a local and copied in
					ld, ok := y.Val.(*ssa.UnOp)
					if !ok || y.Addr != ssa.Value(x) {
						return nil, false
					}
					lit, ok := ld.X.(*ssa.Alloc)
					if !ok || !fields(lit, rows[idx.Int64()]) {
						return nil, false
					}
				case *ssa.DebugRef:
				default:
					return nil, false
				}
			}
			if !fields(x, rows[idx.Int64()]) {
				return nil, false
			}
		case *ssa.Slice, *ssa.DebugRef:
		default:
			return nil, false
		}
	}
	return rows, true
}

func constStr(v ssa.Value) (string, bool) {
	v = resolve(v)
	if s, ok := bound[v]; ok {
		return s, true
	}
	c, ok := v.(*ssa.Const)
	if !ok || c.Value == nil || c.Value.Kind() != constant.String {
		return "", false
	}
	return constant.StringVal(c.Value), true
}

// strSlice resolves a variadic []string argument built from constants.
func strSlice(v ssa.Value) ([]string, bool) {
	v = resolve(v)
	if c, ok := v.(*ssa.Const); ok && c.IsNil() {
		return nil, true
	}
	al, ok := v.(*ssa.Alloc) // a local array variable, indexed in place
	if !ok {
		sl, ok := v.(*ssa.Slice)
		if !ok {
			return nil, false
		}
		al, ok = sl.X.(*ssa.Alloc)
		if !ok {
			return nil, false
		}
	}
	if at, isArr := al.Type().Underlying().(*types.Pointer).Elem().Underlying().(*types.Array); !isArr {
		return nil, false
	} else if bt, isB := at.Elem().Underlying().(*types.Basic); !isB || bt.Info()&types.IsString == 0 {
		return nil, false // not a list of strings (a table of structs is handled by structTable)
	}
	type kv struct {
		i int64
		s string
	}
	var items []kv
	for _, r := range *al.Referrers() {
		ia, ok := r.(*ssa.IndexAddr)
		if !ok {
			continue
		}
		idx, ok := ia.Index.(*ssa.Const)
		if !ok {
			// a[i] with a variable index: fine as long as it is only read
			for _, r2 := range *ia.Referrers() {
				if u, isLoad := r2.(*ssa.UnOp); !isLoad || u.Op != token.MUL {
					return nil, false
				}
			}
			continue
		}
		for _, r2 := range *ia.Referrers() {
			if st, ok := r2.(*ssa.Store); ok {
				s, ok := constStr(st.Val)
				if !ok {
					return nil, false
				}
				items = append(items, kv{idx.Int64(), s})
			}
		}
	}
	sort.Slice(items, func(i, j int) bool { return items[i].i < items[j].i })
	out := make([]string, len(items))
	for i, it := range items {
		out[i] = it.s
	}
	return out, true
}

func (e *Evaluator) regexpOf(v ssa.Value) (string, bool) {
	v = resolve(v)
	switch x := v.(type) {
	case *ssa.UnOp:
		if x.Op == token.MUL {
			if g, ok := x.X.(*ssa.Global); ok {
				if pv := e.pvars[g.Pkg.Pkg.Path()+"."+g.Name()]; pv != nil && pv.Const && len(pv.Writes) == 0 {
					return pv.Pattern, true
				}
			}
		}
	case *ssa.Call:
		if cal := x.Common().StaticCallee(); cal != nil && cal.Pkg != nil && cal.Pkg.Pkg.Path() == "regexp" && cal.Name() == "MustCompile" {
			return constStr(x.Common().Args[0])
		}
		// a compile wrapper of the module: one parameter, one block, `return regexp.MustCompile(param)`
		if cal := x.Common().StaticCallee(); cal != nil && cal.Pkg != nil && strings.HasPrefix(cal.Pkg.Pkg.Path(), load.ModPath) && len(cal.Params) == 1 && len(cal.Blocks) == 1 && len(x.Common().Args) == 1 {
			ins := cal.Blocks[0].Instrs
			if ret, ok := ins[len(ins)-1].(*ssa.Return); ok && len(ret.Results) == 1 {
				if in, ok := ret.Results[0].(*ssa.Call); ok {
					if c2 := in.Common().StaticCallee(); c2 != nil && c2.Pkg != nil && c2.Pkg.Pkg.Path() == "regexp" && c2.Name() == "MustCompile" && in.Common().Args[0] == ssa.Value(cal.Params[0]) {
						return constStr(x.Common().Args[0])
					}
				}
			}
		}
	}
	return "", false
}

func boolConst(v ssa.Value) (bool, bool) {
	c, ok := v.(*ssa.Const)
	if !ok || c.Value == nil || c.Value.Kind() != constant.Bool {
		return false, false
	}
	return constant.BoolVal(c.Value), true
}

func lower(ss []string) []string {
	out := make([]string, len(ss))
	for i, s := range ss {
		out[i] = strings.ToLower(s)
	}
	return out
}

// options that are documented to also enable URL checking
var impliesRPU = map[string]bool{"RequireNoFollowOnLinks": true, "RequireNoFollowOnFullyQualifiedLinks": true, "RequireNoReferrerOnLinks": true,
	"RequireNoReferrerOnFullyQualifiedLinks": true, "AddTargetBlankToFullyQualifiedLinks": true, "AllowRelativeURLs": true, "AllowURLSchemes": true, "AllowURLSchemeWithCustomPolicy": true}

func (e *Evaluator) runHook(fn *ssa.Function, fr *frame, hook func(*ssa.Call, any) bool, isMain bool) (any, error) {
	if e.depth > 6 {
		return nil, fmt.Errorf("helper nesting too deep at %s", fn.Name())
	}
	if len(fn.Blocks) == 0 {
		return nil, fmt.Errorf("%s has no body", fn.Name())
	}
	b := fn.Blocks[0]
	visited := map[*ssa.BasicBlock]bool{}
	loops := model.SliceRangeLoops(fn)
	type unroll struct {
		l     *model.RangeLoop
		elems []string
		rows  []map[int]ssa.Value // a literal table of structs (elems is then only used for its length)
		next  int
		elem  ssa.Value
	}
	var prev *ssa.BasicBlock // the block control came from (φ selection)
	active := map[*ssa.BasicBlock]*unroll{}
	for {
		// a range loop over a list of constants is unrolled: the element is bound to each constant in turn
		var lp *model.RangeLoop
		for _, l := range loops {
			if l.Header == b {
				lp = l
			}
		}
		if lp != nil {
			u := active[b]
			if u == nil {
				elems, ok := strSlice(lp.Over)
				if !ok {
					// a package-level list of constants that is only ever read
					elems, ok = model.ConstSliceOf(e.P, lp.Over)
				}
				var rows []map[int]ssa.Value
				if !ok {
					// a literal table of structs: each iteration sees the fields of one row
					if rows, ok = structTable(lp.Over); ok {
						elems = make([]string, len(rows))
					}
				}
				if !ok {
					return nil, fmt.Errorf("%s: loop over a non-constant list in policy construction code", fn.Name())
				}
				u = &unroll{l: lp, elems: elems, rows: rows}
				for blk := range lp.Blocks {
					for _, in := range blk.Instrs {
						if ld, ok := in.(*ssa.UnOp); ok {
							if ia, ok := ld.X.(*ssa.IndexAddr); ok && ia.X == lp.Over {
								u.elem = ld
							}
						}
						if ix, ok := in.(*ssa.Index); ok && ix.X == lp.Over {
							u.elem = ix // element of an array value
						}
					}
				}
				active[b] = u
			}
			if u.next < len(u.elems) {
				if u.elem != nil {
					if u.rows != nil {
						rowBind[u.elem] = u.rows[u.next]
					} else {
						bound[u.elem] = u.elems[u.next]
					}
				}
				u.next++
				for blk := range lp.Blocks {
					if blk != lp.Header {
						delete(visited, blk)
					}
				}
				prev = b
				b = lp.Body
				continue
			}
			if u.elem != nil {
				delete(bound, u.elem)
				delete(rowBind, u.elem)
			}
			delete(active, b)
			prev = b
			b = lp.Exit
			continue
		}
		if visited[b] {
			return nil, fmt.Errorf("%s: loop in policy construction code", fn.Name())
		}
		visited[b] = true
		var decided *ssa.BasicBlock // successor chosen by a nil test that could be evaluated
		for _, in := range b.Instrs {
			switch x := in.(type) {
			case *ssa.Phi:
				// the builder / policy value that arrives over the edge taken
				for i, p := range b.Preds {
					if p == prev {
						if v, ok := fr.vals[x.Edges[i]]; ok {
							fr.vals[x] = v
						}
					}
				}
			case *ssa.Call:
				if err := e.call(fn, fr, x, hook, isMain); err != nil {
					return nil, err
				}
			case *ssa.MapUpdate:
				// defaults: p.<field>[const] = struct{}{}
				if u, ok := x.Map.(*ssa.UnOp); ok {
					if fa, ok := u.X.(*ssa.FieldAddr); ok {
						if pv, ok := fr.vals[fa.X].(polVal); ok {
							key, isC := constStr(x.Key)
							if !isC {
								return nil, fmt.Errorf("%s: non-constant table key", fn.Name())
							}
							pv.t.rawSet(e.P, fieldNameOf(fa), key)
							continue
						}
					}
				}
				return nil, fmt.Errorf("%s: map update outside the modelled builders at %s", fn.Name(), e.P.Pos(x.Pos()))
			case *ssa.Alloc:
				if strings.HasSuffix(x.Type().String(), "bluemonday.Policy") {
					fr.vals[x] = polVal{newTable()}
				}
			case *ssa.If:
				// `if row.pattern != nil` over a row of an unrolled table: the literal decides
				if bo, ok := x.Cond.(*ssa.BinOp); ok && (bo.Op == token.EQL || bo.Op == token.NEQ) && len(rowBind) > 0 {
					a, c := resolve(bo.X), resolve(bo.Y)
					if k, isC := a.(*ssa.Const); isC && k.IsNil() {
						a, c = c, a
					}
					if k, isC := c.(*ssa.Const); isC && k.IsNil() {
						known, isNil := false, false
						if ka, isC := a.(*ssa.Const); isC {
							known, isNil = true, ka.IsNil()
						} else if _, isRe := e.regexpOf(a); isRe {
							known, isNil = true, false
						}
						if known {
							if isNil == (bo.Op == token.EQL) {
								decided = b.Succs[0]
							} else {
								decided = b.Succs[1]
							}
							continue
						}
					}
				}
				if isMain {
					// error handling around io.ReadAll in the tools: `if err != nil { log.Fatal }` — tolerated, the
					// fatal branch does not return
					continue
				}
				return nil, fmt.Errorf("%s: branch in policy construction code at %s", fn.Name(), e.P.Pos(x.Pos()))
			case *ssa.Return:
				if len(x.Results) == 0 {
					return nil, nil
				}
				return fr.vals[x.Results[0]], nil
			case *ssa.Store:
				// stores into the policy's boolean fields by the trivially modelled setters are handled at call level
			}
		}
		if decided != nil {
			prev = b
			// the blocks of the other arm are not visited; the join may be reached again on the next iteration
			b = decided
			continue
		}
		switch len(b.Succs) {
		case 0:
			return nil, nil
		case 1:
			prev = b
			b = b.Succs[0]
		default:
			if !isMain {
				return nil, fmt.Errorf("%s: branching", fn.Name())
			}
			// main: follow the non-fatal successor (the one that does not end in log.Fatal / os.Exit)
			next := b.Succs[1]
			for _, s := range b.Succs {
				fatal := false
				for _, in := range s.Instrs {
					if cl, ok := in.(*ssa.Call); ok && cl.Common().StaticCallee() != nil && (cl.Common().StaticCallee().Name() == "Fatal" || cl.Common().StaticCallee().Name() == "Exit") {
						fatal = true
					}
				}
				if !fatal {
					next = s
				}
			}
			b = next
		}
	}
}

func fieldNameOf(fa *ssa.FieldAddr) string { return pa.FieldName(fa) }

// rawSet records a direct `p.<field>[key] = …` of the default-table fillers.  The field is identified by the role the
// builder API gives it (the skip set is what SkipElementsContent updates, the bare set what AllowNoAttrs().OnElements
// updates), not by its name.
func (t *Table) rawSet(P *load.Program, field, key string) {
	F := model.FindFields(P)
	switch {
	case F != nil && field == F.Get("skipSet"):
		t.Skip[key] = true
	case F != nil && field == F.Get("bareSet"):
		t.Bare[key] = true
	default:
		t.Notes = append(t.Notes, "raw update of "+field+"["+key+"]")
	}
}

func (e *Evaluator) call(fn *ssa.Function, fr *frame, cl *ssa.Call, hook func(*ssa.Call, any) bool, isMain bool) error {
	c := cl.Common()
	cal := c.StaticCallee()
	if cal == nil {
		if _, isBuiltin := c.Value.(*ssa.Builtin); isBuiltin || isMain {
			return nil
		}
		return fmt.Errorf("%s: dynamic call in policy construction code", fn.Name())
	}
	inModule := cal.Pkg != nil && strings.HasPrefix(cal.Pkg.Pkg.Path(), load.ModPath)
	if !inModule {
		// regexp.MustCompile etc. are resolved on demand; in main, I/O calls are ignored
		return nil
	}
	name := cal.Name()
	var recv any
	if cal.Signature.Recv() != nil && len(c.Args) > 0 {
		recv = fr.vals[c.Args[0]]
	}
	if hook != nil && hook(cl, recv) {
		return nil
	}
	args := c.Args
	if cal.Signature.Recv() != nil {
		args = args[1:]
	}
	pos := e.P.Pos(cl.Pos())
	switch r := recv.(type) {
	case nil:
		switch name {
		case "NewPolicy", "UGCPolicy", "StrictPolicy", "StripTagsPolicy":
			sub := &frame{vals: map[ssa.Value]any{}}
			e.depth++
			ret, err := e.run(cal, sub)
			e.depth--
			if err != nil {
				return err
			}
			fr.vals[cl] = ret
			return nil
		}
		if cal.Signature.Recv() != nil {
			return fmt.Errorf("%s: method %s called on a value that is not a policy/builder built here (%s)", fn.Name(), name, pos)
		}
		return nil
	case polVal:
		t := r.t
		t.Called[name]++
		switch name {
		case "init", "addDefaultElementsWithoutAttrs", "addDefaultSkipElementContent",
			"AllowStandardURLs", "AllowStandardAttributes", "AllowStyling", "AllowImages", "AllowDataURIImages", "AllowLists", "AllowTables", "AllowIFrames":
			if name == "init" {
				return nil
			}
			sub := &frame{vals: map[ssa.Value]any{cal.Params[0]: r}}
			e.depth++
			_, err := e.run(cal, sub)
			e.depth--
			return err
		case "AllowAttrs":
			ss, ok := strSlice(args[0])
			if !ok {
				return fmt.Errorf("%s: non-constant attribute names at %s", fn.Name(), pos)
			}
			fr.vals[cl] = &attrBuilder{t: t, attrs: lower(ss)}
		case "AllowNoAttrs":
			fr.vals[cl] = &attrBuilder{t: t, allowEmpty: true}
		case "AllowElements":
			ss, ok := strSlice(args[0])
			if !ok {
				return fmt.Errorf("%s: non-constant element names at %s", fn.Name(), pos)
			}
			for _, s := range lower(ss) {
				t.Elements[s] = true
			}
			fr.vals[cl] = r
		case "AllowElementsMatching":
			p, ok := e.regexpOf(args[0])
			if !ok {
				return fmt.Errorf("%s: non-constant element pattern at %s", fn.Name(), pos)
			}
			t.ElemPatterns = append(t.ElemPatterns, p)
			fr.vals[cl] = r
		case "AllowURLSchemes":
			ss, ok := strSlice(args[0])
			if !ok {
				return fmt.Errorf("%s: non-constant schemes at %s", fn.Name(), pos)
			}
			for _, s := range lower(ss) {
				t.Schemes[s] = ""
			}
			t.Flags["RequireParseableURLs"] = true
			fr.vals[cl] = r
		case "AllowURLSchemeWithCustomPolicy":
			s, ok := constStr(args[0])
			if !ok {
				return fmt.Errorf("%s: non-constant scheme at %s", fn.Name(), pos)
			}
			t.Schemes[strings.ToLower(s)] = "custom"
			t.Flags["RequireParseableURLs"] = true
			fr.vals[cl] = r
		case "AllowURLSchemesMatching":
			p, ok := e.regexpOf(args[0])
			if !ok {
				return fmt.Errorf("%s: non-constant scheme pattern at %s", fn.Name(), pos)
			}
			t.SchemeRegexps = append(t.SchemeRegexps, p)
			fr.vals[cl] = r
		case "RequireParseableURLs", "AllowRelativeURLs", "RequireNoFollowOnLinks", "RequireNoFollowOnFullyQualifiedLinks", "RequireNoReferrerOnLinks",
			"RequireNoReferrerOnFullyQualifiedLinks", "AddTargetBlankToFullyQualifiedLinks", "RequireCrossOriginAnonymous", "AddSpaceWhenStrippingTag", "AllowUnsafe":
			bv, ok := boolConst(args[0])
			if !ok {
				return fmt.Errorf("%s: non-constant option value at %s", fn.Name(), pos)
			}
			t.Flags[name] = bv
			if impliesRPU[name] {
				t.Flags["RequireParseableURLs"] = true
			}
			fr.vals[cl] = r
		case "AllowDataAttributes", "AllowComments":
			t.Flags[name] = true
		case "RewriteSrc":
			t.Flags[name] = true
			fr.vals[cl] = r
		case "SkipElementsContent", "AllowElementsContent":
			ss, ok := strSlice(args[0])
			if !ok {
				return fmt.Errorf("%s: non-constant names at %s", fn.Name(), pos)
			}
			for _, s := range lower(ss) {
				if name == "SkipElementsContent" {
					t.Skip[s] = true
				} else {
					delete(t.Skip, s)
				}
			}
			fr.vals[cl] = r
		case "AllowStyles":
			t.StyleRules++
			fr.vals[cl] = &styleBuilder{t}
		case "RequireSandboxOnIFrame":
			t.Flags[name] = true
		case "Sanitize", "SanitizeBytes", "SanitizeReader", "SanitizeReaderToWriter":
		default:
			return fmt.Errorf("%s: policy method %s is not modelled (%s)", fn.Name(), name, pos)
		}
		return nil
	case *attrBuilder:
		switch name {
		case "Matching":
			p, ok := e.regexpOf(args[0])
			if !ok {
				return fmt.Errorf("%s: non-constant value pattern at %s", fn.Name(), pos)
			}
			nb := *r
			nb.pattern, nb.hasPat = p, true
			fr.vals[cl] = &nb
		case "AllowNoAttrs":
			nb := *r
			nb.allowEmpty = true
			fr.vals[cl] = &nb
		case "OnElements":
			ss, ok := strSlice(args[0])
			if !ok {
				return fmt.Errorf("%s: non-constant element names at %s", fn.Name(), pos)
			}
			for _, el := range lower(ss) {
				r.t.Elements[el] = true
				for _, a := range r.attrs {
					r.t.ElemAttrs[el] = append(r.t.ElemAttrs[el], AttrRule{a, r.pattern, r.hasPat})
				}
				if r.allowEmpty {
					r.t.Bare[el] = true
				}
			}
			r.t.Called["OnElements"]++
			fr.vals[cl] = polVal{r.t}
		case "OnElementsMatching":
			p, ok := e.regexpOf(args[0])
			if !ok {
				return fmt.Errorf("%s: non-constant element pattern at %s", fn.Name(), pos)
			}
			r.t.ElemPatterns = append(r.t.ElemPatterns, p)
			if r.allowEmpty {
				r.t.BarePatterns = append(r.t.BarePatterns, p)
			}
			r.t.Called["OnElementsMatching"]++
			fr.vals[cl] = polVal{r.t}
		case "Globally":
			for _, a := range r.attrs {
				r.t.GlobalAttrs = append(r.t.GlobalAttrs, AttrRule{a, r.pattern, r.hasPat})
			}
			r.t.Called["Globally"]++
			fr.vals[cl] = polVal{r.t}
		default:
			return fmt.Errorf("%s: attribute-builder method %s is not modelled (%s)", fn.Name(), name, pos)
		}
		return nil
	case *styleBuilder:
		switch name {
		case "Matching", "MatchingEnum", "MatchingHandler":
			fr.vals[cl] = r
		case "OnElements", "OnElementsMatching", "Globally":
			fr.vals[cl] = polVal{r.t}
		default:
			return fmt.Errorf("%s: style-builder method %s is not modelled (%s)", fn.Name(), name, pos)
		}
		return nil
	}
	return nil
}

// Package relang decides questions about regular languages exactly: regexps (under Go's
// MatchString semantics), keyword lists and their compositions are turned into DFAs over a
// partition of ALL Unicode runes induced by the range boundaries of the automata in play.
package relang

import (
	"regexp/syntax"
	"sort"
	"unicode"
)

const MaxRune = unicode.MaxRune

// Alphabet is a partition of [0, MaxRune] into half-open classes [B[i], B[i+1]).
type Alphabet struct {
	B    []rune // sorted class lower bounds, B[0]==0
	reps []rune
}

// Builder accumulates boundaries.
type Builder struct{ pts map[rune]bool }

func NewBuilder() *Builder {
	b := &Builder{pts: map[rune]bool{0: true}}
	// newline and word-character boundaries: needed for ^ $ \b under any flags
	b.AddRange('\n', '\n')
	b.AddRange('0', '9')
	b.AddRange('A', 'Z')
	b.AddRange('a', 'z')
	b.AddRange('_', '_')
	return b
}

func (b *Builder) AddRange(lo, hi rune) {
	if lo < 0 {
		lo = 0
	}
	b.pts[lo] = true
	if hi+1 <= MaxRune {
		b.pts[hi+1] = true
	}
}

func (b *Builder) AddRune(r rune) { b.AddRange(r, r) }

func (b *Builder) AddString(s string) {
	for _, r := range s {
		b.AddRune(r)
	}
}

// AddRuneSet adds each member as a singleton (used for case-folding pre-images and white space).
func (b *Builder) AddRuneSet(rs []rune) {
	for _, r := range rs {
		b.AddRune(r)
	}
}

// AddPattern adds every boundary of a compiled regexp program (incl. fold orbits).
func (b *Builder) AddPattern(pat string) error {
	prog, err := compile(pat)
	if err != nil {
		return err
	}
	b.addProg(prog)
	return nil
}

func (b *Builder) addProg(prog *syntax.Prog) {
	for i := range prog.Inst {
		in := &prog.Inst[i]
		switch in.Op {
		case syntax.InstRune, syntax.InstRune1:
			if len(in.Rune) == 1 {
				r0 := in.Rune[0]
				b.AddRune(r0)
				if syntax.Flags(in.Arg)&syntax.FoldCase != 0 {
					for r1 := unicode.SimpleFold(r0); r1 != r0; r1 = unicode.SimpleFold(r1) {
						b.AddRune(r1)
					}
				}
				continue
			}
			for j := 0; j+1 < len(in.Rune); j += 2 {
				b.AddRange(in.Rune[j], in.Rune[j+1])
			}
		case syntax.InstRuneAnyNotNL:
			b.AddRune('\n')
		}
	}
}

func (b *Builder) Build() *Alphabet {
	a := &Alphabet{}
	for p := range b.pts {
		if p <= MaxRune {
			a.B = append(a.B, p)
		}
	}
	sort.Slice(a.B, func(i, j int) bool { return a.B[i] < a.B[j] })
	a.reps = make([]rune, len(a.B))
	for i := range a.B {
		lo := a.B[i]
		hi := rune(MaxRune)
		if i+1 < len(a.B) {
			hi = a.B[i+1] - 1
		}
		rep := lo
		// prefer a printable representative, and avoid the surrogate range
		for r := lo; r <= hi && r < lo+512; r++ {
			if unicode.IsPrint(r) && !(r >= 0xD800 && r <= 0xDFFF) {
				rep = r
				break
			}
		}
		a.reps[i] = rep
	}
	return a
}

func (a *Alphabet) N() int { return len(a.B) }

// Class returns the class index of r.
func (a *Alphabet) Class(r rune) int {
	i := sort.Search(len(a.B), func(i int) bool { return a.B[i] > r })
	return i - 1
}

// Rep returns a representative rune of class c.
func (a *Alphabet) Rep(c int) rune { return a.reps[c] }

// Lo returns the lowest rune of class c (always a member).
func (a *Alphabet) Lo(c int) rune { return a.B[c] }

// Hi returns the highest rune of class c.
func (a *Alphabet) Hi(c int) rune {
	if c+1 < len(a.B) {
		return a.B[c+1] - 1
	}
	return MaxRune
}

// Singleton reports whether r forms a class on its own.
func (a *Alphabet) Singleton(r rune) bool {
	c := a.Class(r)
	return a.Lo(c) == r && a.Hi(c) == r
}

// String renders a class word with representatives.
func (a *Alphabet) String(word []int) string {
	rs := make([]rune, len(word))
	for i, c := range word {
		rs[i] = a.reps[c]
	}
	return string(rs)
}

// ClassesOf returns the class indexes covering the given runes (each must be a singleton class
// for exactness; callers add them to the builder first).
func (a *Alphabet) ClassesOf(rs []rune) []int {
	seen := map[int]bool{}
	var out []int
	for _, r := range rs {
		c := a.Class(r)
		if !seen[c] {
			seen[c] = true
			out = append(out, c)
		}
	}
	sort.Ints(out)
	return out
}

func compile(pat string) (*syntax.Prog, error) {
	re, err := syntax.Parse(pat, syntax.Perl)
	if err != nil {
		return nil, err
	}
	return syntax.Compile(re.Simplify())
}

// WhiteSpace returns the runes strings.TrimSpace / unicode.IsSpace treat as white space.
func WhiteSpace() []rune {
	var out []rune
	for r := rune(0); r <= 0x3000; r++ {
		if unicode.IsSpace(r) {
			out = append(out, r)
		}
	}
	return out
}

// LowerPreimageRunes returns every rune x with unicode.ToLower(x) occurring in s (including the runes of s).
func LowerPreimageRunes(s string) []rune {
	want := map[rune]bool{}
	for _, r := range s {
		want[r] = true
	}
	var out []rune
	for x := rune(0); x <= unicode.MaxRune; x++ {
		if want[unicode.ToLower(x)] {
			out = append(out, x)
		}
	}
	return out
}

package relang

import "sort"

// NFA with ε-moves over alphabet classes; used to build concatenation, star, etc.
type NFA struct {
	A     *Alphabet
	Eps   [][]int32
	Tr    []map[int32][]int32 // state -> class -> targets
	Start []int32
	Acc   []bool
}

func NewNFA(a *Alphabet) *NFA { return &NFA{A: a} }

func (n *NFA) AddState(acc bool) int32 {
	n.Eps = append(n.Eps, nil)
	n.Tr = append(n.Tr, nil)
	n.Acc = append(n.Acc, acc)
	return int32(len(n.Acc) - 1)
}
func (n *NFA) AddEps(s, t int32) { n.Eps[s] = append(n.Eps[s], t) }
func (n *NFA) AddTr(s int32, c int, t int32) {
	if n.Tr[s] == nil {
		n.Tr[s] = map[int32][]int32{}
	}
	n.Tr[s][int32(c)] = append(n.Tr[s][int32(c)], t)
}

// Embed copies DFA d into the NFA and returns the offset of its states.
func (n *NFA) Embed(d *DFA) int32 {
	off := int32(len(n.Acc))
	for s := range d.T {
		n.AddState(false)
		_ = s
	}
	for s := range d.T {
		// group classes by target to keep maps small
		for c, t := range d.T[s] {
			n.AddTr(off+int32(s), c, off+t)
		}
	}
	return off
}

// Determinize performs the subset construction.
func (n *NFA) Determinize() *DFA {
	a := n.A
	// live[s]: an accepting state is reachable from s.  Dead states are dropped from every subset: they cannot
	// contribute to acceptance, and keeping them makes otherwise equal subsets distinct (exponentially many).
	live := make([]bool, len(n.Acc))
	{
		rev := make([][]int32, len(n.Acc))
		for s := range n.Acc {
			for _, t := range n.Eps[s] {
				rev[t] = append(rev[t], int32(s))
			}
			for _, ts := range n.Tr[s] {
				for _, t := range ts {
					rev[t] = append(rev[t], int32(s))
				}
			}
		}
		var stack []int32
		for s, acc := range n.Acc {
			if acc {
				live[s] = true
				stack = append(stack, int32(s))
			}
		}
		for len(stack) > 0 {
			s := stack[len(stack)-1]
			stack = stack[:len(stack)-1]
			for _, p := range rev[s] {
				if !live[p] {
					live[p] = true
					stack = append(stack, p)
				}
			}
		}
	}
	closure := func(set []int32) []int32 {
		seen := map[int32]bool{}
		stack := append([]int32(nil), set...)
		for len(stack) > 0 {
			s := stack[len(stack)-1]
			stack = stack[:len(stack)-1]
			if seen[s] || !live[s] {
				continue
			}
			seen[s] = true
			stack = append(stack, n.Eps[s]...)
		}
		out := make([]int32, 0, len(seen))
		for s := range seen {
			out = append(out, s)
		}
		sort.Slice(out, func(i, j int) bool { return out[i] < out[j] })
		return out
	}
	key := func(set []int32) string {
		b := make([]byte, 0, 4*len(set))
		for _, s := range set {
			b = appendInt(b, s)
		}
		return string(b)
	}
	d := &DFA{A: a}
	idx := map[string]int{}
	var sets [][]int32
	add := func(set []int32) int {
		k := key(set)
		if i, ok := idx[k]; ok {
			return i
		}
		i := len(sets)
		idx[k] = i
		sets = append(sets, set)
		return i
	}
	d.Start = add(closure(n.Start))
	for i := 0; i < len(sets); i++ {
		set := sets[i]
		row := make([]int32, a.N())
		acc := false
		for _, s := range set {
			if n.Acc[s] {
				acc = true
			}
		}
		for c := 0; c < a.N(); c++ {
			var tg []int32
			for _, s := range set {
				if n.Tr[s] != nil {
					tg = append(tg, n.Tr[s][int32(c)]...)
				}
			}
			row[c] = int32(add(closure(tg)))
		}
		d.T = append(d.T, row)
		d.Acc = append(d.Acc, acc)
	}
	return d.Minimize()
}

// Concat returns L(x)·L(y).
func Concat(ds ...*DFA) *DFA {
	if len(ds) == 0 {
		panic("Concat of nothing")
	}
	n := NewNFA(ds[0].A)
	var prevAcc []int32
	for i, d := range ds {
		off := n.Embed(d)
		if i == 0 {
			n.Start = []int32{off + int32(d.Start)}
		} else {
			for _, s := range prevAcc {
				n.AddEps(s, off+int32(d.Start))
			}
		}
		prevAcc = prevAcc[:0]
		for s, a := range d.Acc {
			if a {
				prevAcc = append(prevAcc, off+int32(s))
			}
		}
	}
	for _, s := range prevAcc {
		n.Acc[s] = true
	}
	return n.Determinize()
}

// Star returns L(x)* (including the empty word).
func Star(x *DFA) *DFA {
	n := NewNFA(x.A)
	s0 := n.AddState(true)
	off := n.Embed(x)
	n.Start = []int32{s0}
	n.AddEps(s0, off+int32(x.Start))
	for s, a := range x.Acc {
		if a {
			n.Acc[off+int32(s)] = true
			n.AddEps(off+int32(s), off+int32(x.Start))
		}
	}
	return n.Determinize()
}

// Plus returns L(x)+.
func Plus(x *DFA) *DFA { return Concat(x, Star(x)) }

// Opt returns L(x) ∪ {ε}.
func Opt(x *DFA) *DFA { return Union(x, Epsilon(x.A)) }

// Epsilon accepts only the empty word.
func Epsilon(a *Alphabet) *DFA {
	d := &DFA{A: a, T: [][]int32{make([]int32, a.N()), make([]int32, a.N())}, Acc: []bool{true, false}}
	for c := 0; c < a.N(); c++ {
		d.T[0][c] = 1
		d.T[1][c] = 1
	}
	return d
}

// Empty accepts nothing.
func Empty(a *Alphabet) *DFA {
	d := &DFA{A: a, T: [][]int32{make([]int32, a.N())}, Acc: []bool{false}}
	return d
}

// All accepts every string.
func All(a *Alphabet) *DFA {
	d := &DFA{A: a, T: [][]int32{make([]int32, a.N())}, Acc: []bool{true}}
	return d
}

// ClassSet accepts exactly the one-rune words whose rune lies in one of the classes.
func ClassSet(a *Alphabet, classes []int) *DFA {
	d := &DFA{A: a, T: [][]int32{make([]int32, a.N()), make([]int32, a.N()), make([]int32, a.N())}, Acc: []bool{false, true, false}}
	for c := 0; c < a.N(); c++ {
		d.T[0][c] = 2
		d.T[1][c] = 2
		d.T[2][c] = 2
	}
	for _, c := range classes {
		d.T[0][c] = 1
	}
	return d
}

// Runes accepts one-rune words drawn from rs (each must be a singleton class).
func Runes(a *Alphabet, rs ...rune) *DFA { return ClassSet(a, a.ClassesOf(rs)) }

// Literal accepts exactly s.
func Literal(a *Alphabet, s string) *DFA { return Words(a, []string{s}) }

// Words accepts exactly the given strings (trie).
func Words(a *Alphabet, ws []string) *DFA {
	type node struct {
		next map[int]int
		acc  bool
	}
	nodes := []*node{{next: map[int]int{}}}
	for _, w := range ws {
		cur := 0
		for _, r := range w {
			c := a.Class(r)
			if a.Lo(c) != r || a.Hi(c) != r {
				panic("relang.Words: rune " + string(r) + " is not a singleton class; add the words to the alphabet builder first")
			}
			nx, ok := nodes[cur].next[c]
			if !ok {
				nx = len(nodes)
				nodes = append(nodes, &node{next: map[int]int{}})
				nodes[cur].next[c] = nx
			}
			cur = nx
		}
		nodes[cur].acc = true
	}
	dead := int32(len(nodes))
	d := &DFA{A: a}
	for _, nd := range nodes {
		row := make([]int32, a.N())
		for c := range row {
			row[c] = dead
		}
		for c, t := range nd.next {
			row[c] = int32(t)
		}
		d.T = append(d.T, row)
		d.Acc = append(d.Acc, nd.acc)
	}
	row := make([]int32, a.N())
	for c := range row {
		row[c] = dead
	}
	d.T = append(d.T, row)
	d.Acc = append(d.Acc, false)
	return d.Minimize()
}

// MapClasses applies a class-to-classes substitution to the *input* side: the result accepts a
// word w iff some word w' with w'[i] ∈ img(w[i]) is accepted by x.  (Inverse image of x under
// the letter-to-letter relation img.)  img(c) == nil means identity.
func MapClasses(x *DFA, img func(c int) []int) *DFA {
	n := NewNFA(x.A)
	off := n.Embed(&DFA{A: x.A, T: make([][]int32, 0)}) // no-op, keeps API symmetric
	_ = off
	for range x.T {
		n.AddState(false)
	}
	for s := range x.T {
		n.Acc[s] = x.Acc[s]
		for c := 0; c < x.A.N(); c++ {
			im := img(c)
			if im == nil {
				n.AddTr(int32(s), c, x.T[s][c])
				continue
			}
			for _, c2 := range im {
				n.AddTr(int32(s), c, x.T[s][c2])
			}
		}
	}
	n.Start = []int32{int32(x.Start)}
	return n.Determinize()
}

// AnyRune accepts every one-rune string.
func AnyRune(a *Alphabet) *DFA {
	all := make([]int, a.N())
	for i := range all {
		all[i] = i
	}
	return ClassSet(a, all)
}

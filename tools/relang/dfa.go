package relang

import (
	"fmt"
	"regexp/syntax"
	"sort"
	"strconv"
	"strings"
)

// DFA is a complete deterministic automaton over an Alphabet's classes.
type DFA struct {
	A     *Alphabet
	T     [][]int32 // T[state][class]
	Acc   []bool
	Start int
}

func (d *DFA) N() int { return len(d.T) }

// ---------------------------------------------------------------------------------------------
// regexp -> DFA under (*regexp.Regexp).MatchString semantics (unanchored search)

const (
	pkStart = iota // no previous rune (beginning of text)
	pkNL
	pkWord
	pkOther
)

func prevRep(k int) rune {
	switch k {
	case pkStart:
		return -1
	case pkNL:
		return '\n'
	case pkWord:
		return 'a'
	}
	return ' '
}

func kindOf(r rune) int {
	if r == '\n' {
		return pkNL
	}
	if syntax.IsWordChar(r) {
		return pkWord
	}
	return pkOther
}

// FromRegexp builds the DFA of { s | regexp.MustCompile(pat).MatchString(s) }.
// Input strings are rune sequences; a byte sequence that is not valid UTF-8 is seen by the
// regexp engine as U+FFFD runes, which is a member of the alphabet like any other rune.
func FromRegexp(pat string, a *Alphabet) (*DFA, error) {
	prog, err := compile(pat)
	if err != nil {
		return nil, err
	}
	// verify alphabet refines the program's ranges (cheap sanity check of the contract)
	nb := NewBuilder()
	nb.addProg(prog)
	for p := range nb.pts {
		if p <= MaxRune && a.Lo(a.Class(p)) != p {
			return nil, fmt.Errorf("alphabet does not contain boundary %U required by %q", p, pat)
		}
	}
	type key struct {
		set  string
		kind int
	}
	enc := func(pcs []uint32) string {
		var sb strings.Builder
		for _, p := range pcs {
			sb.WriteString(strconv.Itoa(int(p)))
			sb.WriteByte(',')
		}
		return sb.String()
	}
	closure := func(pcs []uint32, flags syntax.EmptyOp) (out []uint32, match bool) {
		seen := make(map[uint32]bool)
		var stack []uint32
		stack = append(stack, pcs...)
		for len(stack) > 0 {
			pc := stack[len(stack)-1]
			stack = stack[:len(stack)-1]
			if seen[pc] {
				continue
			}
			seen[pc] = true
			in := &prog.Inst[pc]
			switch in.Op {
			case syntax.InstAlt, syntax.InstAltMatch:
				stack = append(stack, in.Out, in.Arg)
			case syntax.InstCapture, syntax.InstNop:
				stack = append(stack, in.Out)
			case syntax.InstEmptyWidth:
				if syntax.EmptyOp(in.Arg)&^flags == 0 {
					stack = append(stack, in.Out)
				}
			case syntax.InstMatch:
				match = true
			case syntax.InstFail:
			default:
				out = append(out, pc)
			}
		}
		sort.Slice(out, func(i, j int) bool { return out[i] < out[j] })
		return
	}
	d := &DFA{A: a}
	const accSink = 0
	d.T = append(d.T, make([]int32, a.N()))
	d.Acc = append(d.Acc, true)
	for c := range d.T[0] {
		d.T[0][c] = accSink
	}
	index := map[key]int{}
	type st struct {
		pcs  []uint32
		kind int
	}
	var states []st
	states = append(states, st{}) // placeholder for sink
	add := func(pcs []uint32, kind int) int {
		k := key{enc(pcs), kind}
		if i, ok := index[k]; ok {
			return i
		}
		i := len(states)
		index[k] = i
		states = append(states, st{pcs, kind})
		d.T = append(d.T, make([]int32, a.N()))
		d.Acc = append(d.Acc, false)
		return i
	}
	start := []uint32{uint32(prog.Start)}
	d.Start = add(start, pkStart)
	for i := 1; i < len(states); i++ {
		s := states[i]
		// end of input
		_, m := closure(s.pcs, syntax.EmptyOpContext(prevRep(s.kind), -1))
		d.Acc[i] = m
		for c := 0; c < a.N(); c++ {
			r := a.Lo(c)
			flags := syntax.EmptyOpContext(prevRep(s.kind), r)
			cl, m := closure(s.pcs, flags)
			if m {
				d.T[i][c] = accSink
				continue
			}
			nextSet := map[uint32]bool{uint32(prog.Start): true}
			for _, pc := range cl {
				in := &prog.Inst[pc]
				if in.MatchRune(r) {
					nextSet[in.Out] = true
				}
			}
			next := make([]uint32, 0, len(nextSet))
			for p := range nextSet {
				next = append(next, p)
			}
			sort.Slice(next, func(x, y int) bool { return next[x] < next[y] })
			j := add(next, kindOf(r))
			d.T[i][c] = int32(j)
		}
		if len(states) > 200000 {
			return nil, fmt.Errorf("DFA for %q exceeds 200000 states", pat)
		}
	}
	return d.Minimize(), nil
}

// MustRegexp panics on error (spec patterns written by the checker's author).
func MustRegexp(pat string, a *Alphabet) *DFA {
	d, err := FromRegexp(pat, a)
	if err != nil {
		panic(err)
	}
	return d
}

// ---------------------------------------------------------------------------------------------
// boolean algebra

func Product(x, y *DFA, f func(a, b bool) bool) *DFA {
	if x.A != y.A {
		panic("relang: alphabets differ")
	}
	a := x.A
	type pr struct{ i, j int32 }
	idx := map[pr]int{}
	var list []pr
	add := func(p pr) int {
		if k, ok := idx[p]; ok {
			return k
		}
		k := len(list)
		idx[p] = k
		list = append(list, p)
		return k
	}
	d := &DFA{A: a}
	d.Start = add(pr{int32(x.Start), int32(y.Start)})
	for k := 0; k < len(list); k++ {
		p := list[k]
		row := make([]int32, a.N())
		for c := 0; c < a.N(); c++ {
			row[c] = int32(add(pr{x.T[p.i][c], y.T[p.j][c]}))
		}
		d.T = append(d.T, row)
		d.Acc = append(d.Acc, f(x.Acc[p.i], y.Acc[p.j]))
	}
	return d.Minimize()
}

func Inter(x, y *DFA) *DFA { return Product(x, y, func(a, b bool) bool { return a && b }) }
func Union(x, y *DFA) *DFA { return Product(x, y, func(a, b bool) bool { return a || b }) }
func Diff(x, y *DFA) *DFA  { return Product(x, y, func(a, b bool) bool { return a && !b }) }

func (d *DFA) Complement() *DFA {
	n := &DFA{A: d.A, T: d.T, Start: d.Start, Acc: make([]bool, len(d.Acc))}
	for i, b := range d.Acc {
		n.Acc[i] = !b
	}
	return n
}

// Shortest returns a shortest accepted word (class indexes), or ok=false if the language is empty.
// Among shortest words it prefers lower class indexes only as a tie-break of BFS order; callers
// wanting a specific rune in the witness intersect with a language first.
func (d *DFA) Shortest() (word []int, ok bool) {
	n := d.N()
	prev := make([]int32, n)
	via := make([]int32, n)
	for i := range prev {
		prev[i] = -2
	}
	q := []int{d.Start}
	prev[d.Start] = -1
	for len(q) > 0 {
		s := q[0]
		q = q[1:]
		if d.Acc[s] {
			for s != d.Start || prev[s] != -1 {
				word = append(word, int(via[s]))
				s = int(prev[s])
				if s == d.Start && prev[s] == -1 {
					break
				}
			}
			for i, j := 0, len(word)-1; i < j; i, j = i+1, j-1 {
				word[i], word[j] = word[j], word[i]
			}
			return word, true
		}
		for c, t := range d.T[s] {
			if prev[t] == -2 {
				prev[t] = int32(s)
				via[t] = int32(c)
				q = append(q, int(t))
			}
		}
	}
	return nil, false
}

func (d *DFA) IsEmpty() bool { _, ok := d.Shortest(); return !ok }

// Witness returns a shortest member rendered as a string.
func (d *DFA) Witness() (string, bool) {
	w, ok := d.Shortest()
	if !ok {
		return "", false
	}
	return d.A.String(w), true
}

// Subset decides L(x) ⊆ L(y); on failure returns a shortest member of L(x)\L(y).
func Subset(x, y *DFA) (bool, string) {
	w, ok := Diff(x, y).Witness()
	return !ok, w
}

// Equal decides language equality; on failure returns a shortest member of the symmetric difference.
func Equal(x, y *DFA) (bool, string) {
	w, ok := Product(x, y, func(a, b bool) bool { return a != b }).Witness()
	return !ok, w
}

// Accepts runs the DFA on a string.
func (d *DFA) Accepts(s string) bool {
	st := d.Start
	for _, r := range s {
		st = int(d.T[st][d.A.Class(r)])
	}
	return d.Acc[st]
}

// UsedClasses returns the classes that occur on some accepting path (live transitions).
func (d *DFA) UsedClasses() []int {
	n := d.N()
	// reachable
	reach := make([]bool, n)
	stack := []int{d.Start}
	reach[d.Start] = true
	for len(stack) > 0 {
		s := stack[len(stack)-1]
		stack = stack[:len(stack)-1]
		for _, t := range d.T[s] {
			if !reach[t] {
				reach[t] = true
				stack = append(stack, int(t))
			}
		}
	}
	// co-reachable
	rev := make([][]int32, n)
	for s := range d.T {
		for _, t := range d.T[s] {
			rev[t] = append(rev[t], int32(s))
		}
	}
	live := make([]bool, n)
	for s, a := range d.Acc {
		if a {
			live[s] = true
			stack = append(stack, s)
		}
	}
	for len(stack) > 0 {
		s := stack[len(stack)-1]
		stack = stack[:len(stack)-1]
		for _, t := range rev[s] {
			if !live[t] {
				live[t] = true
				stack = append(stack, int(t))
			}
		}
	}
	used := map[int]bool{}
	for s := range d.T {
		if !reach[s] || !live[s] {
			continue
		}
		for c, t := range d.T[s] {
			if live[t] {
				used[c] = true
			}
		}
	}
	var out []int
	for c := range used {
		out = append(out, c)
	}
	sort.Ints(out)
	return out
}

// MinLen returns the length of a shortest member (-1 if empty).
func (d *DFA) MinLen() int {
	w, ok := d.Shortest()
	if !ok {
		return -1
	}
	return len(w)
}

// Minimize returns the minimal complete DFA (Moore partition refinement on reachable states).
func (d *DFA) Minimize() *DFA {
	n := d.N()
	nc := d.A.N()
	reach := make([]int, 0, n)
	seen := make([]bool, n)
	seen[d.Start] = true
	reach = append(reach, d.Start)
	for i := 0; i < len(reach); i++ {
		for _, t := range d.T[reach[i]] {
			if !seen[t] {
				seen[t] = true
				reach = append(reach, int(t))
			}
		}
	}
	part := make([]int32, n)
	for _, s := range reach {
		if d.Acc[s] {
			part[s] = 1
		}
	}
	np := 2
	for {
		sig := map[string]int32{}
		newPart := make([]int32, n)
		buf := make([]byte, 0, 4*(nc+1))
		for _, s := range reach {
			buf = buf[:0]
			buf = appendInt(buf, part[s])
			for c := 0; c < nc; c++ {
				buf = appendInt(buf, part[d.T[s][c]])
			}
			k := string(buf)
			id, ok := sig[k]
			if !ok {
				id = int32(len(sig))
				sig[k] = id
			}
			newPart[s] = id
		}
		if len(sig) == np {
			part = newPart
			break
		}
		np = len(sig)
		part = newPart
	}
	m := &DFA{A: d.A, T: make([][]int32, np), Acc: make([]bool, np)}
	for _, s := range reach {
		p := part[s]
		if m.T[p] == nil {
			row := make([]int32, nc)
			for c := 0; c < nc; c++ {
				row[c] = part[d.T[s][c]]
			}
			m.T[p] = row
			m.Acc[p] = d.Acc[s]
		}
	}
	m.Start = int(part[d.Start])
	return m
}

func appendInt(b []byte, v int32) []byte {
	return append(b, byte(v), byte(v>>8), byte(v>>16), byte(v>>24))
}

package relang

import (
	"math/rand"
	"regexp"
	"testing"
)

var pats = []string{
	`(?i)^(center|justify|left|right|char)$`,
	`^[0-9]{4}(-[0-9]{2}(-[0-9]{2}([ T][0-9]{2}(:[0-9]{2}){1,2}(.[0-9]{1,6})?Z?([\+-][0-9]{2}:[0-9]{2})?)?)?)?$`,
	`^(0[.]?[0-9]*)|(1.0)$`,
	`drop-shadow\(([-]?[0-9]+px) ([-]?[0-9]+px)( [-]?[0-9]+px)?( ([-]?[0-9]+px))?`,
	`^([\s\p{L}\p{N}_-]+)$`,
	`(?m)^a$|b\b`,
	`\Bx\B|^$`,
	`(?i)|nowrap`,
	`^[\p{L}\p{N}\s\-_',\[\]!\./\\\(\)]*$`,
	`(?i)k+s$`,
	`^data-.+`,
	`a.c`, `(?s)a.c$`,
}

func TestCrossValidate(t *testing.T) {
	rnd := rand.New(rand.NewSource(1))
	b := NewBuilder()
	for _, p := range pats {
		if err := b.AddPattern(p); err != nil {
			t.Fatal(err)
		}
	}
	a := b.Build()
	alphabet := []rune("0123456789-:.TZ +<>ab cxkKsSſK\n\tdrop-shadow(px)1leftyéİ_'\\/")
	for _, p := range pats {
		d, err := FromRegexp(p, a)
		if err != nil {
			t.Fatal(err)
		}
		re := regexp.MustCompile(p)
		for i := 0; i < 100000; i++ {
			n := rnd.Intn(12)
			rs := make([]rune, n)
			for j := range rs {
				rs[j] = alphabet[rnd.Intn(len(alphabet))]
			}
			s := string(rs)
			if i%7 == 0 { // mutate a plausible member
				s = []string{"1997-07-16T19:20:30.45+01:00", "center", "0.5", "drop-shadow(1px 1px)", "a\nb", "xxx", "KS", "data-x", "abc"}[rnd.Intn(9)]
				if len(s) > 0 && rnd.Intn(2) == 0 {
					k := rnd.Intn(len(s))
					s = s[:k] + string(alphabet[rnd.Intn(len(alphabet))]) + s[k+1:]
				}
			}
			if got, want := d.Accepts(s), re.MatchString(s); got != want {
				t.Fatalf("pattern %q on %q: dfa=%v regexp=%v", p, s, got, want)
			}
		}
	}
}

func TestAlgebra(t *testing.T) {
	b := NewBuilder()
	b.AddString("abc ,")
	a := b.Build()
	ab := Words(a, []string{"ab", "c"})
	st := Star(Concat(ab, Literal(a, " ")))
	for s, want := range map[string]bool{"": true, "ab ": true, "ab c ": true, "ab": false, "c c ab ": true, "abc ": false} {
		if st.Accepts(s) != want {
			t.Errorf("%q: got %v", s, !want)
		}
	}
	if ok, w := Subset(ab, st); ok {
		t.Errorf("unexpected subset %q", w)
	}
	if !Inter(ab, ab.Complement()).IsEmpty() {
		t.Error("x ∩ ¬x not empty")
	}
}

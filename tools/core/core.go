// Package core holds obligations, verdicts, known findings and evidence output.
package core

import (
	"encoding/json"
	"fmt"
	"os"
	"path/filepath"
	"sort"
	"strings"
	"sync"
	"time"
)

type Status string

const (
	Discharged Status = "discharged"
	Violated   Status = "violated"
	Undecided  Status = "undecided"
)

// Obligation is one instance of one rule on one construct of the analysed tree.
type Obligation struct {
	Property  string   `json:"property"`
	Rule      string   `json:"rule"`
	Key       string   `json:"key"`       // stable construct key (never a line number)
	Construct string   `json:"construct"` // human readable: function + expression
	Pos       string   `json:"pos,omitempty"`
	Status    Status   `json:"status"`
	Reason    string   `json:"reason,omitempty"`
	Path      []string `json:"path,omitempty"`    // offending CFG path / call path
	Witness   string   `json:"witness,omitempty"` // offending string for language rules
	Known     bool     `json:"known_finding,omitempty"`
}

// Report collects obligations for one property run.
type Report struct {
	Property    string
	Tier        string
	Level       string
	Obls        []*Obligation
	Rules       map[string]string // rule id -> text
	ruleOrder   []string
	Assumptions []string
	Analysed    map[string]any // counts of what was analysed
	Extra       map[string]any
	Notes       []string
	start       time.Time
	mu          sync.Mutex
	alias       map[string]string
}

func NewReport(prop, tier, level string) *Report {
	return &Report{Property: prop, Tier: tier, Level: level, Rules: map[string]string{}, Analysed: map[string]any{}, Extra: map[string]any{}, start: time.Now()}
}

func (r *Report) Rule(id, text string) {
	if _, ok := r.alias[id]; ok {
		return
	}
	if _, ok := r.Rules[id]; !ok {
		r.ruleOrder = append(r.ruleOrder, id)
	}
	r.Rules[id] = text
}

func (r *Report) Assume(s ...string) { r.Assumptions = append(r.Assumptions, s...) }

// Cite runs f with the rules named in as recorded under another rule id of this property: a rule decided for one
// property is cited by another property that depends on it for a different consequence (the original id stays visible in
// the key).
func (r *Report) Cite(as map[string]string, f func()) {
	r.mu.Lock()
	old := r.alias
	r.alias = as
	r.mu.Unlock()
	defer func() { r.mu.Lock(); r.alias = old; r.mu.Unlock() }()
	f()
}

func (r *Report) add(rule, key, construct, pos string, st Status, reason string) *Obligation {
	r.mu.Lock()
	if a, ok := r.alias[rule]; ok {
		key = rule + ":" + key
		rule = a
	}
	r.mu.Unlock()
	o := &Obligation{Property: r.Property, Rule: rule, Key: rule + "|" + key, Construct: construct, Pos: pos, Status: st, Reason: reason}
	r.mu.Lock()
	r.Obls = append(r.Obls, o)
	r.mu.Unlock()
	return o
}

func (r *Report) OK(rule, key, construct, pos, reason string) *Obligation {
	return r.add(rule, key, construct, pos, Discharged, reason)
}
func (r *Report) Fail(rule, key, construct, pos, reason string) *Obligation {
	return r.add(rule, key, construct, pos, Violated, reason)
}
func (r *Report) Unknown(rule, key, construct, pos, reason string) *Obligation {
	return r.add(rule, key, construct, pos, Undecided, reason)
}

// Check adds a discharged or violated obligation depending on ok.
func (r *Report) Check(ok bool, rule, key, construct, pos, okReason, failReason string) *Obligation {
	if ok {
		return r.OK(rule, key, construct, pos, okReason)
	}
	return r.Fail(rule, key, construct, pos, failReason)
}

// Role asserts that a rule found at least min instances of a named role (vacuity guard).
func (r *Report) Role(rule, role string, n, min int) {
	key := "role:" + role
	if n >= min {
		r.OK(rule, key, fmt.Sprintf("role %q instantiated %d time(s) (>= %d required)", role, n, min), "", "anchor found")
	} else {
		r.Unknown(rule, key, fmt.Sprintf("role %q instantiated %d time(s), need >= %d", role, n, min), "", "anchor lost: the construct this rule is about was not recognised in the current tree; the rule cannot pass vacuously")
	}
}

// Finding is one record of known_findings.json.
type Finding struct {
	Property string `json:"property"`
	Rule     string `json:"rule"`
	Key      string `json:"key"`
	What     string `json:"what"`
	Witness  string `json:"witness,omitempty"`
	Status   string `json:"status"` // "known" | "fixed"
	Commit   string `json:"commit,omitempty"`
	ID       string `json:"id,omitempty"`
}

func LoadFindings(path string) ([]Finding, error) {
	b, err := os.ReadFile(path)
	if err != nil {
		if os.IsNotExist(err) {
			return nil, nil
		}
		return nil, err
	}
	var f struct {
		Findings []Finding `json:"findings"`
	}
	if err := json.Unmarshal(b, &f); err != nil {
		return nil, err
	}
	return f.Findings, nil
}

// Finish matches known findings, writes evidence and returns the exit code.
func (r *Report) Finish(verifDir string, seed int64) int {
	findings, ferr := LoadFindings(filepath.Join(verifDir, "known_findings.json"))
	if ferr != nil {
		r.Unknown("framework", "known_findings", "known_findings.json unreadable", "", ferr.Error())
	}
	known := map[string]Finding{}
	for _, f := range findings {
		if f.Property == r.Property && f.Status == "known" {
			known[f.Key] = f
		}
	}
	sort.SliceStable(r.Obls, func(i, j int) bool {
		if r.Obls[i].Rule != r.Obls[j].Rule {
			return r.Obls[i].Rule < r.Obls[j].Rule
		}
		return r.Obls[i].Key < r.Obls[j].Key
	})
	var bad []*Obligation
	nd, nv, nu, nk := 0, 0, 0, 0
	seenKnown := map[string]bool{}
	for _, o := range r.Obls {
		switch o.Status {
		case Discharged:
			nd++
		case Violated, Undecided:
			if f, ok := known[o.Key]; ok && o.Status == Violated {
				o.Known = true
				nk++
				if !seenKnown[o.Key] {
					fmt.Printf("KNOWN-FINDING: property=%s %s [%s] %s\n", r.Property, f.What, o.Key, o.Pos)
					seenKnown[o.Key] = true
				}
				continue
			}
			if o.Status == Violated {
				nv++
			} else {
				nu++
			}
			bad = append(bad, o)
		}
	}
	evDir := filepath.Join(verifDir, "evidence")
	os.MkdirAll(evDir, 0o755)
	violPath := filepath.Join(evDir, r.Property+".violation.json")
	os.Remove(violPath)

	// samples: a few discharged obligations of each rule, plus all bad ones
	var samples []any
	perRule := map[string]int{}
	for _, o := range r.Obls {
		if o.Status == Discharged && !strings.HasPrefix(o.Key, o.Rule+"|role:") {
			if perRule[o.Rule] < 2 && len(samples) < 24 {
				perRule[o.Rule]++
				samples = append(samples, o)
			}
		}
	}
	for _, o := range bad {
		samples = append(samples, o)
	}
	for _, o := range r.Obls {
		if o.Known {
			samples = append(samples, o)
		}
	}
	var rules []map[string]string
	for _, id := range r.ruleOrder {
		rules = append(rules, map[string]string{"id": id, "text": r.Rules[id]})
	}
	perRuleCount := map[string]map[string]int{}
	for _, o := range r.Obls {
		m := perRuleCount[o.Rule]
		if m == nil {
			m = map[string]int{}
			perRuleCount[o.Rule] = m
		}
		st := string(o.Status)
		if o.Known {
			st = "known_finding"
		}
		m[st]++
	}
	total := len(r.Obls)
	cov := map[string]any{
		"explanation":         fmt.Sprintf("static analysis of /repo's current source (nothing under /repo is executed): %d rule instances (obligations) were generated by %d rules; %d discharged, %d violated, %d undecided, %d matched known findings. Each obligation names the construct (function + expression) it was decided on.", total, len(r.Rules), nd, nv, nu, nk),
		"obligations":         total,
		"discharged":          nd,
		"violated":            nv,
		"undecided":           nu,
		"known_findings":      nk,
		"checker_cmd":         fmt.Sprintf("./check.sh %s %s", r.Property, r.Tier),
		"trusted_base":        r.Assumptions,
		"rules":               rules,
		"per_rule":            perRuleCount,
		"analysed":            r.Analysed,
		"samples":             samples,
		"all_obligations":     allKeys(r.Obls),
		"evaluations":         total,
		"distinct_nontrivial": distinctKeys(r.Obls),
		"rule":                "one case = one obligation (rule instance on a concrete construct of the current tree); distinct = distinct rule|construct keys; role/anchor obligations are excluded from distinct_nontrivial",
		"exhaustive":          true,
	}
	for k, v := range r.Extra {
		cov[k] = v
	}
	if len(r.Notes) > 0 {
		cov["notes"] = r.Notes
	}
	ev := map[string]any{
		"property_id": r.Property,
		"tier":        r.Tier,
		"seed":        seed,
		"level":       r.Level,
		"coverage":    cov,
		"assumptions": r.Assumptions,
		"wall_s":      time.Since(r.start).Seconds(),
		"violations":  nv + nu,
	}
	b, _ := json.MarshalIndent(ev, "", " ")
	if err := os.WriteFile(filepath.Join(evDir, r.Property+".json"), append(b, '\n'), 0o644); err != nil {
		fmt.Println("cannot write evidence:", err)
		return 2
	}
	fmt.Printf("%s %s: obligations=%d discharged=%d violated=%d undecided=%d known=%d (%.1fs)\n", r.Property, r.Tier, total, nd, nv, nu, nk, time.Since(r.start).Seconds())
	if len(bad) == 0 {
		return 0
	}
	for _, o := range bad {
		fmt.Printf("  %s %s %s\n      construct: %s\n      at: %s\n      why: %s\n", strings.ToUpper(string(o.Status)), o.Rule, o.Key, o.Construct, o.Pos, o.Reason)
		if o.Witness != "" {
			fmt.Printf("      witness: %q\n", o.Witness)
		}
		for _, p := range o.Path {
			fmt.Printf("      path: %s\n", p)
		}
	}
	vb, _ := json.MarshalIndent(map[string]any{
		"property": r.Property, "tier": r.Tier,
		"rerun":       fmt.Sprintf("cd /verif && ./check.sh %s %s", r.Property, r.Tier),
		"obligations": bad,
	}, "", " ")
	os.WriteFile(violPath, append(vb, '\n'), 0o644)
	fmt.Printf("VIOLATION property=%s replay=%s\n", r.Property, violPath)
	return 1
}

func distinctKeys(obls []*Obligation) int {
	m := map[string]bool{}
	for _, o := range obls {
		if strings.Contains(o.Key, "|role:") {
			continue
		}
		m[o.Key] = true
	}
	return len(m)
}

func allKeys(obls []*Obligation) []string {
	out := make([]string, 0, len(obls))
	for _, o := range obls {
		st := string(o.Status)
		if o.Known {
			st = "known_finding"
		}
		out = append(out, o.Key+" = "+st)
	}
	return out
}

// Package model recognises the roles of the sanitiser's code (token loop, arms, destination
// writes, loop-carried state) semantically, never by name, line or text.
package model

import (
	"fmt"
	"go/constant"
	"go/token"
	"go/types"
	"sort"
	"strings"

	"golang.org/x/tools/go/ssa"

	"verif/tools/load"
	"verif/tools/pa"
)

const HTMLPkg = "golang.org/x/net/html"

// Pure decides which static callees the symboliser may treat as pure functions of their arguments.
// Module functions are pure by C13's obligations (no shared writes while sanitising); the std
// functions listed are documented as pure.
func Pure(fn *ssa.Function) bool {
	if fn == nil || fn.Pkg == nil {
		if fn != nil && fn.Signature.Recv() != nil {
			// methods of instantiated/wrapper functions have nil Pkg; fall through on name
		} else {
			return false
		}
	}
	path := ""
	if fn.Pkg != nil {
		path = fn.Pkg.Pkg.Path()
	} else if fn.Object() != nil && fn.Object().Pkg() != nil {
		path = fn.Object().Pkg().Path()
	}
	switch {
	case strings.HasPrefix(path, load.ModPath):
		return true
	case path == "strings", path == "strconv", path == "bytes", path == "unicode", path == "unicode/utf8":
		return true
	case path == "regexp":
		switch fn.Name() {
		case "MatchString", "FindString", "FindStringIndex", "Match", "String":
			return true
		}
	case path == "net/url":
		switch fn.Name() {
		case "String", "IsAbs", "Parse":
			return true
		}
	case path == HTMLPkg:
		switch fn.Name() {
		case "String", "EscapeString":
			return true
		}
	}
	return false
}

// Inlinable: bool-returning module functions may be summarised by inlining.
func Inlinable(fn *ssa.Function) bool {
	return fn != nil && fn.Pkg != nil && strings.HasPrefix(fn.Pkg.Pkg.Path(), load.ModPath)
}

func NewAnalysis(fn *ssa.Function) *pa.Analysis { return pa.NewAnalysis(fn, Pure, Inlinable) }

// Write is a destination write site.
type Write struct {
	Call    ssa.CallInstruction
	Arg     ssa.Value
	Payload string // TokenString | RawData | Space | Mixed | Other
	// RawWhen (Payload == Mixed): the written value is a merge of token.String() and raw token.Data; the condition under
	// which it is the raw data
	RawWhen *pa.F
	Arm     string
	Detail  string
}

// Arm is one case of the token-type switch.
type Arm struct {
	Name   string
	Const  int64
	From   *ssa.BasicBlock // block holding the `token.Type == K` test
	Entry  *ssa.BasicBlock // successor on the true edge
	Blocks map[*ssa.BasicBlock]bool
}

// San is the recognised structure of (*Policy).sanitize.
type San struct {
	P         *load.Program
	Fn        *ssa.Function
	A         *pa.Analysis
	Recv      *ssa.Parameter
	Reader    *ssa.Parameter
	Writer    *ssa.Parameter
	Header    *ssa.BasicBlock
	Tokenizer ssa.Value
	NextCall  *ssa.Call
	TokAlloc  *ssa.Alloc
	TokStore  *ssa.Store
	Arms      map[string]*Arm
	ArmOrder  []string
	Default   *ssa.BasicBlock // block reached when no token type matched
	Writes    []*Write
	Problems  []string
}

var tokenTypeNames = []string{"ErrorToken", "TextToken", "StartTagToken", "EndTagToken", "SelfClosingTagToken", "CommentToken", "DoctypeToken"}

func calleeIs(c *ssa.CallCommon, pkg, recv, name string) bool {
	fn := c.StaticCallee()
	if fn == nil || fn.Name() != name {
		return false
	}
	obj := fn.Object()
	if obj == nil || obj.Pkg() == nil || obj.Pkg().Path() != pkg {
		return false
	}
	sig := fn.Signature
	if recv == "" {
		return sig.Recv() == nil
	}
	if sig.Recv() == nil {
		return false
	}
	t := sig.Recv().Type()
	if p, ok := t.(*types.Pointer); ok {
		t = p.Elem()
	}
	n, ok := t.(*types.Named)
	return ok && n.Obj().Name() == recv
}

// CalleeIs is exported for rules.
func CalleeIs(c *ssa.CallCommon, pkg, recv, name string) bool { return calleeIs(c, pkg, recv, name) }

// FindSan recognises the sanitiser.
func FindSan(P *load.Program) (*San, error) {
	fn := P.Func(load.ModPath, "(*Policy).sanitize")
	if fn == nil {
		return nil, fmt.Errorf("(*Policy).sanitize not found")
	}
	s := &San{P: P, Fn: fn, Arms: map[string]*Arm{}}
	s.A = NewAnalysis(fn)
	if len(fn.Params) != 3 {
		return nil, fmt.Errorf("sanitize: expected receiver + reader + writer parameters, got %d", len(fn.Params))
	}
	s.Recv, s.Reader, s.Writer = fn.Params[0], fn.Params[1], fn.Params[2]
	if s.Writer.Type().String() != "io.Writer" || s.Reader.Type().String() != "io.Reader" {
		return nil, fmt.Errorf("sanitize: unexpected parameter types %s, %s", s.Reader.Type(), s.Writer.Type())
	}
	// the tokenizer loop: the call to (*Tokenizer).Next, the Alloc receiving (*Tokenizer).Token()
	for _, b := range fn.Blocks {
		for _, in := range b.Instrs {
			c, ok := in.(*ssa.Call)
			if !ok {
				continue
			}
			if calleeIs(c.Common(), HTMLPkg, "Tokenizer", "Next") {
				if s.NextCall != nil {
					s.Problems = append(s.Problems, "more than one Tokenizer.Next call")
				}
				s.NextCall = c
				s.Tokenizer = c.Common().Args[0]
			}
			if calleeIs(c.Common(), HTMLPkg, "Tokenizer", "Token") {
				for _, r := range *c.Referrers() {
					if st, ok := r.(*ssa.Store); ok && st.Val == c {
						if a, ok := st.Addr.(*ssa.Alloc); ok {
							s.TokAlloc, s.TokStore = a, st
						}
					}
				}
			}
		}
	}
	if s.NextCall == nil || s.TokAlloc == nil {
		return nil, fmt.Errorf("sanitize: tokenizer loop not recognised (Next call %v, token variable %v)", s.NextCall != nil, s.TokAlloc != nil)
	}
	// loop header = innermost loop header dominating the Next call with a back edge
	for b := s.NextCall.Block(); b != nil; b = b.Idom() {
		isHd := false
		for _, p := range b.Preds {
			if b.Dominates(p) {
				isHd = true
			}
		}
		if isHd {
			s.Header = b
			break
		}
	}
	if s.Header == nil {
		return nil, fmt.Errorf("sanitize: token loop header not found")
	}
	// arms: If on (load token.Type == K)
	html := findPkg(P, HTMLPkg)
	if html == nil {
		return nil, fmt.Errorf("package %s not loaded", HTMLPkg)
	}
	names := map[int64]string{}
	for _, n := range tokenTypeNames {
		if c, ok := html.Scope().Lookup(n).(*types.Const); ok {
			v, _ := constant.Int64Val(c.Val())
			names[v] = strings.TrimSuffix(n, "Token")
		}
	}
	var lastTest *ssa.BasicBlock
	for _, b := range fn.Blocks {
		ifi, ok := b.Instrs[len(b.Instrs)-1].(*ssa.If)
		if !ok {
			continue
		}
		bo, ok := ifi.Cond.(*ssa.BinOp)
		if !ok || bo.Op != token.EQL {
			continue
		}
		ld, ok := bo.X.(*ssa.UnOp)
		k, ok2 := bo.Y.(*ssa.Const)
		if !ok || !ok2 || ld.Op != token.MUL {
			continue
		}
		fa, ok := ld.X.(*ssa.FieldAddr)
		if !ok || fa.X != s.TokAlloc || fieldNameOf(fa) != "Type" {
			continue
		}
		name := names[k.Int64()]
		if name == "" {
			name = fmt.Sprintf("Type%d", k.Int64())
		}
		arm := &Arm{Name: name, Const: k.Int64(), From: b, Entry: b.Succs[0], Blocks: map[*ssa.BasicBlock]bool{}}
		if _, dup := s.Arms[name]; dup {
			s.Problems = append(s.Problems, "token type "+name+" tested twice")
		}
		s.Arms[name] = arm
		s.ArmOrder = append(s.ArmOrder, name)
		if lastTest == nil || b.Index > lastTest.Index {
			// the last test in the chain: its false edge is the default arm
		}
		lastTest = b
	}
	// default: the false successor of a type test that is not itself a type test
	for _, name := range s.ArmOrder {
		f := s.Arms[name].From.Succs[1]
		isTest := false
		for _, n2 := range s.ArmOrder {
			if s.Arms[n2].From == f {
				isTest = true
			}
		}
		if !isTest {
			s.Default = f
		}
	}
	for _, arm := range s.Arms {
		if arm.Entry == s.Header {
			continue
		}
		stack := []*ssa.BasicBlock{arm.Entry}
		for len(stack) > 0 {
			b := stack[len(stack)-1]
			stack = stack[:len(stack)-1]
			if arm.Blocks[b] || b == s.Header {
				continue
			}
			arm.Blocks[b] = true
			stack = append(stack, b.Succs...)
		}
	}
	sort.Strings(s.ArmOrder)
	s.findWrites()
	return s, nil
}

func fieldNameOf(fa *ssa.FieldAddr) string {
	t := fa.X.Type().Underlying().(*types.Pointer).Elem().Underlying().(*types.Struct)
	return t.Field(fa.Field).Name()
}

func findPkg(P *load.Program, path string) *types.Package {
	for _, p := range P.All {
		if p.PkgPath == path {
			return p.Types
		}
	}
	return nil
}

// FlowsFromWriter reports whether v is the io.Writer parameter or a wrapper/assertion of it.
func (s *San) FlowsFromWriter(v ssa.Value) bool {
	seen := map[ssa.Value]bool{}
	var f func(v ssa.Value) bool
	f = func(v ssa.Value) bool {
		if seen[v] {
			return false
		}
		seen[v] = true
		switch x := v.(type) {
		case *ssa.Parameter:
			return x == s.Writer
		case *ssa.Phi:
			for _, e := range x.Edges {
				if f(e) {
					return true
				}
			}
		case *ssa.Extract:
			return f(x.Tuple)
		case *ssa.TypeAssert:
			return f(x.X)
		case *ssa.ChangeInterface:
			return f(x.X)
		case *ssa.MakeInterface:
			return f(x.X)
		case *ssa.Alloc:
			// a wrapper struct one of whose fields was stored the writer
			for _, r := range *x.Referrers() {
				if fa, ok := r.(*ssa.FieldAddr); ok {
					for _, r2 := range *fa.Referrers() {
						if st, ok := r2.(*ssa.Store); ok && st.Addr == fa && f(st.Val) {
							return true
						}
					}
				}
			}
		}
		return false
	}
	return f(v)
}

// IsTokenLoad: v is a load of the whole current token.
func (s *San) IsTokenLoad(v ssa.Value) bool {
	u, ok := v.(*ssa.UnOp)
	return ok && u.Op == token.MUL && u.X == s.TokAlloc
}

// TokenField: v is a load of token.<field>; returns the field name.
func (s *San) TokenField(v ssa.Value) string {
	u, ok := v.(*ssa.UnOp)
	if !ok || u.Op != token.MUL {
		return ""
	}
	fa, ok := u.X.(*ssa.FieldAddr)
	if !ok || fa.X != s.TokAlloc {
		return ""
	}
	return fieldNameOf(fa)
}

// ArmOf returns the arm name whose region contains b ("" if none, "shared" if several).
func (s *San) ArmOf(b *ssa.BasicBlock) string {
	name := ""
	for _, n := range s.ArmOrder {
		if s.Arms[n].Blocks[b] {
			if name != "" {
				return "shared"
			}
			name = n
		}
	}
	if name == "" && s.Default != nil {
		// default region
		seen := map[*ssa.BasicBlock]bool{}
		stack := []*ssa.BasicBlock{s.Default}
		for len(stack) > 0 {
			x := stack[len(stack)-1]
			stack = stack[:len(stack)-1]
			if seen[x] || x == s.Header {
				continue
			}
			seen[x] = true
			stack = append(stack, x.Succs...)
		}
		if seen[b] {
			return "default"
		}
	}
	return name
}

func (s *San) payload(arg ssa.Value) (string, string) {
	switch x := arg.(type) {
	case *ssa.Const:
		if x.Value != nil && x.Value.Kind() == constant.String {
			if constant.StringVal(x.Value) == " " {
				return "Space", `" "`
			}
			return "Other", "constant " + x.Value.ExactString()
		}
	case *ssa.Call:
		if calleeIs(x.Common(), HTMLPkg, "Token", "String") && len(x.Common().Args) == 1 && s.IsTokenLoad(x.Common().Args[0]) {
			return "TokenString", "token.String()"
		}
	case *ssa.UnOp:
		if f := s.TokenField(x); f == "Data" {
			return "RawData", "token.Data"
		}
	}
	return "Other", s.A.Sym.Of(arg)
}

func (s *San) findWrites() {
	for _, b := range s.Fn.Blocks {
		for _, in := range b.Instrs {
			ci, ok := in.(ssa.CallInstruction)
			if !ok {
				continue
			}
			c := ci.Common()
			var w *Write
			if c.IsInvoke() && s.FlowsFromWriter(c.Value) {
				w = &Write{Call: ci}
				if len(c.Args) == 1 && (c.Method.Name() == "WriteString") {
					w.Arg = c.Args[0]
					w.Payload, w.Detail = s.payload(c.Args[0])
					// one write site fed from a local that holds token.String() or, on some paths, token.Data
					if ph, isPhi := c.Args[0].(*ssa.Phi); isPhi && w.Payload == "Other" {
						var raw []*pa.F
						okAll, nTS := true, 0
						for i, e := range ph.Edges {
							pl, _ := s.payload(e)
							switch pl {
							case "TokenString":
								nTS++
							case "RawData":
								t := s.A.PhiTakes(ph, i)
								if t == nil {
									okAll = false
								}
								raw = append(raw, t)
							default:
								okAll = false
							}
						}
						if okAll && nTS > 0 && len(raw) > 0 {
							w.Payload, w.Detail = "Mixed", "token.String() or, on some paths, token.Data"
							w.RawWhen = pa.Or(raw...)
						}
					}
				} else {
					w.Payload, w.Detail = "Other", "invoke "+c.Method.Name()
				}
			} else if !c.IsInvoke() {
				// the writer handed to any other function (io.WriteString, fmt.Fprint, a helper ...)
				for _, a := range c.Args {
					if s.FlowsFromWriter(a) {
						if mi, ok := a.(*ssa.MakeInterface); ok {
							_ = mi
						}
						w = &Write{Call: ci, Payload: "Other", Detail: "writer passed to " + pa.CalleeName(c.StaticCallee())}
					}
				}
			}
			if w != nil {
				w.Arm = s.ArmOf(b)
				s.Writes = append(s.Writes, w)
			}
		}
	}
}

// ArmEntryState: helper to run a query over one arm (entry = arm entry block, barrier = header).
func (s *San) RunArm(q *pa.Query, arm string) bool {
	a := s.Arms[arm]
	if a == nil || a.Entry == s.Header {
		return false
	}
	q.Barrier[s.Header] = true
	q.Run(a.Entry, nil)
	return true
}

// Describe prints the recognised structure (debugging / evidence).
func (s *San) Describe() map[string]any {
	arms := map[string]any{}
	for n, a := range s.Arms {
		arms[n] = map[string]any{"entry_block": a.Entry.Index, "blocks": len(a.Blocks)}
	}
	var ws []string
	for _, w := range s.Writes {
		ws = append(ws, fmt.Sprintf("%s arm=%s payload=%s (%s)", s.P.Pos(w.Call.Pos()), w.Arm, w.Payload, w.Detail))
	}
	return map[string]any{"function": s.Fn.String(), "blocks": len(s.Fn.Blocks), "loop_header_block": s.Header.Index, "arms": arms, "writes": ws}
}

package model

import (
	"go/constant"
	"go/types"
	"sort"
	"strings"
	"sync"

	"golang.org/x/tools/go/ssa"

	"verif/tools/load"
)

var (
	constSlicesMu   sync.Mutex
	constSlicesMemo = map[*load.Program]map[*ssa.Global][]string{}
)

// ConstSlices finds the package-level []string variables of the module that are initialised once, in the package
// initialiser, by a literal of constant strings, and are afterwards only read: every load of the variable is used for
// len, for ranging / indexing with the element only loaded, or re-sliced never.  Such a list is as good as a local
// slice literal: rules that unroll loops over constant lists accept it.
func ConstSlices(P *load.Program) map[*ssa.Global][]string {
	constSlicesMu.Lock()
	defer constSlicesMu.Unlock()
	if m, ok := constSlicesMemo[P]; ok {
		return m
	}
	out := map[*ssa.Global][]string{}
	stores := map[*ssa.Global]int{}
	for path, sp := range P.SSA {
		if !strings.HasPrefix(path, load.ModPath) {
			continue
		}
		init := sp.Func("init")
		if init == nil {
			continue
		}
		for _, b := range init.Blocks {
			for _, in := range b.Instrs {
				st, ok := in.(*ssa.Store)
				if !ok {
					continue
				}
				g, ok := st.Addr.(*ssa.Global)
				if !ok {
					continue
				}
				stores[g]++
				var al *ssa.Alloc
				var sl *ssa.Slice
				if ld, isLoad := st.Val.(*ssa.UnOp); isLoad {
					// an array: var xs = [...]string{…} — the literal is built in a local and copied in
					a2, isA := ld.X.(*ssa.Alloc)
					if !isA {
						continue
					}
					if at, isArr := a2.Type().Underlying().(*types.Pointer).Elem().Underlying().(*types.Array); !isArr {
						continue
					} else if bt, isB := at.Elem().Underlying().(*types.Basic); !isB || bt.Info()&types.IsString == 0 {
						continue
					}
					al = a2
				} else {
					s2, ok := st.Val.(*ssa.Slice)
					if !ok || s2.Low != nil || s2.High != nil || s2.Max != nil {
						continue
					}
					a2, ok := s2.X.(*ssa.Alloc)
					if !ok {
						continue
					}
					al, sl = a2, s2
				}
				type kv struct {
					i int64
					s string
				}
				var items []kv
				good := true
				for _, r := range *al.Referrers() {
					switch x := r.(type) {
					case *ssa.IndexAddr:
						idx, ok := x.Index.(*ssa.Const)
						if !ok {
							good = false
							continue
						}
						for _, r2 := range *x.Referrers() {
							s2, ok := r2.(*ssa.Store)
							if !ok || s2.Addr != ssa.Value(x) {
								good = false
								continue
							}
							c, ok := s2.Val.(*ssa.Const)
							if !ok || c.Value == nil || c.Value.Kind() != constant.String {
								good = false
								continue
							}
							items = append(items, kv{idx.Int64(), constant.StringVal(c.Value)})
						}
					case *ssa.Slice:
						if x != sl {
							good = false
						}
					case *ssa.UnOp:
						if sl != nil {
							good = false // only the array form loads the literal as a whole
						}
					case *ssa.DebugRef:
					default:
						good = false
					}
				}
				if !good {
					continue
				}
				sort.Slice(items, func(i, j int) bool { return items[i].i < items[j].i })
				lst := make([]string, len(items))
				for i, it := range items {
					if int64(i) != it.i {
						good = false
					}
					lst[i] = it.s
				}
				if good {
					out[g] = lst
				}
			}
		}
	}
	for g, n := range stores {
		if n != 1 {
			delete(out, g)
		}
	}
	// arrays initialised in place: var xs = [...]string{…} becomes stores through &xs[i] in the package initialiser
	for path, sp := range P.SSA {
		if !strings.HasPrefix(path, load.ModPath) {
			continue
		}
		init := sp.Func("init")
		if init == nil {
			continue
		}
		type cell struct {
			s  string
			ok bool
		}
		arr := map[*ssa.Global]map[int64]cell{}
		bad := map[*ssa.Global]bool{}
		for _, b := range init.Blocks {
			for _, in := range b.Instrs {
				ia, ok := in.(*ssa.IndexAddr)
				if !ok {
					continue
				}
				g, ok := ia.X.(*ssa.Global)
				if !ok {
					continue
				}
				at, isArr := g.Type().Underlying().(*types.Pointer).Elem().Underlying().(*types.Array)
				if !isArr {
					continue
				}
				if bt, isB := at.Elem().Underlying().(*types.Basic); !isB || bt.Info()&types.IsString == 0 {
					continue
				}
				idx, isC := ia.Index.(*ssa.Const)
				if !isC || stores[g] > 0 {
					bad[g] = true
					continue
				}
				if arr[g] == nil {
					arr[g] = map[int64]cell{}
				}
				for _, r := range *ia.Referrers() {
					st, ok := r.(*ssa.Store)
					if !ok || st.Addr != ssa.Value(ia) {
						bad[g] = true
						continue
					}
					c, ok := st.Val.(*ssa.Const)
					if !ok || c.Value == nil || c.Value.Kind() != constant.String {
						bad[g] = true
						continue
					}
					if arr[g][idx.Int64()].ok {
						bad[g] = true
					}
					arr[g][idx.Int64()] = cell{constant.StringVal(c.Value), true}
				}
			}
		}
		for g, cells := range arr {
			if bad[g] {
				continue
			}
			n := g.Type().Underlying().(*types.Pointer).Elem().Underlying().(*types.Array).Len()
			lst := make([]string, n)
			for i := int64(0); i < n; i++ {
				lst[i] = cells[i].s // an element the literal leaves out is ""
			}
			out[g] = lst
		}
	}
	isInit := func(fn *ssa.Function) bool {
		return fn.Name() == "init" && fn.Signature.Recv() == nil && fn.Parent() == nil
	}
	var visit func(fn *ssa.Function)
	seen := map[*ssa.Function]bool{}
	visit = func(fn *ssa.Function) {
		if fn == nil || seen[fn] || len(fn.Blocks) == 0 {
			return
		}
		seen[fn] = true
		for _, b := range fn.Blocks {
			for _, in := range b.Instrs {
				if isInit(fn) {
					continue
				}
				if st, ok := in.(*ssa.Store); ok {
					if g, ok := st.Addr.(*ssa.Global); ok {
						delete(out, g)
					}
				}
				// the address of the variable handed on
				for _, op := range in.Operands(nil) {
					if g, ok := (*op).(*ssa.Global); ok && out[g] != nil {
						if u, isLoad := in.(*ssa.UnOp); !isLoad || u.X != ssa.Value(g) {
							delete(out, g)
						}
					}
				}
				u, ok := in.(*ssa.UnOp)
				if !ok {
					continue
				}
				g, isG := u.X.(*ssa.Global)
				if !isG || out[g] == nil || u.Referrers() == nil {
					continue
				}
				if _, isArr := u.Type().Underlying().(*types.Array); isArr {
					continue // the loaded array is a copy: whatever is done with it cannot change the variable
				}
				for _, r := range *u.Referrers() {
					switch x := r.(type) {
					case *ssa.DebugRef:
					case *ssa.Call:
						if bi, ok := x.Common().Value.(*ssa.Builtin); !ok || bi.Name() != "len" {
							delete(out, g)
						}
					case *ssa.IndexAddr:
						for _, r2 := range *x.Referrers() {
							if l, ok := r2.(*ssa.UnOp); !ok || l.X != ssa.Value(x) {
								if _, dbg := r2.(*ssa.DebugRef); !dbg {
									delete(out, g) // element address stored to / handed on
								}
							}
						}
					default:
						delete(out, g)
					}
				}
			}
		}
		for _, an := range fn.AnonFuncs {
			visit(an)
		}
	}
	for _, sp := range P.SSA {
		for _, m := range sp.Members {
			if fn, ok := m.(*ssa.Function); ok {
				visit(fn)
			}
		}
	}
	for _, fn := range allMethods(P) {
		visit(fn)
	}
	constSlicesMemo[P] = out
	return out
}

// ConstSliceOf: v is a load of a constant package-level string list.
func ConstSliceOf(P *load.Program, v ssa.Value) ([]string, bool) {
	u, ok := v.(*ssa.UnOp)
	if !ok {
		return nil, false
	}
	g, ok := u.X.(*ssa.Global)
	if !ok {
		return nil, false
	}
	l, ok := ConstSlices(P)[g]
	return l, ok
}

func allMethods(P *load.Program) []*ssa.Function {
	var out []*ssa.Function
	for _, sp := range P.SSA {
		for _, m := range sp.Members {
			t, ok := m.(*ssa.Type)
			if !ok {
				continue
			}
			for _, typ := range []types.Type{t.Type(), types.NewPointer(t.Type())} {
				ms := P.Prog.MethodSets.MethodSet(typ)
				for i := 0; i < ms.Len(); i++ {
					if fn := P.Prog.MethodValue(ms.At(i)); fn != nil {
						out = append(out, fn)
					}
				}
			}
		}
	}
	return out
}

package model

import (
	"golang.org/x/tools/go/ssa"
)

// AnyLoop is a range loop over a slice or a map.
type AnyLoop struct {
	Header, Body, Exit *ssa.BasicBlock
	Over               ssa.Value
	IsMap              bool
	Blocks             map[*ssa.BasicBlock]bool
}

// RangeLoopsAll returns slice and map range loops of fn.
func RangeLoopsAll(fn *ssa.Function) []*AnyLoop {
	var out []*AnyLoop
	for _, l := range SliceRangeLoops(fn) {
		out = append(out, &AnyLoop{l.Header, l.Body, l.Exit, l.Over, false, l.Blocks})
	}
	for _, b := range fn.Blocks {
		ifi, ok := b.Instrs[len(b.Instrs)-1].(*ssa.If)
		if !ok {
			continue
		}
		ex, ok := ifi.Cond.(*ssa.Extract)
		if !ok || ex.Index != 0 {
			continue
		}
		nx, ok := ex.Tuple.(*ssa.Next)
		if !ok || nx.Block() != b {
			continue
		}
		rg, ok := nx.Iter.(*ssa.Range)
		if !ok {
			continue
		}
		out = append(out, &AnyLoop{b, b.Succs[0], b.Succs[1], rg.X, true, NaturalLoop(b)})
	}
	return out
}

package model

import (
	"go/token"
	"go/types"
	"sort"

	"golang.org/x/tools/go/ssa"
)

// Site is one joint assignment of two loop-carried variables: on edge Pred -> Block the variables
// receive V1 and V2 (a value equal to the header phi itself means "unchanged").
type Site struct {
	Pred   *ssa.BasicBlock
	Block  *ssa.BasicBlock
	V1, V2 ssa.Value
}

// SuccIndex returns k such that Pred.Succs[k] == Block.
func (s Site) SuccIndex() int {
	for k, b := range s.Pred.Succs {
		if b == s.Block {
			return k
		}
	}
	return -1
}

// treePhis returns the phis through which values flow into loop-header variable h
// (h itself and every phi reachable through phi operands, inside the loop).
func treePhis(h *ssa.Phi) map[*ssa.Phi]bool {
	tree := map[*ssa.Phi]bool{}
	var walk func(p *ssa.Phi)
	walk = func(p *ssa.Phi) {
		if tree[p] {
			return
		}
		tree[p] = true
		for _, e := range p.Edges {
			if q, ok := e.(*ssa.Phi); ok {
				walk(q)
			}
		}
	}
	walk(h)
	return tree
}

// JointSites lists every edge on which loop variable h1 or h2 receives a new (non-phi) value,
// together with what the other variable receives on that same edge (its header phi = unchanged).
func JointSites(h1, h2 *ssa.Phi) []Site {
	t1, t2 := treePhis(h1), treePhis(h2)
	valueAt := func(tree map[*ssa.Phi]bool, h *ssa.Phi, blk *ssa.BasicBlock, predIdx int) ssa.Value {
		for _, in := range blk.Instrs {
			p, ok := in.(*ssa.Phi)
			if !ok {
				break
			}
			if tree[p] {
				v := p.Edges[predIdx]
				if q, ok := v.(*ssa.Phi); ok && tree[q] {
					return h // flows on unchanged
				}
				return v
			}
		}
		return h
	}
	type ek struct {
		pred, blk *ssa.BasicBlock
	}
	seen := map[ek]bool{}
	var out []Site
	collect := func(tree map[*ssa.Phi]bool) {
		var phis []*ssa.Phi
		for p := range tree {
			phis = append(phis, p)
		}
		for _, p := range phis {
			for i, pred := range p.Block().Preds {
				e := p.Edges[i]
				if q, ok := e.(*ssa.Phi); ok && tree[q] {
					continue
				}
				k := ek{pred, p.Block()}
				if seen[k] {
					continue
				}
				seen[k] = true
				out = append(out, Site{pred, p.Block(), valueAt(t1, h1, p.Block(), i), valueAt(t2, h2, p.Block(), i)})
			}
		}
	}
	collect(t1)
	collect(t2)
	sort.Slice(out, func(i, j int) bool {
		if out[i].Pred.Index != out[j].Pred.Index {
			return out[i].Pred.Index < out[j].Pred.Index
		}
		return out[i].Block.Index < out[j].Block.Index
	})
	return out
}

// LoopVars are the loop-carried locals of sanitize, identified by role.
type LoopVars struct {
	Skip, Depth, Pending, Stack *ssa.Phi
	Why                         []string
}

func headerPhis(h *ssa.BasicBlock) []*ssa.Phi {
	var out []*ssa.Phi
	for _, in := range h.Instrs {
		if p, ok := in.(*ssa.Phi); ok {
			out = append(out, p)
		} else {
			break
		}
	}
	return out
}

// IsIncr: v == base + k (k const != 0) ; returns k.
func IsIncr(v ssa.Value, base ssa.Value) (int64, bool) {
	bo, ok := v.(*ssa.BinOp)
	if !ok || (bo.Op != token.ADD && bo.Op != token.SUB) || bo.X != base {
		return 0, false
	}
	c, ok := bo.Y.(*ssa.Const)
	if !ok || c.Value == nil {
		return 0, false
	}
	k := c.Int64()
	if bo.Op == token.SUB {
		k = -k
	}
	return k, true
}

func isTrue(v ssa.Value) bool {
	c, ok := v.(*ssa.Const)
	return ok && c.Value != nil && c.Value.String() == "true"
}
func isFalse(v ssa.Value) bool {
	c, ok := v.(*ssa.Const)
	return ok && c.Value != nil && c.Value.String() == "false"
}

// IsTrue / IsFalse exported.
func IsTrue(v ssa.Value) bool  { return isTrue(v) }
func IsFalse(v ssa.Value) bool { return isFalse(v) }

// IsAppendTo: v = append(base, ...) ; returns the appended slice argument.
func IsAppendTo(v ssa.Value, base ssa.Value) (ssa.Value, bool) {
	c, ok := v.(*ssa.Call)
	if !ok {
		return nil, false
	}
	b, ok := c.Common().Value.(*ssa.Builtin)
	if !ok || b.Name() != "append" || len(c.Common().Args) != 2 || c.Common().Args[0] != base {
		return nil, false
	}
	return c.Common().Args[1], true
}

// IsShrinkByOne: v = base[:len(base)-1]
func IsShrinkByOne(v ssa.Value, base ssa.Value) bool {
	sl, ok := v.(*ssa.Slice)
	if !ok || sl.X != base || sl.Low != nil || sl.High == nil {
		return false
	}
	bo, ok := sl.High.(*ssa.BinOp)
	if !ok || bo.Op != token.SUB {
		return false
	}
	if c, ok := bo.Y.(*ssa.Const); !ok || c.Int64() != 1 {
		return false
	}
	ln, ok := bo.X.(*ssa.Call)
	if !ok {
		return false
	}
	if b, ok := ln.Common().Value.(*ssa.Builtin); !ok || b.Name() != "len" || ln.Common().Args[0] != base {
		return false
	}
	return true
}

// FindLoopVars identifies the four state variables of the token loop by role.
func (s *San) FindLoopVars() *LoopVars {
	lv := &LoopVars{}
	var bools, ints, slices []*ssa.Phi
	for _, p := range headerPhis(s.Header) {
		switch t := p.Type().Underlying().(type) {
		case *types.Basic:
			switch {
			case t.Kind() == types.Bool:
				bools = append(bools, p)
			case t.Info()&types.IsInteger != 0:
				ints = append(ints, p)
			}
		case *types.Slice:
			slices = append(slices, p)
		}
	}
	// the pairs are found by what is done to them together: a flag set to true where a counter is incremented (skip flag /
	// skip depth), a flag set to true where a list is appended to (pending flag / pending-close stack); other counters or
	// lists the loop may carry are not part of the mechanism
	nSkip, nPend := 0, 0
	for _, b := range bools {
		for _, d := range ints {
			for _, st := range JointSites(b, d) {
				if k, ok := IsIncr(st.V2, d); ok && k > 0 && isTrue(st.V1) {
					if lv.Skip != b || lv.Depth != d {
						nSkip++
					}
					lv.Skip, lv.Depth = b, d
				}
			}
		}
		for _, sl := range slices {
			for _, st := range JointSites(b, sl) {
				if _, ok := IsAppendTo(st.V2, sl); ok && isTrue(st.V1) {
					if lv.Pending != b || lv.Stack != sl {
						nPend++
					}
					lv.Pending, lv.Stack = b, sl
				}
			}
		}
	}
	if nSkip > 1 {
		lv.Why = append(lv.Why, "more than one flag/counter pair that could be the skip mechanism")
	}
	if nPend > 1 {
		lv.Why = append(lv.Why, "more than one flag/list pair that could be the pending-close mechanism")
	}
	if lv.Depth == nil && len(ints) == 1 {
		lv.Depth = ints[0]
	}
	if lv.Stack == nil && len(slices) == 1 {
		lv.Stack = slices[0]
	}
	if lv.Skip == nil {
		lv.Why = append(lv.Why, "no boolean loop variable is set to true together with an increment of the integer loop variable (skip flag / skip depth pair)")
	}
	if lv.Pending == nil {
		lv.Why = append(lv.Why, "no boolean loop variable is set to true together with an append to the slice loop variable (pending-close flag / stack pair)")
	}
	return lv
}

// CurrentValue returns the value a loop-header variable has at block b: the operand the header phi
// receives on the back edges reachable from b without passing another assignment of it
// (nil if ambiguous).
func (s *San) CurrentValue(h *ssa.Phi, b *ssa.BasicBlock) ssa.Value {
	var vals []ssa.Value
	seen := map[*ssa.BasicBlock]bool{}
	stack := []*ssa.BasicBlock{b}
	for len(stack) > 0 {
		x := stack[len(stack)-1]
		stack = stack[:len(stack)-1]
		if seen[x] {
			continue
		}
		seen[x] = true
		for _, sc := range x.Succs {
			if sc == s.Header {
				for i, p := range s.Header.Preds {
					if p == x {
						vals = append(vals, h.Edges[i])
					}
				}
				continue
			}
			stack = append(stack, sc)
		}
	}
	if len(vals) == 0 {
		return nil
	}
	for _, v := range vals[1:] {
		if v != vals[0] {
			return nil
		}
	}
	// the value on the back edge may be a merge that lies after b (the join behind an inlined helper): what the
	// variable holds at b is then the merge's operand for the edges that b can reach
	cur := vals[0]
	for n := 0; n < 8; n++ {
		ph, ok := cur.(*ssa.Phi)
		if !ok || ph.Block() == s.Header || ph.Block().Dominates(b) {
			break
		}
		var sub []ssa.Value
		for i, p := range ph.Block().Preds {
			if seen[p] {
				sub = append(sub, ph.Edges[i])
			}
		}
		if len(sub) == 0 {
			return nil
		}
		for _, v := range sub[1:] {
			if v != sub[0] {
				return nil
			}
		}
		cur = sub[0]
	}
	return cur
}

// IsNil: v is the constant nil.
func IsNil(v ssa.Value) bool {
	c, ok := v.(*ssa.Const)
	return ok && c.Value == nil && c.IsNil()
}

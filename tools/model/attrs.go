package model

import (
	"go/token"
	"go/types"
	"sort"

	"golang.org/x/tools/go/ssa"
)

// RangeLoop is a `for i, x := range <slice>` loop as lowered by go/ssa.
type RangeLoop struct {
	Header, Body, Exit *ssa.BasicBlock
	Over               ssa.Value // the slice ranged over
	Index              *ssa.Phi
	Blocks             map[*ssa.BasicBlock]bool // natural loop
}

// NaturalLoop returns the blocks of the natural loop(s) with header h.
func NaturalLoop(h *ssa.BasicBlock) map[*ssa.BasicBlock]bool {
	loop := map[*ssa.BasicBlock]bool{h: true}
	var stack []*ssa.BasicBlock
	for _, p := range h.Preds {
		if h.Dominates(p) {
			stack = append(stack, p)
		}
	}
	for len(stack) > 0 {
		b := stack[len(stack)-1]
		stack = stack[:len(stack)-1]
		if loop[b] {
			continue
		}
		loop[b] = true
		stack = append(stack, b.Preds...)
	}
	return loop
}

// SliceRangeLoops finds the range-over-slice loops of fn in block order.
func SliceRangeLoops(fn *ssa.Function) []*RangeLoop {
	var out []*RangeLoop
	for _, b := range fn.Blocks {
		ifi, ok := b.Instrs[len(b.Instrs)-1].(*ssa.If)
		if !ok {
			continue
		}
		bo, ok := ifi.Cond.(*ssa.BinOp)
		if !ok || bo.Op != token.LSS {
			continue
		}
		inc, ok := bo.X.(*ssa.BinOp)
		if !ok || inc.Op != token.ADD {
			continue
		}
		phi, ok := inc.X.(*ssa.Phi)
		if !ok || phi.Block() != b {
			continue
		}
		isHd0 := false
		for _, p := range b.Preds {
			if b.Dominates(p) {
				isHd0 = true
			}
		}
		// range over an array value: the bound is the constant length and the element is read with t[i]
		if k, isC := bo.Y.(*ssa.Const); isC && isHd0 {
			var arr ssa.Value
			for blk := range NaturalLoop(b) {
				for _, in := range blk.Instrs {
					if ix, ok := in.(*ssa.Index); ok && ix.Index == ssa.Value(inc) {
						if at, ok := ix.X.Type().Underlying().(*types.Array); ok && at.Len() == k.Int64() {
							arr = ix.X
						}
					}
					// `for i := range a { … a[i] … }` over a local array variable: the element is read through &a[i]
					if ia, ok := in.(*ssa.IndexAddr); ok && ia.Index == ssa.Value(inc) && arr == nil {
						if al, ok := ia.X.(*ssa.Alloc); ok {
							if pt, ok := al.Type().Underlying().(*types.Pointer); ok {
								if at, ok := pt.Elem().Underlying().(*types.Array); ok && at.Len() == k.Int64() {
									arr = al
								}
							}
						}
					}
				}
			}
			if arr != nil {
				out = append(out, &RangeLoop{Header: b, Body: b.Succs[0], Exit: b.Succs[1], Over: arr, Index: phi, Blocks: NaturalLoop(b)})
			}
			continue
		}
		ln, ok := bo.Y.(*ssa.Call)
		if !ok {
			continue
		}
		bi, ok := ln.Common().Value.(*ssa.Builtin)
		if !ok || bi.Name() != "len" {
			continue
		}
		isHd := false
		for _, p := range b.Preds {
			if b.Dominates(p) {
				isHd = true
			}
		}
		if !isHd {
			continue
		}
		out = append(out, &RangeLoop{Header: b, Body: b.Succs[0], Exit: b.Succs[1], Over: ln.Common().Args[0], Index: phi, Blocks: NaturalLoop(b)})
	}
	sort.Slice(out, func(i, j int) bool { return out[i].Header.Index < out[j].Header.Index })
	return out
}

// AppendedAlloc: for `append(x, []T{v}...)` lowered as new [1]T; store; slice — returns the value stored at index 0.
func AppendedValue(call *ssa.Call) ssa.Value {
	bi, ok := call.Common().Value.(*ssa.Builtin)
	if !ok || bi.Name() != "append" || len(call.Common().Args) != 2 {
		return nil
	}
	sl, ok := call.Common().Args[1].(*ssa.Slice)
	if !ok {
		return nil
	}
	al, ok := sl.X.(*ssa.Alloc)
	if !ok {
		return nil
	}
	var val ssa.Value
	n := 0
	for _, r := range *al.Referrers() {
		if ia, ok := r.(*ssa.IndexAddr); ok {
			for _, r2 := range *ia.Referrers() {
				if st, ok := r2.(*ssa.Store); ok && st.Addr == ia {
					val = st.Val
					n++
				}
			}
		}
	}
	if n != 1 {
		return nil
	}
	return val
}

// IsAppend reports whether v is a call of the append builtin and returns its first argument.
func IsAppend(v ssa.Value) (*ssa.Call, ssa.Value) {
	c, ok := v.(*ssa.Call)
	if !ok {
		return nil, nil
	}
	bi, ok := c.Common().Value.(*ssa.Builtin)
	if !ok || bi.Name() != "append" {
		return nil, nil
	}
	return c, c.Common().Args[0]
}

// LoadOfAlloc: v = *alloc (whole-value load of a local).
func LoadOfAlloc(v ssa.Value) *ssa.Alloc {
	u, ok := v.(*ssa.UnOp)
	if !ok || u.Op != token.MUL {
		return nil
	}
	a, _ := u.X.(*ssa.Alloc)
	return a
}

// FieldStoresTo returns the stores into field `name` of the struct held by alloc.
func FieldStoresTo(a *ssa.Alloc, name string) []*ssa.Store {
	var out []*ssa.Store
	for _, r := range *a.Referrers() {
		fa, ok := r.(*ssa.FieldAddr)
		if !ok {
			continue
		}
		st := fa.X.Type().Underlying().(*types.Pointer).Elem().Underlying().(*types.Struct)
		if st.Field(fa.Field).Name() != name {
			continue
		}
		for _, r2 := range *fa.Referrers() {
			if s, ok := r2.(*ssa.Store); ok && s.Addr == fa {
				out = append(out, s)
			}
		}
	}
	return out
}

// WholeStoresTo returns the stores of a whole value into alloc.
func WholeStoresTo(a *ssa.Alloc) []*ssa.Store {
	var out []*ssa.Store
	for _, r := range *a.Referrers() {
		if s, ok := r.(*ssa.Store); ok && s.Addr == ssa.Value(a) {
			out = append(out, s)
		}
	}
	return out
}

// LastFieldStoreBefore returns the store to alloc.<field> that is the nearest one preceding
// instruction `at` along the unique-predecessor chain (nil if none or ambiguous).
func LastFieldStoreBefore(a *ssa.Alloc, field string, at ssa.Instruction) *ssa.Store {
	stores := map[ssa.Instruction]*ssa.Store{}
	for _, s := range FieldStoresTo(a, field) {
		stores[s] = s
	}
	b := at.Block()
	end := -1
	for i, in := range b.Instrs {
		if in == at {
			end = i
		}
	}
	for {
		for i := end - 1; i >= 0; i-- {
			if s, ok := stores[b.Instrs[i]]; ok {
				return s
			}
			// a whole-value store resets the field
			if s, ok := b.Instrs[i].(*ssa.Store); ok && s.Addr == ssa.Value(a) {
				return nil
			}
		}
		if len(b.Preds) != 1 {
			return nil
		}
		b = b.Preds[0]
		end = len(b.Instrs)
	}
}

// IsAttrType: t is golang.org/x/net/html.Attribute.
func IsAttrType(t types.Type) bool {
	n, ok := t.(*types.Named)
	return ok && n.Obj().Name() == "Attribute" && n.Obj().Pkg() != nil && n.Obj().Pkg().Path() == HTMLPkg
}

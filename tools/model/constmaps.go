package model

import (
	"go/constant"
	"go/types"
	"strconv"
	"strings"

	"golang.org/x/tools/go/ssa"

	"verif/tools/load"
	"verif/tools/pa"
)

// InitConstMaps finds the package-level maps of the module that are initialised by a literal with constant string
// keys and never written afterwards, and hands them to the pa engine, which folds lookups with a constant key
// (e.g. a table `linkableElements[name]` specialised to name == "a").
func InitConstMaps(P *load.Program) {
	out := map[*ssa.Global]map[string]string{}
	for path, sp := range P.SSA {
		if !strings.HasPrefix(path, load.ModPath) {
			continue
		}
		init := sp.Func("init")
		if init == nil {
			continue
		}
		// global <- makemap in init
		made := map[*ssa.MakeMap]*ssa.Global{}
		for _, b := range init.Blocks {
			for _, in := range b.Instrs {
				if st, ok := in.(*ssa.Store); ok {
					if g, ok := st.Addr.(*ssa.Global); ok {
						if mm, ok := st.Val.(*ssa.MakeMap); ok {
							made[mm] = g
						}
					}
				}
			}
		}
		bad := map[*ssa.Global]bool{}
		for mm, g := range made {
			tbl := map[string]string{}
			for _, r := range *mm.Referrers() {
				switch x := r.(type) {
				case *ssa.MapUpdate:
					k, ok := x.Key.(*ssa.Const)
					if !ok || k.Value == nil || k.Value.Kind() != constant.String {
						// keys of another constant type (e.g. an enum) are rendered by their exact value
						if ok && k.Value != nil {
							tbl[k.Value.ExactString()] = valueSym(x.Value)
							continue
						}
						bad[g] = true
						continue
					}
					tbl[strconv.Quote(constant.StringVal(k.Value))] = valueSym(x.Value)
				case *ssa.Store:
					if x.Val != ssa.Value(mm) {
						bad[g] = true
					}
				case *ssa.DebugRef:
				default:
					bad[g] = true
				}
			}
			out[g] = tbl
		}
		for g := range bad {
			delete(out, g)
		}
	}
	// never written (or handed out for writing) anywhere else
	for _, sp := range P.SSA {
		for _, m := range sp.Members {
			fn, ok := m.(*ssa.Function)
			_ = fn
			_ = ok
		}
	}
	isInit := func(fn *ssa.Function) bool {
		return fn.Name() == "init" && fn.Signature.Recv() == nil && fn.Parent() == nil
	}
	var visit func(fn *ssa.Function)
	seen := map[*ssa.Function]bool{}
	visit = func(fn *ssa.Function) {
		if fn == nil || seen[fn] || len(fn.Blocks) == 0 {
			return
		}
		seen[fn] = true
		for _, b := range fn.Blocks {
			for _, in := range b.Instrs {
				if st, ok := in.(*ssa.Store); ok && !isInit(fn) {
					if g, ok := st.Addr.(*ssa.Global); ok {
						delete(out, g)
					}
				}
				// loads of the global: every use must be a Lookup / Range / len
				if u, ok := in.(*ssa.UnOp); ok {
					g, isG := u.X.(*ssa.Global)
					if !isG || out[g] == nil || isInit(fn) {
						continue
					}
					for _, r := range *u.Referrers() {
						switch x := r.(type) {
						case *ssa.Lookup, *ssa.Range, *ssa.DebugRef:
						case *ssa.Call:
							if bi, ok := x.Common().Value.(*ssa.Builtin); !ok || bi.Name() != "len" {
								delete(out, g)
							}
						default:
							delete(out, g) // MapUpdate, delete(), passed on, stored …
						}
					}
				}
			}
		}
		for _, an := range fn.AnonFuncs {
			visit(an)
		}
	}
	for _, sp := range P.SSA {
		for _, m := range sp.Members {
			switch x := m.(type) {
			case *ssa.Function:
				visit(x)
			case *ssa.Type:
				for _, ptr := range []bool{false, true} {
					t := x.Type()
					ms := P.Prog.MethodSets.MethodSet(t)
					if ptr {
						ms = P.Prog.MethodSets.MethodSet(types.NewPointer(t))
					}
					for i := 0; i < ms.Len(); i++ {
						visit(P.Prog.MethodValue(ms.At(i)))
					}
				}
			}
		}
	}
	pa.ConstMaps = out
}

func valueSym(v ssa.Value) string {
	if k, ok := v.(*ssa.Const); ok && k.Value != nil {
		if k.Value.Kind() == constant.String {
			return strconv.Quote(constant.StringVal(k.Value))
		}
		return k.Value.ExactString()
	}
	return "{}"
}

package model

import (
	"fmt"
	"go/types"
	"sort"
	"sync"

	"golang.org/x/tools/go/ssa"

	"verif/tools/load"
)

// Fields binds *roles* to the private Policy fields that play them, derived from what the exported
// builder API writes (public names are the stable anchor; private field names may be refactored).
type Fields struct {
	ByRole  map[string]string // role -> field name of Policy
	Why     map[string]string
	Miss    []string
	Used    map[string]bool   // roles asked for through Get
	MissWhy map[string]string // role -> why it could not be resolved
}

type roleSpec struct {
	role   string
	method string // method of *Policy or of a builder type
	kind   string // "param" (field stored the bool/func parameter), "true" (stored const true), "mapupdate", "mapupdate-set" (value struct{}{}), "append" (field = append(field, x)), "make" (field stored a fresh map), "delete"
}

var roleSpecs = []roleSpec{
	{"allowUnsafe", "(*Policy).AllowUnsafe", "param"},
	{"allowComments", "(*Policy).AllowComments", "true"},
	{"allowDataAttributes", "(*Policy).AllowDataAttributes", "true"},
	{"addSpaces", "(*Policy).AddSpaceWhenStrippingTag", "param"},
	{"elsAndAttrs", "(*Policy).AllowElements", "mapupdate"},
	{"elsMatchingAndAttrs", "(*Policy).AllowElementsMatching", "mapupdate"},
	{"skipSet", "(*Policy).SkipElementsContent", "mapupdate"},
	{"requireParseableURLs", "(*Policy).RequireParseableURLs", "param"},
	{"allowRelativeURLs", "(*Policy).AllowRelativeURLs", "param"},
	{"allowURLSchemes", "(*Policy).AllowURLSchemes", "mapupdate"},
	{"allowURLSchemeRegexps", "(*Policy).AllowURLSchemesMatching", "append"},
	{"srcRewriter", "(*Policy).RewriteSrc", "param"},
	{"requireNoFollow", "(*Policy).RequireNoFollowOnLinks", "param"},
	{"requireNoFollowFQ", "(*Policy).RequireNoFollowOnFullyQualifiedLinks", "param"},
	{"requireNoReferrer", "(*Policy).RequireNoReferrerOnLinks", "param"},
	{"requireNoReferrerFQ", "(*Policy).RequireNoReferrerOnFullyQualifiedLinks", "param"},
	{"addTargetBlankFQ", "(*Policy).AddTargetBlankToFullyQualifiedLinks", "param"},
	{"requireCrossOriginAnonymous", "(*Policy).RequireCrossOriginAnonymous", "param"},
	{"requireSandboxOnIFrame", "(*Policy).RequireSandboxOnIFrame", "make"},
	{"globalAttrs", "(*attrPolicyBuilder).Globally", "mapupdate"},
	{"bareSet", "(*attrPolicyBuilder).OnElements", "mapupdate-set"},
	{"bareRegexps", "(*attrPolicyBuilder).OnElementsMatching", "append"},
	{"elsAndStyles", "(*stylePolicyBuilder).OnElements", "mapupdate"},
	{"elsMatchingAndStyles", "(*stylePolicyBuilder).OnElementsMatching", "mapupdate"},
	{"globalStyles", "(*stylePolicyBuilder).Globally", "mapupdate"},
	{"initialized", "(*Policy).init", "true"},
}

// policyField: addr is &X.f where X has type *Policy; returns f.
func policyField(v ssa.Value) string {
	fa, ok := v.(*ssa.FieldAddr)
	if !ok {
		return ""
	}
	pt, ok := fa.X.Type().Underlying().(*types.Pointer)
	if !ok {
		return ""
	}
	n, ok := pt.Elem().(*types.Named)
	if !ok || n.Obj().Name() != "Policy" || n.Obj().Pkg() == nil || n.Obj().Pkg().Path() != load.ModPath {
		return ""
	}
	return n.Underlying().(*types.Struct).Field(fa.Field).Name()
}

// PolicyField is exported for rules.
func PolicyField(v ssa.Value) string { return policyField(v) }

// LoadedPolicyField: v is a load of a Policy field; returns its name.
func LoadedPolicyField(v ssa.Value) string {
	if u, ok := v.(*ssa.UnOp); ok {
		return policyField(u.X)
	}
	return ""
}

var (
	fieldsMu   sync.Mutex
	fieldsMemo = map[*load.Program]*Fields{}
)

// FindFields resolves the roles once per program (the result is shared so that role usage is recorded centrally).
func FindFields(P *load.Program) *Fields {
	fieldsMu.Lock()
	defer fieldsMu.Unlock()
	if F, ok := fieldsMemo[P]; ok {
		return F
	}
	F := findFields(P)
	fieldsMemo[P] = F
	return F
}

// collectWrites gathers the Policy fields written by fn in the way rs.kind describes; role[i] says whether fn's
// i-th parameter carries (one of) the builder's own parameters.  Calls of module functions that are handed a
// *Policy or a builder are followed (depth ≤ 3), so a builder that delegates to another keeps resolving.
func collectWrites(fn *ssa.Function, rs roleSpec, role []bool, depth int, seen map[*ssa.Function]bool, cands map[string]bool) {
	if fn == nil || len(fn.Blocks) == 0 || seen[fn] || depth > 3 {
		return
	}
	seen[fn] = true
	isRoleParam := func(v ssa.Value) bool {
		for i, p := range fn.Params {
			if i < len(role) && role[i] && v == ssa.Value(p) {
				return true
			}
		}
		return false
	}
	for _, b := range fn.Blocks {
		for _, in := range b.Instrs {
			switch x := in.(type) {
			case *ssa.Store:
				f := policyField(x.Addr)
				if f == "" {
					continue
				}
				switch rs.kind {
				case "param":
					if isRoleParam(x.Val) {
						cands[f] = true
					}
				case "true":
					if c, ok := x.Val.(*ssa.Const); ok && c.Value != nil && c.Value.String() == "true" {
						cands[f] = true
					}
				case "make":
					if _, ok := x.Val.(*ssa.MakeMap); ok {
						cands[f] = true
					}
				case "append":
					if c, ok := x.Val.(*ssa.Call); ok {
						if bi, ok := c.Common().Value.(*ssa.Builtin); ok && bi.Name() == "append" {
							if LoadedPolicyField(c.Common().Args[0]) == f {
								cands[f] = true
							}
						}
					}
				}
			case *ssa.MapUpdate:
				f := LoadedPolicyField(x.Map)
				if f == "" {
					continue
				}
				isSet := false
				if st, ok := x.Value.Type().Underlying().(*types.Struct); ok && st.NumFields() == 0 {
					isSet = true
				}
				if rs.kind == "mapupdate" && !isSet || rs.kind == "mapupdate-set" && isSet || rs.kind == "mapupdate" && rs.role == "skipSet" {
					cands[f] = true
				}
			case *ssa.Call:
				callee := x.Common().StaticCallee()
				if callee == nil || callee.Pkg == nil || callee.Pkg.Pkg.Path() != load.ModPath || rs.kind == "true" || rs.kind == "make" {
					// "true"/"make" builders (AllowComments, init, RequireSandboxOnIFrame …) call p.init(), which itself
					// stores constants and fresh maps: delegation is not followed for these kinds
					continue
				}
				if callee.Name() == "init" {
					continue
				}
				sub := make([]bool, len(callee.Params))
				for i, a := range x.Common().Args {
					if i < len(sub) && isRoleParam(a) {
						sub[i] = true
					}
				}
				collectWrites(callee, rs, sub, depth+1, seen, cands)
			}
		}
	}
}

func findFields(P *load.Program) *Fields {
	F := &Fields{ByRole: map[string]string{}, Why: map[string]string{}, Used: map[string]bool{}, MissWhy: map[string]string{}}
	for _, rs := range roleSpecs {
		fn := P.Func(load.ModPath, rs.method)
		if fn == nil {
			F.Miss = append(F.Miss, rs.role+": builder "+rs.method+" not found")
			F.MissWhy[rs.role] = "builder " + rs.method + " not found"
			continue
		}
		cands := map[string]bool{}
		role := make([]bool, len(fn.Params))
		for i := 1; i < len(role); i++ {
			role[i] = true
		}
		collectWrites(fn, rs, role, 0, map[*ssa.Function]bool{}, cands)
		var names []string
		for f := range cands {
			names = append(names, f)
		}
		sort.Strings(names)
		if len(names) != 1 {
			F.Miss = append(F.Miss, fmt.Sprintf("%s: builder %s writes %d candidate fields %v (need exactly 1)", rs.role, rs.method, len(names), names))
			F.MissWhy[rs.role] = fmt.Sprintf("builder %s writes %d candidate fields %v (need exactly 1)", rs.method, len(names), names)
			continue
		}
		F.ByRole[rs.role] = names[0]
		F.Why[rs.role] = "field written by " + rs.method
	}
	return F
}

// Get returns the field name for a role ("" if unresolved) and records that the role was needed.
func (F *Fields) Get(role string) string {
	fieldsMu.Lock()
	F.Used[role] = true
	fieldsMu.Unlock()
	return F.ByRole[role]
}

// UsedMissing lists the unresolved roles that were asked for, with the reason.
func (F *Fields) UsedMissing() map[string]string {
	fieldsMu.Lock()
	defer fieldsMu.Unlock()
	out := map[string]string{}
	for r := range F.Used {
		if _, ok := F.ByRole[r]; !ok {
			why := F.MissWhy[r]
			if why == "" {
				why = "no such role"
			}
			out[r] = why
		}
	}
	return out
}

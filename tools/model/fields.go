package model

import (
	"fmt"
	"go/types"
	"sort"

	"golang.org/x/tools/go/ssa"

	"verif/tools/load"
)

// Fields binds *roles* to the private Policy fields that play them, derived from what the exported
// builder API writes (public names are the stable anchor; private field names may be refactored).
type Fields struct {
	ByRole map[string]string // role -> field name of Policy
	Why    map[string]string
	Miss   []string
}

type roleSpec struct {
	role   string
	method string // method of *Policy or of a builder type
	kind   string // "param" (field stored the bool/func parameter), "true" (stored const true), "mapupdate", "mapupdate-set" (value struct{}{}), "append" (field = append(field, x)), "make" (field stored a fresh map), "delete"
}

var roleSpecs = []roleSpec{
	{"allowUnsafe", "(*Policy).AllowUnsafe", "param"},
	{"allowComments", "(*Policy).AllowComments", "true"},
	{"allowDataAttributes", "(*Policy).AllowDataAttributes", "true"},
	{"addSpaces", "(*Policy).AddSpaceWhenStrippingTag", "param"},
	{"elsAndAttrs", "(*Policy).AllowElements", "mapupdate"},
	{"elsMatchingAndAttrs", "(*Policy).AllowElementsMatching", "mapupdate"},
	{"skipSet", "(*Policy).SkipElementsContent", "mapupdate"},
	{"requireParseableURLs", "(*Policy).RequireParseableURLs", "param"},
	{"allowRelativeURLs", "(*Policy).AllowRelativeURLs", "param"},
	{"allowURLSchemes", "(*Policy).AllowURLSchemes", "mapupdate"},
	{"allowURLSchemeRegexps", "(*Policy).AllowURLSchemesMatching", "append"},
	{"srcRewriter", "(*Policy).RewriteSrc", "param"},
	{"requireNoFollow", "(*Policy).RequireNoFollowOnLinks", "param"},
	{"requireNoFollowFQ", "(*Policy).RequireNoFollowOnFullyQualifiedLinks", "param"},
	{"requireNoReferrer", "(*Policy).RequireNoReferrerOnLinks", "param"},
	{"requireNoReferrerFQ", "(*Policy).RequireNoReferrerOnFullyQualifiedLinks", "param"},
	{"addTargetBlankFQ", "(*Policy).AddTargetBlankToFullyQualifiedLinks", "param"},
	{"requireCrossOriginAnonymous", "(*Policy).RequireCrossOriginAnonymous", "param"},
	{"requireSandboxOnIFrame", "(*Policy).RequireSandboxOnIFrame", "make"},
	{"globalAttrs", "(*attrPolicyBuilder).Globally", "mapupdate"},
	{"bareSet", "(*attrPolicyBuilder).OnElements", "mapupdate-set"},
	{"bareRegexps", "(*attrPolicyBuilder).OnElementsMatching", "append"},
	{"elsAndStyles", "(*stylePolicyBuilder).OnElements", "mapupdate"},
	{"elsMatchingAndStyles", "(*stylePolicyBuilder).OnElementsMatching", "mapupdate"},
	{"globalStyles", "(*stylePolicyBuilder).Globally", "mapupdate"},
	{"initialized", "(*Policy).init", "true"},
}

// policyField: addr is &X.f where X has type *Policy; returns f.
func policyField(v ssa.Value) string {
	fa, ok := v.(*ssa.FieldAddr)
	if !ok {
		return ""
	}
	pt, ok := fa.X.Type().Underlying().(*types.Pointer)
	if !ok {
		return ""
	}
	n, ok := pt.Elem().(*types.Named)
	if !ok || n.Obj().Name() != "Policy" || n.Obj().Pkg() == nil || n.Obj().Pkg().Path() != load.ModPath {
		return ""
	}
	return n.Underlying().(*types.Struct).Field(fa.Field).Name()
}

// PolicyField is exported for rules.
func PolicyField(v ssa.Value) string { return policyField(v) }

// LoadedPolicyField: v is a load of a Policy field; returns its name.
func LoadedPolicyField(v ssa.Value) string {
	if u, ok := v.(*ssa.UnOp); ok {
		return policyField(u.X)
	}
	return ""
}

func FindFields(P *load.Program) *Fields {
	F := &Fields{ByRole: map[string]string{}, Why: map[string]string{}}
	for _, rs := range roleSpecs {
		fn := P.Func(load.ModPath, rs.method)
		if fn == nil {
			F.Miss = append(F.Miss, rs.role+": builder "+rs.method+" not found")
			continue
		}
		cands := map[string]bool{}
		for _, b := range fn.Blocks {
			for _, in := range b.Instrs {
				switch x := in.(type) {
				case *ssa.Store:
					f := policyField(x.Addr)
					if f == "" {
						continue
					}
					switch rs.kind {
					case "param":
						for _, p := range fn.Params[1:] {
							if x.Val == ssa.Value(p) {
								cands[f] = true
							}
						}
					case "true":
						if c, ok := x.Val.(*ssa.Const); ok && c.Value != nil && c.Value.String() == "true" {
							cands[f] = true
						}
					case "make":
						if _, ok := x.Val.(*ssa.MakeMap); ok {
							cands[f] = true
						}
					case "append":
						if c, ok := x.Val.(*ssa.Call); ok {
							if bi, ok := c.Common().Value.(*ssa.Builtin); ok && bi.Name() == "append" {
								if LoadedPolicyField(c.Common().Args[0]) == f {
									cands[f] = true
								}
							}
						}
					}
				case *ssa.MapUpdate:
					f := LoadedPolicyField(x.Map)
					if f == "" {
						continue
					}
					isSet := false
					if st, ok := x.Value.Type().Underlying().(*types.Struct); ok && st.NumFields() == 0 {
						isSet = true
					}
					if rs.kind == "mapupdate" && !isSet || rs.kind == "mapupdate-set" && isSet || rs.kind == "mapupdate" && rs.role == "skipSet" {
						cands[f] = true
					}
				}
			}
		}
		var names []string
		for f := range cands {
			names = append(names, f)
		}
		sort.Strings(names)
		if len(names) != 1 {
			F.Miss = append(F.Miss, fmt.Sprintf("%s: builder %s writes %d candidate fields %v (need exactly 1)", rs.role, rs.method, len(names), names))
			continue
		}
		F.ByRole[rs.role] = names[0]
		F.Why[rs.role] = "field written by " + rs.method
	}
	return F
}

// Get returns the field name for a role ("" if unresolved).
func (F *Fields) Get(role string) string { return F.ByRole[role] }

package load

import (
	"go/types"

	"golang.org/x/tools/go/ssa"
)

func typesPointer(t *ssa.Type) types.Type { return types.NewPointer(t.Type()) }

// Package load loads /repo's current working tree (type-checked syntax + SSA).
package load

import (
	"fmt"
	"go/token"
	"os"
	"sort"
	"strings"

	"golang.org/x/tools/go/packages"
	"golang.org/x/tools/go/ssa"
	"golang.org/x/tools/go/ssa/ssautil"
)

const ModPath = "github.com/microcosm-cc/bluemonday"

// Program is the analysed universe.
type Program struct {
	Repo  string
	Fset  *token.FileSet
	Pkgs  []*packages.Package // the module's packages (sorted by path)
	All   []*packages.Package // including deps
	Prog  *ssa.Program
	SSA   map[string]*ssa.Package // by pkg path (module packages only)
	Main  *packages.Package       // bluemonday
	CSS   *packages.Package       // bluemonday/css
	Cmds  []*packages.Package
	Env   []string
	Flags []string
}

// Config selects the build configuration.
type Config struct {
	Repo  string
	GOOS  string
	GOARCH string
	Tags  string
	NoSSA bool
}

func env(cfg Config) []string {
	var out []string
	for _, kv := range os.Environ() {
		k := kv
		if i := strings.IndexByte(kv, '='); i >= 0 {
			k = kv[:i]
		}
		switch k {
		case "GOFLAGS", "GOPROXY", "GOSUMDB", "GOTOOLCHAIN", "GOWORK", "GOOS", "GOARCH", "CGO_ENABLED":
			continue
		}
		out = append(out, kv)
	}
	out = append(out, "GOFLAGS=-mod=mod", "GOPROXY=off", "GOSUMDB=off", "GOTOOLCHAIN=local", "GOWORK=off", "CGO_ENABLED=0")
	if cfg.GOOS != "" {
		out = append(out, "GOOS="+cfg.GOOS)
	}
	if cfg.GOARCH != "" {
		out = append(out, "GOARCH="+cfg.GOARCH)
	}
	return out
}

// Load loads the module at cfg.Repo. Any load or type error is returned as an error
// (a check must then fail, never pass).
func Load(cfg Config) (*Program, error) {
	mode := packages.LoadAllSyntax
	pc := &packages.Config{
		Mode:  mode,
		Dir:   cfg.Repo,
		Env:   env(cfg),
		Tests: false,
	}
	if cfg.Tags != "" {
		pc.BuildFlags = []string{"-tags=" + cfg.Tags}
	}
	pkgs, err := packages.Load(pc, "./...")
	if err != nil {
		return nil, fmt.Errorf("packages.Load: %w", err)
	}
	var errs []string
	packages.Visit(pkgs, nil, func(p *packages.Package) {
		for _, e := range p.Errors {
			errs = append(errs, e.Error())
		}
	})
	if len(errs) > 0 {
		sort.Strings(errs)
		if len(errs) > 10 {
			errs = errs[:10]
		}
		return nil, fmt.Errorf("load/type errors: %s", strings.Join(errs, "; "))
	}
	P := &Program{Repo: cfg.Repo, Env: pc.Env, Flags: pc.BuildFlags, SSA: map[string]*ssa.Package{}}
	sort.Slice(pkgs, func(i, j int) bool { return pkgs[i].PkgPath < pkgs[j].PkgPath })
	for _, p := range pkgs {
		if !strings.HasPrefix(p.PkgPath, ModPath) {
			continue
		}
		P.Pkgs = append(P.Pkgs, p)
		switch {
		case p.PkgPath == ModPath:
			P.Main = p
		case p.PkgPath == ModPath+"/css":
			P.CSS = p
		case strings.HasPrefix(p.PkgPath, ModPath+"/cmd/"):
			P.Cmds = append(P.Cmds, p)
		}
	}
	if len(P.Pkgs) < 4 || P.Main == nil || P.CSS == nil || len(P.Cmds) < 2 {
		return nil, fmt.Errorf("expected >=4 module packages (bluemonday, css, 2 cmds), got %d", len(P.Pkgs))
	}
	P.Fset = P.Main.Fset
	packages.Visit(pkgs, nil, func(p *packages.Package) { P.All = append(P.All, p) })
	if !cfg.NoSSA {
		prog, spkgs := ssautil.AllPackages(pkgs, ssa.InstantiateGenerics)
		prog.Build()
		P.Prog = prog
		for i, sp := range spkgs {
			if sp != nil && strings.HasPrefix(pkgs[i].PkgPath, ModPath) {
				P.SSA[pkgs[i].PkgPath] = sp
			}
		}
		if P.SSA[ModPath] == nil || P.SSA[ModPath+"/css"] == nil {
			return nil, fmt.Errorf("SSA packages missing")
		}
	}
	return P, nil
}

// Pos renders a position relative to the repo root (file:line:col).
func (P *Program) Pos(p token.Pos) string {
	if !p.IsValid() {
		return "-"
	}
	pos := P.Fset.Position(p)
	f := strings.TrimPrefix(pos.Filename, P.Repo+"/")
	return fmt.Sprintf("%s:%d:%d", f, pos.Line, pos.Column)
}

// Func returns the SSA function/method named name in the bluemonday package.
// Methods are given as "(*Policy).sanitize" or "Policy.sanitize".
func (P *Program) Func(pkgPath, name string) *ssa.Function {
	sp := P.SSA[pkgPath]
	if sp == nil {
		return nil
	}
	if i := strings.Index(name, "."); i >= 0 {
		recv, m := name[:i], name[i+1:]
		recv = strings.Trim(recv, "(*)")
		t := sp.Type(recv)
		if t == nil {
			return nil
		}
		for _, ptr := range []bool{true, false} {
			var ms = P.Prog.MethodSets.MethodSet(t.Type())
			if ptr {
				ms = P.Prog.MethodSets.MethodSet(typesPointer(t))
			}
			for i := 0; i < ms.Len(); i++ {
				if ms.At(i).Obj().Name() == m {
					return P.Prog.MethodValue(ms.At(i))
				}
			}
		}
		return nil
	}
	return sp.Func(name)
}

// Package load loads /repo's current working tree (type-checked syntax + SSA).
package load

import (
	"fmt"
	"go/ast"
	"go/token"
	"go/types"
	"os"
	"sort"
	"strings"

	"golang.org/x/tools/go/packages"
	"golang.org/x/tools/go/ssa"
	"golang.org/x/tools/go/ssa/ssautil"

	"verif/tools/norm"
)

const ModPath = "github.com/microcosm-cc/bluemonday"

// Program is the analysed universe.
type Program struct {
	Repo  string
	Fset  *token.FileSet
	Pkgs  []*packages.Package // the module's packages (sorted by path)
	All   []*packages.Package // including deps
	Prog  *ssa.Program
	SSA   map[string]*ssa.Package // by pkg path (module packages only)
	Main  *packages.Package       // bluemonday
	CSS   *packages.Package       // bluemonday/css
	Cmds  []*packages.Package
	Env   []string
	Flags []string
	// CSSOrig: package css as written (before helpers were inlined), for the AST-level handler interpreter.
	CSSOrig *packages.Package
	// NormLog: what the normaliser inlined or declined to inline; Overlay: the normalised sources (nil if unchanged).
	NormLog []string
	Overlay map[string][]byte
}

// Config selects the build configuration.
type Config struct {
	Repo   string
	GOOS   string
	GOARCH string
	Tags   string
	NoSSA  bool
	NoNorm bool
}

func env(cfg Config) []string {
	var out []string
	for _, kv := range os.Environ() {
		k := kv
		if i := strings.IndexByte(kv, '='); i >= 0 {
			k = kv[:i]
		}
		switch k {
		case "GOFLAGS", "GOPROXY", "GOSUMDB", "GOTOOLCHAIN", "GOWORK", "GOOS", "GOARCH", "CGO_ENABLED":
			continue
		}
		out = append(out, kv)
	}
	out = append(out, "GOFLAGS=-mod=mod", "GOPROXY=off", "GOSUMDB=off", "GOTOOLCHAIN=local", "GOWORK=off", "CGO_ENABLED=0")
	if cfg.GOOS != "" {
		out = append(out, "GOOS="+cfg.GOOS)
	}
	if cfg.GOARCH != "" {
		out = append(out, "GOARCH="+cfg.GOARCH)
	}
	return out
}

// Anchors are the unexported functions the rules know by role; they are never inlined by the normaliser.
// Every other unexported function or method of the two library packages is a helper and is inlined into its callers.
var Anchors = map[string]bool{
	ModPath + ".init": true, ModPath + ".addDefaultElementsWithoutAttrs": true, ModPath + ".addDefaultSkipElementContent": true,
	ModPath + ".parseQuery": true, ModPath + ".encodeQueries": true, ModPath + ".sanitizedURL": true,
	ModPath + ".sanitizeWithBuff": true, ModPath + ".sanitize": true, ModPath + ".sanitizeAttrs": true, ModPath + ".sanitizeStyles": true,
	ModPath + ".allowNoAttrs": true, ModPath + ".validURL": true, ModPath + ".linkable": true, ModPath + ".hasRelToken": true,
	ModPath + ".stringInSlice": true, ModPath + ".isDataAttribute": true, ModPath + ".removeUnicode": true, ModPath + ".matchRegex": true,
	ModPath + ".normaliseElementName": true,
	ModPath + "/css.multiSplit":       true, ModPath + "/css.recursiveCheck": true, ModPath + "/css.in": true, ModPath + "/css.splitValues": true,
}

// AnchorSpecs: receiver, signature and (where a signature is shared) a marker for every anchor — used to find an
// anchor again after it was renamed.
var AnchorSpecs = []norm.AnchorSpec{
	{Pkg: ModPath, Name: "init", Recv: "Policy", Sig: "()", Marker: "initialized"},
	{Pkg: ModPath, Name: "addDefaultElementsWithoutAttrs", Recv: "Policy", Sig: "()", Marker: "abbr"},
	{Pkg: ModPath, Name: "addDefaultSkipElementContent", Recv: "Policy", Sig: "()", Marker: "noscript"},
	{Pkg: ModPath, Name: "parseQuery", Sig: "(string) ([]bluemonday.Query, error)"},
	{Pkg: ModPath, Name: "encodeQueries", Sig: "([]bluemonday.Query) string"},
	{Pkg: ModPath, Name: "sanitizedURL", Sig: "(string) (string, error)"},
	{Pkg: ModPath, Name: "sanitizeWithBuff", Recv: "Policy", Sig: "(io.Reader) *bytes.Buffer"},
	{Pkg: ModPath, Name: "sanitize", Recv: "Policy", Sig: "(io.Reader, io.Writer) error"},
	{Pkg: ModPath, Name: "sanitizeAttrs", Recv: "Policy", Sig: "(string, []html.Attribute, map[string][]bluemonday.attrPolicy) []html.Attribute"},
	{Pkg: ModPath, Name: "sanitizeStyles", Recv: "Policy", Sig: "(html.Attribute, string) html.Attribute"},
	{Pkg: ModPath, Name: "allowNoAttrs", Recv: "Policy", Sig: "(string) bool"},
	{Pkg: ModPath, Name: "validURL", Recv: "Policy", Sig: "(string) (string, bool)"},
	{Pkg: ModPath, Name: "matchRegex", Recv: "Policy", Sig: "(string) (map[string][]bluemonday.attrPolicy, bool)"},
	{Pkg: ModPath, Name: "linkable", Sig: "(string) bool", Marker: "blockquote"},
	{Pkg: ModPath, Name: "isDataAttribute", Sig: "(string) bool", Marker: "dataAttribute"},
	{Pkg: ModPath, Name: "hasRelToken", Sig: "(string, string) bool"},
	{Pkg: ModPath, Name: "stringInSlice", Sig: "(string, []string) bool"},
	{Pkg: ModPath, Name: "removeUnicode", Sig: "(string) string", Marker: "cssUnicodeChar"},
	{Pkg: ModPath, Name: "normaliseElementName", Sig: "(string) string", Marker: "QuoteToASCII"},
	{Pkg: ModPath + "/css", Name: "multiSplit", Sig: "(string, ...string) []string"},
	{Pkg: ModPath + "/css", Name: "recursiveCheck", Sig: "([]string, []func(string) bool) bool"},
	{Pkg: ModPath + "/css", Name: "in", Sig: "([]string, []string) bool"},
	{Pkg: ModPath + "/css", Name: "splitValues", Sig: "(string) []string"},
}

// IsMemberSig: func(string, []string) bool or func([]string, string) bool, no receiver.
func IsMemberSig(sig *types.Signature) bool {
	if sig.Recv() != nil || sig.Params().Len() != 2 || sig.Results().Len() != 1 || sig.Variadic() {
		return false
	}
	if b, ok := sig.Results().At(0).Type().(*types.Basic); !ok || b.Kind() != types.Bool {
		return false
	}
	a, b := sig.Params().At(0).Type().String(), sig.Params().At(1).Type().String()
	return a == "string" && b == "[]string" || a == "[]string" && b == "string"
}

// callsOwnPackage: the body of f calls a function declared in f's own package (such a helper is a composition, not a
// primitive membership test, and is inlined like any other helper).
func callsOwnPackage(pkgs []*packages.Package, f *types.Func) bool {
	for _, p := range pkgs {
		if p.Types != f.Pkg() {
			continue
		}
		for _, file := range p.Syntax {
			for _, d := range file.Decls {
				fd, ok := d.(*ast.FuncDecl)
				if !ok || p.TypesInfo.Defs[fd.Name] != types.Object(f) || fd.Body == nil {
					continue
				}
				found := false
				ast.Inspect(fd.Body, func(n ast.Node) bool {
					if c, ok := n.(*ast.CallExpr); ok {
						var id *ast.Ident
						switch x := ast.Unparen(c.Fun).(type) {
						case *ast.Ident:
							id = x
						case *ast.SelectorExpr:
							id = x.Sel
						}
						if id != nil {
							if callee, ok := p.TypesInfo.Uses[id].(*types.Func); ok && callee.Pkg() == f.Pkg() {
								found = true
							}
						}
					}
					return !found
				})
				return found
			}
		}
	}
	return false
}

func loadPkgs(cfg Config, mode packages.LoadMode, overlay map[string][]byte) ([]*packages.Package, *packages.Config, error) {
	pc := &packages.Config{
		Mode:    mode,
		Dir:     cfg.Repo,
		Env:     env(cfg),
		Tests:   false,
		Overlay: overlay,
	}
	if cfg.Tags != "" {
		pc.BuildFlags = []string{"-tags=" + cfg.Tags}
	}
	pkgs, err := packages.Load(pc, "./...")
	if err != nil {
		return nil, pc, fmt.Errorf("packages.Load: %w", err)
	}
	var errs []string
	packages.Visit(pkgs, nil, func(p *packages.Package) {
		for _, e := range p.Errors {
			errs = append(errs, e.Error())
		}
	})
	if len(errs) > 0 {
		sort.Strings(errs)
		if len(errs) > 10 {
			errs = errs[:10]
		}
		return nil, pc, fmt.Errorf("load/type errors: %s", strings.Join(errs, "; "))
	}
	return pkgs, pc, nil
}

// normalise computes the inlining overlay (see package norm).  Failures never fail the load: a site that cannot be
// inlined is simply left as a call.
func normalise(cfg Config) (map[string][]byte, []string, *packages.Package) {
	var log []string
	cheap := packages.NeedName | packages.NeedFiles | packages.NeedCompiledGoFiles | packages.NeedImports | packages.NeedTypes | packages.NeedSyntax | packages.NeedTypesInfo | packages.NeedTypesSizes
	pkgs, _, err := loadPkgs(cfg, cheap, nil)
	if err != nil {
		return nil, []string{"normaliser: initial load failed: " + err.Error()}, nil
	}
	lib := func(ps []*packages.Package) []*packages.Package {
		var out []*packages.Package
		for _, p := range ps {
			if p.PkgPath == ModPath || p.PkgPath == ModPath+"/css" || strings.HasPrefix(p.PkgPath, ModPath+"/cmd/") {
				out = append(out, p)
			}
		}
		return out
	}
	src := map[string][]byte{}
	for _, p := range lib(pkgs) {
		for _, f := range p.CompiledGoFiles {
			b, err := os.ReadFile(f)
			if err != nil {
				return nil, []string{"normaliser: " + err.Error()}, nil
			}
			src[f] = b
		}
	}
	isAnchor := func(f *types.Func) bool {
		if f.Pkg() == nil {
			return true
		}
		if Anchors[f.Pkg().Path()+"."+f.Name()] {
			return true
		}
		// membership helpers of the css package — f(string, []string) bool in either order — are kept as calls: the
		// handler-language rules model them as leaf acceptors once their body has been checked (C18.R8)
		return f.Pkg().Path() == ModPath+"/css" && IsMemberSig(f.Type().(*types.Signature)) && !callsOwnPackage(lib(pkgs), f)
	}
	counter := 0
	changed := false
	// step 0: anchors that were renamed get their canonical name back
	if edits, lg := norm.ResolveAliases(lib(pkgs), AnchorSpecs, &counter); len(edits) > 0 || len(lg) > 0 {
		log = append(log, lg...)
		if len(edits) > 0 {
			newSrc, _, _ := norm.Apply(src, edits, nil)
			if np, _, err := loadPkgs(cfg, cheap, newSrc); err == nil {
				src, pkgs, changed = newSrc, np, true
			} else {
				log = append(log, "normaliser: renaming anchors back did not type-check ("+err.Error()+"); names left as written")
			}
		}
	}
	// the css package as written (anchors renamed back, nothing inlined): the handler-language interpreter reads it
	var cssOrig *packages.Package
	for _, p := range pkgs {
		if p.PkgPath == ModPath+"/css" {
			cssOrig = p
		}
	}
	// applyRound applies one round of edit groups, validated by the type checker (as a whole, else group by group)
	applyRound := func(edits []norm.Edit, what string, round int) bool {
		skip := map[int]bool{}
		newSrc, used, lg2 := norm.Apply(src, edits, skip)
		log = append(log, lg2...)
		np, _, err := loadPkgs(cfg, cheap, newSrc)
		if err != nil {
			// find the groups that do not type-check, one at a time
			log = append(log, fmt.Sprintf("normaliser: %s round %d did not type-check as a whole (%v); retrying site by site", what, round, err))
			good := map[int]bool{}
			for _, g := range used {
				try := map[int]bool{}
				for _, u := range used {
					if u != g && !good[u] {
						try[u] = true
					}
				}
				ts, _, _ := norm.Apply(src, edits, try)
				if _, _, e2 := loadPkgs(cfg, cheap, ts); e2 == nil {
					good[g] = true
				} else {
					log = append(log, fmt.Sprintf("normaliser: site group %d left as written (does not type-check rewritten: %v)", g, e2))
				}
			}
			for _, u := range used {
				if !good[u] {
					skip[u] = true
				}
			}
			if len(good) == 0 {
				return false
			}
			newSrc, used, _ = norm.Apply(src, edits, skip)
			np, _, err = loadPkgs(cfg, cheap, newSrc)
			if err != nil {
				log = append(log, "normaliser: giving up this round: "+err.Error())
				return false
			}
		}
		siteOf := map[int]string{}
		for _, e := range edits {
			siteOf[e.Group()] = e.Site
		}
		for _, u := range used {
			log = append(log, fmt.Sprintf("%s (round %d): %s", what, round, siteOf[u]))
		}
		src, pkgs, changed = newSrc, np, true
		return true
	}
	for round := 1; round <= 6; round++ {
		edits, lg := norm.Plan(lib(pkgs), src, isAnchor, &counter)
		for _, l := range lg {
			if strings.HasPrefix(l, "not inlined") {
				log = append(log, l)
			}
		}
		if len(edits) == 0 {
			break
		}
		if !applyRound(edits, "inlined", round) {
			break
		}
	}
	// state that was moved into a local struct (and handed to helpers by pointer) becomes scalar locals again
	for round := 1; round <= 4; round++ {
		edits, _ := norm.Scalarise(lib(pkgs), src, &counter)
		if len(edits) == 0 {
			break
		}
		if !applyRound(edits, "scalarised", round) {
			break
		}
	}
	if !changed {
		return nil, log, cssOrig
	}
	return src, log, cssOrig
}

// Load loads the module at cfg.Repo. Any load or type error is returned as an error
// (a check must then fail, never pass).
func Load(cfg Config) (*Program, error) {
	var overlay map[string][]byte
	var normLog []string
	var cssOrig *packages.Package
	if !cfg.NoNorm {
		overlay, normLog, cssOrig = normalise(cfg)
	}
	pkgs, pc, err := loadPkgs(cfg, packages.LoadAllSyntax, overlay)
	if err != nil && overlay != nil {
		normLog = append(normLog, "normaliser: normalised program failed to load ("+err.Error()+"); analysing the program as written")
		overlay = nil
		pkgs, pc, err = loadPkgs(cfg, packages.LoadAllSyntax, nil)
	}
	if err != nil {
		return nil, err
	}
	P := &Program{Repo: cfg.Repo, Env: pc.Env, Flags: pc.BuildFlags, SSA: map[string]*ssa.Package{}, NormLog: normLog, Overlay: overlay}
	sort.Slice(pkgs, func(i, j int) bool { return pkgs[i].PkgPath < pkgs[j].PkgPath })
	for _, p := range pkgs {
		if !strings.HasPrefix(p.PkgPath, ModPath) {
			continue
		}
		P.Pkgs = append(P.Pkgs, p)
		switch {
		case p.PkgPath == ModPath:
			P.Main = p
		case p.PkgPath == ModPath+"/css":
			P.CSS = p
		case strings.HasPrefix(p.PkgPath, ModPath+"/cmd/"):
			P.Cmds = append(P.Cmds, p)
		}
	}
	if len(P.Pkgs) < 4 || P.Main == nil || P.CSS == nil || len(P.Cmds) < 2 {
		return nil, fmt.Errorf("expected >=4 module packages (bluemonday, css, 2 cmds), got %d", len(P.Pkgs))
	}
	P.Fset = P.Main.Fset
	P.CSSOrig = cssOrig
	if P.CSSOrig == nil {
		P.CSSOrig = P.CSS
	}
	packages.Visit(pkgs, nil, func(p *packages.Package) { P.All = append(P.All, p) })
	if !cfg.NoSSA {
		prog, spkgs := ssautil.AllPackages(pkgs, ssa.InstantiateGenerics)
		prog.Build()
		P.Prog = prog
		for i, sp := range spkgs {
			if sp != nil && strings.HasPrefix(pkgs[i].PkgPath, ModPath) {
				P.SSA[pkgs[i].PkgPath] = sp
			}
		}
		if P.SSA[ModPath] == nil || P.SSA[ModPath+"/css"] == nil {
			return nil, fmt.Errorf("SSA packages missing")
		}
	}
	return P, nil
}

// Pos renders a position relative to the repo root (file:line:col).
func (P *Program) Pos(p token.Pos) string {
	if !p.IsValid() {
		return "-"
	}
	pos := P.Fset.Position(p)
	f := strings.TrimPrefix(pos.Filename, P.Repo+"/")
	return fmt.Sprintf("%s:%d:%d", f, pos.Line, pos.Column)
}

// Func returns the SSA function/method named name in the bluemonday package.
// Methods are given as "(*Policy).sanitize" or "Policy.sanitize".
func (P *Program) Func(pkgPath, name string) *ssa.Function {
	sp := P.SSA[pkgPath]
	if sp == nil {
		return nil
	}
	if i := strings.Index(name, "."); i >= 0 {
		recv, m := name[:i], name[i+1:]
		recv = strings.Trim(recv, "(*)")
		t := sp.Type(recv)
		if t == nil {
			return nil
		}
		for _, ptr := range []bool{true, false} {
			var ms = P.Prog.MethodSets.MethodSet(t.Type())
			if ptr {
				ms = P.Prog.MethodSets.MethodSet(typesPointer(t))
			}
			for i := 0; i < ms.Len(); i++ {
				if ms.At(i).Obj().Name() == m {
					return P.Prog.MethodValue(ms.At(i))
				}
			}
		}
		return nil
	}
	return sp.Func(name)
}
